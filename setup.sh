#!/bin/sh
# setup_cmd: warm the Go build cache by building the harness test binary once (offline).
set -e
cd "$(dirname "$0")/harness"
export GOFLAGS=-mod=mod GOPROXY=off GOSUMDB=off GOTOOLCHAIN=local
[ -f go.sum ] || cp /repo/go.sum go.sum
mkdir -p ../.build
go test -c -trimpath -tags verif -o ../.build/setup.test ./props
rm -f ../.build/setup.test
