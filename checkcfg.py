# Per-property configuration of the driver: stages (tests), shard/case counts per tier, evidence texts.
# stage[tier] = (shards, cases per shard)

_C02ENV = dict(VERIF_AS="C02", VERIF_REPLICAS="3")


def _c02(test, pkg, quick, thorough):
    return dict(test=test, pkg=pkg, quick=quick, thorough=thorough, timeout=dict(quick=900, thorough=3400), env=dict(_C02ENV))


PROPS = {
    "C02": dict(
        stages=[
            _c02("TestC01", "props", (2, 15), (4, 700)),
            _c02("TestC10", "props", (3, 12), (4, 700)),
            _c02("TestC03Chain", "props", (2, 10), (3, 500)),
            _c02("TestC08", "props", (3, 12), (4, 700)),
            _c02("TestC07", "c07", (2, 15), (3, 700)),
            _c02("TestC06Chain", "c06", (2, 6), (2, 300)),
            _c02("TestC15Chain", "c15", (2, 8), (3, 400)),
            _c02("TestC17", "c17", (2, 12), (2, 600)),
            _c02("TestC14", "c14", (2, 10), (2, 500)),
            _c02("TestC20Loop", "c20", (2, 3), (3, 120)),
            _c02("TestC18", "c18", (2, 12), (3, 300)),
            _c02("TestC02Params", "props", (4, 100), (8, 2500)),
            _c02("TestC02Slash", "props", (3, 25), (4, 2500)),
            dict(_c02("TestC02Adversarial", "c02adv", (6, 40), (8, 1500)), crash_is_violation=True),
        ],
        rule="union profile: the histories generated for C01, C03 (corrupted signature shares), C07, C08, C10, C14, C15, C17 and C20 (valid and "
             "invalid messages of oracle, tss, bandtss, feeds, tunnel, restake with boundary and adversarial field values, dt from 0 to minutes) "
             "plus a parameter stage (every custom module's parameters drawn from edge values accepted by Params.Validate: percentages 0/100, quorum 0/1, "
             "periods 1/2^63/2^64-1, zero and huge limits, signing fees of 0, 1, 2^255 and 2^256-1 uband, with and without price reporters; fixed traffic of every module incl. oracle requests with a TSS encoder that are reported and resolved, so that the end blockers' signing creation runs under those parameters) and a slashing stage (delegate / redelegate / undelegate / "
             "restake / feeds votes with locks at full, half or full+1 power, then blocks carrying double-sign evidence with infraction heights 1-8 blocks back) and an adversarial-message stage (all 38 Msg types of the seven custom modules, each from a valid late-bound template of the current state and then with 0-3 fields mutated by a reflection-based mutator: boundary integers, foreign/empty addresses, huge coins and big integers, truncated/oversized bytes, repeated/emptied slices, wrong enum values, wrong Any contents; authority-only messages through real governance proposals; bursts of DKG rounds / signatures / reports / prices so that deep states are reached) are executed on 3 replicas of the real application (separate DB, home dir and VM) in one process; non-trivial = successful "
             "transactions of >=2 of the custom modules AND >=1 end block that did cross-module work (resolve, aggregate/fail/assign signing, "
             "tunnel packet, price update, penalty, transition) AND replicas compared on every block; distinct = hash of case JSON",
        explanation="totality: FinalizeBlock of every replica must return without error or panic for every generated block; determinism: after every "
                    "block all replicas must agree on the app hash and, per transaction, on code, codespace, gas wanted/used, data and the full event "
                    "list (Go randomises map iteration per range statement, so replicas in one process traverse maps in different orders). "
                    "Failures of the donor properties' own oracles are ignored here (counted), only engine-level failures count. In the adversarial stage a "
                    "FinalizeBlock that does not return within 60 s of wall clock is reported as a hang (the only wall-clock use; the case is journalled before "
                    "execution, so a node process that dies - e.g. an abort inside the wasm VM - yields the journalled case as replay).",
        assumptions=["block execution is sequential inside a node, so map-iteration order is the relevant schedule; goroutine schedules are not varied",
                     "raw undecodable transaction bytes are outside the statement", "histories that write state directly (keeper-level set-up) stop being compared from that point (class tainted-by-direct-write)"],
        nt_floor=0.2,
    ),
    "C01": dict(
        stages=[dict(test="TestC01", quick=(16, 40), thorough=(16, 2500), timeout=dict(quick=600, thorough=3300)),
                dict(test="TestC01IBC", pkg="c01ibc", quick=(8, 40), thorough=(16, 1500), timeout=dict(quick=600, thorough=3300))],
        rule="IBC: two real band apps joined by an oracle channel (ibc-go testing framework made deterministic), 1-3 requests arriving as IBC packets "
             "(ask 1..n, min 1..ask; fewer than min / exactly min / more than min reports in the block of the min-th / late reports; sequential or interleaved; "
             "expiration 3-12 blocks), every block of the band side observed: exactly one response packet per request, sent in the block the model resolves it, whose "
             "client id, ans_count, request/resolve time, status and result equal the model, the stored Result and the stored packet commitment; non-trivial = a response "
             "with ans_count != min_count. Main: case = validator set (3-7, some inactive), expiration 1..6|20, max report size, and a list of 15-60 late-bound ops "
             "(request / report variants exact|missing|extra|wrong|oversize|exit|empty|adjacent or non-adjacent duplicate id|reordered ids (3-raw-request script) / burst of reports / end block / activate / owner or foreign edits of an oracle script or data source that keep its behaviour) "
             "run on the real app; non-trivial = >=1 request resolved by reports AND >=1 of {rejected report, report accepted "
             "after resolve, report in the expiry block, EXPIRED result, two requests resolved in one block}; distinct = hash of case JSON",
        explanation="reference model of the request life cycle (accept/reject per report, resolve at end of the block of the min_count-th "
                    "accepted report, expiry by block count) compared with the chain after every block: tx codes, Result fields incl. "
                    "script output recomputed from the model's reports, immutability of published results, exactly one resolve event per "
                    "request, stored reports, expiry cursor",
        assumptions=["request acceptance and the chosen validator set are taken from the chain (C09 decides the choice)",
                     "script gas exhaustion and IBC-originated requests are not generated"],
        nt_floor=0.2,
    ),
    "C03": dict(
        stages=[dict(test="TestC03Lagrange", pkg="c03", quick=(4, 5000), thorough=(16, 100000), timeout=dict(quick=600, thorough=3300)),
                dict(test="TestC03Sign", pkg="c03", quick=(16, 120), thorough=(16, 6000), timeout=dict(quick=900, thorough=3400)),
                dict(test="TestC03LagrangeExhaustive", pkg="c03", thorough=(16, 1), timeout=dict(thorough=3300), no_rapid=True),
                dict(test="TestC03Chain", quick=(16, 20), thorough=(16, 1200), timeout=dict(quick=900, thorough=3300))],
        rule="Lagrange: id sets (subsets of 1..20 = table path, ids up to 2^63 and mixed = generic path, permuted) with error probes; non-trivial = "
             "|S|>=2. Sign (no chain): n 1-24 members with ids from 1..40, threshold, polynomial, committee, message, nonces; 40-50 single-component "
             "corruptions per case; non-trivial = committee >=2 and >=1 corruption tried. Chain: TSS histories on the real app with corrupted "
             "MsgSubmitSignature variants (z+1, foreign R, shifted (R+dG,z+d), mirrored scalar z-2k (share equation yields -R), z of another member, other member id, wrong signer, other message, "
             "bit flip, non-assigned, duplicate); non-trivial = threshold >=2 and >=1 corruption tried. Thorough adds ALL 10,485,760 (member, subset "
             "of 1..20) pairs; distinct = hash of case JSON",
        explanation="independent verifier in ref/ (math/big + decred group ops, challenge layout from the statement, validated against the repo's recorded "
                    "fixtures): honest shares accepted and equal to the unique reference share; every corruption rejected; combined signature verifies "
                    "under f(0)G for exactly the message and not for another message/key; t-1 shares never aggregate to a valid signature; on chain, "
                    "tx accepted <=> reference says correct share of an assigned member first time, and every published Signing.Signature passes the "
                    "independent verifier",
        exhaustive=dict(thorough=False),
        assumptions=["Schnorr soundness and keccak collision resistance assumed", "member ids >= 2^63 are unreachable on chain (ids are 1..size) and only counted"],
        nt_floor=0.2,
    ),
    "C04": dict(
        stages=[dict(test="TestC04", pkg="c04", quick=(16, 14), thorough=(16, 1000), timeout=dict(quick=900, thorough=3400))],
        rule="case = group size 2-6 (thorough occasionally 7-12), threshold 1..n, polynomial kinds (library-random, deterministic, small, near-N, shared, and `root`: an honest polynomial solved to vanish at another member's id, so that a consistent share is 0), "
             "CreationPeriod 4-12, a schedule (permutation of submissions per round + block boundaries) and per-member deviations: round 1 (bad A0 / one-time "
             "proof, short/long commitments, replay, wrong member id, mismatch, negated commitments, stop), round 2 (flipped / other scalar / +n / wrong nonce / "
             "wrong key / swapped / short / long shares, one share of malformed byte length in the first / a middle / the last slot, a correctly encrypted share whose 32-byte plaintext lies in [N, 2^256), stop), round 3 (false, mixed, bad key-sym (also with a proof re-made consistently for the wrong key-sym, so that only the second half of the equality proof can reject it), bad signature, non-member, self, impersonated complaints, one MsgComplain mixing the sender's own complaint with an entry naming ANOTHER member as complainant at position 1 or later, bad confirm, stop; one member sending TWO round-3 messages - complain/confirm in either order or twice the same kind, same or later block, with honest justified complaints scheduled after the pair), curve points of otherwise unchanged messages in uncompressed / hybrid encoding (one-time key, A0, higher commitments, complaint key-sym; acceptance follows the tx result), a daemon restart of a non-deviating member one block after its round-1/2/3 message (Query/PendingGroups decides, as in cylinder/workers/group, which step is redone; round 1 is redone with a fresh polynomial and one-time key), duplicates, out-of-round and non-member messages; after every block Query/PendingGroups must list the group for a member exactly while its message of the current round is outstanding; non-trivial = >=1 deviation applied AND rounds 1,2,3 all reached; "
             "distinct = hash of case JSON",
        explanation="honest members are driven by the daemon's own round-3 code (cylinder hook) on the group state read through the chain's querier; the harness "
                    "knows every polynomial and decides share consistency with math/big: ACTIVE => group key == sum of constant-term commitments == (sum a_j0)G, "
                    "member keys == (sum_j f_j(i))G, threshold subsets interpolate to the secret and (t-1)-subsets do not, a full signing verifies under the "
                    "independent verifier; an inconsistent share to an honest recipient => successful complaint, dealer malicious, group never ACTIVE; false "
                    "complaint marks only the complainant; a protocol-following member is NEVER malicious; duplicates/out-of-round/non-member messages rejected",
        assumptions=["a recipient colluding with a bad dealer is outside 'follows the protocol'", "library nonces come from crypto/rand; verdicts do not depend on them",
                     "commitments of index >=1 carry no proof of possession: accumulated commitments can be driven to infinity, the group then expires with nobody blamed (counted as acc-broken, not a C04 violation)"],
        nt_floor=0.2,
    ),
    "C05": dict(
        stages=[dict(test="TestC05", quick=(16, 30), thorough=(16, 2000), timeout=dict(quick=900, thorough=3300)),
                dict(test="TestC05Genesis", quick=(4, 40), thorough=(8, 2000), timeout=dict(quick=900, thorough=3300))],
        rule="case = group (n 2-6, threshold, MaxDESize 3-8, SigningPeriod 1-4, MaxSigningAttempt 1-4, fee) + 10-60 late-bound ops "
             "(submit DEs / reset / signing request direct or via oracle result / partial signatures / activate / governance changes of MaxDESize, MaxSigningAttempt, FeePerSigner / end block, plus a constructed request-partial-timeout-retry sequence; a refused request is classified by its error: 'DE not found' is a violation, 'insufficient signers' only with fewer than threshold eligible members) on the real app; non-trivial = >=1 retry after time-out AND >=1 failed "
             "(rejected / rolled back) signing creation AND >=1 reset while a signing is pending. Genesis: group (n 2-6, MaxDESize 3-40, 0-14 pairs per member from genesis) + 6-30 ops (submit 1..MaxDESize pairs / signing request / state export and import into a new application instance / end block), the on-chain queue of every member compared entry by entry with the FIFO model after every block and import, every assignment with the model's head; non-trivial = an export with more than 12 queued pairs AND a signing after an import; distinct = hash of case JSON",
        explanation="history invariant with a FIFO model per member: every assignment seen in request_signature events must be the "
                    "member's oldest queued pair, never assigned before, registered by that member, member active and queue non-empty; "
                    "after every block the on-chain queue must be an order-preserving subsequence of the model queue (nothing reset, "
                    "assigned, reordered or resurrected), never above MaxDESize; over-limit submissions must be rejected; Genesis stage also: the exported document with max_de_size edited to the longest exported queue is imported, edited to 1-2 below it is refused (validate-genesis + InitChain of a new instance)",
        assumptions=["signing sources generated: direct requests and oracle results; tunnel and transition sources are exercised by C08/C18",
                     "a pair that disappears without being assigned is counted (lost_unassigned), not flagged: the statement is about reuse"],
        nt_floor=0.02,
    ),
    "C10": dict(
        stages=[dict(test="TestC10", quick=(16, 30), thorough=(16, 2000), timeout=dict(quick=900, thorough=3300))],
        rule="same op vocabulary as C05 with more partial/complete signature submissions and governance changes of MaxSigningAttempt (incl. a constructed sequence lowering it below/at/above the attempt number of a waiting signing); non-trivial = >=1 time-out of an attempt with a "
             "partial set of submitters AND >=1 success after a retry; distinct = hash of case JSON",
        explanation="per-signing reference model (status, attempt, assignees, expiry = creation height + SigningPeriod) checked after every "
                    "block against events and state: success exactly when all assignees of the current attempt submitted, time-out exactly at "
                    "expiry (never earlier, never missed), exactly the idle active assignees deactivated and nobody else, retry xor failure, "
                    "attempt bounded by MaxSigningAttempt, one outcome event, owner mapping removed, interim data of expired attempts "
                    "removed, and no signing WAITING after MaxAttempt*(Period+1)+2 idle blocks",
        assumptions=["tss params are not changed during a history", "liveness is checked as bounded termination"],
        nt_floor=0.05,
    ),
    "C11": dict(
        stages=[dict(test="TestC11Encode", pkg="c11", quick=(8, 12000), thorough=(16, 600000), timeout=dict(quick=600, thorough=3300)),
                dict(test="TestC11Tick", pkg="c11", quick=(4, 8000), thorough=(16, 200000), timeout=dict(quick=600, thorough=3300)),
                dict(test="TestC11TickExhaustive", pkg="c11", thorough=(16, 1), timeout=dict(thorough=3300), no_rapid=True),
                dict(test="TestC11Chain", quick=(8, 25), thorough=(16, 1500), timeout=dict(quick=900, thorough=3300)),
                dict(test="TestC11Tunnel", quick=(4, 30), thorough=(8, 1500), timeout=dict(quick=900, thorough=3300))],
        rule="Encode: originators (direct/tunnel; empty, delimiter-like, long fields), times, signing ids and contents of every kind (oracle result "
             "proto/full ABI/partial ABI, feeds prices fixed-point/tick ABI, tunnel packet, transition, text incl. texts that start with a route selector and kind tag or are themselves an encoded body, i.e. start with one to three kind tags) run through the real handlers, plus a "
             "second request differing in exactly one field; non-trivial = oracle payload with non-empty result or feeds/tunnel payload with >=2 "
             "prices. Tick: prices at floor/ceil of every sampled tick boundary +-1, fixed values and log-uniform values; non-trivial = p within one "
             "price unit of a boundary. Thorough adds EVERY tick of the supported range with the four boundary prices. Chain: TSS history engine with user and governance-executed (sender = module authority) MsgRequestSignature over internal content kinds; non-trivial = >=2 signed messages parsed back and an oracle result or an internal-kind attempt. Tunnel: the C08 tunnel histories (TSS-route tunnels with fixed-point and tick encoders, delisted / not-ready signals, deviation and interval packets); an optional second ACTIVE group with a governance-forced transition so that packets inside the WAITING_EXECUTION window are signed by the current AND the incoming group; the signed bytes of every TSS packet signing (both groups) are decoded with the reference decoders and compared with the stored packet (originator, time, own signing id, sequence, every price entry, tick values against the 384-bit reference, identical content for both groups); non-trivial = a decoded packet carrying a non-AVAILABLE price entry; distinct = hash of case JSON",
        explanation="reference layout written from the statement (keccak(originator)|u64 time|u64 id|content, tags = keccak(name)[:4], hand-written ABI and "
                    "proto encoders), round trip through go-ethereum abi / proto decoders with independently declared types, injectivity under single-"
                    "field change, pairwise distinct tags, internal kinds flagged; tick T must satisfy price(T) <= p < price(T+1) against a 384-bit "
                    "big.Float reference with a 2^-64 relative guard band",
        assumptions=["keccak collision resistance", "comparisons closer than 2^-64 relative to a tick boundary are skipped and counted",
                     "on-chain layer: Signing.Message of user text requests and oracle-result requests (proto encoder) is parsed back with the reference layout and "
                     "compared with the requester, block time, signing id, text and the stored Result; MsgRequestSignature with tunnel / transition content must be refused"],
        nt_floor=0.2,
    ),
    "C12": dict(
        stages=[dict(test="TestC12", pkg="c12", quick=(16, 6), thorough=(16, 400), timeout=dict(quick=900, thorough=3300)),
                dict(test="TestC12Pure", pkg="c12", quick=(4, 500), thorough=(16, 12000), timeout=dict(quick=600, thorough=3300))],
        rule="TestC12: oracle history of 5-40 blocks on the real app, then several proof queries (single / multi / request count; explicit and "
             "latest height) against a fabricated CometBFT block (drawn header fields, 1-12 secp256k1 validators, really signed commit with "
             "commit/nil/absent votes, rounds, timestamps, chain-id length up to the 127-byte vote limit); non-trivial = a result proof verified "
             "with an IAVL path of >=3 steps at a state >=2 versions old with >=2 signatures. TestC12Pure: header/signature extraction alone with "
             "heights up to 2^63-1; non-trivial = >=2 signatures and height >=128; distinct = hash of case JSON",
        explanation="oracle = Go port of the bridge verification algorithm (sha256 leaf/inner hashes, five positional multistore siblings, header "
                    "merkle parts, canonical vote bytes rebuilt from prefix/suffix/timestamp/chain id, secp256k1 ecrecover, ABI decoding) written "
                    "without the proof package's helpers; recomputed oracle root, app hash (the application's own commit), block hash and signer "
                    "set must match, and EvmProofBytes must decode to the same values",
        assumptions=["Solidity contract itself not executed; secp256k1 validators only", "headers outside the fixed vote format (chain id too long) are only counted"],
        nt_floor=0.2,
    ),
    "C13": dict(
        stages=[dict(test="TestC13Signing", quick=(16, 25), thorough=(16, 1500), timeout=dict(quick=900, thorough=3300)),
                dict(test="TestC13Oracle", quick=(8, 30), thorough=(16, 2500), timeout=dict(quick=900, thorough=3300)),
                dict(test="TestC13Tunnel", quick=(4, 30), thorough=(8, 1500), timeout=dict(quick=900, thorough=3300)),
                dict(test="TestC13Transition", pkg="c18", quick=(16, 14), thorough=(8, 600), timeout=dict(quick=900, thorough=3300))],
        rule="Oracle: 3 data sources with drawn fee vectors over 3 denoms (free, single, multi, and an 18-decimals style denom whose fee fits 64 bits while fee x ask_count does not), scripts asking 1-4 sources incl. repeats, ask 1-3, fee "
             "limit exact / one denom -1 / +1 / zero / big / first denom only / one denom dropped, a poor payer funded exactly, one short, or only for the "
             "first k-1 sources, MsgEditDataSource by the owner (or somebody else) moving a source's treasury to another account and keeping or replacing its fee (the fee model follows accepted messages, not the stored record); non-trivial = a request at a limit boundary or a balance running out midway. Signing: TSS history (see C05) with fee_per_signer in {0, 10uband, 7uband, 3uband+2uatom}, fee limits enough/exact/one-less/zero/"
             "one-denom-only, a poor requester; non-trivial = a request at an exact limit boundary or a payout after a retry. Tunnel: the C08 tunnel histories, where TSS-route tunnels make paid signing requests from the end blocker (members running out of nonces or deactivated, fee payers funded exactly / one short); only the money checks are evaluated; non-trivial = >=1 refused send; distinct = hash of case JSON",
        explanation="Transition: the C18 group-transition histories (requests made while a transition is pending create a signing of the current AND of the incoming group; the last request's signings may be signed only after the transition record is gone), only the money checks count: "
                    "a request pays fee_per_signer x current threshold within its limit, only assignees of the current group's completed signing are paid, the incoming group's signature is never paid; non-trivial there = paid history in which an incoming-group signing completed. "
                    "bank-balance accounting model: expected balance of every member, requester and the bandtss module account is updated "
                    "from the statement (escrow fee_per_signer x threshold on an accepted request, pay fee_per_signer to each assignee of the "
                    "successful current-group attempt, nothing on failure) and compared with the bank after every block; charged fee within "
                    "the caller's limit per denom; escrow >= outstanding obligations",
        assumptions=["mint inflation off so no block rewards blur balances", "IBC-originated data requests are not generated",
                     "governance (free) requests and incoming-group signings are exercised under C18"],
        nt_floor=0.2,
    ),
    "C15": dict(
        stages=[dict(test="TestC15Pure", pkg="c15", quick=(8, 15000), thorough=(16, 600000), timeout=dict(quick=600, thorough=3300)),
                dict(test="TestC15Chain", pkg="c15", quick=(16, 14), thorough=(16, 1200), timeout=dict(quick=900, thorough=3300))],
        rule="Pure: CheckMissReport inputs with each of the five clocks (grace after activation, grace after feed-list update, price age, and the two "
             "block-height fallbacks) placed at -1/0/+1 of its boundary; non-trivial = tightest clock within one unit of its boundary. Chain: "
             "timelines on the real app (3-5 validators, expiration 1-5 blocks, penalty 0-600 s (1 in 6 with a sub-second part), grace 1-60 s, dt in {0,1,3,30,100,1000} s plus, in 2 of 5 blocks, 1-999 ms, so block times carry a sub-second part as CometBFT's do (the feeds clocks are modelled on whole unix seconds as the module reads them, activation/penalty/'active before the request' on milliseconds; re-activations aimed at penalty end -1 s/0/+1 s plus the sub-second part, so some land less than a second early); "
             "activate incl. too early, request, report/no report, submit prices/skip); non-trivial = a deactivation decision within one unit of "
             "a boundary; distinct = hash of case JSON",
        explanation="one-directional, as stated: IsActive flips to false only if the reference predicate (written from the statement) says a genuine "
                    "miss happened in that block; MsgActivate succeeds only for an inactive validator whose penalty elapsed; a diligent validator "
                    "is never deactivated; nobody is active without an explicit activation. Converses are counted only.",
        assumptions=["price age pinned strict (ts + interval < now is a miss), 'active before the request' strict; exact end of grace/penalty accepts both outcomes",
                     "validators always bonded"],
        nt_floor=0.2,
    ),
    "C16": dict(
        stages=[dict(test="TestC16", pkg="c16", quick=(16, 18), thorough=(16, 2000), timeout=dict(quick=900, thorough=3400)),
                dict(test="TestC16Liquid", pkg="c16", quick=(4, 40), thorough=(8, 3000), timeout=dict(quick=900, thorough=3400))],
        rule="case = 2-4 accounts, 2-3 rate-1 validators (in half of the cases the smallest one starts Unbonded outside the active set and may swap places with another one), genesis export/import round trips, genesis AllowedDenoms in {[uband],[uband,uatom],[],[uatom]} (governance may later set any of these or [uband,uband], a list naming a denom twice, which must either be refused or count the denom once), and 20-60 late-bound ops "
             "(stake/unstake multi-denom, delegate/undelegate/redelegate/full removal, lock updates from vaults feeds (real MsgVote) / feedsx / tunnel / a "
             "(keeper level), vault deactivation, allowed-denom change through gov, re-locks relative to the vault's old lock after such a change: old-1/old/old+1/mid/power+1) with amounts at lock-1/lock/lock+1, 0, 2^63, 2^64-1; non-trivial = "
             "an account with >=2 active vaults of different locks AND a withdrawal rejected while leaving exactly maxLock-1; distinct = hash of case JSON. "
             "Liquid: a chain started from a genesis that gives a 32-byte (module-derived / interchain-account style) address - or, as control, a 20-byte one - a lock of 1..5,000,000 in an active or inactive vault "
             "(no message can create such a lock, restake genesis validation accepts it); the account's staking messages are run the way the ICA host runs them (staking MsgServer on a cache branch, written on success): "
             "4-16 delegate / undelegate (exactly down to the lock, one unit below, whole delegation, one unit, drawn) / redelegate / vault deactivation / block ops over 2 validators; non-trivial = 32-byte account with >=1 undelegation refused by the lock and >=1 accepted",
        explanation="Liquid: an accepted undelegation or delegation removal under an active vault leaves the delegated total >= the lock (one direction only, as stated); the imported lock stays in the store. "
                    "big.Int model of total power and locks: successful withdrawal => total power >= largest active lock; rejected op => full snapshot "
                    "(restake stores, delegations, unbondings, balances) unchanged; SetLockedPower succeeds => power <= total and vault active; "
                    "deactivated vault never active again and never constrains; by-power index == one entry per lock; module balance == sum of stakes",
        assumptions=["no slashing; validators stay bonded at rate 1 (checked every step)", "vaults other than feeds are driven at keeper level in a cache context"],
        nt_floor=0.2,
    ),
    "C17": dict(
        stages=[dict(test="TestC17", pkg="c17", quick=(16, 25), thorough=(16, 2500), timeout=dict(quick=900, thorough=3300))],
        rule="case = tunnel params (multi-denom MinDeposit, base fee), 3 accounts, 20-60 late-bound ops (create/deposit/withdraw/activate/deactivate/trigger/fund/genesis export-import round trip/MsgUpdateSignalsAndInterval by creator or stranger on active and inactive tunnels with in-range, boundary and just-out-of-range configs/governance MsgUpdateParams moving MinDeposit just above an active tunnel's total, doubling, halving or swapping its denoms (an active tunnel left below a raised minimum is outside the statement until it is next inactive or covered)/an exported genesis whose bank section no longer credits the tunnel module account (entry dropped or one unit short, supply adjusted) must be refused by a new node/end block) on 1-3 tunnels with amounts placed around the minimum, own deposit and balance; non-trivial = "
             ">=2 simultaneous depositors on one tunnel AND >=1 successful withdrawal crossing the minimum; distinct = hash of case JSON",
        explanation="reference ledger advanced only by successful txs; after every block: TotalDeposit == sum of deposit records == ledger == what the Deposits query of that tunnel lists, "
                    "module balance == deposits + recorded fees, exact balance deltas, no overdraw, activation only by creator with total >= min, "
                    "active => total >= min, IsActive <=> active index <=> processed at end block, rejected ops change nothing",
        assumptions=["no packet is ever sent successfully (no signing group / IBC channel), so TotalFees stays 0",
                     "end-block deactivation for an unfunded fee payer is outside the statement and only counted"],
        nt_floor=0.2,
    ),
    "C06": dict(
        stages=[dict(test="TestC06Pure", pkg="c06", quick=(8, 25000), thorough=(16, 1200000), timeout=dict(quick=600, thorough=3400)),
                dict(test="TestC06Chain", pkg="c06", quick=(16, 10), thorough=(16, 500), timeout=dict(quick=900, thorough=3400))],
        rule="Pure: lists of 0-40 validator prices (powers 1/small/equal/dominant >25% and >50%/near 2^63, timestamps with ties, prices 0/1/2^64-1, all "
             "statuses) with quorum power at total+{-1,0,1} and exact half-power crossings constructed. Chain: 3-7 validators bonded/unbonded/oracle-"
             "active or not submitting prices with drawn timestamps/statuses, block times around the feed interval, feeds parameter changes through real governance proposals (MaxInterval lowered below stored feed intervals with report ages placed in (MaxInterval, interval], MinInterval, PowerStepThreshold, MaxCurrentFeeds, CooldownTime, GracePeriod), msg.Timestamp earlier / later than the block time inside and at the allowed discrepancy (reports are dated by their block), a reporting validator leaving and re-entering the bonded set through undelegation / delegation, and a delegator re-vote that re-orders the current feeds followed by partial reports. Non-trivial = >=3 AVAILABLE entries "
             "with a timestamp tie or a section boundary inside one entry's power, or a status comparison at/next to equality; distinct = hash of case JSON",
        explanation="reference over big.Rat written from x/feeds/README.md and the statement (filter AVAILABLE, stable sort time desc/power desc, sections "
                    "1/32,1/16,1/8,1/4 with multipliers 6,4,2,1.1,1 split across boundaries, lower weighted median; status rule on quorum/half): "
                    "CalculatePrice == reference; price within [min,max] of fresh AVAILABLE inputs and one of them; metamorphic (scale powers, shift "
                    "times, add zero-effect entry, permute distinct keys); on chain the Price store after each end block == reference applied to the "
                    "prices the model considers fresh from bonded, oracle-active validators; 1 in 5 chain cases run a second replica",
        assumptions=["equal (time, power) entries keep input order (README silent)", "quorum power = floor(fraction x bonded) as documented; rounding-down hits are counted",
                     "current feeds and intervals are read from the chain (C07 decides them)"],
        nt_floor=0.2,
    ),
    "C07": dict(
        stages=[dict(test="TestC07", pkg="c07", quick=(16, 25), thorough=(16, 2500), timeout=dict(quick=900, thorough=3300))],
        rule="case = 2-5 voters (delegations + restaked coins, 25% 'rich' with 2^66 of an 18-decimals token), feeds params (threshold, min/max "
             "interval, MaxCurrentFeeds 1-5, update interval 1-5) and a list of late-bound ops: votes with symbolic powers (threshold*k+-1, remaining "
             "power +-1, 2^62/2^63-1 constants, int64-wrapping combinations, empty/duplicate/too many signals), re-votes (same total identical/redistributed, totals relative to the current lock), restake AllowedDenoms changes through real governance proposals (power drops below the lock without any hook running), genesis export/import round trips, feeds params changed by governance mid-history (MaxCurrentFeeds 0/1/2/current+-1/5, PowerStepThreshold, Min/MaxInterval, update interval), delegate/undelegate/"
             "stake/unstake, block ends across update blocks; non-trivial = >=1 accepted re-vote changing >=2 signals AND >=1 vote whose true sum is "
             "within 1 of the voter's power or above int64; distinct = hash of case JSON",
        explanation="big.Int reference model: accepted vote => mathematical sum <= voter power (no wrap-around acceptance); after every block Vote "
                    "store == model, feeds lock == sum, SignalTotalPower == sum over standing votes (from store and from model), by-power index "
                    "has exactly one entry per non-zero total; at update blocks CurrentFeeds == reference top-N (power >= threshold, interval "
                    "max(min, max/floor(power/step))); withdrawals below the lock rejected",
        assumptions=["no slashing (rate-1 validators)", "rejections of affordable votes are counted, not flagged"],
        nt_floor=0.1,
    ),
    "C14": dict(
        stages=[dict(test="TestC14", pkg="c14", quick=(16, 20), thorough=(16, 1800), timeout=dict(quick=900, thorough=3300))],
        rule="case = 1-8 validators (powers 1..10^12, absent sets, proposer), oracle/bandtss reward percentages 0..100, community tax in {0,0.02,0.5,1,"
             "random}, multi-denom fee pool (0,1,2, primes, 10^18), 0-6 current-group members with activity and nonce flags (+ foreign members), "
             "2-6 measured blocks with activations and member ops; non-trivial = a stage ran with a non-zero share that has >=2 denoms or >=2 "
             "recipients and a non-divisible amount; distinct = hash of case JSON",
        explanation="math/big fixed-point reference of the three stages (oracle share -> bandtss share -> SDK distribution) compared per block with "
                    "bank balances, distribution outstanding rewards, community pool and supply: supply unchanged, balance deltas sum to zero, "
                    "distribution account backs its books, stage shares == floor(pool*pct), per-validator and per-member amounts exact, inactive "
                    "validators / ineligible members get nothing",
        assumptions=["mint off; commission 0; the SDK distribution stage is modelled as trusted base", "percentages > 100 are outside the quantifier (C02)"],
        nt_floor=0.2,
    ),
    "C08": dict(
        stages=[dict(test="TestC08", quick=(16, 25), thorough=(16, 2000), timeout=dict(quick=900, thorough=3300))],
        rule="case = TSS group present/absent, initial nonces 0-12, fee per signer, base packet fee (multi-denom), signing period, and 12-50 ops "
             "(create TSS/IBC tunnel with 1-3 signals and soft/hard deviations, fund fee payer at k*fee+{-1,0,1}, validator price moves placed "
             "at old*(1+-bps/10^4)+{-1,0,1} / zero / unsupported / unavailable, manual trigger by creator or stranger, activate/deactivate, deposits by a second account and withdrawals that take an active tunnel below / exactly to the minimum deposit (a withdrawal below the minimum is a deactivation: no packet afterwards, also when intervals fall due), "
             "nonce top-up/drain, end block with dt 0-30s); non-trivial = >=1 deviation-triggered packet AND >=1 interval packet AND >=1 failed "
             "send or unfunded deactivation; distinct = hash of case JSON",
        explanation="reference trigger rule in big.Int (sendAll iff now >= lastFull + interval; else any signal with dev >= hard, carrying dev >= soft; "
                    "old=0,new!=0 is infinite) plus an exact running model of fee-payer/module balances, sequence, remembered prices, nonce queues "
                    "and member activity; for every active tunnel each block the outcome (packet / failed attempt / unfunded deactivation / "
                    "nothing) must equal the reference outcome, and after every block sequence, packets 1..seq (no gap, none beyond), remembered "
                    "prices, last full send, fees recorded and all balances must equal the model (a failed send leaves nothing behind)",
        assumptions=["feeds prices are read from the Price store after the block (C06 decides how they are computed)",
                     "IBC route is used only as a failure source (no live channel); fixed-point encoder only",
                     "tunnel-created signings are never signed, so time-outs/deactivations provide the 'members unavailable' fault"],
        nt_floor=0.05,
    ),
    "C18": dict(
        stages=[dict(test="TestC18", pkg="c18", quick=(16, 14), thorough=(16, 1200), timeout=dict(quick=900, thorough=3400))],
        rule="case = genesis current group or none, small Min/MaxTransitionDuration, CreationPeriod 4-9, SigningPeriod 1-3, MaxSigningAttempt 1-3 and "
             "late-bound ops: gov MsgTransitionGroup / MsgForceTransitionGroup with exec times at min / max / just outside the window / not after block "
             "time, a second proposal while one is pending, forced transitions naming a group that is not ACTIVE (left-over DKG group of a dropped transition in ROUND_1/2/3, stalled, fallen, expired, non-existent), DKG steps of the incoming group (honest, member stops, false complaint), hand-over signing by all/some/none of the current group, millisecond time axis (exec times with sub-second parts, blocks landing in the same second just before / exactly at / just after ExecTime), duplicate-member proposals, authority-only bandtss messages (MsgForceTransitionGroup, MsgTransitionGroup, MsgUpdateParams) sent in a tx by ordinary accounts naming themselves (or the governance address) as authority at moments when a forced transition would otherwise be acceptable, block ends with dt crossing ExecTime before/at/after each milestone, member activation, "
             "user signing requests at every stage; non-trivial = a transition reached WAITING_SIGN or WAITING_EXECUTION and >=1 milestone lies within "
             "one block of the first block at/after ExecTime; distinct = hash of case JSON",
        explanation="reference state machine written from the statement: CurrentGroup changes only in a block with time >= ExecTime whose transition was "
                    "WAITING_EXECUTION (incoming group ACTIVE and forced or hand-over signed), otherwise dropped; at most one transition; requests during "
                    "WAITING_EXECUTION create a paid current-group signing and a best-effort unpaid incoming-group signing, never earlier; after execution "
                    "the member list is exactly the new group's; events and balances cross-checked; the incoming group's DKG is driven with real messages "
                    "(daemon round-3 code through the cylinder hook)",
        assumptions=["DKG faults limited to a stopping member and a false complaint (corrupted shares are C04)", "integer-second times; one validator; mint off",
                     "for doomed transitions (DKG failed/expired, hand-over failed) both an immediate drop and a drop at ExecTime are accepted"],
        nt_floor=0.04,
    ),
    "C19": dict(
        stages=[dict(test="TestC19", pkg="c19", quick=(16, 30), thorough=(16, 1500), timeout=dict(quick=900, thorough=3300),
                     crash_is_violation=True)],
        rule="case = sim chain with 1-4 validators and 1-4 data sources whose executables are 1..4096 bytes (incl. < 32), 1-3 transactions of 1-3 requests with 1-6 raw requests (repeated sources), 1-3 ROUNDS handled by the same daemon Context and file cache (cache files of a data source truncated / overwritten / emptied / deleted between rounds and before restarts; oracle parameters MaxRawRequestCount / MaxReportDataSize / MaxCalldataSize changed by real governance proposals while requests are open, incl. MaxRawRequestCount below an open request's raw-request count) with owner/foreign MsgEditDataSource transactions between rounds and between a request and its handling (new bytes, same bytes, [do-not-modify], fee/treasury only), later rounds asking edited sources again, selection of the validator decided by the chain, RPC stub with injected "
             "transient/permanent failures, executor stub with drawn outcome/delay per raw request or (30%) the REAL REST executor of yoda/executor against an in-process HTTP endpoint (200 with stdout/stderr, non-2XX pages of 0..2000 bytes, truncated JSON, closed connection, hang until the client times out), restart rounds where other validators report first and a fresh daemon learns open requests through the start-up PendingRequests query, cache hit/miss, oracle MaxReportDataSize 16/64/512 with executor outputs at max-1/max/max+1 (cut to the limit as the docker executor does, or not cut as the REST executor), every queued report DELIVERED to the chain in a real block, entry via handleRequest or handleTransaction, order/GOMAXPROCS perturbation; non-trivial = a processed request selecting the validator with >=2 raw requests "
             "AND >=1 injected failure actually served; distinct = hash of case JSON",
        explanation="after quiescence: exactly one MsgReportData per request selecting the validator (none otherwise), one raw report per external "
                    "id, exit code/output == stubbed outcome or 255 on load/executor failure, ValidateBasic and the chain's CheckValidReport accept it, the executable handed to the executor is the data source's executable at request time or at handling time (never an older one); each case is journalled before execution so a daemon panic (process death) yields the crashing case as replay",
        assumptions=["goroutine interleavings are perturbed, not enumerated", "SubmitReport/broadcast loop outside the statement",
                     "when /store queries fail max-try times the daemon gives up on the request; counted (store-exhausted), not flagged"],
        nt_floor=0.2,
    ),
    "C20": dict(
        stages=[dict(test="TestC20Loop", pkg="c20", quick=(16, 14), thorough=(16, 1200), timeout=dict(quick=900, thorough=3400)),
                dict(test="TestC20Submit", pkg="c20", quick=(8, 250), thorough=(16, 12500), timeout=dict(quick=600, thorough=3300))],
        rule="Loop: closed loop in virtual time (200-600 s, 1 s polling with drawn phase) between the real signaller step and the real feeds module on a "
             "sim chain: price-service streams with status flips and moves at old*(1+-dev)+{-1,0,1}, feed-list changes by votes, feeds parameter changes through real governance proposals in the middle of the run (CooldownTime up/down, GracePeriod, MaxInterval / MinInterval / PowerStepThreshold raised and cut with no feed recalculation for the rest of the history in a third of the slow-update cases, deviation bounds, PriceQuorum; the daemon reads the feed list through the real CurrentFeeds query server, whose answer is compared with the stored record after every block) followed by bursts of moves and status flips, drawn block-time "
             "offsets in [-3 s,+0.9 s], each of the daemon's four chain queries failing independently for drawn windows (also only the validator-prices query, from the hand-off of a batch until 0-3 ticks after its release; a tick whose queries do not all succeed is skipped by the daemon and excuses the liveness oracle), lost/failed/delayed (3-4 ticks in flight) submissions, current-feeds recalculations that change a listed feed's power/interval/deviation while its batch is in flight, non-round deviation thresholds with moves of exactly the threshold; non-trivial = >=1 status-change, >=1 deviation-triggered and >=1 slot-triggered "
             "submission. Submit: submitPrice against RPC stubs with 10 drawn failure kinds and 1-3 nodes with per-node behaviour (healthy, slow, fails fast, fails late, CheckTx code; broadcasts attributed by the account sequence the tx carries), plus a model-based run of the real multi-node querier (1-3 stub nodes, one fresh and the others lagging, outages of the fresh node: the remembered block height never decreases and an answer below it is refused); non-trivial = >=1 injected failure; distinct = hash of case JSON",
        explanation="(1) every landed submission is accepted by the real MsgSubmitSignalPrices handler under the chain's CURRENT params (a submission decided before a parameter change became visible to the daemon's once-per-tick poll is excused and counted); (2) the validator is never deactivated for a signal "
                    "the price service kept serving; (3) integer reference predicate (status change or deviation >= threshold, past cooldown+buffer, not "
                    "in flight) => the step emits the signal; (4) nothing in flight is emitted again, pending set == harness in-flight set; Part B: after "
                    "every outcome the pending set is released and the key is back in the idle pool",
        assumptions=["shipped timing configuration enforced by construction (slot 50-80%, polling 1 s, latency below the slack)",
                     "VerifStep mirrors the glue of Start()/execute(); decision logic is production code", "float64 deviation: +-1 bps band for prices >= 2^39"],
        nt_floor=0.2,
    ),
    "C09": dict(
        stages=[
            dict(test="TestC09Pure", quick=(8, 8000), thorough=(16, 400000), timeout=dict(quick=600, thorough=3000)),
            dict(test="TestC09Chain", quick=(8, 40), thorough=(16, 2500), timeout=dict(quick=900, thorough=3300)),
            dict(test="TestC09Signers", quick=(8, 25), thorough=(16, 1500), timeout=dict(quick=900, thorough=3300)),
        ],
        rule="case = (seed, nonce, chain id, weight vector 1..60 entries from 6 families, cnt 1..n, tries 1..5, 12-14, 20-100) drawn by "
             "rapid; non-trivial = n>=4 and weights not all equal and cnt<n. Chain: 1-8 validators (equal/small/dominant/random tokens, some never or late "
             "activated), SamplingTryCount 1-100 from genesis and changed in flight by governance to 0, 1, 2, 13, 100 or 101 (a refused proposal changes nothing; an accepted value is the one the reference samples with), random chain id, requests with ask 1..n+1 on the real app; same non-triviality on the eligible set. Signers: "
             "TSS histories (see C05) where every assignment is compared; non-trivial = group >=4 with more available members than the threshold; "
             "distinct = 64-bit hash of the case JSON",
        explanation="differential against an independent port of the sampling specification (own HMAC_DRBG(SHA-256), "
                    "big.Int cumulative-weight pick, removal without replacement, best-of-N by strict >, partial "
                    "Fisher-Yates) plus validity (exact size, distinct, in range) and same-input determinism; on chain Request.RequestedValidators and every "
                    "signing attempt's assigned members must equal the reference applied to the eligible set the model computes (bonded and oracle-active "
                    "in the staking module's power order; active members with a queued nonce in id order), the rolling seed read from the store, the id "
                    "and the chain id; too few eligible => rejected without state change",
        assumptions=["weights are non-zero and their total fits in uint64 (bonded validators have non-zero tokens)",
                     "HMAC-SHA256 of the Go standard library is correct"],
        nt_floor=0.2,
    ),
}
