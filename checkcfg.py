# Per-property configuration of the driver: stages (tests), shard/case counts per tier, evidence texts.
# stage[tier] = (shards, cases per shard)

PROPS = {
    "C01": dict(
        stages=[dict(test="TestC01", quick=(16, 40), thorough=(16, 2500), timeout=dict(quick=600, thorough=3300))],
        rule="case = validator set (3-7, some inactive), expiration 1..6|20, max report size, and a list of 15-60 late-bound ops "
             "(request / report variants exact|missing|extra|wrong|oversize|exit|empty / burst of reports / end block / activate) "
             "run on the real app; non-trivial = >=1 request resolved by reports AND >=1 of {rejected report, report accepted "
             "after resolve, report in the expiry block, EXPIRED result, two requests resolved in one block}; distinct = hash of case JSON",
        explanation="reference model of the request life cycle (accept/reject per report, resolve at end of the block of the min_count-th "
                    "accepted report, expiry by block count) compared with the chain after every block: tx codes, Result fields incl. "
                    "script output recomputed from the model's reports, immutability of published results, exactly one resolve event per "
                    "request, stored reports, expiry cursor",
        assumptions=["request acceptance and the chosen validator set are taken from the chain (C09 decides the choice)",
                     "script gas exhaustion and IBC-originated requests are not generated"],
        nt_floor=0.2,
    ),
    "C09": dict(
        stages=[
            dict(test="TestC09Pure", quick=(8, 8000), thorough=(16, 400000), timeout=dict(quick=600, thorough=3000)),
        ],
        rule="case = (seed, nonce, chain id, weight vector 1..60 entries from 6 families, cnt 1..n, tries 1..5) drawn by "
             "rapid; non-trivial = n>=4 and weights not all equal and cnt<n; distinct = 64-bit hash of the case JSON",
        explanation="differential against an independent port of the sampling specification (own HMAC_DRBG(SHA-256), "
                    "big.Int cumulative-weight pick, removal without replacement, best-of-N by strict >, partial "
                    "Fisher-Yates) plus validity (exact size, distinct, in range) and same-input determinism",
        assumptions=["weights are non-zero and their total fits in uint64 (bonded validators have non-zero tokens)",
                     "HMAC-SHA256 of the Go standard library is correct"],
        nt_floor=0.2,
    ),
}
