# Per-property configuration of the driver: stages (tests), shard/case counts per tier, evidence texts.
# stage[tier] = (shards, cases per shard)

PROPS = {
    "C01": dict(
        stages=[dict(test="TestC01", quick=(16, 40), thorough=(16, 2500), timeout=dict(quick=600, thorough=3300))],
        rule="case = validator set (3-7, some inactive), expiration 1..6|20, max report size, and a list of 15-60 late-bound ops "
             "(request / report variants exact|missing|extra|wrong|oversize|exit|empty / burst of reports / end block / activate) "
             "run on the real app; non-trivial = >=1 request resolved by reports AND >=1 of {rejected report, report accepted "
             "after resolve, report in the expiry block, EXPIRED result, two requests resolved in one block}; distinct = hash of case JSON",
        explanation="reference model of the request life cycle (accept/reject per report, resolve at end of the block of the min_count-th "
                    "accepted report, expiry by block count) compared with the chain after every block: tx codes, Result fields incl. "
                    "script output recomputed from the model's reports, immutability of published results, exactly one resolve event per "
                    "request, stored reports, expiry cursor",
        assumptions=["request acceptance and the chosen validator set are taken from the chain (C09 decides the choice)",
                     "script gas exhaustion and IBC-originated requests are not generated"],
        nt_floor=0.2,
    ),
    "C05": dict(
        stages=[dict(test="TestC05", quick=(16, 30), thorough=(16, 2000), timeout=dict(quick=900, thorough=3300))],
        rule="case = group (n 2-6, threshold, MaxDESize 3-8, SigningPeriod 1-4, MaxSigningAttempt 1-4, fee) + 10-60 late-bound ops "
             "(submit DEs / reset / signing request direct or via oracle result / partial signatures / activate / end block, plus a "
             "constructed request-partial-timeout-retry sequence) on the real app; non-trivial = >=1 retry after time-out AND >=1 failed "
             "(rejected / rolled back) signing creation AND >=1 reset while a signing is pending; distinct = hash of case JSON",
        explanation="history invariant with a FIFO model per member: every assignment seen in request_signature events must be the "
                    "member's oldest queued pair, never assigned before, registered by that member, member active and queue non-empty; "
                    "after every block the on-chain queue must be an order-preserving subsequence of the model queue (nothing reset, "
                    "assigned, reordered or resurrected), never above MaxDESize; over-limit submissions must be rejected",
        assumptions=["signing sources generated: direct requests and oracle results; tunnel and transition sources are exercised by C08/C18",
                     "a pair that disappears without being assigned is counted (lost_unassigned), not flagged: the statement is about reuse"],
        nt_floor=0.02,
    ),
    "C10": dict(
        stages=[dict(test="TestC10", quick=(16, 30), thorough=(16, 2000), timeout=dict(quick=900, thorough=3300))],
        rule="same op vocabulary as C05 with more partial/complete signature submissions; non-trivial = >=1 time-out of an attempt with a "
             "partial set of submitters AND >=1 success after a retry; distinct = hash of case JSON",
        explanation="per-signing reference model (status, attempt, assignees, expiry = creation height + SigningPeriod) checked after every "
                    "block against events and state: success exactly when all assignees of the current attempt submitted, time-out exactly at "
                    "expiry (never earlier, never missed), exactly the idle active assignees deactivated and nobody else, retry xor failure, "
                    "attempt bounded by MaxSigningAttempt, one outcome event, owner mapping removed, interim data of expired attempts "
                    "removed, and no signing WAITING after MaxAttempt*(Period+1)+2 idle blocks",
        assumptions=["tss params are not changed during a history", "liveness is checked as bounded termination"],
        nt_floor=0.05,
    ),
    "C12": dict(
        stages=[dict(test="TestC12", pkg="c12", quick=(16, 6), thorough=(16, 400), timeout=dict(quick=900, thorough=3300)),
                dict(test="TestC12Pure", pkg="c12", quick=(4, 500), thorough=(16, 12000), timeout=dict(quick=600, thorough=3300))],
        rule="TestC12: oracle history of 5-40 blocks on the real app, then several proof queries (single / multi / request count; explicit and "
             "latest height) against a fabricated CometBFT block (drawn header fields, 1-12 secp256k1 validators, really signed commit with "
             "commit/nil/absent votes, rounds, timestamps, chain-id length up to the 127-byte vote limit); non-trivial = a result proof verified "
             "with an IAVL path of >=3 steps at a state >=2 versions old with >=2 signatures. TestC12Pure: header/signature extraction alone with "
             "heights up to 2^63-1; non-trivial = >=2 signatures and height >=128; distinct = hash of case JSON",
        explanation="oracle = Go port of the bridge verification algorithm (sha256 leaf/inner hashes, five positional multistore siblings, header "
                    "merkle parts, canonical vote bytes rebuilt from prefix/suffix/timestamp/chain id, secp256k1 ecrecover, ABI decoding) written "
                    "without the proof package's helpers; recomputed oracle root, app hash (the application's own commit), block hash and signer "
                    "set must match, and EvmProofBytes must decode to the same values",
        assumptions=["Solidity contract itself not executed; secp256k1 validators only", "headers outside the fixed vote format (chain id too long) are only counted"],
        nt_floor=0.2,
    ),
    "C13": dict(
        stages=[dict(test="TestC13Signing", quick=(16, 25), thorough=(16, 1500), timeout=dict(quick=900, thorough=3300))],
        rule="TSS history (see C05) with fee_per_signer in {0, 10uband, 7uband, 3uband+2uatom}, fee limits enough/exact/one-less/zero/"
             "one-denom-only, a poor requester; non-trivial = a request at an exact limit boundary or a payout after a retry; distinct = hash of case JSON",
        explanation="bank-balance accounting model: expected balance of every member, requester and the bandtss module account is updated "
                    "from the statement (escrow fee_per_signer x threshold on an accepted request, pay fee_per_signer to each assignee of the "
                    "successful current-group attempt, nothing on failure) and compared with the bank after every block; charged fee within "
                    "the caller's limit per denom; escrow >= outstanding obligations",
        assumptions=["mint inflation off so no block rewards blur balances", "data-request fees (oracle side) are covered by the separate stage once added",
                     "governance (free) requests and incoming-group signings are exercised under C18"],
        nt_floor=0.2,
    ),
    "C17": dict(
        stages=[dict(test="TestC17", pkg="c17", quick=(16, 25), thorough=(16, 2500), timeout=dict(quick=900, thorough=3300))],
        rule="case = tunnel params (multi-denom MinDeposit, base fee), 3 accounts, 20-60 late-bound ops (create/deposit/withdraw/activate/"
             "deactivate/trigger/fund/end block) on 1-3 tunnels with amounts placed around the minimum, own deposit and balance; non-trivial = "
             ">=2 simultaneous depositors on one tunnel AND >=1 successful withdrawal crossing the minimum; distinct = hash of case JSON",
        explanation="reference ledger advanced only by successful txs; after every block: TotalDeposit == sum of deposit records == ledger, "
                    "module balance == deposits + recorded fees, exact balance deltas, no overdraw, activation only by creator with total >= min, "
                    "active => total >= min, IsActive <=> active index <=> processed at end block, rejected ops change nothing",
        assumptions=["no packet is ever sent successfully (no signing group / IBC channel), so TotalFees stays 0",
                     "end-block deactivation for an unfunded fee payer is outside the statement and only counted"],
        nt_floor=0.2,
    ),
    "C09": dict(
        stages=[
            dict(test="TestC09Pure", quick=(8, 8000), thorough=(16, 400000), timeout=dict(quick=600, thorough=3000)),
        ],
        rule="case = (seed, nonce, chain id, weight vector 1..60 entries from 6 families, cnt 1..n, tries 1..5) drawn by "
             "rapid; non-trivial = n>=4 and weights not all equal and cnt<n; distinct = 64-bit hash of the case JSON",
        explanation="differential against an independent port of the sampling specification (own HMAC_DRBG(SHA-256), "
                    "big.Int cumulative-weight pick, removal without replacement, best-of-N by strict >, partial "
                    "Fisher-Yates) plus validity (exact size, distinct, in range) and same-input determinism",
        assumptions=["weights are non-zero and their total fits in uint64 (bonded validators have non-zero tokens)",
                     "HMAC-SHA256 of the Go standard library is correct"],
        nt_floor=0.2,
    ),
}
