# Per-property configuration of the driver: stages (tests), shard/case counts per tier, evidence texts.
# stage[tier] = (shards, cases per shard)

PROPS = {
    "C09": dict(
        stages=[
            dict(test="TestC09Pure", quick=(8, 8000), thorough=(16, 400000), timeout=dict(quick=600, thorough=3000)),
        ],
        rule="case = (seed, nonce, chain id, weight vector 1..60 entries from 6 families, cnt 1..n, tries 1..5) drawn by "
             "rapid; non-trivial = n>=4 and weights not all equal and cnt<n; distinct = 64-bit hash of the case JSON",
        explanation="differential against an independent port of the sampling specification (own HMAC_DRBG(SHA-256), "
                    "big.Int cumulative-weight pick, removal without replacement, best-of-N by strict >, partial "
                    "Fisher-Yates) plus validity (exact size, distinct, in range) and same-input determinism",
        assumptions=["weights are non-zero and their total fits in uint64 (bonded validators have non-zero tokens)",
                     "HMAC-SHA256 of the Go standard library is correct"],
        nt_floor=0.2,
    ),
}
