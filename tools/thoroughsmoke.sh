#!/bin/sh
# run every thorough check at a reduced scale (VERIF_SCALE, default 0.03) to exercise the thorough tier's mechanics
cd "$(dirname "$0")/.."
scale=${1:-0.03}
for id in $(python3 -c "import sys;sys.path.insert(0,'.');from checkcfg import PROPS;print(' '.join(sorted(PROPS)))"); do
  t0=$(date +%s)
  VERIF_SCALE=$scale VERIF_SEED=5 VERIF_REPLAY_OUT=/var/tmp/thorough-replays ./check $id --tier thorough > .build/thorough-$id.log 2>&1
  rc=$?
  echo "THOROUGH scale=$scale id=$id rc=$rc wall=$(( $(date +%s) - t0 ))s"
done
git checkout -- evidence 2>/dev/null
