#!/bin/sh
# run every quick check at the given VERIF_SEED values on the unchanged tree; log exit codes (stability / false-alarm hunt)
cd "$(dirname "$0")/.."
for seed in "$@"; do
  for id in $(python3 -c "import sys;sys.path.insert(0,'.');from checkcfg import PROPS;print(' '.join(sorted(PROPS)))"); do
    t0=$(date +%s)
    VERIF_SEED=$seed VERIF_REPLAY_OUT=/var/tmp/seedsweep-replays ./check $id --tier quick > .build/seedsweep-$seed-$id.log 2>&1
    rc=$?
    echo "SEEDSWEEP seed=$seed id=$id rc=$rc wall=$(( $(date +%s) - t0 ))s $(grep -c KNOWN-FINDING .build/seedsweep-$seed-$id.log) known"
  done
done
git checkout -- evidence 2>/dev/null
