#!/usr/bin/env python3
"""Sensitivity experiments: apply a small semantic mutation to a scratch copy of /repo and run a check against it.

usage: tools/mutant.py <mutant-name> [--tier quick] [--keep-going]
       tools/mutant.py --list
       tools/mutant.py --all [--prop C01]
Mutants live in /verif/mutants/catalog.json: {name: {prop, file, old, new, note}} (file relative to /repo).
Replays produced while a mutant is applied go to a scratch dir, never into /verif/replays.
"""
import json, os, subprocess, sys, tempfile, shutil, time

os.environ.setdefault("DBUS_SESSION_BUS_ADDRESS", "unix:path=/nonexistent/verif-no-session-bus")  # no dbus autolaunch by keyring probes
ROOT = os.path.dirname(os.path.dirname(os.path.abspath(__file__)))
CAT = json.load(open(os.path.join(ROOT, "mutants", "catalog.json")))


RESULTS = os.environ.get("MUT_RESULTS", os.path.join(ROOT, "mutants", "results.json"))


def record(name, prop, rc, sig, tier):
    try:
        d = json.load(open(RESULTS))
    except Exception:
        d = {}
    d["%s|%s" % (name, prop)] = dict(mutant=name, check=prop, tier=tier, rc=rc, signature=sig,
                                     verdict={0: "MISSED", 1: "caught", 2: "inconclusive"}.get(rc, str(rc)))
    json.dump(d, open(RESULTS, "w"), indent=1, sort_keys=True)


def run_one(name, tier="quick"):
    m = CAT[name]
    sname = "mut-%d" % os.getpid()
    sdir = "/var/tmp/verif-scratch-" + sname
    subprocess.run([os.path.join(ROOT, "tools", "scratch.sh"), "init", sname], stdout=subprocess.DEVNULL, check=True)
    path = os.path.join(sdir, m["file"])
    src = open(path).read()
    if src.count(m["old"]) != 1:
        print("MUTANT %s: pattern occurs %d times in %s" % (name, src.count(m["old"]), m["file"]))
        subprocess.run([os.path.join(ROOT, "tools", "scratch.sh"), "rm", sname])
        return None
    scratch = tempfile.mkdtemp(prefix="mut-replays-")
    try:
        open(path, "w").write(src.replace(m["old"], m["new"]))
        env = dict(os.environ, VERIF_REPLAY_OUT=scratch, VERIF_SEED=os.environ.get("VERIF_SEED", "1"),
                   VERIF_MODFILE=sdir + ".mod")
        t0 = time.time()
        props = m["prop"] if isinstance(m["prop"], list) else [m["prop"]]
        res = {}
        for p in props:
            evf = os.path.join(ROOT, "evidence", p + ".json")
            bak = open(evf).read() if os.path.exists(evf) else None
            r = subprocess.run([os.path.join(ROOT, "check"), p, "--tier", tier], cwd=ROOT, env=env,
                               stdout=subprocess.PIPE, stderr=subprocess.STDOUT, text=True)
            if bak is not None:
                open(evf, "w").write(bak)
            sig = ""
            for line in r.stdout.splitlines():
                if "VIOLATION-CASE" in line:
                    sig = line.split("signature=", 1)[1].split()[0]
                    break
            res[p] = (r.returncode, sig)
            record(name, p, r.returncode, sig, tier)
            print("MUTANT %-40s prop=%s rc=%d sig=%s wall=%.0fs" % (name, p, r.returncode, sig, time.time() - t0), flush=True)
            if r.returncode not in (0, 1):
                print(r.stdout[-3000:])
        return res
    finally:
        shutil.rmtree(scratch, ignore_errors=True)
        subprocess.run([os.path.join(ROOT, "tools", "scratch.sh"), "rm", sname])


if __name__ == "__main__":
    a = sys.argv[1:]
    tier = "quick"
    if "--tier" in a:
        tier = a[a.index("--tier") + 1]
    if "--list" in a:
        for k, v in CAT.items():
            print(k, v["prop"], v["file"], "-", v.get("note", ""))
    elif "--all" in a:
        prop = a[a.index("--prop") + 1] if "--prop" in a else None
        part = a[a.index("--part") + 1].split("/") if "--part" in a else ["0", "1"]
        names = sorted(CAT)
        for i, k in enumerate(names):
            v = CAT[k]
            if i % int(part[1]) != int(part[0]):
                continue
            ps = v["prop"] if isinstance(v["prop"], list) else [v["prop"]]
            if prop is None or prop in ps:
                run_one(k, tier)
    else:
        run_one(a[0], tier)
