#!/usr/bin/env python3
"""Add mutants (JSON objects, one per line on stdin) to mutants/catalog.json, unescaping HTML entities."""
import json, sys, html, os
p = os.path.join(os.path.dirname(os.path.dirname(os.path.abspath(__file__))), "mutants", "catalog.json")
d = json.load(open(p))
for line in sys.stdin:
    line = line.strip()
    if not line.startswith("{"):
        continue
    m = json.loads(line)
    for k in ("old", "new", "note"):
        m[k] = html.unescape(m.get(k, ""))
    name = m.pop("name")
    src = open(os.path.join("/repo", m["file"])).read()
    if src.count(m["old"]) != 1:
        print("WARNING %s: old occurs %d times" % (name, src.count(m["old"])))
    d[name] = m
json.dump(d, open(p, "w"), indent=1)
print(len(d), "mutants")
