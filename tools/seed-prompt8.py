import json,sys
pid=sys.argv[1]
p=json.load(open('/tmp/seed8-%s-out/property.json'%pid))
import glob
prevs=[]
for d in glob.glob('/verif/seeded/%s-*/meta.json'%pid):
    m=json.load(open(d)); prevs.append("  * "+str(m.get('summary','')).replace('{','(').replace('}',')')[:600])
prev="An earlier seeded change for this property already exists; yours must be DIFFERENT from all of them (another mechanism and another code site). Assume a strong verification suite that catches ordinary slips. Think about: behaviour that differs only for inputs whose GENERATION needs domain insight (a specific algebraic relation between values, a hash collision class, a boundary of a derived quantity rather than of an input); effects visible only through an interface the suite may not read (gRPC/CLI queries that off-chain software relies on, event attribute VALUES, the order of entries in a query response, pagination, genesis export content); long-horizon effects (only after hundreds of blocks, after an unbonding period, after several consecutive retries/expiries); resource or liveness aspects the statement mentions; and combinations of three conditions that are individually common. Whatever you choose must differ from every earlier seeded change listed below and must be a genuine violation of the STATEMENT (not merely of an implementation detail):\n"+"\n".join(prevs) if prevs else ""
print(f"""You are testing how good a verification suite is by planting a realistic, subtle bug ("seeded change") in a Go code base. Work ONLY inside the git worktree /tmp/seed8-{pid} (a checkout of bandprotocol/chain, a Cosmos SDK application chain in Go; module github.com/bandprotocol/chain/v3) and write your results to /tmp/seed8-{pid}-out/. Do NOT read, list or use anything under /verif or /repo — your work must be independent of the existing verification machinery. No network is available; use `export GOFLAGS=-mod=mod GOPROXY=off GOSUMDB=off GOTOOLCHAIN=local` in every shell call (builds are offline from the module cache; the first build takes a few minutes).

The semantic property to break (id {pid}, "{p['title']}"):
STATEMENT: {p['statement']}
QUANTIFIED OVER: {p['quantifier']['text']}
WHY THE EXISTING TESTS CANNOT SETTLE IT: {p['why_tests_cant']}
CODE ANCHORS: files {', '.join(p['anchors']['files'])}; mechanisms: {'; '.join(m['name']+' ('+m.get('where','')+')' for m in p['anchors']['mechanism'])}

{prev}

Your task: make ONE small change (typically 1–15 lines, in one or two places) to the production code in /tmp/seed8-{pid} that makes the code violate this property, such that
 1. the tree still compiles (`go build ./...`) and `go vet` of the touched packages is clean;
 2. the EXISTING test suite still passes — at minimum run `go test -count=1` on every package you touched and on the packages that import the touched code most directly (e.g. ./x/<module>/... and ./app/... if relevant); say exactly what you ran;
 3. the violation needs something SPECIFIC to manifest — a particular multi-step sequence of operations, a boundary value, an unusual but valid input, a particular interleaving with block boundaries, a fault at a particular point, or two cooperating sites that each look fine alone — NOT something every ordinary use would expose at once. Prefer a change a tired developer could plausibly make (an off-by-one at a boundary, a wrong comparison direction in a rare branch, a missing re-check after a state change, a cache context written too early, using a stale value, handling only the first element/denom, forgetting one of several entry points).
 4. you provide a DEMONSTRATION: a Go test file (put it next to the code it exercises, name it zz_seeded_demo_test.go, it may use the repo's existing test helpers/suites) or a small program that FAILS with your change and PASSES on the unchanged code. Run it both ways (use `git stash` / `git stash pop` or `git diff > patch; git checkout .; ...; git apply patch`) and report both outputs.

Deliver in /tmp/seed8-{pid}-out/: `patch.diff` (output of `git diff` for the production change only, WITHOUT the demo file), the demonstration file(s) (copied there too), and `meta.json` with keys: property ("{pid}"), summary (one sentence: what the change does), needs (what is required for it to manifest), files_changed, tests_run (commands and results), demo_cmd (exact command to run the demonstration from the worktree root), demo_with_change (FAIL + the key line), demo_without_change (PASS). Leave the worktree with your change and demo applied. Your final message must restate summary, needs, and the two demo results. Do not commit anything.""")
