#!/bin/sh
# Scratch copies of /repo for sensitivity experiments (never edit /repo itself for a mutant when other work is running).
#   tools/scratch.sh init <name>            copy /repo to /var/tmp/verif-scratch-<name> (+ alternate go.mod pointing at it)
#   tools/scratch.sh test <name> <args...>  run `go test -tags verif <args>` in /verif/harness against the scratch copy
#   tools/scratch.sh reset <name>           undo all edits in the scratch copy
#   tools/scratch.sh rm <name>              delete it
set -e
export GOFLAGS=-mod=mod GOPROXY=off GOSUMDB=off GOTOOLCHAIN=local
cmd=$1; name=$2; shift 2 || true
dir=/var/tmp/verif-scratch-$name
case "$cmd" in
 init)
  rm -rf "$dir"; cp -r /repo "$dir"
  sed "s#=> /repo#=> $dir#" /verif/harness/go.mod > "$dir.mod"; cp /verif/harness/go.sum "$dir.sum"
  echo "scratch copy at $dir" ;;
 test)
  cd /verif/harness && go test -modfile="$dir.mod" -tags verif "$@" ;;
 reset) git -C "$dir" checkout -- . ;;
 rm) rm -rf "$dir" "$dir.mod" "$dir.sum" ;;
 *) echo "usage: scratch.sh init|test|reset|rm <name> [args]"; exit 2 ;;
esac
