#!/usr/bin/env python3
"""Seeded changes written by independent sub-agents (/verif/seeded/<id>/: patch.diff, demo file(s), meta.json).

usage: tools/seeded.py verify <id>      confirm the change in a scratch copy: builds, listed existing tests pass, the demonstration
                                        fails with the change and passes without it
       tools/seeded.py check <id> [--tier quick] [--props C01,C02]   run our checks against the change (scratch copy)
       tools/seeded.py all [--tier quick]                            check every seeded change, print a table
The scratch copy lives under /var/tmp and is always removed. /repo itself is never modified.
"""
import json, os, subprocess, sys, shutil, tempfile, time

os.environ.setdefault("DBUS_SESSION_BUS_ADDRESS", "unix:path=/nonexistent/verif-no-session-bus")  # no dbus autolaunch by keyring probes
ROOT = os.path.dirname(os.path.dirname(os.path.abspath(__file__)))
SEEDED = os.path.join(ROOT, "seeded")
ENV = dict(os.environ, GOFLAGS="-mod=mod", GOPROXY="off", GOSUMDB="off", GOTOOLCHAIN="local")


def sh(cmd, cwd=None, env=None, timeout=3600):
    r = subprocess.run(cmd, shell=True, cwd=cwd, env=env or ENV, stdout=subprocess.PIPE, stderr=subprocess.STDOUT, text=True, timeout=timeout)
    return r.returncode, r.stdout


def scratch(name):
    sname = "seed-%s-%d" % (name, os.getpid())
    subprocess.run([os.path.join(ROOT, "tools", "scratch.sh"), "init", sname], stdout=subprocess.DEVNULL, check=True)
    return sname, "/var/tmp/verif-scratch-" + sname


def rm(sname):
    subprocess.run([os.path.join(ROOT, "tools", "scratch.sh"), "rm", sname])


def demo_files(d):
    return [f for f in os.listdir(d) if f not in ("patch.diff", "meta.json", "property.json", "prompt.txt", "RESULT.md")]


def verify(sid):
    d = os.path.join(SEEDED, sid)
    meta = json.load(open(os.path.join(d, "meta.json")))
    sname, sdir = scratch(sid)
    out = {}
    try:
        # place demo files
        for f in demo_files(d):
            dst = meta.get("demo_paths", {}).get(f)
            if dst:
                os.makedirs(os.path.dirname(os.path.join(sdir, dst)), exist_ok=True)
                shutil.copy(os.path.join(d, f), os.path.join(sdir, dst))
        rc, o = sh(meta["demo_cmd"], cwd=sdir)
        out["demo_without_change"] = "PASS" if rc == 0 else "FAIL"
        out["demo_without_tail"] = o[-600:]
        rc, o = sh("git apply %s" % os.path.join(d, "patch.diff"), cwd=sdir)
        if rc != 0:
            out["apply"] = "FAILED: " + o[-500:]
            return out
        rc, o = sh("go build -trimpath ./...", cwd=sdir)
        out["build"] = "ok" if rc == 0 else "FAILED " + o[-800:]
        rc, o = sh(meta["demo_cmd"], cwd=sdir)
        out["demo_with_change"] = "PASS" if rc == 0 else "FAIL"
        out["demo_with_tail"] = o[-600:]
        # existing tests of the touched packages (demo files removed first)
        for f in demo_files(d):
            dst = meta.get("demo_paths", {}).get(f)
            if dst and os.path.exists(os.path.join(sdir, dst)):
                os.remove(os.path.join(sdir, dst))
        pk = meta.get("existing_tests_cmd") or "go test -count=1 " + " ".join(sorted(set("./" + os.path.dirname(f) + "/..." for f in meta["files_changed"])))
        rc, o = sh(pk, cwd=sdir, timeout=5400)
        out["existing_tests"] = ("pass: " if rc == 0 else "FAIL: ") + pk
        if rc != 0:
            out["existing_tests_tail"] = o[-1500:]
        return out
    finally:
        rm(sname)


def check(sid, tier="quick", props=None):
    d = os.path.join(SEEDED, sid)
    meta = json.load(open(os.path.join(d, "meta.json")))
    props = props or meta.get("checks") or [meta["property"]]
    sname, sdir = scratch(sid)
    res = {}
    replays = tempfile.mkdtemp(prefix="seed-replays-")
    try:
        rc, o = sh("git apply %s" % os.path.join(d, "patch.diff"), cwd=sdir)
        if rc != 0:
            print("cannot apply patch:", o)
            return res
        env = dict(os.environ, VERIF_REPLAY_OUT=replays, VERIF_MODFILE=sdir + ".mod", VERIF_SEED=os.environ.get("VERIF_SEED", "1"))
        for p in props:
            evf = os.path.join(ROOT, "evidence", p + ".json")
            bak = open(evf).read() if os.path.exists(evf) else None
            t0 = time.time()
            r = subprocess.run([os.path.join(ROOT, "check"), p, "--tier", tier], cwd=ROOT, env=env, stdout=subprocess.PIPE, stderr=subprocess.STDOUT, text=True)
            if bak is not None:
                open(evf, "w").write(bak)
            sig = ""
            for line in r.stdout.splitlines():
                if "VIOLATION-CASE" in line:
                    sig = line.split("signature=", 1)[1].split()[0]
                    break
            res[p] = dict(rc=r.returncode, signature=sig, wall=round(time.time() - t0))
            rf = os.path.join(SEEDED, "RESULTS.json")
            try:
                allres = json.load(open(rf))
            except Exception:
                allres = {}
            allres["%s|%s" % (sid, p)] = dict(seeded=sid, check=p, tier=tier, rc=r.returncode, signature=sig,
                                              verdict={0: "MISSED", 1: "caught", 2: "inconclusive"}.get(r.returncode, str(r.returncode)))
            json.dump(allres, open(rf, "w"), indent=1, sort_keys=True)
            print("SEEDED %-28s check=%s rc=%d sig=%s wall=%ds" % (sid, p, r.returncode, sig, time.time() - t0), flush=True)
            if r.returncode not in (0, 1):
                print(r.stdout[-2500:])
        return res
    finally:
        shutil.rmtree(replays, ignore_errors=True)
        rm(sname)


def do_import(pid, name, prefix="seed"):
    """copy /tmp/seed-<pid>-out into /verif/seeded/<pid>-<name>, recording where the demo files live in the tree"""
    src, wt = "/tmp/%s-%s-out" % (prefix, pid), "/tmp/%s-%s" % (prefix, pid)
    dst = os.path.join(SEEDED, "%s-%s" % (pid, name))
    os.makedirs(dst, exist_ok=True)
    meta = json.load(open(os.path.join(src, "meta.json")))
    rc, o = sh("git status --short --untracked-files=all", cwd=wt)
    untracked = [l[3:].strip() for l in o.splitlines() if l.startswith("??")]
    meta["demo_paths"] = {}
    for f in os.listdir(src):
        if f in ("prompt.txt", "property.json"):
            continue
        if os.path.isdir(os.path.join(src, f)):
            # demo/<path in the tree>/<file>: several demonstration files, kept under flattened names
            for root, _, files in os.walk(os.path.join(src, f)):
                for g in files:
                    rel = os.path.relpath(os.path.join(root, g), os.path.join(src, f))
                    flat = "demo__" + rel.replace("/", "__")
                    shutil.copy(os.path.join(root, g), os.path.join(dst, flat))
                    if rel in untracked:
                        meta["demo_paths"][flat] = rel
            continue
        shutil.copy(os.path.join(src, f), os.path.join(dst, f))
        for u in untracked:
            if os.path.basename(u) == f and u not in meta["demo_paths"].values():
                meta["demo_paths"][f] = u
    if isinstance(meta.get("files_changed"), str):
        meta["files_changed"] = [meta["files_changed"]]
    json.dump(meta, open(os.path.join(dst, "meta.json"), "w"), indent=1)
    print("imported", dst, "demo paths:", meta["demo_paths"])


if __name__ == "__main__":
    a = sys.argv[1:]
    if a[0] in ("import", "import2", "import3", "import4", "import5", "import6", "import7", "import8", "import9", "import10", "import11", "import12", "import13", "import14"):
        pref = {"import": "seed", "import2": "seed2", "import3": "seed3", "import4": "seed4", "import5": "seed5", "import6": "seed6", "import7": "seed7", "import8": "seed8", "import9": "seed9", "import10": "seed10", "import11": "seed11", "import12": "seed12", "import13": "seed13", "import14": "seed14"}[a[0]]
        do_import(a[1], a[2], pref)
        if a[0] != "import":
            subprocess.run(["git", "-C", "/repo", "worktree", "remove", "--force", "/tmp/%s-%s" % (pref, a[1])])
            shutil.rmtree("/tmp/%s-%s-out" % (pref, a[1]), ignore_errors=True)
        sys.exit(0)
    tier = a[a.index("--tier") + 1] if "--tier" in a else "quick"
    props = a[a.index("--props") + 1].split(",") if "--props" in a else None
    if a[0] == "verify":
        print(json.dumps(verify(a[1]), indent=1))
    elif a[0] == "check":
        check(a[1], tier, props)
    elif a[0] == "pending":
        try:
            done = json.load(open(os.path.join(SEEDED, "RESULTS.json")))
        except Exception:
            done = {}
        for sid in sorted(os.listdir(SEEDED)):
            if os.path.exists(os.path.join(SEEDED, sid, "patch.diff")) and not any(v["seeded"] == sid for v in done.values()):
                v = verify(sid)
                print("VERIFY", sid, {k: x for k, x in v.items() if "tail" not in k}, flush=True)
                check(sid, tier, props)
    elif a[0] == "all":
        for sid in sorted(os.listdir(SEEDED)):
            if os.path.exists(os.path.join(SEEDED, sid, "patch.diff")):
                check(sid, tier, props)
