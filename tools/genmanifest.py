#!/usr/bin/env python3
"""Regenerate MANIFEST.json from checkcfg.py (claimed checks) and manifest_extra.json (level texts, hooks, not_applicable reasons)."""
import json, os, sys
ROOT = os.path.dirname(os.path.dirname(os.path.abspath(__file__)))
sys.path.insert(0, ROOT)
from checkcfg import PROPS
extra = json.load(open(os.path.join(ROOT, "manifest_extra.json")))
titles = {}
for l in open(os.path.join(ROOT, "properties.jsonl")):
    p = json.loads(l)
    titles[p["id"]] = p["title"]
checks = []
for pid in sorted(PROPS):
    cfg = PROPS[pid]
    lv = extra["levels"].get(pid, {})
    checks.append({
        "property_id": pid,
        "quick_cmd": "./check %s --tier quick" % pid,
        "thorough_cmd": "./check %s --tier thorough" % pid,
        "evidence_file": "/verif/evidence/%s.json" % pid,
        "replay_cmd_template": "./check %s --replay {path}" % pid,
        "engine": "rapid-harness",
        "level_claimed": {"category": "exploration",
                          "text": lv.get("text", cfg.get("explanation", "")) + " Held on every generated case explored; no absence claim.",
                          "design_ref": "DESIGN.md §3 %s" % pid},
        "level_note": lv.get("note", "; ".join(cfg.get("assumptions", [])) or "see DESIGN.md"),
        "technique": lv.get("technique", "property-based testing (rapid): generated cases/histories against an explicit reference oracle, shrinking to a replay file"),
    })
na = [{"property_id": pid, "reason": extra["not_applicable"].get(pid, "check not built yet in this session (work in progress, see DESIGN.md); not claimed until its check exists")}
      for pid in sorted(titles) if pid not in PROPS]
m = {
    "version": 1,
    "setup_cmd": "./setup.sh",
    "hooks": extra["hooks"],
    "engines": [{"name": "rapid-harness", "path": "/verif/harness", "serves_properties": sorted(PROPS),
                 "kind_free_text": "pgregory.net/rapid v1.3.0 property tests (stateful histories on the real BandApp via chainsim, pure differential tests, bounded exhaustive enumerations, native go fuzz wrappers in thorough) driven by /verif/check, which shards cases over processes, merges statistics and writes evidence"}],
    "checks": checks,
    "not_applicable": na,
    "notes": extra.get("notes", ""),
}
json.dump(m, open(os.path.join(ROOT, "MANIFEST.json"), "w"), indent=1)
print("claimed:", " ".join(sorted(PROPS)), "| not claimed:", " ".join(x["property_id"] for x in na))
