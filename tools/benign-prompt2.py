import json,sys
pid=sys.argv[1]
focus=sys.argv[2]
p=[json.loads(l) for l in open('/verif/properties.jsonl') if json.loads(l)['id']==pid][0]
print(f"""You are helping to evaluate a verification suite for false alarms. Work ONLY inside the git worktree /tmp/benign2-{pid} (a checkout of bandprotocol/chain, a Cosmos SDK application chain in Go; module github.com/bandprotocol/chain/v3) and write your results to /tmp/benign2-{pid}-out/. Do NOT read, list or use anything under /verif or /repo. No network is available; use `export GOFLAGS=-mod=mod GOPROXY=off GOSUMDB=off GOTOOLCHAIN=local` in every shell call (builds are offline from the module cache; the first build takes a few minutes).

The semantic property that MUST KEEP HOLDING (id {pid}, "{p['title']}"):
STATEMENT: {p['statement']}
QUANTIFIED OVER: {p['quantifier']['text']}
CODE ANCHORS: files {', '.join(p['anchors']['files'])}; mechanisms: {'; '.join(m['name']+' ('+m.get('where','')+')' for m in p['anchors']['mechanism'])}

Your task: produce FOUR separate, independent, small changes (each 3-40 lines, each as its own patch against the clean checkout) to the production code in or near the anchored code (this round concentrate on these places and their direct callers/callees: {focus}), of the kind a maintainer makes every week and that do NOT change whether the property holds — the property must still hold for every input, history and schedule after each change. The changes should nevertheless be *visible* to a naive test harness that over-fits to incidental details. Make the four as different as possible; pick from this list (at most one of each kind):
 a. refactor: extract a helper function / inline one / restructure an if-else chain into early returns / replace a loop by an equivalent one / reorder two independent statements or two independent validity checks;
 b. observability: add a NEW event (new type) or add an extra attribute at the END of an existing event's attribute list, add or reword log lines, add telemetry counters;
 c. errors: reword the message of a wrapped error / add context with Wrapf while keeping the SAME registered error (same codespace and code), or return a different but equally appropriate registered error in a branch where the statement does not prescribe the error;
 d. performance: cache a parameter read in a local variable, preallocate a slice, avoid a repeated store read, iterate a sorted key slice instead of re-sorting, short-circuit an obviously redundant check;
 e. storage-neutral representation: change the ORDER in which two independent store writes happen inside one handler, or emit events in a different order WITHIN a handler where no consumer documented in the repo depends on it (do NOT do this in begin/end blockers if it changes the order of state transitions the statement talks about);
 f. stricter or more lenient handling of inputs the statement says nothing about (e.g. trimming a memo, accepting an empty optional description, an additional sanity check that can never fail for states reachable through messages);
 g. gas: charge a slightly different flat gas amount in a handler (the statement says nothing about gas amounts) — only if the property is not about determinism/gas equality between nodes (all nodes still behave identically).
For each change: (1) the tree compiles (`go build ./...`), `go vet` of the touched packages is clean; (2) the existing tests of the touched packages and of ./app/... still pass (`go test -count=1 ...`; if an existing test asserts the exact text/order you changed, choose another change instead — do not edit tests); (3) write one paragraph arguing why the property still holds for ALL inputs/histories (not just the tested ones) — if you cannot argue that, drop the change and make another one.

Deliver in /tmp/benign2-{pid}-out/: `patch1.diff` .. `patch4.diff` (each = `git diff` of that single change against the clean checkout; reset the worktree with `git checkout .` between changes; do NOT use git stash so that the patches are independent), and `meta.json` = a list of 4 objects with keys: patch (file name), kind (a..g), summary (one sentence), why_property_still_holds (the paragraph), files_changed, tests_run (commands and results). Leave the worktree clean (`git checkout .`). Your final message must list the four summaries. Do not commit anything.""")
