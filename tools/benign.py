#!/usr/bin/env python3
"""Behaviour-preserving changes written by independent sub-agents (/verif/benign/<id>-<n>/: patch.diff, meta.json):
refactors, extra events/attributes, reworded errors, caching, reordered independent writes ... after which the property
still holds. A check that reports a VIOLATION on one of them raises a false alarm (unless the change turns out not to be
behaviour-preserving after all, which is then recorded in meta.json as "verdict": "not benign" with the reason).

usage: tools/benign.py import <ID>            copy /tmp/benign-<ID>-out/patch*.diff into /verif/benign/, remove the worktree
       tools/benign.py check <dir> [--props C01,C02]   build + run the quick check(s) against the change (scratch copy)
       tools/benign.py pending                 check every imported change that has no result yet
"""
import json, os, subprocess, sys, shutil, tempfile, time

os.environ.setdefault("DBUS_SESSION_BUS_ADDRESS", "unix:path=/nonexistent/verif-no-session-bus")  # no dbus autolaunch by keyring probes
ROOT = os.path.dirname(os.path.dirname(os.path.abspath(__file__)))
DIR = os.path.join(ROOT, "benign")
ENV = dict(os.environ, GOFLAGS="-mod=mod", GOPROXY="off", GOSUMDB="off", GOTOOLCHAIN="local")
RES = os.path.join(DIR, "RESULTS.json")


def sh(cmd, cwd=None, timeout=3600):
    r = subprocess.run(cmd, shell=True, cwd=cwd, env=ENV, stdout=subprocess.PIPE, stderr=subprocess.STDOUT, text=True, timeout=timeout)
    return r.returncode, r.stdout


def do_import(pid, rnd=""):
    src, wt = "/tmp/benign%s-%s-out" % (rnd, pid), "/tmp/benign%s-%s" % (rnd, pid)
    metas = json.load(open(os.path.join(src, "meta.json")))
    if isinstance(metas, dict):
        metas = metas.get("changes") or metas.get("patches") or list(metas.values())
    n = 0
    for m in metas:
        pf = os.path.join(src, os.path.basename(str(m.get("patch", ""))))
        if not os.path.isfile(pf) or os.path.getsize(pf) == 0:
            continue
        n += 1
        dst = os.path.join(DIR, "%s-%s%s" % (pid, "r%s-" % rnd if rnd else "", os.path.splitext(os.path.basename(pf))[0].replace("patch", "")))
        os.makedirs(dst, exist_ok=True)
        shutil.copy(pf, os.path.join(dst, "patch.diff"))
        m["property"] = pid
        json.dump(m, open(os.path.join(dst, "meta.json"), "w"), indent=1)
    subprocess.run(["git", "-C", "/repo", "worktree", "remove", "--force", wt])
    shutil.rmtree(src, ignore_errors=True)
    print("imported %d changes for %s" % (n, pid))


def check(name, props=None):
    d = os.path.join(DIR, name)
    meta = json.load(open(os.path.join(d, "meta.json")))
    props = props or [meta["property"]]
    sname = "benign-%s-%d" % (name, os.getpid())
    subprocess.run([os.path.join(ROOT, "tools", "scratch.sh"), "init", sname], stdout=subprocess.DEVNULL, check=True)
    sdir = "/var/tmp/verif-scratch-" + sname
    replays = tempfile.mkdtemp(prefix="benign-replays-")
    try:
        rc, o = sh("git apply %s" % os.path.join(d, "patch.diff"), cwd=sdir)
        if rc != 0:
            print("BENIGN %-10s cannot apply patch: %s" % (name, o[-300:]))
            return
        rc, o = sh("go build -trimpath ./...", cwd=sdir)
        if rc != 0:
            print("BENIGN %-10s does not build: %s" % (name, o[-600:]))
            return
        env = dict(os.environ, VERIF_REPLAY_OUT=replays, VERIF_MODFILE=sdir + ".mod", VERIF_SEED=os.environ.get("VERIF_SEED", "1"))
        for p in props:
            evf = os.path.join(ROOT, "evidence", p + ".json")
            bak = open(evf).read() if os.path.exists(evf) else None
            t0 = time.time()
            r = subprocess.run([os.path.join(ROOT, "check"), p, "--tier", "quick"], cwd=ROOT, env=env, stdout=subprocess.PIPE, stderr=subprocess.STDOUT, text=True)
            if bak is not None:
                open(evf, "w").write(bak)
            sig, viol = "", ""
            for line in r.stdout.splitlines():
                if "VIOLATION-CASE" in line and not sig:
                    sig = line.split("signature=", 1)[1].split()[0]
                    viol = line[:600]
            try:
                allres = json.load(open(RES))
            except Exception:
                allres = {}
            allres["%s|%s" % (name, p)] = dict(change=name, check=p, rc=r.returncode, signature=sig, detail=viol,
                                               verdict={0: "silent", 1: "ALARM", 2: "inconclusive"}.get(r.returncode, str(r.returncode)))
            json.dump(allres, open(RES, "w"), indent=1, sort_keys=True)
            print("BENIGN %-10s check=%s rc=%d sig=%s wall=%ds" % (name, p, r.returncode, sig, time.time() - t0), flush=True)
            if r.returncode != 0:
                print(r.stdout[-2500:])
    finally:
        shutil.rmtree(replays, ignore_errors=True)
        subprocess.run([os.path.join(ROOT, "tools", "scratch.sh"), "rm", sname])


if __name__ == "__main__":
    a = sys.argv[1:]
    os.makedirs(DIR, exist_ok=True)
    props = a[a.index("--props") + 1].split(",") if "--props" in a else None
    if a[0] == "import":
        do_import(a[1])
    elif a[0] == "import2":
        do_import(a[1], "2")
    elif a[0] == "check":
        check(a[1], props)
    elif a[0] == "pending":
        try:
            done = json.load(open(RES))
        except Exception:
            done = {}
        for name in sorted(os.listdir(DIR)):
            if os.path.exists(os.path.join(DIR, name, "patch.diff")) and not any(v["change"] == name for v in done.values()):
                check(name, props)
