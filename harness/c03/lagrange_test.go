// Package c03: property C03 "Threshold signing yields a valid group signature; bad shares rejected" - pure layers.
//
// Layer 1 (this file): tss.ComputeLagrangeCoefficient against the math/big reference ref.TSSLagrange.
package c03

import (
	"bytes"
	"encoding/binary"
	"encoding/json"
	"fmt"
	"hash/fnv"
	"math/big"
	"math/bits"
	"os"
	"path/filepath"
	"runtime"
	"sort"
	"strconv"
	"sync"
	"testing"

	"pgregory.net/rapid"

	"github.com/bandprotocol/chain/v3/pkg/tss"

	"verif/harness/gen"
	"verif/harness/pbt"
	"verif/harness/ref"
)

// lagCase is one id list exactly as it is passed to ComputeLagrangeCoefficient (order matters for the code, not
// for the value) plus the probes for the two error conditions.
type lagCase struct {
	Mode   string   `json:"mode"`
	IDs    []uint64 `json:"ids"`    // distinct, non-zero
	Absent uint64   `json:"absent"` // probe: an id that is not in IDs
	DupIdx int      `json:"dup_idx"`
	DupPos int      `json:"dup_pos"` // probe: IDs[DupIdx mod len] inserted again at DupPos mod (len+1)
}

const maxInt63 = uint64(1)<<63 - 1

func shuffled(rt *rapid.T, label string, n int) []int {
	p := make([]int, n)
	for i := range p {
		p[i] = i
	}
	for i := n - 1; i > 0; i-- {
		j := gen.Uniform(rt, label, i+1)
		p[i], p[j] = p[j], p[i]
	}
	return p
}

// subsetOf returns k distinct values of lo..hi in random order.
func subsetOf(rt *rapid.T, label string, lo, hi, k int) []uint64 {
	p := shuffled(rt, label, hi-lo+1)
	out := make([]uint64, 0, k)
	for _, x := range p[:k] {
		out = append(out, uint64(lo+x))
	}
	return out
}

func genBigID(rt *rapid.T) uint64 {
	switch gen.Pick(rt, "fam", 3, 3, 2, 2, 2, 4, 2) {
	case 0:
		return uint64(gen.Range(rt, "id", 1, 20))
	case 1:
		return uint64(gen.Range(rt, "id", 21, 40))
	case 2:
		return uint64(gen.Range(rt, "id", 41, 5000))
	case 3: // around 2^31 / 2^32
		return uint64(1)<<uint(gen.Range(rt, "sh", 31, 32)) + uint64(gen.Range(rt, "off", 0, 4)) - 2
	case 4: // top of the int64 range
		return maxInt63 - uint64(gen.Range(rt, "off", 0, 5))
	case 5:
		return rapid.Uint64Range(1, maxInt63).Draw(rt, "u63")
	default:
		return uint64(1) << uint(gen.Range(rt, "pow", 5, 62))
	}
}

func genLag(rt *rapid.T) lagCase {
	c := lagCase{}
	switch gen.Pick(rt, "mode", 30, 15, 10, 25, 15, 5, 12) {
	case 6: // a whole arithmetic progression within 1..20 (all evens, all multiples of 3, ...) plus one more member: the
		// numerators and denominators of these committees are the high prime powers (2^18, 3^8, 5^4 ...), i.e. the far
		// end of every row of a precomputed power table
		c.Mode = "table-progression"
		d := gen.Range(rt, "step", 1, 5)
		a := gen.Range(rt, "first", 1, d)
		in := map[uint64]bool{}
		for x := a; x <= 20; x += d {
			c.IDs = append(c.IDs, uint64(x))
			in[uint64(x)] = true
		}
		if extra := uint64(gen.Range(rt, "extra", 1, 20)); !in[extra] {
			c.IDs = append(c.IDs, extra)
		}
		if gen.Chance(rt, "droplast", 1, 4) && len(c.IDs) > 2 {
			c.IDs = c.IDs[1:]
		}
	case 0: // random subset of 1..20
		c.Mode = "table"
		c.IDs = subsetOf(rt, "perm", 1, 20, gen.Range(rt, "k", 1, 20))
	case 1: // the small and the large subsets
		c.Mode = "table-ends"
		c.IDs = subsetOf(rt, "perm", 1, 20, gen.OneOf(rt, "k", 1, 2, 3, 18, 19, 20))
	case 2: // committee of a group 1..n, n <= 20
		c.Mode = "table-group"
		n := gen.Range(rt, "n", 1, 20)
		c.IDs = subsetOf(rt, "perm", 1, n, gen.Range(rt, "k", 1, n))
	case 3: // arbitrary ids below 2^63
		c.Mode = "generic"
		k := rapid.IntRange(1, 26).Draw(rt, "k")
		seen := map[uint64]bool{}
		for tries := 0; len(c.IDs) < k && tries < 4*k; tries++ {
			id := genBigID(rt)
			if !seen[id] {
				seen[id] = true
				c.IDs = append(c.IDs, id)
			}
		}
	case 4: // committee of a group 1..n, 21 <= n <= 40, with at least one id above 20
		c.Mode = "generic-group"
		n := gen.Range(rt, "n", 21, 40)
		c.IDs = subsetOf(rt, "perm", 1, n, gen.Range(rt, "k", 1, min(n, 24)))
		big := false
		for _, id := range c.IDs {
			big = big || id > 20
		}
		if !big {
			c.IDs[gen.Uniform(rt, "at", len(c.IDs))] = uint64(gen.Range(rt, "id", 21, n))
		}
	default: // statistics only: ids of 2^63 and above (never assigned by the chain)
		c.Mode = "wrap-stat"
		k := gen.Range(rt, "k", 2, 6)
		seen := map[uint64]bool{}
		for tries := 0; len(c.IDs) < k && tries < 4*k; tries++ {
			id := genBigID(rt)
			if len(c.IDs) == 0 {
				id = uint64(1)<<63 + uint64(gen.Range(rt, "off", 0, 3))
			}
			if !seen[id] {
				seen[id] = true
				c.IDs = append(c.IDs, id)
			}
		}
	}
	if gen.Chance(rt, "sorted", 1, 2) {
		sort.Slice(c.IDs, func(i, j int) bool { return c.IDs[i] < c.IDs[j] })
	}
	// absent probe: prefer a neighbour of a present id
	in := map[uint64]bool{}
	for _, id := range c.IDs {
		in[id] = true
	}
	cand := c.IDs[gen.Uniform(rt, "abs", len(c.IDs))] + uint64(gen.Range(rt, "absd", 1, 3))
	for in[cand] || cand == 0 || cand > maxInt63 {
		cand = cand%maxInt63 + 1
	}
	c.Absent = cand
	c.DupIdx = gen.Uniform(rt, "dupi", len(c.IDs))
	c.DupPos = gen.Uniform(rt, "dupp", len(c.IDs)+1)
	return c
}

func toMIDs(ids []uint64) []tss.MemberID {
	out := make([]tss.MemberID, len(ids))
	for i, id := range ids {
		out[i] = tss.MemberID(id)
	}
	return out
}

func runLag(c lagCase) *pbt.Verdict {
	v := &pbt.Verdict{}
	n := len(c.IDs)
	if n == 0 || n > 64 {
		v.Class("invalid-case")
		return v
	}
	seen := map[uint64]bool{}
	maxID, minID := uint64(0), ^uint64(0)
	for _, id := range c.IDs {
		if id == 0 || seen[id] {
			v.Class("invalid-case")
			return v
		}
		seen[id] = true
		maxID, minID = max(maxID, id), min(minID, id)
	}
	statOnly := maxID > maxInt63
	mids := toMIDs(c.IDs)
	sum := new(big.Int)
	for _, i := range c.IDs {
		got, err := tss.ComputeLagrangeCoefficient(tss.MemberID(i), mids)
		want, rerr := ref.TSSLagrange(i, c.IDs)
		if rerr != nil {
			v.Class("invalid-case")
			return v
		}
		if statOnly {
			v.Count("wrap_pairs", 1)
			if err != nil || !bytes.Equal(got, ref.TSSScalarBytes(want)) {
				v.Count("wrap_mismatch", 1)
			}
			continue
		}
		v.Count("lagrange_pairs", 1)
		if err != nil {
			v.Failf("C03/lagrange-error", "ComputeLagrangeCoefficient(%d, %v) failed on a valid input: %v", i, c.IDs, err)
			return v
		}
		if !bytes.Equal(got, ref.TSSScalarBytes(want)) {
			v.Failf("C03/lagrange", "ComputeLagrangeCoefficient(%d, %v) = %x, reference %x", i, c.IDs, []byte(got), ref.TSSScalarBytes(want))
			return v
		}
		sum.Add(sum, new(big.Int).SetBytes(got))
	}
	if !statOnly {
		// the coefficients interpolate the constant polynomial 1 at 0
		if sum.Mod(sum, ref.TSSN).Cmp(big.NewInt(1)) != 0 {
			v.Failf("C03/lagrange", "coefficients of %v sum to %x, not 1", c.IDs, ref.TSSScalarBytes(sum))
			return v
		}
		// error conditions: absent member, duplicate ids, empty list
		if !seen[c.Absent] && c.Absent != 0 {
			v.Count("error_probes", 1)
			if got, err := tss.ComputeLagrangeCoefficient(tss.MemberID(c.Absent), mids); err == nil {
				v.Failf("C03/lagrange-absent", "ComputeLagrangeCoefficient(%d, %v) for an absent member returned %x instead of an error", c.Absent, c.IDs, []byte(got))
				return v
			}
		}
		dup := c.IDs[((c.DupIdx%n)+n)%n]
		pos := ((c.DupPos % (n + 1)) + n + 1) % (n + 1)
		withDup := append(append(append([]uint64{}, c.IDs[:pos]...), dup), c.IDs[pos:]...)
		for _, i := range []uint64{dup, c.IDs[0], c.IDs[n-1]} {
			v.Count("error_probes", 1)
			if got, err := tss.ComputeLagrangeCoefficient(tss.MemberID(i), toMIDs(withDup)); err == nil {
				v.Failf("C03/lagrange-duplicate", "ComputeLagrangeCoefficient(%d, %v) with a duplicate id returned %x instead of an error", i, withDup, []byte(got))
				return v
			}
		}
		v.Count("error_probes", 1)
		if _, err := tss.ComputeLagrangeCoefficient(tss.MemberID(c.IDs[0]), nil); err == nil {
			v.Failf("C03/lagrange-absent", "ComputeLagrangeCoefficient(%d, []) returned no error", c.IDs[0])
			return v
		}
	}

	// non-trivial: at least two members (coefficient is not the constant 1) and the error probes were tried
	v.NonTrivial = n >= 2 && !statOnly
	switch {
	case statOnly:
		v.Class("lagrange:id>=2^63(stat-only)")
	case maxID <= 20:
		v.Class("lagrange:table-path")
	case minID > 20:
		v.Class("lagrange:generic-path,all>20")
	default:
		v.Class("lagrange:generic-path,mixed<=20/>20")
	}
	if maxID > 1<<32 && !statOnly {
		v.Class("lagrange:id>2^32")
	}
	if !sort.SliceIsSorted(c.IDs, func(i, j int) bool { return c.IDs[i] < c.IDs[j] }) {
		v.Class("lagrange:permuted-order")
	}
	switch {
	case n == 1:
		v.Class("lagrange:|S|=1")
	case n <= 3:
		v.Class("lagrange:|S|=2..3")
	case n >= 18:
		v.Class("lagrange:|S|>=18")
	}
	v.Sample = map[string]any{"layer": "lagrange", "mode": c.Mode, "ids": c.IDs, "absent_probe": c.Absent}
	return v
}

func TestC03Lagrange(t *testing.T) { pbt.Check(t, "C03", genLag, runLag) }

// ---------------------------------------------------------------------------------------------------------
// exhaustive: all S ⊆ {1..20}, all i ∈ S

func envInt(name string, def int) int {
	if x, err := strconv.Atoi(os.Getenv(name)); err == nil {
		return x
	}
	return def
}

type lagMismatch struct {
	mask uint32
	i    uint64
	got  []byte
	err  string
}

// checkMask compares every i ∈ S(mask); the reference value is num/den computed in uint64 (|S| <= 20 so both
// products are below 20! < 2^63) and checked WITHOUT inversion: λ·den ≡ ±num (mod n).
func checkMask(mask uint32, scratch *[3]big.Int) (pairs int64, bad *lagMismatch) {
	var ids [20]uint64
	k := 0
	for b := 0; b < 20; b++ {
		if mask&(1<<uint(b)) != 0 {
			ids[k] = uint64(b + 1)
			k++
		}
	}
	set := ids[:k]
	mids := toMIDs(set)
	lam, lhs, rhs := &scratch[0], &scratch[1], &scratch[2]
	for _, i := range set {
		num, den, neg := uint64(1), uint64(1), false
		for _, j := range set {
			if j == i {
				continue
			}
			num *= j
			if j > i {
				den *= j - i
			} else {
				den *= i - j
				neg = !neg
			}
		}
		got, err := tss.ComputeLagrangeCoefficient(tss.MemberID(i), mids)
		pairs++
		if err != nil {
			return pairs, &lagMismatch{mask: mask, i: i, err: err.Error()}
		}
		lam.SetBytes(got)
		lhs.SetUint64(den)
		lhs.Mul(lhs, lam)
		lhs.Mod(lhs, ref.TSSN)
		rhs.SetUint64(num)
		if neg {
			rhs.Sub(ref.TSSN, rhs)
		}
		if len(got) != 32 || lam.Cmp(ref.TSSN) >= 0 || lhs.Cmp(rhs) != 0 {
			return pairs, &lagMismatch{mask: mask, i: i, got: got}
		}
	}
	return pairs, nil
}

func maskIDs(mask uint32) []uint64 {
	var ids []uint64
	for b := 0; b < 20; b++ {
		if mask&(1<<uint(b)) != 0 {
			ids = append(ids, uint64(b+1))
		}
	}
	return ids
}

func saveLagrangeFailure(test string, m *lagMismatch) (string, string) {
	ids := maskIDs(m.mask)
	want, _ := ref.TSSLagrange(m.i, ids)
	msg := fmt.Sprintf("ComputeLagrangeCoefficient(%d, %v) = %x (err %q), reference %x", m.i, ids, m.got, m.err, ref.TSSScalarBytes(want))
	dir := os.Getenv("VERIF_REPLAY_OUT")
	if dir == "" {
		dir = "/verif/replays"
	}
	dir = filepath.Join(dir, "C03")
	_ = os.MkdirAll(dir, 0o755)
	shard := os.Getenv("VERIF_SHARD")
	if shard == "" {
		shard = "0"
	}
	p := filepath.Join(dir, "last-"+shard+".json")
	// the stored case is a lagCase, so VERIF_REPLAY=<file> go test -run 'TestC03Lagrange$' re-runs it
	cs := lagCase{Mode: "exhaustive", IDs: ids, Absent: 21}
	cj, _ := json.Marshal(cs)
	wrap := map[string]any{"property": "C03", "test": "TestC03Lagrange", "found_by": test, "signature": "C03/lagrange", "violation": msg, "case": json.RawMessage(cj)}
	b, _ := json.MarshalIndent(wrap, "", " ")
	_ = os.WriteFile(p, b, 0o644)
	return p, msg
}

func TestC03LagrangeExhaustive(t *testing.T) {
	if pbt.Tier() != "thorough" {
		t.Skip("exhaustive Lagrange enumeration runs in the thorough tier only")
	}
	defer pbt.Flush()
	nshards, idx := envInt("VERIF_NSHARDS", 1), envInt("VERIF_SHARD_INDEX", 0)
	if nshards < 1 || idx < 0 || idx >= nshards {
		t.Fatalf("bad shard %d of %d", idx, nshards)
	}
	workers := max(1, runtime.NumCPU()/nshards)
	type tally struct {
		sets, pairs [21]int64
		bad         *lagMismatch
	}
	res := make([]tally, workers)
	var wg sync.WaitGroup
	for w := 0; w < workers; w++ {
		wg.Add(1)
		go func(w int) {
			defer wg.Done()
			var scratch [3]big.Int
			tl := &res[w]
			// masks of this shard: mask ≡ idx (mod nshards); of those, every workers-th one
			for m, k := uint64(idx), 0; m < 1<<20; m, k = m+uint64(nshards), k+1 {
				if m == 0 || k%workers != w {
					continue
				}
				sz := bits.OnesCount32(uint32(m))
				p, bad := checkMask(uint32(m), &scratch)
				tl.sets[sz]++
				tl.pairs[sz] += p
				if bad != nil {
					tl.bad = bad
					return
				}
			}
		}(w)
	}
	wg.Wait()
	var total tally
	for _, tl := range res {
		for s := 0; s <= 20; s++ {
			total.sets[s] += tl.sets[s]
			total.pairs[s] += tl.pairs[s]
		}
		if tl.bad != nil && (total.bad == nil || tl.bad.mask < total.bad.mask) {
			total.bad = tl.bad
		}
	}
	var pairs int64
	for s := 1; s <= 20; s++ {
		if total.sets[s] == 0 {
			continue
		}
		pairs += total.pairs[s]
		h := fnv.New64a()
		var b [24]byte
		binary.BigEndian.PutUint64(b[0:], uint64(s))
		binary.BigEndian.PutUint64(b[8:], uint64(idx))
		binary.BigEndian.PutUint64(b[16:], uint64(nshards))
		h.Write([]byte("C03/lagrange-exhaustive"))
		h.Write(b[:])
		s, sets, prs := s, total.sets[s], total.pairs[s]
		pbt.RecordRaw("C03", h.Sum64(), s >= 2, func() any {
			return map[string]any{"layer": "lagrange-exhaustive", "subset_size": s, "shard": idx, "nshards": nshards, "subsets": sets, "pairs": prs}
		}, "lagrange:exhaustive-batch", "lagrange:table-path")
		pbt.AddCounter("C03", fmt.Sprintf("lagrange_exhaustive_subsets_size_%02d", s), sets)
	}
	pbt.AddCounter("C03", "lagrange_pairs", pairs)
	pbt.AddCounter("C03", "lagrange_exhaustive_pairs", pairs)
	if total.bad != nil {
		p, msg := saveLagrangeFailure(t.Name(), total.bad)
		t.Fatalf("VIOLATION-CASE property=C03 signature=C03/lagrange file=%s: %s", p, msg)
	}
	if nshards == 1 && pairs != 10485760 {
		t.Fatalf("enumeration incomplete: %d pairs, want 10485760", pairs)
	}
	t.Logf("shard %d/%d: %d pairs compared", idx, nshards, pairs)
}
