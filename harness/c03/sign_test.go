package c03

// Layer 2: one complete signing round without a chain. The production functions are called exactly as
// x/tss/keeper (AssignMembersForSigning, InitiateNewSigningRound, SubmitSignature, AggregatePartialSignatures) and
// cylinder/workers/signing call them; the oracle is the math/big + secp256k1 reference in verif/harness/ref.

import (
	"bytes"
	"encoding/binary"
	"encoding/hex"
	"fmt"
	"math/big"
	"sort"
	"testing"

	"pgregory.net/rapid"

	"github.com/bandprotocol/chain/v3/pkg/tss"
	tsstypes "github.com/bandprotocol/chain/v3/x/tss/types"

	"verif/harness/gen"
	"verif/harness/pbt"
	"verif/harness/ref"
)

type signCase struct {
	IDs        []uint64 `json:"ids"`        // member ids of the group, ascending, distinct, 1..40
	Coef       []string `json:"coef"`       // polynomial coefficients a_0..a_{t-1} (hex scalars in 1..n-1); t = len
	Committee  []int    `json:"committee"`  // t indices into IDs, ascending
	Msg        []byte   `json:"msg"`        // message being signed
	D          []string `json:"d"`          // DE secrets of the committee members, this attempt
	E          []string `json:"e"`          //
	D2         []string `json:"d2"`         // DE secrets used for "another attempt" / members of "another committee"
	E2         []string `json:"e2"`         //
	Msg2       []byte   `json:"msg2"`       // another message
	Committee2 []int    `json:"committee2"` // another committee (indices into IDs); made to contain the victim
	Victim     int      `json:"victim"`     // position in Committee (mod t) of the member whose share is corrupted
	Other      int      `json:"other"`      // position (mod t-1, skipping the victim) of a second committee member
	Drop       int      `json:"drop"`       // position (mod t) of the share left out in the t-1 check
	Outsider   int      `json:"outsider"`   // index (mod n) used to pick a group member outside the committee
	Flips      []int    `json:"flips"`      // bit positions (mod 520) flipped in the victim's share / the group signature
	Delta      string   `json:"delta"`      // scalar used for consistent shifts and random points
}

// ---- generator ---------------------------------------------------------------------------------------------

var nMinus1 = new(big.Int).Sub(ref.TSSN, big.NewInt(1))

func scalarFromSeed(seed []byte, label string, idx int) *big.Int {
	h := ref.Keccak256(seed, []byte(label), binary.BigEndian.AppendUint64(nil, uint64(idx)))
	x := new(big.Int).SetBytes(h)
	return x.Add(x.Mod(x, nMinus1), big.NewInt(1)) // 1..n-1
}

func hexScalar(x *big.Int) string { return hex.EncodeToString(ref.TSSScalarBytes(x)) }

// genScalar: mostly a pseudo-random scalar expanded from the drawn seed, sometimes a boundary value.
func genScalar(rt *rapid.T, seed []byte, label string, idx int, allowTop bool) string {
	switch gen.Pick(rt, "skind", 88, 4, 4, 4) {
	case 1:
		return hexScalar(big.NewInt(int64(gen.Range(rt, "small", 1, 3))))
	case 2:
		if allowTop {
			return hexScalar(new(big.Int).Sub(ref.TSSN, big.NewInt(int64(gen.Range(rt, "top", 1, 2)))))
		}
	case 3:
		return hexScalar(new(big.Int).SetUint64(rapid.Uint64Range(1, 1<<62).Draw(rt, "u62")))
	}
	return hexScalar(scalarFromSeed(seed, label, idx))
}

func genMsg(rt *rapid.T, label string) []byte {
	switch gen.Pick(rt, label+"kind", 1, 4, 3, 2) {
	case 0:
		return []byte{}
	case 1:
		return rapid.SliceOfN(rapid.Byte(), 1, 40).Draw(rt, label)
	case 2: // the chain signs 32-byte-prefixed encodings of a few hundred bytes
		return rapid.SliceOfN(rapid.Byte(), 41, 300).Draw(rt, label)
	default:
		return []byte(rapid.StringMatching(`[a-z ]{1,20}`).Draw(rt, label))
	}
}

func genSign(rt *rapid.T) signCase {
	n := rapid.IntRange(1, 24).Draw(rt, "n")
	var t int
	switch gen.Pick(rt, "tkind", 70, 15, 5, 10) {
	case 0:
		t = gen.Range(rt, "t", 1, n)
	case 1:
		t = n
	case 2:
		t = 1
	default:
		t = n/2 + 1
	}
	c := signCase{}
	if gen.Chance(rt, "sequential", 1, 2) { // what the chain assigns: 1..n
		for i := 1; i <= n; i++ {
			c.IDs = append(c.IDs, uint64(i))
		}
	} else {
		c.IDs = subsetOf(rt, "ids", 1, 40, n)
		sort.Slice(c.IDs, func(i, j int) bool { return c.IDs[i] < c.IDs[j] })
	}
	seed := rapid.SliceOfN(rapid.Byte(), 8, 8).Draw(rt, "seed")
	for k := 0; k < t; k++ {
		c.Coef = append(c.Coef, genScalar(rt, seed, "coef", k, false))
	}
	c.Committee = append([]int{}, shuffled(rt, "committee", n)[:t]...)
	sort.Ints(c.Committee)
	c.Msg = genMsg(rt, "msg")
	for k := 0; k < t; k++ {
		c.D = append(c.D, genScalar(rt, seed, "d", k, true))
		c.E = append(c.E, genScalar(rt, seed, "e", k, true))
	}
	for k := 0; k < t+1; k++ {
		c.D2 = append(c.D2, genScalar(rt, seed, "d2", k, true))
		c.E2 = append(c.E2, genScalar(rt, seed, "e2", k, true))
	}
	switch gen.Pick(rt, "msg2kind", 3, 2, 2, 2) {
	case 0: // one bit of difference
		c.Msg2 = append([]byte{}, c.Msg...)
		if len(c.Msg2) == 0 {
			c.Msg2 = []byte{0}
		} else {
			b := gen.Uniform(rt, "bit", len(c.Msg2)*8)
			c.Msg2[b/8] ^= 1 << (b % 8)
		}
	case 1: // extension
		c.Msg2 = append(append([]byte{}, c.Msg...), byte(gen.Uniform(rt, "ext", 256)))
	case 2: // truncation
		if len(c.Msg) > 0 {
			c.Msg2 = append([]byte{}, c.Msg[:len(c.Msg)-1]...)
		} else {
			c.Msg2 = []byte("x")
		}
	default:
		c.Msg2 = genMsg(rt, "msg2")
	}
	c.Victim = gen.Uniform(rt, "victim", t)
	c.Other = gen.Uniform(rt, "other", max(1, t-1))
	c.Drop = gen.Uniform(rt, "drop", t)
	c.Outsider = gen.Uniform(rt, "outsider", n)
	// another committee: same size with one member exchanged if possible, else one more / one fewer member
	t2 := t
	if t == n || gen.Chance(rt, "c2size", 1, 4) {
		t2 = gen.Range(rt, "t2", 1, n)
	}
	c.Committee2 = append([]int{}, shuffled(rt, "committee2", n)[:t2]...)
	sort.Ints(c.Committee2)
	for k := 0; k < 3; k++ {
		c.Flips = append(c.Flips, gen.Uniform(rt, "flip", 520))
	}
	c.Delta = genScalar(rt, seed, "delta", 0, true)
	return c
}

// ---- runner ------------------------------------------------------------------------------------------------

func parseScalars(hs []string) ([]*big.Int, bool) {
	out := make([]*big.Int, len(hs))
	for i, h := range hs {
		b, err := hex.DecodeString(h)
		if err != nil || len(b) != 32 {
			return nil, false
		}
		x := new(big.Int).SetBytes(b)
		if x.Sign() == 0 || x.Cmp(ref.TSSN) >= 0 {
			return nil, false
		}
		out[i] = x
	}
	return out, true
}

func modn(x *big.Int) *big.Int { return new(big.Int).Mod(x, ref.TSSN) }
func mulm(a ...*big.Int) *big.Int {
	r := big.NewInt(1)
	for _, x := range a {
		r.Mod(r.Mul(r, x), ref.TSSN)
	}
	return r
}
func addm(a ...*big.Int) *big.Int {
	r := new(big.Int)
	for _, x := range a {
		r.Add(r, x)
	}
	return r.Mod(r, ref.TSSN)
}
func sc(x *big.Int) tss.Scalar { return tss.Scalar(ref.TSSScalarBytes(x)) }
func join(r []byte, z *big.Int) []byte {
	return append(append([]byte{}, r...), ref.TSSScalarBytes(z)...)
}

// round is everything public about one signing attempt, computed with the PRODUCTION functions the way the chain
// does (keeper_signing.go: AssignMembersForSigning + InitiateNewSigningRound).
type round struct {
	ids        []uint64
	mids       []tss.MemberID
	ams        tsstypes.AssignedMembers
	commitment []byte
	groupNonce tss.Point
}

func chainAssign(ids []uint64, pubKeys, pubDs, pubEs [][]byte, msg []byte) (*round, error) {
	r := &round{ids: ids, mids: toMIDs(ids)}
	var ds, es tss.Points
	for i := range ids {
		ds, es = append(ds, pubDs[i]), append(es, pubEs[i])
		r.ams = append(r.ams, tsstypes.AssignedMember{MemberID: r.mids[i], Address: fmt.Sprintf("member%d", ids[i]), PubKey: pubKeys[i], PubD: pubDs[i], PubE: pubEs[i]})
	}
	commitment, err := tss.ComputeCommitment(r.mids, ds, es)
	if err != nil {
		return nil, fmt.Errorf("ComputeCommitment: %w", err)
	}
	r.commitment = commitment
	for i := range r.ams {
		bf, err := tss.ComputeOwnBindingFactor(r.mids[i], msg, commitment)
		if err != nil {
			return nil, fmt.Errorf("ComputeOwnBindingFactor: %w", err)
		}
		r.ams[i].BindingFactor = bf
		pn, err := tss.ComputeOwnPubNonce(r.ams[i].PubD, r.ams[i].PubE, bf)
		if err != nil {
			return nil, fmt.Errorf("ComputeOwnPubNonce: %w", err)
		}
		r.ams[i].PubNonce = pn
	}
	gn, err := tss.ComputeGroupPublicNonce(r.ams.PubNonces()...)
	if err != nil {
		return nil, fmt.Errorf("ComputeGroupPublicNonce: %w", err)
	}
	r.groupNonce = gn
	return r, nil
}

// daemonSign is cylinder/workers/signing.handleSigning.
func daemonSign(r *round, pos int, groupKey []byte, msg []byte, d, e, x *big.Int) (tss.Signature, error) {
	privNonce, err := tss.ComputeOwnPrivNonce(sc(d), sc(e), r.ams[pos].BindingFactor)
	if err != nil {
		return nil, fmt.Errorf("ComputeOwnPrivNonce: %w", err)
	}
	lagrange, err := tss.ComputeLagrangeCoefficient(r.mids[pos], r.ams.MemberIDs())
	if err != nil {
		return nil, fmt.Errorf("ComputeLagrangeCoefficient: %w", err)
	}
	return tss.SignSigning(r.groupNonce, groupKey, msg, lagrange, privNonce, sc(x))
}

// partialVerify is the cryptographic check of SubmitSignature alone (Lagrange + VerifySigningSignature).
func partialVerify(r *round, groupKey, msg []byte, claimed uint64, sig []byte) bool {
	am, found := r.ams.FindAssignedMember(tss.MemberID(claimed))
	if !found {
		return false
	}
	lagrange, err := tss.ComputeLagrangeCoefficient(tss.MemberID(claimed), r.ams.MemberIDs())
	if err != nil {
		return false
	}
	return tss.VerifySigningSignature(r.groupNonce, groupKey, msg, lagrange, sig, am.PubKey) == nil
}

// refShares computes, with math/big only, the unique correct share of every member of a round given the binding
// factors the chain assigned, plus the group nonce and the group signature.
type refRound struct {
	lambda   []*big.Int
	rho      []*big.Int
	k        []*big.Int
	shares   [][]byte
	c        *big.Int
	groupR   []byte
	groupSig []byte
}

func refSign(ids []uint64, rho, d, e, x []*big.Int, groupKey, msg []byte) (*refRound, error) {
	rr := &refRound{rho: rho}
	ksum := new(big.Int)
	for i := range ids {
		k := addm(d[i], mulm(e[i], rho[i]))
		rr.k = append(rr.k, k)
		ksum = addm(ksum, k)
	}
	rr.groupR = ref.TSSBaseMul(ksum)
	if rr.groupR == nil {
		return nil, fmt.Errorf("group nonce is the point at infinity")
	}
	c, err := ref.TSSChallenge(rr.groupR, groupKey, msg)
	if err != nil {
		return nil, err
	}
	rr.c = c
	zsum := new(big.Int)
	for i, id := range ids {
		lam, err := ref.TSSLagrange(id, ids)
		if err != nil {
			return nil, err
		}
		rr.lambda = append(rr.lambda, lam)
		s, _, err := ref.TSSPartialSignature(d[i], e[i], rho[i], lam, x[i], c)
		if err != nil {
			return nil, err
		}
		rr.shares = append(rr.shares, s)
		zsum = addm(zsum, new(big.Int).SetBytes(s[33:]))
	}
	rr.groupSig = join(rr.groupR, zsum)
	return rr, nil
}

type corruption struct {
	class   string
	claimed uint64 // member id the share is submitted for
	sig     []byte
	single  bool // exactly one of (R, z, signer) differs from the correct submission
}

func runSign(c signCase) *pbt.Verdict {
	v := &pbt.Verdict{}
	invalid := func() *pbt.Verdict { v.Class("invalid-case"); return v }

	// ---- decode and validate the case
	n, t := len(c.IDs), len(c.Coef)
	if n < 1 || n > 40 || t < 1 || t > n || len(c.Committee) != t || len(c.D) != t || len(c.E) != t || len(c.D2) != t+1 || len(c.E2) != t+1 {
		return invalid()
	}
	for i, id := range c.IDs {
		if id == 0 || id > 1<<32 || (i > 0 && c.IDs[i-1] >= id) {
			return invalid()
		}
	}
	for i, m := range c.Committee {
		if m < 0 || m >= n || (i > 0 && c.Committee[i-1] >= m) {
			return invalid()
		}
	}
	coef, ok1 := parseScalars(c.Coef)
	d, ok2 := parseScalars(c.D)
	e, ok3 := parseScalars(c.E)
	d2, ok4 := parseScalars(c.D2)
	e2, ok5 := parseScalars(c.E2)
	dl, ok6 := parseScalars([]string{c.Delta})
	if !(ok1 && ok2 && ok3 && ok4 && ok5 && ok6) {
		return invalid()
	}
	delta := dl[0]
	mod := func(a, m int) int { return ((a % m) + m) % m }

	// ---- key material (reference arithmetic): x_j = f(id_j), Y_j = x_j·G, Y = f(0)·G
	xAll := make([]*big.Int, n)
	for j, id := range c.IDs {
		xAll[j] = ref.TSSEvalPoly(coef, id)
		if xAll[j].Sign() == 0 {
			v.Class("degenerate-key")
			return v
		}
	}
	groupKey := ref.TSSBaseMul(coef[0])
	pubOf := map[int][]byte{}
	pub := func(j int) []byte {
		if pubOf[j] == nil {
			pubOf[j] = ref.TSSBaseMul(xAll[j])
		}
		return pubOf[j]
	}
	ids := make([]uint64, t)
	x := make([]*big.Int, t)
	pubKeys, pubDs, pubEs := make([][]byte, t), make([][]byte, t), make([][]byte, t)
	inCommittee := map[uint64]int{}
	for p, m := range c.Committee {
		ids[p], x[p] = c.IDs[m], xAll[m]
		pubKeys[p], pubDs[p], pubEs[p] = pub(m), ref.TSSBaseMul(d[p]), ref.TSSBaseMul(e[p])
		inCommittee[ids[p]] = p
	}

	fail := func(sig, format string, a ...any) *pbt.Verdict { v.Failf(sig, format, a...); return v }

	// ---- the chain assigns the members (production)
	rd, err := chainAssign(ids, pubKeys, pubDs, pubEs, c.Msg)
	if err != nil {
		return fail("C03/setup-error", "assigning committee %v failed on valid input: %v", ids, err)
	}
	rho := make([]*big.Int, t)
	for p := range ids {
		rho[p] = new(big.Int).SetBytes(rd.ams[p].BindingFactor)
		if rho[p].Cmp(ref.TSSBindingFactor(ids[p], c.Msg, rd.commitment)) != 0 {
			v.Count("binding_factor_format_mismatch", 1) // statistic: not part of the statement
		}
	}
	if !bytes.Equal(rd.commitment, ref.TSSCommitment(ids, pubDs, pubEs)) {
		v.Count("commitment_format_mismatch", 1)
	}
	rr, err := refSign(ids, rho, d, e, x, groupKey, c.Msg)
	if err != nil {
		v.Class("degenerate-nonce")
		return v
	}
	for p := range ids {
		if !bytes.Equal(rd.ams[p].PubNonce, rr.shares[p][:33]) {
			return fail("C03/assigned-nonce", "member %d: assigned public nonce %x is not (d+ρe)·G = %x", ids[p], []byte(rd.ams[p].PubNonce), rr.shares[p][:33])
		}
	}
	if !bytes.Equal(rd.groupNonce, rr.groupR) {
		return fail("C03/group-nonce", "group public nonce %x is not (Σ k_i)·G = %x", []byte(rd.groupNonce), rr.groupR)
	}

	// the full admission predicate of the chain for a submitted share: MsgSubmitSignature.ValidateBasic
	// (well-formed signature) and msg_server.SubmitSignature (assigned member, R equals the assigned nonce,
	// Lagrange coefficient, VerifySigningSignature).
	accept := func(claimed uint64, sig []byte) (accepted, wellFormed, partial bool) {
		wellFormed = tss.Signature(sig).Validate() == nil
		_, found := rd.ams.FindAssignedMember(tss.MemberID(claimed))
		if !wellFormed || !found {
			return false, wellFormed, false
		}
		partial = partialVerify(rd, groupKey, c.Msg, claimed, sig)
		return partial && rd.ams.VerifySignatureR(tss.MemberID(claimed), tss.Signature(sig).R()), true, partial
	}

	// ---- every member signs (production, daemon path); honest shares are accepted and are the reference bytes
	sigs := make([]tss.Signature, t)
	for p := range ids {
		s, err := daemonSign(rd, p, groupKey, c.Msg, d[p], e[p], x[p])
		if err != nil {
			return fail("C03/sign-error", "member %d of committee %v could not sign: %v", ids[p], ids, err)
		}
		sigs[p] = s
		if !bytes.Equal(s, rr.shares[p]) {
			return fail("C03/honest-share", "member %d of committee %v: produced share %x, reference (R_i, d+eρ+λxc) = %x", ids[p], ids, []byte(s), rr.shares[p])
		}
		if acc, _, _ := accept(ids[p], s); !acc {
			return fail("C03/honest-rejected", "member %d of committee %v: correct share %x is rejected", ids[p], ids, []byte(s))
		}
		if err := ref.TSSVerifyPartial(rr.groupR, groupKey, c.Msg, rr.lambda[p], s, pubKeys[p]); err != nil {
			return fail("C03/honest-share", "member %d: share fails z·G = R_i + cλY_i in the reference: %v", ids[p], err)
		}
	}

	// ---- aggregation (keeper_signing_endblock.AggregatePartialSignatures)
	gs, err := tss.CombineSignatures(sigs...)
	if err != nil {
		return fail("C03/combine-error", "CombineSignatures failed on %d correct shares: %v", t, err)
	}
	if err := tss.VerifyGroupSigningSignature(groupKey, c.Msg, gs); err != nil {
		return fail("C03/group-rejected", "aggregate of all correct shares of committee %v is not published: %v", ids, err)
	}
	if err := ref.TSSVerifyGroupSignature(groupKey, c.Msg, gs); err != nil {
		return fail("C03/group-invalid", "published signature %x of committee %v does not verify under the group key in the BAND-TSS challenge format: %v", []byte(gs), ids, err)
	}
	if !bytes.Equal(gs, rr.groupSig) {
		return fail("C03/group-invalid", "published signature %x differs from (ΣR_i, Σz_i) = %x", []byte(gs), rr.groupSig)
	}
	// exactly this message and this key: production verifier and independent verifier must agree and reject
	otherKeys := [][]byte{ref.TSSBaseMul(addm(coef[0], big.NewInt(1))), pubKeys[mod(c.Victim, t)], append([]byte{groupKey[0] ^ 1}, groupKey[1:]...)}
	type gv struct {
		what     string
		key, msg []byte
		sig      []byte
	}
	variants := []gv{}
	if !bytes.Equal(c.Msg, c.Msg2) {
		variants = append(variants, gv{"another message", groupKey, c.Msg2, gs})
	}
	for _, k := range otherKeys {
		if !bytes.Equal(k, groupKey) {
			variants = append(variants, gv{"another group key", k, c.Msg, gs})
		}
	}
	z := new(big.Int).SetBytes(gs[33:])
	variants = append(variants,
		gv{"z+1", groupKey, c.Msg, join(gs[:33], addm(z, big.NewInt(1)))},
		gv{"-z", groupKey, c.Msg, join(gs[:33], modn(new(big.Int).Neg(z)))},
		gv{"-R", groupKey, c.Msg, append([]byte{gs[0] ^ 1}, gs[1:]...)})
	for _, f := range c.Flips {
		m := append([]byte{}, gs...)
		b := mod(f, 520)
		m[b/8] ^= 1 << (b % 8)
		variants = append(variants, gv{fmt.Sprintf("bit %d flipped", b), groupKey, c.Msg, m})
	}
	for _, g := range variants {
		v.Count("group_negative_variants", 1)
		refOK := ref.TSSVerifyGroupSignature(g.key, g.msg, g.sig) == nil
		prodOK := tss.Signature(g.sig).Validate() == nil && tss.VerifyGroupSigningSignature(g.key, g.msg, g.sig) == nil
		if refOK {
			return fail("C03/group-not-exact", "signature for message %x under key %x also verifies with %s (key %x, message %x, signature %x)", c.Msg, groupKey, g.what, g.key, g.msg, g.sig)
		}
		if prodOK {
			return fail("C03/group-verify-disagrees", "VerifyGroupSigningSignature accepts %s (key %x, message %x, signature %x) which the independent verifier rejects", g.what, g.key, g.msg, g.sig)
		}
	}

	// ---- fewer than threshold: t-1 correct shares never aggregate to a valid signature
	if t >= 2 {
		dp := mod(c.Drop, t)
		rest := append(append([]tss.Signature{}, sigs[:dp]...), sigs[dp+1:]...)
		sub, err := tss.CombineSignatures(rest...)
		if err == nil {
			v.Count("subthreshold_aggregates", 1)
			if tss.VerifyGroupSigningSignature(groupKey, c.Msg, sub) == nil || ref.TSSVerifyGroupSignature(groupKey, c.Msg, sub) == nil {
				return fail("C03/subthreshold-valid", "aggregate of %d of %d shares (without member %d) verifies under the group key", t-1, t, ids[dp])
			}
		}
	}

	// ---- corruptions of the victim's share
	vp := mod(c.Victim, t)
	vid := ids[vp]
	good := rr.shares[vp]
	goodR, goodZ := good[:33], new(big.Int).SetBytes(good[33:])
	var cs []corruption
	add := func(class string, claimed uint64, sig []byte, single bool) {
		cs = append(cs, corruption{class, claimed, sig, single})
	}
	one := big.NewInt(1)
	// R replaced (z kept)
	add("R=-R_i", vid, append([]byte{goodR[0] ^ 1}, good[1:]...), true)
	add("R=D_i", vid, join(pubDs[vp], goodZ), true)
	add("R=E_i", vid, join(pubEs[vp], goodZ), true)
	add("R=group-nonce", vid, join(rr.groupR, goodZ), true)
	add("R=random-point", vid, join(ref.TSSBaseMul(delta), goodZ), true)
	add("R=Y_i", vid, join(pubKeys[vp], goodZ), true)
	// z replaced (R kept)
	add("z+1", vid, join(goodR, addm(goodZ, one)), true)
	add("z-1", vid, join(goodR, modn(new(big.Int).Sub(goodZ, one))), true)
	add("z=-z", vid, join(goodR, modn(new(big.Int).Neg(goodZ))), true)
	add("z=0", vid, join(goodR, new(big.Int)), true)
	add("z=group-z", vid, join(goodR, new(big.Int).SetBytes(rr.groupSig[33:])), true)
	add("z=without-lagrange", vid, join(goodR, addm(rr.k[vp], mulm(x[vp], rr.c))), true)
	add("z=without-binding(d only)", vid, join(goodR, addm(d[vp], mulm(rr.lambda[vp], x[vp], rr.c))), true)
	add("z=without-binding(d+e)", vid, join(goodR, addm(d[vp], e[vp], mulm(rr.lambda[vp], x[vp], rr.c))), true)
	add("z=binding-of-other-message", vid, join(goodR, addm(d[vp], mulm(e[vp], ref.TSSBindingFactor(vid, c.Msg2, rd.commitment)), mulm(rr.lambda[vp], x[vp], rr.c))), true)
	if c2, err := ref.TSSChallenge(rr.groupR, groupKey, c.Msg2); err == nil {
		add("z=challenge-of-other-message", vid, join(goodR, addm(rr.k[vp], mulm(rr.lambda[vp], x[vp], c2))), true)
	}
	if cNoOffset := challengeVariant(rr.groupR, groupKey, c.Msg); cNoOffset != nil {
		add("z=challenge-with-other-parity-byte", vid, join(goodR, addm(rr.k[vp], mulm(rr.lambda[vp], x[vp], cNoOffset))), true)
	}
	add("z>=n(overflow encoding)", vid, append(append([]byte{}, goodR...), bytes.Repeat([]byte{0xff}, 32)...), true)
	// format
	add("truncated", vid, good[:64], false)
	add("extended", vid, append(append([]byte{}, good...), 0), false)
	add("empty", vid, []byte{}, false)
	// bit flips
	for _, f := range c.Flips {
		m := append([]byte{}, good...)
		b := mod(f, 520)
		m[b/8] ^= 1 << (b % 8)
		add("bitflip", vid, m, true)
	}
	// consistent two-component forgeries: satisfy the share equation but not the assigned nonce
	add("shift(R+δG,z+δ)", vid, join(mustAdd(goodR, ref.TSSBaseMul(delta)), addm(goodZ, delta)), false)
	{
		rho2 := ref.TSSBindingFactor(vid, c.Msg2, rd.commitment) // nonce bound to another message
		k2 := addm(d[vp], mulm(e[vp], rho2))
		if r2 := ref.TSSBaseMul(k2); r2 != nil {
			add("nonce-bound-to-other-message(consistent)", vid, join(r2, addm(k2, mulm(rr.lambda[vp], x[vp], rr.c))), false)
		}
		kd := d[vp] // unbound nonce D only
		add("nonce-D-only(consistent)", vid, join(pubDs[vp], addm(kd, mulm(rr.lambda[vp], x[vp], rr.c))), false)
	}
	// signer: unknown / unassigned ids
	unknown := c.IDs[n-1] + 1 + uint64(mod(c.Outsider, 3))
	add("id=not-a-member", unknown, good, true)
	if t < n { // a group member that is not assigned
		var outs []int
		for j := range c.IDs {
			if _, in := inCommittee[c.IDs[j]]; !in {
				outs = append(outs, j)
			}
		}
		oj := outs[mod(c.Outsider, len(outs))]
		add("id=unassigned-member", c.IDs[oj], good, true)
		// the unassigned member signs with its own key as if it had the victim's slot
		lamO, err := ref.TSSLagrange(c.IDs[oj], replaceID(ids, vid, c.IDs[oj]))
		if err == nil {
			add("share-of-unassigned-member", vid, join(goodR, addm(rr.k[vp], mulm(lamO, xAll[oj], rr.c))), true)
			add("share-of-unassigned-member(own id)", c.IDs[oj], join(goodR, addm(rr.k[vp], mulm(lamO, xAll[oj], rr.c))), false)
		}
	}
	if t >= 2 {
		op := mod(c.Other, t-1)
		if op >= vp {
			op++
		}
		oid := ids[op]
		add("R=other-member", vid, join(rr.shares[op][:33], goodZ), true)
		add("z=other-member", vid, join(goodR, new(big.Int).SetBytes(rr.shares[op][33:])), true)
		add("share-of-other-member", vid, rr.shares[op], false)
		add("id=other-member", oid, good, true)
		add("z=key-share-of-other-member", vid, join(goodR, addm(rr.k[vp], mulm(rr.lambda[vp], x[op], rr.c))), true)
		add("z=lagrange-of-other-member", vid, join(goodR, addm(rr.k[vp], mulm(rr.lambda[op], x[vp], rr.c))), true)
		add("z=nonce-of-other-member", vid, join(goodR, addm(rr.k[op], mulm(rr.lambda[vp], x[vp], rr.c))), true)
	}
	// another attempt: same committee, fresh DE for everybody
	{
		d2c, e2c := d2[:t], e2[:t]
		if s2 := foreignRound(ids, vp, d2c, e2c, x, groupKey, c.Msg); s2 != nil && !sameScalars(d, d2c, e, e2c) {
			add("attempt=other(full share)", vid, s2, false)
			add("attempt=other(z only)", vid, append(append([]byte{}, goodR...), s2[33:]...), true)
			add("attempt=other(R only)", vid, append(append([]byte{}, s2[:33]...), good[33:]...), true)
		} else {
			v.Count("inapplicable_corruptions", 1)
		}
		// the whole round for another message
		if s3 := foreignRound(ids, vp, d, e, x, groupKey, c.Msg2); s3 != nil && !bytes.Equal(c.Msg, c.Msg2) {
			add("message=other(full share)", vid, s3, false)
			add("message=other(z only)", vid, append(append([]byte{}, goodR...), s3[33:]...), true)
		} else {
			v.Count("inapplicable_corruptions", 1)
		}
	}
	// another committee containing the victim
	{
		set := map[int]bool{c.Committee[vp]: true}
		for _, m := range c.Committee2 {
			if m >= 0 && m < n {
				set[m] = true
			}
		}
		var idx2 []int
		for m := range c.IDs {
			if set[m] {
				idx2 = append(idx2, m)
			}
		}
		same := len(idx2) == t
		for p := 0; same && p < t; p++ {
			same = idx2[p] == c.Committee[p]
		}
		if same {
			v.Count("inapplicable_corruptions", 1)
		} else {
			ids2 := make([]uint64, len(idx2))
			x2 := make([]*big.Int, len(idx2))
			dd, ee := make([]*big.Int, len(idx2)), make([]*big.Int, len(idx2))
			vp2, fresh := 0, 0
			for q, m := range idx2 {
				ids2[q], x2[q] = c.IDs[m], xAll[m]
				if p, in := inCommittee[c.IDs[m]]; in {
					dd[q], ee[q] = d[p], e[p] // same DE pair where the member is in both committees
				} else {
					dd[q], ee[q] = d2[fresh%len(d2)], e2[fresh%len(e2)]
					fresh++
				}
				if m == c.Committee[vp] {
					vp2 = q
				}
			}
			if s4 := foreignRound(ids2, vp2, dd, ee, x2, groupKey, c.Msg); s4 != nil {
				add("committee=other(full share)", vid, s4, false)
				add("committee=other(z only)", vid, append(append([]byte{}, goodR...), s4[33:]...), true)
			}
			if lam2, err := ref.TSSLagrange(vid, ids2); err == nil {
				add("z=lagrange-of-other-committee", vid, join(goodR, addm(rr.k[vp], mulm(lam2, x[vp], rr.c))), true)
			}
		}
	}

	tried := 0
	for _, k := range cs {
		if k.sig == nil {
			continue
		}
		tried++
		p, assigned := inCommittee[k.claimed]
		isCorrect := assigned && bytes.Equal(k.sig, rr.shares[p])
		acc, wellFormed, partial := accept(k.claimed, k.sig)
		if acc != isCorrect {
			if acc {
				return fail("C03/corrupt-accepted", "committee %v member %d: submission [%s] as member %d with share %x is accepted; the only correct share is %x", ids, vid, k.class, k.claimed, k.sig, correctOrNil(rr, p, assigned))
			}
			return fail("C03/honest-rejected", "committee %v: submission [%s] equals the correct share of member %d but is rejected", ids, k.class, k.claimed)
		}
		if isCorrect {
			v.Count("corruptions_equal_to_correct_share", 1)
			continue
		}
		if wellFormed && assigned {
			// VerifySigningSignature alone against the share equation evaluated by the reference
			refPartial := ref.TSSVerifyPartialWithChallenge(rr.c, rr.lambda[p], k.sig, pubKeys[p]) == nil
			if partial != refPartial {
				return fail("C03/partial-verify-disagrees", "committee %v: [%s] as member %d share %x: VerifySigningSignature says %v, z·G = R + cλY says %v", ids, k.class, k.claimed, k.sig, partial, refPartial)
			}
			if k.single && k.claimed == vid && partial {
				return fail("C03/corrupt-verified", "committee %v: single-component corruption [%s] as member %d share %x passes VerifySigningSignature", ids, k.class, k.claimed, k.sig)
			}
			if partial {
				v.Count("consistent_forgeries_stopped_by_nonce_check", 1)
			}
		} else if !wellFormed {
			v.Count("malformed_shares", 1)
		}
	}
	v.Count("corruptions_tried", int64(tried))
	v.Count("shares_signed", int64(t))

	// ---- classification
	v.NonTrivial = t >= 2 && tried >= 1
	maxCommitteeID := ids[t-1]
	if maxCommitteeID > 20 {
		v.Class("sign:id>20(generic lagrange)")
	} else {
		v.Class("sign:ids<=20(table lagrange)")
	}
	if t == n {
		v.Class("sign:t=n")
	}
	if t == 1 {
		v.Class("sign:t=1")
	}
	if n == 1 {
		v.Class("sign:n=1")
	}
	if c.IDs[n-1] == uint64(n) {
		v.Class("sign:ids=1..n")
	} else {
		v.Class("sign:ids-sparse")
	}
	if t >= 10 {
		v.Class("sign:t>=10")
	}
	if len(c.Msg) == 0 {
		v.Class("sign:empty-message")
	}
	v.Sample = map[string]any{"layer": "sign", "ids": c.IDs, "t": t, "committee": ids, "msg_len": len(c.Msg), "victim": vid, "corruptions": tried}
	return v
}

func correctOrNil(rr *refRound, p int, assigned bool) []byte {
	if assigned {
		return rr.shares[p]
	}
	return nil
}

func mustAdd(a, b []byte) []byte {
	if a == nil || b == nil {
		return nil
	}
	s, err := ref.TSSAddPoints(a, b)
	if err != nil || s == nil {
		return nil
	}
	return s
}

func replaceID(ids []uint64, old, new uint64) []uint64 {
	out := append([]uint64{}, ids...)
	for i := range out {
		if out[i] == old {
			out[i] = new
		}
	}
	return out
}

func sameScalars(a, b, c, d []*big.Int) bool {
	for i := range a {
		if a[i].Cmp(b[i]) != 0 || c[i].Cmp(d[i]) != 0 {
			return false
		}
	}
	return true
}

// foreignRound is the share member ids[pos] would correctly produce in ANOTHER round (other DE pairs, other
// committee or other message), computed entirely with the reference; nil if that round is degenerate.
func foreignRound(ids []uint64, pos int, d, e, x []*big.Int, groupKey, msg []byte) []byte {
	sorted := sort.SliceIsSorted(ids, func(i, j int) bool { return ids[i] < ids[j] })
	if !sorted || len(d) != len(ids) || len(e) != len(ids) || len(x) != len(ids) {
		return nil
	}
	ds, es := make([][]byte, len(ids)), make([][]byte, len(ids))
	for i := range ids {
		ds[i], es[i] = ref.TSSBaseMul(d[i]), ref.TSSBaseMul(e[i])
	}
	commitment := ref.TSSCommitment(ids, ds, es)
	rho := make([]*big.Int, len(ids))
	for i, id := range ids {
		rho[i] = ref.TSSBindingFactor(id, msg, commitment)
	}
	rr, err := refSign(ids, rho, d, e, x, groupKey, msg)
	if err != nil {
		return nil
	}
	return rr.shares[pos]
}

// challengeVariant is the challenge with the parity byte 0x02/0x03 instead of 27/28 (a signer that forgot "+25").
func challengeVariant(r, p, msg []byte) *big.Int {
	addr, err := ref.TSSAddress(r)
	if err != nil || len(p) != 33 {
		return nil
	}
	h := ref.Keccak256([]byte(ref.TSSContext), []byte{0}, []byte("challenge"), []byte{0}, addr, []byte{p[0]}, p[1:], ref.Keccak256(msg))
	return modn(new(big.Int).SetBytes(h))
}

func TestC03Sign(t *testing.T) { pbt.Check(t, "C03", genSign, runSign) }
