package c20

// Part B of C20 (TestC20Submit): in-flight bookkeeping of the real submitter. VerifSubmitPrice (= submitPrice,
// synchronous) runs against RPC / auth / tx-query / price-service stubs whose outcomes per broadcast attempt are
// drawn. Whatever happens, afterwards the submission's signals must have left the pending set and the key must be
// back in the idle pool.
//
// Several nodes (Nodes): grogu broadcasts every tx to all configured nodes and goes on with the answer of any node
// that accepted it. Each stub node has a behaviour of its own: healthy (follows the drawn outcome of the attempt),
// healthy but slow, fails at once (connection refused), fails after a while, or refuses with a CheckTx code. Oracle
// (6): once a node has accepted the tx of an attempt (CheckTx code 0), the same prices are not broadcast again
// before the submitter has looked for that tx at least once, and not at all once the tx query has shown it executed
// with code 0. Both halves are decided by what the stubs were asked and answered, never by the clock: a broadcast
// is attributed to the attempt whose account sequence the tx carries (the account stub hands out one sequence number
// per attempt of the whole case), not to whatever attempt is running when a slow node gets round to answering - the
// submitter goes on as soon as one node has accepted and leaves the calls to the other nodes running behind it.

import (
	"context"
	"encoding/hex"
	"fmt"
	"sort"
	"strings"
	"sync"
	"sync/atomic"
	"testing"
	"time"

	"pgregory.net/rapid"

	abci "github.com/cometbft/cometbft/abci/types"
	"github.com/cometbft/cometbft/libs/bytes"
	rpcclient "github.com/cometbft/cometbft/rpc/client"
	coretypes "github.com/cometbft/cometbft/rpc/core/types"
	cmttypes "github.com/cometbft/cometbft/types"

	"github.com/cosmos/cosmos-sdk/client"
	"github.com/cosmos/cosmos-sdk/client/flags"
	"github.com/cosmos/cosmos-sdk/codec"
	codectypes "github.com/cosmos/cosmos-sdk/codec/types"
	"github.com/cosmos/cosmos-sdk/crypto/keyring"
	sdk "github.com/cosmos/cosmos-sdk/types"
	sdkerrors "github.com/cosmos/cosmos-sdk/types/errors"
	authsigning "github.com/cosmos/cosmos-sdk/x/auth/signing"
	authtypes "github.com/cosmos/cosmos-sdk/x/auth/types"
	"github.com/cosmos/cosmos-sdk/x/authz"

	bothan "github.com/bandprotocol/bothan/bothan-api/client/go-client/proto/bothan/v1"

	"github.com/bandprotocol/chain/v3/grogu/submitter"
	feedstypes "github.com/bandprotocol/chain/v3/x/feeds/types"

	"verif/harness/gen"
	"verif/harness/pbt"
	"verif/harness/sim"
)

// outcomes of one broadcast attempt
const (
	oOK         = iota // broadcast accepted, tx found with code 0
	oAcctErr           // account query fails
	oSimErr            // gas simulation: transport error
	oSimBad            // gas simulation: non-OK ABCI response
	oBcastErr          // broadcast: transport error
	oBcastCode         // broadcast: CheckTx code != 0
	oBcastOOG          // broadcast: out of gas
	oBcastCache        // broadcast: "tx already exists in cache" (mapped to a code by the SDK client)
	oTxTimeout         // broadcast accepted, tx never found before the timeout
	oTxCode            // broadcast accepted, tx executed with code != 0
	oTxOOG             // broadcast accepted, tx executed out of gas
	nOutcomes
)

var outcomeName = []string{"ok", "acct_err", "sim_err", "sim_bad", "bcast_err", "bcast_code", "bcast_oog", "bcast_cache", "tx_timeout", "tx_code", "tx_oog"}

type subSpec struct {
	MaxSigs  []int    `json:"sigs"`     // signal indices of the submission (distinct)
	Statuses []int    `json:"statuses"` // per signal
	Prices   []uint64 `json:"prices"`
	Outcomes []int    `json:"outcomes"` // per attempt (cyclic)
	PollErrs []int    `json:"pollerrs"` // per attempt: tx query errors before the answer
	// KeyFault: the key id taken from the idle pool is not in the keyring when submitPrice runs (the keyring is
	// shared with the operator's CLI; New() only lists it once): 0 none; 1 deleted, restored afterwards; 2 deleted
	// for good; 3 renamed away for good; 4 renamed away, renamed back afterwards
	KeyFault int `json:"keyfault,omitempty"`
}

const nKeyFaults = 5

var keyFaultName = []string{"none", "deleted_restored", "deleted", "renamed", "renamed_restored"}

type submitCase struct {
	NKeys    int       `json:"nkeys"`
	NClients int       `json:"nclients"`
	Second   int       `json:"second"` // behaviour of the 2nd rpc client: 0 same as first, 1 transport errors, 2 CheckTx code 5
	MaxTry   uint64    `json:"max_try"`
	GasUsed  uint64    `json:"gas_used"`
	Mon      int       `json:"mon"` // price-service monitoring: 0 info error, 1 disabled, 2 enabled, 3 enabled but push fails
	AccNum   uint64    `json:"acc_num"`
	Seq      uint64    `json:"seq"`
	Other    []int     `json:"other"` // unrelated signals that are pending throughout
	Subs     []subSpec `json:"subs"`
	// Nodes (if not empty, replaces NClients/Second): behaviour per configured node, in the daemon's order
	Nodes []int `json:"nodes,omitempty"`
	// Part C (querier_test.go): answers of the configured nodes to a sequence of chain queries
	Q querierCase `json:"q,omitempty"`
}

// node behaviours
const (
	nodeHealthy     = iota // answers according to the drawn outcome of the attempt
	nodeFailFast           // every call fails at once with a transport error
	nodeCode               // simulation works, broadcast is refused with CheckTx code 5
	nodeFailSlow           // every call fails with a transport error after a short while
	nodeHealthySlow        // as healthy, but broadcast answers after a short while
	nNodeKinds
)

var nodeKindName = []string{"healthy", "fail_fast", "checktx_code", "fail_slow", "healthy_slow"}

const nodeSlowness = 400 * time.Microsecond

func genSubmit(rt *rapid.T) submitCase {
	c := submitCase{}
	c.NKeys = gen.Range(rt, "nkeys", 1, 3)
	c.NClients = gen.OneOf(rt, "nclients", 1, 1, 2)
	c.Second = gen.Uniform(rt, "second", 3)
	if gen.Chance(rt, "multinode", 1, 2) {
		for i, n := 0, gen.OneOf(rt, "nnodes", 2, 2, 2, 3, 3, 1); i < n; i++ {
			c.Nodes = append(c.Nodes, gen.Pick(rt, "nodekind", 30, 30, 10, 10, 20))
		}
		if gen.Chance(rt, "onehealthy", 3, 4) { // usually at least one node works
			c.Nodes[gen.Uniform(rt, "healthyat", len(c.Nodes))] = gen.OneOf(rt, "healthykind", nodeHealthy, nodeHealthySlow, nodeHealthySlow)
		}
	}
	c.MaxTry = gen.OneOf[uint64](rt, "maxtry", 1, 2, 3, 3, 5, 5, 5, 0)
	c.GasUsed = gen.OneOf[uint64](rt, "gas", 1, 100, 80_000, 0)
	if c.GasUsed == 0 && !gen.Chance(rt, "gas0", 1, 4) {
		c.GasUsed = 100_000
	}
	c.Mon = gen.Uniform(rt, "mon", 4)
	c.AccNum = uint64(gen.Range(rt, "accnum", 0, 50))
	c.Seq = uint64(gen.Range(rt, "seq", 0, 1000))
	for i, n := 0, rapid.IntRange(0, 3).Draw(rt, "nother"); i < n; i++ {
		c.Other = append(c.Other, i)
	}
	ns := rapid.IntRange(1, 3).Draw(rt, "nsubs")
	for j := 0; j < ns; j++ {
		s := subSpec{}
		k := rapid.IntRange(1, 6).Draw(rt, "nsigs")
		start := gen.Uniform(rt, "sigstart", 8)
		for i := 0; i < k; i++ {
			s.MaxSigs = append(s.MaxSigs, start+i)
			st := gen.OneOf(rt, "st", stAvailable, stAvailable, stAvailable, stUnavailable, stUnsupported)
			s.Statuses = append(s.Statuses, st)
			p := uint64(0)
			if st == stAvailable {
				p = genPrice(rt)
			}
			s.Prices = append(s.Prices, p)
		}
		na := rapid.IntRange(1, 5).Draw(rt, "nattempts")
		for i := 0; i < na; i++ {
			o := oOK
			if gen.Chance(rt, "fail", 6, 10) {
				o = 1 + gen.Uniform(rt, "outcome", nOutcomes-1)
				if o == oTxTimeout && !gen.Chance(rt, "timeout", 1, 2) {
					o = oBcastErr // time-outs cost real milliseconds inside the production polling loop: keep them rarer
				}
			}
			s.Outcomes = append(s.Outcomes, o)
			s.PollErrs = append(s.PollErrs, gen.OneOf(rt, "pollerrs", 0, 0, 1, 3))
		}
		s.KeyFault = gen.Pick(rt, "keyfault", 86, 4, 4, 3, 3)
		c.Subs = append(c.Subs, s)
	}
	c.Q = genQuerier(rt)
	return c
}

// ---- process-wide fixtures ---------------------------------------------------------------------------------

type submitFixture struct {
	ch  *sim.Chain
	err error
}

var (
	fixOnce sync.Once
	fix     submitFixture
)

func fixture() *submitFixture {
	fixOnce.Do(func() {
		// the daemon builds a throw-away BandApp for its codec / tx config; so does the harness (slot 1, kept for the process)
		ch, err := sim.New(sim.Config{NumAccounts: 1, Validators: []sim.ValSpec{{Tokens: 10_000_000}}}, 1)
		if err != nil {
			fix.err = err
			return
		}
		fix.ch = ch
	})
	return &fix
}

func feederName(i int) string { return fmt.Sprintf("feeder%d", i) }

func feederKeyHex(name string) string {
	return hex.EncodeToString(sim.NewAccount(name).Priv.Bytes())
}

// newKeyring builds the daemon's keyring for one case (it is mutated by the key faults, so it is not shared).
func newKeyring(cdc codec.Codec, n int) (keyring.Keyring, error) {
	kb := keyring.NewInMemory(cdc)
	for i := 0; i < n; i++ {
		if err := kb.ImportPrivKeyHex(feederName(i), feederKeyHex(feederName(i)), "secp256k1"); err != nil {
			return nil, err
		}
	}
	return kb, nil
}

// ---- stubs ----------------------------------------------------------------------------------------------------

type submitWorld struct {
	mu        sync.Mutex
	c         *submitCase
	cur       *subSpec
	attempt   atomic.Int64 // index of the running attempt (-1 before the first); advanced by the account query
	polls     map[string]int
	attempts  int64
	executed  []int // outcomes of the attempts that were started
	cdc       codec.Codec
	ir        codectypes.InterfaceRegistry
	txCfg     client.TxConfig
	gasSeen   []uint64
	msgOK     int64
	validator string
	msgBad    int64
	accepted  map[int64]int  // attempt -> nodes that accepted its broadcast (CheckTx code 0)
	txQueried map[string]int // lower-case tx hash -> tx queries made for it
	txShownOK map[string]int // lower-case tx hash -> tx queries answered "executed with code 0"
	nodeCalls map[int]int    // node kind -> broadcast calls
	global    atomic.Int64   // attempts started in the whole case (the account sequence handed out is Seq + global index)
	subBase   int64          // global index of attempt 0 of the running submission
	lateCalls int64          // broadcast calls that reached a node after their submission was over
	acceptLog []string       // one entry per accepted broadcast of the running submission (for messages)
}

func (w *submitWorld) outcome() int {
	i := w.attempt.Load()
	if i < 0 || w.cur == nil || len(w.cur.Outcomes) == 0 {
		return oOK
	}
	o := w.cur.Outcomes[int(i)%len(w.cur.Outcomes)]
	if o < 0 || o >= nOutcomes {
		return oOK
	}
	return o
}

// outcomeAt is the drawn outcome of attempt i of the running submission.
func (w *submitWorld) outcomeAt(i int64) int {
	if i < 0 || w.cur == nil || len(w.cur.Outcomes) == 0 {
		return oOK
	}
	o := w.cur.Outcomes[int(i)%len(w.cur.Outcomes)]
	if o < 0 || o >= nOutcomes {
		return oOK
	}
	return o
}

func hashOf(attempt int64) []byte { return []byte(fmt.Sprintf("attempt-%04d", attempt)) }

// auth querier
func (w *submitWorld) QueryAccount(address sdk.Address) (*authtypes.QueryAccountResponse, error) {
	w.mu.Lock()
	w.attempt.Add(1)
	g := w.global.Add(1) - 1 // in step with the attempt index: global index = subBase + attempt
	w.attempts++
	w.executed = append(w.executed, w.outcome())
	w.mu.Unlock()
	if w.outcome() == oAcctErr {
		return nil, fmt.Errorf("account query failed")
	}
	acc := authtypes.NewBaseAccount(sdk.AccAddress(address.Bytes()), nil, w.c.AccNum, w.c.Seq+uint64(g))
	any, err := codectypes.NewAnyWithValue(acc)
	if err != nil {
		return nil, err
	}
	return &authtypes.QueryAccountResponse{Account: any}, nil
}

// tx querier
func (w *submitWorld) QueryTx(hash string) (*sdk.TxResponse, error) {
	w.mu.Lock()
	defer w.mu.Unlock()
	w.txQueried[strings.ToLower(hash)]++
	i := w.attempt.Load()
	if !strings.EqualFold(hash, hex.EncodeToString(hashOf(i))) {
		return nil, fmt.Errorf("tx %s not found", hash)
	}
	o := w.outcome()
	if o == oTxTimeout {
		return nil, fmt.Errorf("tx %s not found", hash)
	}
	w.polls[hash]++
	pe := 0
	if len(w.cur.PollErrs) > 0 {
		pe = w.cur.PollErrs[int(i)%len(w.cur.PollErrs)]
	}
	if w.polls[hash] <= pe {
		return nil, fmt.Errorf("tx %s not found yet", hash)
	}
	switch o {
	case oTxCode:
		return &sdk.TxResponse{TxHash: hash, Code: 5, Codespace: feedstypes.ModuleName, RawLog: "price is submitted too early"}, nil
	case oTxOOG:
		return &sdk.TxResponse{TxHash: hash, Code: sdkerrors.ErrOutOfGas.ABCICode(), Codespace: sdkerrors.RootCodespace}, nil
	default:
		w.txShownOK[strings.ToLower(hash)]++
		return &sdk.TxResponse{TxHash: hash, Code: 0}, nil
	}
}

// price service
type monStub struct{ mode int }

func (m monStub) GetInfo() (*bothan.GetInfoResponse, error) {
	switch m.mode {
	case 0:
		return nil, fmt.Errorf("price service down")
	case 1:
		return &bothan.GetInfoResponse{MonitoringEnabled: false}, nil
	default:
		return &bothan.GetInfoResponse{MonitoringEnabled: true}, nil
	}
}
func (m monStub) UpdateRegistry(ipfsHash string, version string) error { return nil }
func (m monStub) PushMonitoringRecords(uuid, txHash string) error {
	if m.mode == 3 {
		return fmt.Errorf("push failed")
	}
	return nil
}
func (m monStub) GetPrices(signalIDs []string) (*bothan.GetPricesResponse, error) {
	return nil, fmt.Errorf("not used")
}

// rpc client: only the calls the submitter makes are implemented (anything else would be a nil dereference,
// reported as a panic).
type rpcStub struct {
	rpcclient.RemoteClient
	w      *submitWorld
	second int // 0: primary behaviour; 1: transport errors; 2: CheckTx code 5
	slow   bool
	kind   int // node behaviour (statistics)
}

func (r *rpcStub) Remote() string { return "stub" }

func (r *rpcStub) ABCIQueryWithOptions(_ context.Context, path string, data bytes.HexBytes, _ rpcclient.ABCIQueryOptions) (*coretypes.ResultABCIQuery, error) {
	if r.second == 1 {
		if r.slow {
			time.Sleep(nodeSlowness)
		}
		return nil, fmt.Errorf("connection refused")
	}
	switch r.w.outcome() {
	case oSimErr:
		return nil, fmt.Errorf("connection refused")
	case oSimBad:
		return &coretypes.ResultABCIQuery{Response: abci.ResponseQuery{Code: sdkerrors.ErrInsufficientFunds.ABCICode(), Codespace: sdkerrors.RootCodespace, Log: "insufficient funds"}}, nil
	}
	simRes := &sdk.SimulationResponse{GasInfo: sdk.GasInfo{GasWanted: r.w.c.GasUsed, GasUsed: r.w.c.GasUsed}}
	bz, err := codec.NewProtoCodec(r.w.ir).GRPCCodec().Marshal(simRes)
	if err != nil {
		return nil, err
	}
	return &coretypes.ResultABCIQuery{Response: abci.ResponseQuery{Codespace: sdkerrors.RootCodespace, Height: 1, Value: bz}}, nil
}

func (r *rpcStub) BroadcastTxSync(_ context.Context, txBytes cmttypes.Tx) (*coretypes.ResultBroadcastTx, error) {
	seq, seqOK := r.w.inspect(txBytes)
	if r.slow {
		time.Sleep(nodeSlowness)
	}
	// which attempt does this tx belong to? (its account sequence says so)
	r.w.mu.Lock()
	r.w.nodeCalls[r.kind]++
	at := int64(seq) - int64(r.w.c.Seq) - r.w.subBase
	mine := seqOK && at >= 0 // a tx of the running submission
	if !mine || at != r.w.attempt.Load() {
		r.w.lateCalls++ // the submitter has moved on already: nobody reads this answer (a node still accepts the tx)
	}
	o := r.w.outcomeAt(at)
	// the answer is decided, and an acceptance is booked, in this one critical section: the submission this tx belongs
	// to may be over (and the books of the next one opened) a moment later
	if mine && r.second == 0 && o != oBcastErr && o != oBcastCache && o != oBcastCode && o != oBcastOOG {
		r.w.accepted[at]++
		r.w.acceptLog = append(r.w.acceptLog, fmt.Sprintf("[seq %d base %d attempt %d running %d node %s outcome %s]", seq, r.w.subBase, at, r.w.attempt.Load(), nodeKindName[r.kind], outcomeName[o]))
	}
	r.w.mu.Unlock()
	if r.second == 1 {
		return nil, fmt.Errorf("connection refused")
	}
	if !mine {
		return nil, fmt.Errorf("stale broadcast call")
	}
	h := hashOf(at)
	if r.second == 2 {
		return &coretypes.ResultBroadcastTx{Code: 5, Codespace: sdkerrors.RootCodespace, Log: "insufficient funds", Hash: h}, nil
	}
	switch o {
	case oBcastErr:
		return nil, fmt.Errorf("post failed: EOF")
	case oBcastCache:
		return nil, fmt.Errorf("tx already exists in cache")
	case oBcastCode:
		return &coretypes.ResultBroadcastTx{Code: sdkerrors.ErrWrongSequence.ABCICode(), Codespace: sdkerrors.RootCodespace, Log: "account sequence mismatch", Hash: h}, nil
	case oBcastOOG:
		return &coretypes.ResultBroadcastTx{Code: sdkerrors.ErrOutOfGas.ABCICode(), Codespace: sdkerrors.RootCodespace, Log: "out of gas", Hash: h}, nil
	}
	return &coretypes.ResultBroadcastTx{Code: 0, Hash: h}, nil
}

func (r *rpcStub) BroadcastTxAsync(ctx context.Context, txBytes cmttypes.Tx) (*coretypes.ResultBroadcastTx, error) {
	return r.BroadcastTxSync(ctx, txBytes)
}

// inspect decodes what is being broadcast (statistics only): a MsgExec carrying one MsgSubmitSignalPrices with
// prices for the daemon's validator.
func (w *submitWorld) inspect(txBytes []byte) (seq uint64, seqOK bool) {
	w.mu.Lock()
	defer w.mu.Unlock()
	good := false
	defer func() {
		_ = recover()
		if good {
			w.msgOK++
		} else {
			w.msgBad++
		}
	}()
	tx, err := w.txCfg.TxDecoder()(txBytes)
	if err != nil || len(tx.GetMsgs()) != 1 {
		return 0, false
	}
	if ft, ok := tx.(sdk.FeeTx); ok {
		w.gasSeen = append(w.gasSeen, ft.GetGas())
	}
	if st, ok := tx.(authsigning.SigVerifiableTx); ok {
		if sigs, serr := st.GetSignaturesV2(); serr == nil && len(sigs) == 1 {
			seq, seqOK = sigs[0].Sequence, true
		}
	}
	exec, ok := tx.GetMsgs()[0].(*authz.MsgExec)
	if !ok {
		return
	}
	inner, err := exec.GetMessages()
	if err != nil || len(inner) != 1 {
		return
	}
	m, ok := inner[0].(*feedstypes.MsgSubmitSignalPrices)
	if !ok || len(m.SignalPrices) == 0 || m.Validator != w.validator {
		return
	}
	good = true
	return
}

// ---- run -----------------------------------------------------------------------------------------------------------

func subSigID(i int) string { return fmt.Sprintf("CS:B%d-USD", i) }

func runSubmit(c submitCase) *pbt.Verdict {
	v := &pbt.Verdict{}
	fx := fixture()
	if fx.err != nil {
		v.Failf("C20/harness-setup", "fixture: %v", fx.err)
		return v
	}
	if c.NKeys < 1 {
		c.NKeys = 1
	}
	if c.NKeys > 3 {
		c.NKeys = 3
	}
	if c.NClients < 1 {
		c.NClients = 1
	}
	if c.NClients > 2 {
		c.NClients = 2
	}
	if c.MaxTry > 8 {
		c.MaxTry = 8
	}
	app := fx.ch.App
	w := &submitWorld{c: &c, polls: map[string]int{}, cdc: app.AppCodec(), ir: app.InterfaceRegistry(), txCfg: app.GetTxConfig(),
		accepted: map[int64]int{}, txQueried: map[string]int{}, txShownOK: map[string]int{}, nodeCalls: map[int]int{}}
	w.attempt.Store(-1)
	w.validator = fx.ch.Vals[0].Val.String()
	kb, err := newKeyring(app.AppCodec(), c.NKeys)
	if err != nil {
		v.Failf("C20/harness-setup", "keyring: %v", err)
		return v
	}
	clientCtx := client.Context{
		ChainID:           "bandsim",
		Codec:             app.AppCodec(),
		InterfaceRegistry: app.InterfaceRegistry(),
		Keyring:           kb,
		TxConfig:          app.GetTxConfig(),
		BroadcastMode:     flags.BroadcastSync,
	}
	clients := []rpcclient.RemoteClient{&rpcStub{w: w}}
	if c.NClients == 2 {
		clients = append(clients, &rpcStub{w: w, second: ((c.Second % 3) + 3) % 3})
	}
	if len(c.Nodes) > 4 {
		c.Nodes = c.Nodes[:4]
	}
	if len(c.Nodes) > 0 {
		clients = nil
		for _, k := range c.Nodes {
			k = ((k % nNodeKinds) + nNodeKinds) % nNodeKinds
			st := &rpcStub{w: w, kind: k}
			switch k {
			case nodeFailFast:
				st.second = 1
			case nodeCode:
				st.second = 2
			case nodeFailSlow:
				st.second, st.slow = 1, true
			case nodeHealthySlow:
				st.slow = true
			}
			clients = append(clients, st)
		}
	}
	var healthyNodes, faultyFast int
	for _, cl := range clients {
		if st := cl.(*rpcStub); st.second == 0 {
			healthyNodes++
		} else if st.second == 1 && !st.slow {
			faultyFast++
		}
	}
	pending := &sync.Map{}
	submitCh := make(chan submitter.SignalPriceSubmission, 1)
	valAddr := fx.ch.Vals[0].Val
	// The production polling loop gives up after broadcastTimeout of wall time. Cases that contain a "tx never found"
	// outcome need it small (every such attempt costs the whole timeout); in all other cases every tx query is
	// answered after a drawn number of polls, so the timeout is made so long that it can never be what ends the loop,
	// and nothing the check asserts depends on how fast the machine is.
	hasTimeout := false
	for _, sp := range c.Subs {
		for _, o := range sp.Outcomes {
			hasTimeout = hasTimeout || o == oTxTimeout
		}
	}
	broadcastTimeout := 30 * time.Second
	if hasTimeout {
		broadcastTimeout = 5 * time.Millisecond
	}
	sm, err := submitter.New(clientCtx, clients, monStub{mode: ((c.Mon % 4) + 4) % 4}, silentLogger(), submitCh, w, w, valAddr, pending,
		broadcastTimeout, c.MaxTry, 50*time.Microsecond, "0uband")
	if err != nil {
		v.Failf("C20/harness-setup", "submitter.New: %v", err)
		return v
	}
	allKeys := sm.VerifIdleKeys()
	sort.Strings(allKeys)
	if len(allKeys) != c.NKeys {
		v.Failf("C20/harness-setup", "idle pool has %d keys, keyring %d", len(allKeys), c.NKeys)
		return v
	}
	others := map[string]bool{}
	for _, i := range c.Other {
		id := fmt.Sprintf("CS:OTHER%d-USD", i)
		others[id] = true
		pending.Store(id, struct{}{})
	}

	var injected, successes, gaveUp, keyMissing, acceptedAttempts, acceptedDespiteFaultyNode int64
	for si := range c.Subs {
		sp := &c.Subs[si]
		sub := submitter.SignalPriceSubmission{UUID: fmt.Sprintf("uuid-%d", si)}
		seen := map[string]bool{}
		for i, idx := range sp.MaxSigs {
			id := subSigID(idx)
			if seen[id] {
				continue
			}
			seen[id] = true
			st, p := stAvailable, uint64(0)
			if i < len(sp.Statuses) && sp.Statuses[i] >= 1 && sp.Statuses[i] <= 3 {
				st = sp.Statuses[i]
			}
			if i < len(sp.Prices) && st == stAvailable {
				p = sp.Prices[i]
			}
			sub.SignalPrices = append(sub.SignalPrices, feedstypes.SignalPrice{SignalID: id, Status: feedstypes.SignalPriceStatus(st), Price: p})
		}
		if len(sub.SignalPrices) == 0 {
			continue
		}
		// what the signaller does before the hand-off
		for _, p := range sub.SignalPrices {
			pending.LoadOrStore(p.SignalID, struct{}{})
		}
		// what Start() does: take the next idle key (the pool rotates as keys come back)
		keyID, got := sm.VerifTakeIdleKey()
		if !got {
			v.Failf("C20/key-not-returned", "submission %d: idle key pool is empty although no submission is running", si)
			return v
		}
		w.mu.Lock()
		w.cur = sp
		w.polls = map[string]int{}
		w.executed = nil
		w.accepted, w.txQueried, w.txShownOK = map[int64]int{}, map[string]int{}, map[string]int{}
		w.subBase = w.global.Load()
		w.acceptLog = nil
		w.mu.Unlock()
		w.attempt.Store(-1)

		// eleventh fault kind: the key id is not in the keyring at the moment submitPrice runs
		kf := ((sp.KeyFault % nKeyFaults) + nKeyFaults) % nKeyFaults
		moved := keyID + "-moved"
		if kf != 0 {
			if _, kerr := kb.Key(keyID); kerr == nil {
				if derr := kb.Delete(keyID); derr != nil {
					v.Failf("C20/harness-setup", "keyring delete: %v", derr)
					return v
				}
				if kf == 3 || kf == 4 { // rename = same key material under another name
					if ierr := kb.ImportPrivKeyHex(moved, feederKeyHex(keyID), "secp256k1"); ierr != nil {
						v.Failf("C20/harness-setup", "keyring rename: %v", ierr)
						return v
					}
				}
			}
		}
		_, lookupErr := kb.Key(keyID) // also fails when an earlier submission removed this key for good
		missing := lookupErr != nil
		kfName := keyFaultName[kf]
		if missing && kf == 0 {
			kfName = "removed_earlier"
		}

		sm.VerifSubmitPrice(sub, keyID)

		if missing && (kf == 1 || kf == 4) { // restored for the next submission
			if kf == 4 {
				_ = kb.Delete(moved)
			}
			if ierr := kb.ImportPrivKeyHex(keyID, feederKeyHex(keyID), "secp256k1"); ierr != nil {
				v.Failf("C20/harness-setup", "keyring restore: %v", ierr)
				return v
			}
		}
		what := fmt.Sprintf("attempt outcomes %v", names(w.executed))
		if missing {
			what = fmt.Sprintf("key id %s missing from the keyring [%s]", keyID, kfName)
		}

		// ---- oracle (5) ----
		now := map[string]bool{}
		for _, id := range sm.VerifPendingSignalIDs() {
			now[id] = true
		}
		for _, p := range sub.SignalPrices {
			if now[p.SignalID] {
				v.Failf("C20/pending-not-released", "submission %d (%s): signal %s still in the pending set after submitPrice returned", si, what, p.SignalID)
			}
			if _, still := pending.Load(p.SignalID); still {
				v.Failf("C20/pending-not-released", "submission %d (%s): signal %s still in the shared pending map after submitPrice returned", si, what, p.SignalID)
			}
		}
		for _, id := range sortedKeys(others) {
			if !now[id] {
				v.Failf("C20/unrelated-pending-removed", "submission %d: unrelated pending signal %s was removed", si, id)
			}
		}
		idle := sm.VerifIdleKeys()
		sort.Strings(idle)
		if strings.Join(idle, ",") != strings.Join(allKeys, ",") {
			v.Failf("C20/key-not-returned", "submission %d (%s): idle pool %v after submitPrice returned, expected %v (key %s was taken)", si, what, idle, allKeys, keyID)
		}
		// statistics
		w.mu.Lock()
		executed := append([]int(nil), w.executed...)
		w.mu.Unlock()
		// ---- oracle (6): a tx accepted by a node is followed up, the same prices are not broadcast again instead ----
		w.mu.Lock()
		for a := 0; a < len(executed); a++ {
			if w.accepted[int64(a)] == 0 {
				continue
			}
			acceptedAttempts++
			hash := strings.ToLower(hex.EncodeToString(hashOf(int64(a))))
			more := len(executed) - a - 1
			switch {
			case more > 0 && w.txQueried[hash] == 0 && !hasTimeout: // (with the 5 ms timeout the loop may end before its first poll on a stalled machine)
				v.Failf("C20/resubmitted-without-follow-up", "submission %d (%s, nodes %v): attempt %d was accepted by %d node(s) (CheckTx code 0), yet the submitter never looked for that tx and broadcast the same prices %d more time(s); accepted broadcasts: %v",
					si, what, nodeNames(clients), a, w.accepted[int64(a)], more, w.acceptLog)
			case more > 0 && w.txShownOK[hash] > 0:
				v.Failf("C20/resubmitted-after-success", "submission %d (%s, nodes %v): the tx of attempt %d was shown executed with code 0, yet the same prices were broadcast %d more time(s)",
					si, what, nodeNames(clients), a, more)
			}
			if w.accepted[int64(a)] > 0 && healthyNodes < len(clients) {
				acceptedDespiteFaultyNode++
			}
		}
		w.mu.Unlock()
		ok := false
		for _, o := range executed {
			if o == oOK {
				ok = true
			} else {
				injected++
				v.Count("attempt_"+outcomeName[o], 1)
			}
		}
		if missing {
			keyMissing++
			injected++
			v.Count("sub_key_missing", 1)
			v.Count("sub_key_missing_"+kfName, 1)
			if len(executed) > 0 {
				v.Count("attempts_despite_missing_key", 1)
			}
		}
		if c.GasUsed == 0 {
			ok = false // gas estimate 0 => every attempt fails before the broadcast
			injected += int64(len(executed))
		}
		if ok {
			successes++
		} else {
			gaveUp++
		}
		if uint64(len(executed)) > c.MaxTry {
			v.Count("more_attempts_than_max_try", 1)
		}
	}
	if v.Violation == "" {
		runQuerier(v, c.Q, clientCtx, app.AppCodec(), valAddr)
	}
	w.mu.Lock()
	defer w.mu.Unlock()
	v.Count("attempts", w.attempts)
	v.Count("injected_failures", injected)
	v.Count("submissions_ok", successes)
	v.Count("submissions_gave_up", gaveUp)
	v.Count("broadcast_tx_wellformed", w.msgOK)
	v.Count("broadcast_tx_malformed", w.msgBad)
	v.Count("broadcast_calls_answered_after_the_submitter_moved_on", w.lateCalls)
	v.Count("attempts_accepted_by_a_node", acceptedAttempts)
	v.Count("attempts_accepted_while_another_node_faulty", acceptedDespiteFaultyNode)
	for k, n := range w.nodeCalls {
		v.Count("broadcast_calls_node_"+nodeKindName[k], int64(n))
	}
	if hasTimeout {
		v.Class("B:tx-timeout-case")
	}
	if len(clients) >= 2 {
		v.Class("B:multi-node")
	}
	if len(clients) >= 2 && healthyNodes >= 1 && healthyNodes < len(clients) {
		v.Class("B:multi-node-some-faulty")
	}
	if healthyNodes >= 1 && faultyFast >= 1 {
		v.Class("B:fail-fast-node-beside-healthy-node")
		if acceptedDespiteFaultyNode > 0 {
			v.Class("B:accepted-by-healthy-node-while-other-fails-fast")
		}
	}
	if healthyNodes == 0 {
		v.Class("B:no-healthy-node")
	}
	v.NonTrivial = injected > 0
	if injected > 0 {
		v.Class("B:injected-failure")
	}
	if keyMissing > 0 {
		v.Class("B:key-lookup-failure")
	}
	if gaveUp > 0 {
		v.Class("B:gave-up")
	}
	if successes > 0 {
		v.Class("B:success")
	}
	if successes > 0 && injected > 0 {
		v.Class("B:failure-then-success")
	}
	return v
}

func nodeNames(cs []rpcclient.RemoteClient) []string {
	var out []string
	for _, c := range cs {
		if st, ok := c.(*rpcStub); ok {
			switch {
			case st.second == 1 && st.slow:
				out = append(out, "fail_slow")
			case st.second == 1:
				out = append(out, "fail_fast")
			case st.second == 2:
				out = append(out, "checktx_code")
			case st.slow:
				out = append(out, "healthy_slow")
			default:
				out = append(out, "healthy")
			}
		}
	}
	return out
}

func names(os []int) []string {
	out := make([]string, 0, len(os))
	for _, o := range os {
		if o >= 0 && o < len(outcomeName) {
			out = append(out, outcomeName[o])
		}
	}
	return out
}

func TestC20Submit(t *testing.T) { pbt.Check(t, "C20", genSubmit, runSubmit) }
