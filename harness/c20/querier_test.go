package c20

// Part C of C20 (run inside every TestC20Submit case): the multi-node guard of grogu/querier. Every chain query of the
// daemon goes to all configured nodes and keeps the answer with the highest block height; getMaxBlockHeightResponse
// additionally remembers the highest height it has ever accepted (shared by all queries of the daemon) and refuses an
// answer below it ("block height is lower than latest max block height"), so that a lagging node can never show the
// daemon a state older than one it has already seen - e.g. validator prices from before its own last submission.
//
// The real querier.FeedQuerier runs against stub nodes; per call and node the case says: answers at height h, fails
// (transport error) or answers with a non-OK ABCI response. Reference (from the code and its error text): the
// remembered maximum never decreases; a call succeeds iff at least one node answers and the highest answered height is
// >= the remembered maximum; it then returns that highest answer and remembers its height. The remembered value is
// the *atomic.Int64 the daemon hands to the querier, so the check reads it directly.

import (
	"context"
	"fmt"
	"sync/atomic"

	"pgregory.net/rapid"

	abci "github.com/cometbft/cometbft/abci/types"
	"github.com/cometbft/cometbft/libs/bytes"
	rpcclient "github.com/cometbft/cometbft/rpc/client"
	coretypes "github.com/cometbft/cometbft/rpc/core/types"

	"github.com/cosmos/cosmos-sdk/client"
	"github.com/cosmos/cosmos-sdk/codec"
	sdk "github.com/cosmos/cosmos-sdk/types"

	"github.com/bandprotocol/chain/v3/grogu/querier"
	feedstypes "github.com/bandprotocol/chain/v3/x/feeds/types"

	"verif/harness/gen"
	"verif/harness/pbt"
)

// querierCase: Calls[c][n] = what node n does at call c: h > 0 answers at block height h, 0 transport error,
// -1 non-OK ABCI response. Params[c]: the call is QueryParams instead of QueryValidatorPrices (the remembered height
// is shared by all queries).
type querierCase struct {
	Calls  [][]int64 `json:"calls,omitempty"`
	Params []bool    `json:"params,omitempty"`
}

func genQuerier(rt *rapid.T) querierCase {
	q := querierCase{}
	n := gen.OneOf(rt, "qnodes", 1, 2, 2, 2, 2, 3)
	calls := gen.Range(rt, "qcalls", 3, 14)
	freshAt := gen.Uniform(rt, "qfresh", n)
	lag := make([]int64, n)
	for i := range lag {
		if i != freshAt {
			lag[i] = int64(gen.OneOf(rt, "qlag", 0, 1, 1, 2, 3, 6))
		}
	}
	// an outage of the fresh node of at least two calls (the lagging nodes keep answering), in most multi-node cases
	outFrom, outLen := -1, 0
	if n > 1 && gen.Chance(rt, "qoutage", 3, 4) {
		outFrom = gen.Range(rt, "qoutfrom", 1, calls-2)
		outLen = gen.Range(rt, "qoutlen", 2, 4)
	}
	h := int64(gen.Range(rt, "qh0", 8, 60))
	for c := 0; c < calls; c++ {
		h += int64(gen.OneOf(rt, "qdh", 0, 1, 1, 1, 2, 5))
		row := make([]int64, n)
		for i := 0; i < n; i++ {
			row[i] = h - lag[i]
			switch gen.Pick(rt, "qans", 80, 14, 6) {
			case 1:
				row[i] = 0
			case 2:
				row[i] = -1
			}
			if i == freshAt && c >= outFrom && outFrom >= 0 && c < outFrom+outLen {
				row[i] = 0
			}
			if i != freshAt && outFrom >= 0 && c >= outFrom && c < outFrom+outLen && row[i] <= 0 && gen.Chance(rt, "qlagup", 3, 4) {
				row[i] = h - lag[i] // the lagging node is up while the fresh one is down
			}
			if i != freshAt && gen.Chance(rt, "qlagdrift", 1, 6) {
				lag[i] += int64(gen.OneOf(rt, "qdrift", -1, 1, 2))
				if lag[i] < 0 {
					lag[i] = 0
				}
			}
		}
		q.Calls = append(q.Calls, row)
		q.Params = append(q.Params, gen.Chance(rt, "qparams", 1, 4))
	}
	return q
}

type qNode struct {
	rpcclient.RemoteClient
	c   *querierCase
	cur *atomic.Int64
	i   int
	cdc codec.Codec
}

func (n *qNode) Remote() string { return fmt.Sprintf("qnode-%d", n.i) }

func (n *qNode) ABCIQueryWithOptions(_ context.Context, path string, _ bytes.HexBytes, _ rpcclient.ABCIQueryOptions) (*coretypes.ResultABCIQuery, error) {
	c := int(n.cur.Load())
	if c < 0 || c >= len(n.c.Calls) || n.i >= len(n.c.Calls[c]) {
		return nil, fmt.Errorf("no such call")
	}
	h := n.c.Calls[c][n.i]
	switch {
	case h == 0:
		return nil, fmt.Errorf("connection refused")
	case h < 0:
		return &coretypes.ResultABCIQuery{Response: abci.ResponseQuery{Code: 1, Codespace: "sdk", Log: "internal error"}}, nil
	}
	var bz []byte
	var err error
	if path == "/band.feeds.v1beta1.Query/Params" {
		bz, err = n.cdc.Marshal(&feedstypes.QueryParamsResponse{Params: feedstypes.DefaultParams()})
	} else {
		// the content says which state this is: the validator's price record as of height h
		bz, err = n.cdc.Marshal(&feedstypes.QueryValidatorPricesResponse{ValidatorPrices: []feedstypes.ValidatorPrice{{
			SignalPriceStatus: feedstypes.SIGNAL_PRICE_STATUS_AVAILABLE, SignalID: "CS:H-USD", Price: uint64(h), Timestamp: h, BlockHeight: h}}})
	}
	if err != nil {
		return nil, err
	}
	return &coretypes.ResultABCIQuery{Response: abci.ResponseQuery{Height: h, Value: bz}}, nil
}

// runQuerier drives the case through the real FeedQuerier and compares every call with the reference.
func runQuerier(v *pbt.Verdict, q querierCase, clientCtx client.Context, cdc codec.Codec, val sdk.ValAddress) {
	if len(q.Calls) == 0 || len(q.Calls) > 64 {
		return
	}
	n := len(q.Calls[0])
	if n < 1 || n > 4 {
		return
	}
	for _, row := range q.Calls {
		if len(row) != n {
			return
		}
	}
	var cur, maxH atomic.Int64
	var nodes []rpcclient.RemoteClient
	for i := 0; i < n; i++ {
		nodes = append(nodes, &qNode{c: &q, cur: &cur, i: i, cdc: cdc})
	}
	fq := querier.NewFeedQuerier(clientCtx, nodes, &maxH)
	hw := int64(0) // reference: the highest height accepted so far
	var accepted, refusedStale, noAnswer, staleTwice int64
	prevStale := false
	for c, row := range q.Calls {
		cur.Store(int64(c))
		best := int64(0)
		for _, h := range row {
			if h > best {
				best = h
			}
		}
		isParams := c < len(q.Params) && q.Params[c]
		var err error
		got := int64(-1)
		if isParams {
			_, err = fq.QueryParams()
		} else {
			var r *feedstypes.QueryValidatorPricesResponse
			r, err = fq.QueryValidatorPrices(val)
			if err == nil && r != nil && len(r.ValidatorPrices) == 1 {
				got = r.ValidatorPrices[0].BlockHeight
			}
		}
		remembered := maxH.Load()
		switch {
		case best == 0:
			noAnswer++
			prevStale = false
			if err == nil {
				v.Failf("C20/querier-answer-from-nowhere", "call %d: no node answered %v, yet the query succeeded", c, row)
			}
		case best < hw:
			refusedStale++
			if prevStale {
				staleTwice++
			}
			prevStale = true
			if err == nil {
				v.Failf("C20/stale-node-answer-accepted", "call %d: the highest answer %v is at height %d, below the height %d already seen, yet the query succeeded (state of height %d shown to the daemon; nodes per call %v)",
					c, row, best, hw, got, q.Calls[:c+1])
			}
		default:
			accepted++
			prevStale = false
			if err != nil {
				v.Failf("C20/querier-refused-fresh-answer", "call %d: answers %v, highest %d >= height seen %d, but the query failed: %v", c, row, best, hw, err)
			} else if !isParams && got != best {
				v.Failf("C20/querier-wrong-answer", "call %d: answers %v: returned the state of height %d, not of the highest %d", c, row, got, best)
			}
			hw = best
		}
		if remembered < hw && v.Violation == "" {
			v.Failf("C20/querier-max-height-decreased", "call %d: answers %v: remembered max block height is %d after the call, the highest height accepted so far is %d", c, row, remembered, hw)
		}
		if v.Violation != "" {
			break
		}
	}
	v.Count("querier_calls_accepted", accepted)
	v.Count("querier_calls_refused_stale", refusedStale)
	v.Count("querier_calls_no_answer", noAnswer)
	v.Count("querier_stale_refused_twice_in_a_row", staleTwice)
	if n >= 2 {
		v.Class("C:querier-multi-node")
	}
	if refusedStale > 0 {
		v.Class("C:stale-answer-refused")
	}
	if staleTwice > 0 {
		v.Class("C:stale-answer-refused-twice-in-a-row")
	}
}
