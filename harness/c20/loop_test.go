// Package c20 checks property C20: "Grogu submits feed prices when due and only when the chain accepts them".
//
// Part A (this file, TestC20Loop): the real signaller (grogu/signaller, driven through the verif hook
// VerifStep(now)) runs in a closed loop, in VIRTUAL time, against a sim chain with the real feeds module. A
// price-service stub serves generated price streams; every SignalPriceSubmission the signaller hands off is
// wrapped into MsgSubmitSignalPrices{Timestamp: now}, signed by the validator and executed by the real msg
// server in a later block whose time lies in [now-3s, now+latency]. The signaller's view of the chain is served
// by the real feeds gRPC query server on ch.Ctx().
//
// Query faults: each of the daemon's four chain queries (valid validator, params, current feeds, validator prices) can
// fail on its own for a window of ticks: QFaults are windows at drawn steps, QTraps (cyclic, one entry per
// submission) start failing a query on the tick after a batch was handed off and keep it failing until a drawn number
// of ticks after the batch was released, so that e.g. only the validator-prices query is down while the daemon's own
// submission lands. The shipped daemon skips a tick whose queries do not all succeed; such ticks excuse the
// liveness oracle like a price-service outage, and the "must emit" reference is not evaluated for them. The oracle
// for what the daemon does submit is unchanged.
//
// Interval params: governance also raises and cuts MinInterval / MaxInterval / PowerStepThreshold. The chain enforces
// the interval STORED in the current-feeds record until the next recalculation (every CurrentFeedsUpdateInterval
// blocks); a third of the slow-update cases never recalculates within the history ("long gap") and changes these params
// early, so whole chain-enforced intervals elapse while the live params say something else. The liveness oracle
// uses the stored intervals; in addition the CurrentFeeds query answer is compared with the stored record after
// every block (ids, order, power, interval, update stamp; deviation recomputed from the live params as the query
// documents) - signature C20/current-feeds-query.
//
// Submissions may be DELAYED: SubPat entries 3 and 4 keep a batch in flight for that many ticks, also across a block
// in which the chain recalculates the current feeds (batches with delay 0..2 are included in that block at the
// latest). Long delays are used only when every cooldown of the case leaves the slack for them (cooldown <=
// min interval - 16). "Fast update" cases recalculate the feeds every 3..8 blocks and keep re-voting the listed
// signals with new powers, so that a signal's power/interval/deviation changes while a batch with it is in flight. A
// batch that was decided before a recalculation removed one of its signals from the list is refused by the chain
// legitimately (counted as "submission-raced-with-feed-update").
//
// Governance may change the feeds module params in the middle of a history (Gov): a real MsgUpdateParams
// (authority = gov module address) travels through a real proposal (submit tx, yes votes, execution by gov's end
// blocker once the voting period is over), with price moves / status flips scheduled relative to the step at which
// the new params become visible. Every oracle reads the chain's CURRENT params; the daemon polls the params at the
// start of every tick (Start -> updateInternalVariables -> updateParams, before execute decides), so the first tick
// after the block that carried the change must honour it. Only a submission that was decided BEFORE that tick and
// lands after the change may be refused as too early (class "submission-raced-with-param-change").
//
// Part B (submit_test.go, TestC20Submit): bookkeeping of the real submitter (pending set, idle key pool).
package c20

import (
	"fmt"
	"math"
	"math/bits"
	"os"
	"runtime"
	"sort"
	"strings"
	"sync"
	"testing"
	"time"

	"pgregory.net/rapid"

	sdk "github.com/cosmos/cosmos-sdk/types"
	govv1 "github.com/cosmos/cosmos-sdk/x/gov/types/v1"

	bothan "github.com/bandprotocol/bothan/bothan-api/client/go-client/proto/bothan/v1"

	grogucmd "github.com/bandprotocol/chain/v3/cmd/grogu/cmd"
	grogucontext "github.com/bandprotocol/chain/v3/grogu/context"
	"github.com/bandprotocol/chain/v3/grogu/signaller"
	"github.com/bandprotocol/chain/v3/grogu/submitter"
	"github.com/bandprotocol/chain/v3/pkg/logger"
	feedskeeper "github.com/bandprotocol/chain/v3/x/feeds/keeper"
	feedstypes "github.com/bandprotocol/chain/v3/x/feeds/types"
	oracletypes "github.com/bandprotocol/chain/v3/x/oracle/types"

	"verif/harness/gen"
	"verif/harness/pbt"
	"verif/harness/sim"
)

// ---- constants of the statement / shipped configuration ------------------------------------------------

const (
	refTimeBuffer   = 3         // "cooldown + buffer": the shipped buffer is 3 s
	refUrgentOffset = 10        // unavailable prices are held back until 10 s before the deadline (mechanism in the record)
	stmtSlotStart   = 50        // statement: "send slot within 50-80% of the interval"
	stmtSlotEnd     = 80        //
	powerStep       = 1_000_000 // feeds PowerStepThreshold used by the generated chains
	maxDelaySteps   = 2         // a submission lands at most this many polling periods after it was handed off ...
	longDelaySteps  = 4         // ... or this many for the "delayed" ones (only in cases whose cooldowns leave that slack)
	longDelaySlack  = 16        // min interval - cooldown needed for them (buffer 3 + delay 4 + block gap 3 + offset 0.9, with room)
	maxBlockEvery   = 3         // ... plus at most this many seconds until the next block
	maxOffMs        = 900       // block time is at most this far ahead of the step after which it is produced
	minOffMs        = -3000     // and at most TimeBuffer behind
	exactPriceLimit = uint64(1) << 39
	yieldSpins      = 400 // scheduler yields before the harness takes a submission off the hand-off channel
)

// bothan status numbering (== feeds SignalPriceStatus numbering)
const (
	stUnspecified = 0
	stUnsupported = 1
	stUnavailable = 2
	stAvailable   = 3
)

// ---- case ------------------------------------------------------------------------------------------------

type sigSpec struct {
	Factor int    `json:"f"`   // power = Factor*powerStep + Rem  (interval = max(MaxI/Factor, MinI))
	Rem    int64  `json:"rem"` //
	Price  uint64 `json:"p"`   // initial price at the price service
	Status int    `json:"st"`  // initial bothan status
	In     bool   `json:"in"`  // part of the genesis vote
}

type evt struct {
	At    int    `json:"at"`            // step index
	Kind  string `json:"k"`             // dev | exact | small | jump | flip | miss | err | vote
	Sig   int    `json:"s,omitempty"`   // signal index (mod number of signals)
	Dir   int    `json:"dir,omitempty"` // >=0 up, <0 down
	Delta int    `json:"d,omitempty"`   // dev: -1,0,+1 around the threshold
	Frac  int    `json:"fr,omitempty"`  // small: per mille of (threshold-1)
	To    int    `json:"to,omitempty"`  // flip: target status
	Dur   int    `json:"dur,omitempty"` // miss / err: number of steps
	Set   []int  `json:"set,omitempty"` // vote: power factor per signal (0 = not voted)
}

// govChange is one governance change of the feeds params. Zero fields keep the current value.
type govChange struct {
	At       int   `json:"at"`                 // step at which the proposal is handed in (next block)
	Cooldown int64 `json:"cooldown,omitempty"` // new CooldownTime
	Grace    int64 `json:"grace,omitempty"`    // new GracePeriod
	MaxMul   int64 `json:"max_mul,omitempty"`  // new MaxInterval = MinInterval * MaxMul (feed intervals follow at the next feed update)
	MinDev   int64 `json:"min_dev,omitempty"`  // new MinDeviationBasisPoint
	DevMul   int64 `json:"dev_mul,omitempty"`  // new MaxDeviationBasisPoint = (new or current) MinDev * DevMul
	MaxDev   int64 `json:"max_dev,omitempty"`  // new MaxDeviationBasisPoint (absolute; wins over DevMul)
	Quorum   int   `json:"quorum,omitempty"`   // new PriceQuorum: 1 "0.30", 2 "0.5", 3 "1"
	MinMul   int64 `json:"min_mul,omitempty"`  // new MinInterval = the case's MinInterval * MinMul (1..3; never below the case's, the cooldowns rely on it)
	Step     int64 `json:"step,omitempty"`     // new PowerStepThreshold
	Follow   []evt `json:"follow,omitempty"`   // events; At = offset in steps from the first step that sees the new params
}

// query kinds for the fault injection
const (
	qValid = iota
	qParams
	qFeeds
	qPrices
	nQueries
)

var queryName = []string{"valid_validator", "params", "current_feeds", "validator_prices"}

type qFault struct {
	At  int `json:"at"`
	Dur int `json:"dur"`
	Q   int `json:"q"`
}

// qTrap: Q < 0 = none; otherwise query Q fails from the tick after the hand-off of the submission this entry applies to
// until Extra ticks after its release.
type qTrap struct {
	Q     int `json:"q"`
	Extra int `json:"extra,omitempty"`
}

type loopCase struct {
	NVals    int         `json:"nvals"`
	ValIdx   int         `json:"val"`
	PhaseNs  int64       `json:"phase_ns"`
	Steps    int         `json:"steps"`
	MinI     int64       `json:"min_interval"`
	MaxI     int64       `json:"max_interval"`
	Cooldown int64       `json:"cooldown"`
	Grace    int64       `json:"grace"`
	ABTD     int64       `json:"abtd"`
	MinDev   int64       `json:"min_dev"`
	MaxDev   int64       `json:"max_dev"`
	UpdEvery int64       `json:"update_every"`
	MaxFeeds uint64      `json:"max_feeds"`
	Sigs     []sigSpec   `json:"sigs"`
	Events   []evt       `json:"events"`
	BlockPat []int       `json:"block_pat"`         // steps between two blocks (cyclic), each 1..3
	OffPat   []int       `json:"off_pat"`           // block time - step time in ms (cyclic), each in [-3000, 900]
	SubPat   []int       `json:"sub_pat"`           // per submission (cyclic): 0..2 lands after that many steps; 3,4 delayed that many steps (also across a feeds recalculation); -1 fails at once; -2,-3 lost, released after 1,2 steps
	Gov      []govChange `json:"gov,omitempty"`     // governance changes of the feeds params, one proposal at a time, in order of At
	QFaults  []qFault    `json:"qfaults,omitempty"` // windows in which one of the daemon\'s queries fails
	QTraps   []qTrap     `json:"qtraps,omitempty"`  // per submission (cyclic): a query failing around the landing of that submission
}

func genPrice(rt *rapid.T) uint64 {
	if gen.Chance(rt, "paligned", 7, 20) {
		// a multiple of 10000: any whole number of basis points of it is a whole number of price units
		return 10000 * uint64(gen.Range(rt, "pk", 1, 50000))
	}
	switch gen.Pick(rt, "pclass", 25, 35, 15, 20, 5) {
	case 0:
		return uint64(gen.Range(rt, "psmall", 1, 20000))
	case 1:
		return rapid.Uint64Range(100_000, 500_000_000_000).Draw(rt, "pmed")
	case 2:
		return exactPriceLimit - 3 + uint64(gen.Range(rt, "pb", 0, 6)) + uint64(gen.Range(rt, "pbx", 0, 1))*exactPriceLimit/100
	case 3:
		return rapid.Uint64Range(exactPriceLimit, uint64(1)<<62).Draw(rt, "plarge")
	default:
		return uint64(gen.Range(rt, "ptiny", 0, 3))
	}
}

// genDevParams draws Min/MaxDeviationBasisPoint. A feed's threshold is max(MaxDev/powerFactor, MinDev) with power
// factors 1..12, so uniform draws over 1..3000 give thresholds all over the range, most of them not round numbers.
func genDevParams(rt *rapid.T) (minDev, maxDev int64) {
	switch gen.Pick(rt, "devk", 15, 25, 45, 15) {
	case 0: // the round values of the shipped configuration and of the existing tests
		minDev = gen.OneOf[int64](rt, "mindev", 1, 5, 50, 50, 100)
		maxDev = minDev * gen.OneOf[int64](rt, "devmul", 1, 2, 6, 30)
	case 1:
		minDev = int64(gen.Range(rt, "mindevu", 50, 3000))
	case 2:
		minDev = int64(gen.Range(rt, "mindevlow", 1, 200))
	default:
		minDev = gen.OneOf[int64](rt, "mindevb", 1, 49, 50, 51, 2999, 3000)
	}
	if maxDev == 0 {
		switch gen.Pick(rt, "maxdevk", 12, 63, 25) {
		case 0:
			maxDev = minDev // every feed has the threshold MinDev
		case 1:
			maxDev = int64(gen.Range(rt, "maxdevu", int(minDev), 3000))
		default:
			maxDev = 3000
		}
	}
	if maxDev > 3000 {
		maxDev = 3000
	}
	if maxDev < minDev {
		maxDev = minDev
	}
	return
}

func genLoop(rt *rapid.T) loopCase {
	c := loopCase{}
	c.NVals = rapid.IntRange(1, 5).Draw(rt, "nvals")
	c.ValIdx = gen.Uniform(rt, "val", c.NVals)
	switch gen.Uniform(rt, "phasek", 5) {
	case 0:
		c.PhaseNs = 0
	case 1:
		c.PhaseNs = 1
	case 2:
		c.PhaseNs = 999_999_999
	default:
		c.PhaseNs = int64(gen.Range(rt, "phase_ms", 0, 999)) * 1_000_000
	}
	c.Steps = gen.Range(rt, "steps", 200, 600)
	c.MinI = gen.OneOf[int64](rt, "mini", 60, 60, 60, 61, 75, 90, 120)
	c.MaxI = c.MinI * gen.OneOf[int64](rt, "maxmul", 1, 2, 3, 5, 10)
	switch gen.Pick(rt, "cdk", 40, 20, 20, 20) {
	case 0:
		c.Cooldown = int64(gen.Range(rt, "cd", 1, int(c.MinI/2)))
	case 1:
		c.Cooldown = c.MinI / 2
	case 2:
		c.Cooldown = c.MinI - 10
	default:
		c.Cooldown = int64(gen.Range(rt, "cd2", int(c.MinI/2), int(c.MinI-10)))
	}
	c.Grace = gen.OneOf[int64](rt, "grace", 10, 15, 30, 30, 60)
	c.ABTD = gen.OneOf[int64](rt, "abtd", 10, 30, 60, 60)
	c.MinDev, c.MaxDev = genDevParams(rt)
	c.UpdEvery = int64(gen.Range(rt, "upd", 15, 150))
	fastUpd := gen.Chance(rt, "fastupd", 3, 10)
	if fastUpd {
		c.UpdEvery = int64(gen.Range(rt, "updfast", 3, 8)) // the chain recalculates the current feeds every few blocks
		if c.Cooldown > c.MinI-longDelaySlack {
			c.Cooldown = c.MinI - longDelaySlack // leave room for delayed submissions
		}
	}
	if !fastUpd && gen.Chance(rt, "longgap", 1, 3) {
		c.UpdEvery = 5000 // no recalculation of the current feeds within the history: stored intervals stay in force
	}
	n := gen.OneOf(rt, "nsig", 1, 2, 3, 3, 4, 4, 5, 6)
	anyIn := false
	for i := 0; i < n; i++ {
		s := sigSpec{
			Factor: gen.Range(rt, "factor", 1, 12),
			Rem:    gen.OneOf[int64](rt, "rem", 0, 0, 1, 999_999),
			Price:  genPrice(rt),
			Status: gen.OneOf(rt, "st0", stAvailable, stAvailable, stAvailable, stAvailable, stAvailable, stUnavailable, stUnsupported),
			In:     gen.Chance(rt, "in", 4, 5),
		}
		anyIn = anyIn || s.In
		c.Sigs = append(c.Sigs, s)
	}
	if !anyIn {
		c.Sigs[0].In = true
	}
	c.MaxFeeds = 300
	if !fastUpd && gen.Chance(rt, "fewfeeds", 1, 6) {
		c.MaxFeeds = uint64(gen.Range(rt, "maxfeeds", 1, n))
	}
	ne := rapid.IntRange(12, 60).Draw(rt, "nevents")
	for i := 0; i < ne; i++ {
		e := evt{At: gen.Range(rt, "at", 0, c.Steps-1), Sig: gen.Uniform(rt, "esig", n)}
		if gen.Chance(rt, "edir", 1, 2) {
			e.Dir = -1
		}
		switch gen.Pick(rt, "ekind", 25, 10, 5, 22, 10, 3, 10, 35) {
		case 7:
			e.Kind = "exact"
			e.Delta = gen.OneOf(rt, "xdelta", 0, 0, 0, 0, 0, -1, 1)
		case 0:
			e.Kind = "dev"
			e.Delta = gen.OneOf(rt, "delta", -1, 0, 0, 0, 1)
		case 1:
			e.Kind = "small"
			e.Frac = gen.Range(rt, "frac", 0, 1000)
		case 2:
			e.Kind = "jump"
		case 3:
			e.Kind = "flip"
			e.To = gen.OneOf(rt, "to", stAvailable, stAvailable, stAvailable, stUnavailable, stUnavailable, stUnsupported, stUnspecified)
		case 4:
			e.Kind = "miss"
			e.Dur = gen.OneOf(rt, "mdur", 1, 2, 5, 5, 12, 40, 90)
		case 5:
			e.Kind = "err"
			e.Dur = gen.OneOf(rt, "edur", 1, 1, 2, 3, 8)
		default:
			e.Kind = "vote"
			for j := 0; j < n; j++ {
				f := 0
				if gen.Chance(rt, "vin", 3, 4) {
					f = gen.Range(rt, "vfactor", 1, 12)
				}
				e.Set = append(e.Set, f)
			}
		}
		c.Events = append(c.Events, e)
	}
	// every signal gets moves of exactly its threshold (two-phase, see applyEvent "exact"), spread over the history
	for i := 0; i < n; i++ {
		for j, m := 0, gen.Range(rt, "nexact", 1, 3); j < m; j++ {
			e := evt{At: gen.Range(rt, "xat", 0, c.Steps-1), Sig: i, Kind: "exact", Delta: gen.OneOf(rt, "xd", 0, 0, 0, 0, 0, -1, 1)}
			if gen.Chance(rt, "xdir", 1, 2) {
				e.Dir = -1
			}
			c.Events = append(c.Events, e)
		}
	}
	if fastUpd {
		// the voter keeps re-voting the listed signals with new powers: at the next recalculation their power, interval
		// and deviation change while they stay listed
		for st := gen.Range(rt, "rv0", 3, 12); st < c.Steps; st += gen.Range(rt, "rvstep", 4, 14) {
			e := evt{At: st, Kind: "vote"}
			for j := 0; j < n; j++ {
				f := 0
				if c.Sigs[j].In || gen.Chance(rt, "rvin", 1, 6) {
					f = gen.Range(rt, "rvfactor", 1, 12)
				}
				e.Set = append(e.Set, f)
			}
			c.Events = append(c.Events, e)
		}
	}
	sort.SliceStable(c.Events, func(i, j int) bool { return c.Events[i].At < c.Events[j].At })
	for i, k := 0, rapid.IntRange(1, 6).Draw(rt, "nblockpat"); i < k; i++ {
		c.BlockPat = append(c.BlockPat, gen.OneOf(rt, "blockevery", 1, 1, 1, 2, 2, 3))
	}
	for i, k := 0, rapid.IntRange(1, 6).Draw(rt, "noffpat"); i < k; i++ {
		c.OffPat = append(c.OffPat, gen.OneOf(rt, "off", -3000, -3000, -2999, -2000, -1000, -1, 0, 400, 900))
	}
	for i, k := 0, rapid.IntRange(1, 8).Draw(rt, "nsubpat"); i < k; i++ {
		if fastUpd || gen.Chance(rt, "longsub", 1, 4) {
			c.SubPat = append(c.SubPat, gen.OneOf(rt, "sublong", 0, 0, 0, 1, 2, 3, 3, 3, 4, 4, 4, 4, -1, -2))
			continue
		}
		c.SubPat = append(c.SubPat, gen.OneOf(rt, "sub", 0, 0, 0, 0, 0, 0, 0, 0, 0, 0, 1, 1, 1, 1, 1, 2, 2, 2, -1, -1, -2, -3))
	}
	if c.SubPat[0] < 0 {
		c.SubPat[0] = 0 // at least one entry of the cycle gets through
	}
	genGov(rt, &c)
	if gen.Chance(rt, "qfaults", 2, 5) {
		for i, nf := 0, gen.Range(rt, "nqfaults", 0, 4); i < nf; i++ {
			c.QFaults = append(c.QFaults, qFault{At: gen.Range(rt, "qfat", 0, c.Steps-1), Dur: gen.OneOf(rt, "qfdur", 1, 1, 2, 3, 6), Q: gen.Pick(rt, "qfq", 15, 15, 20, 50)})
		}
		// traps around the daemon's own submissions: mostly the validator-prices query, down until after the release
		for i, nt := 0, gen.Range(rt, "nqtraps", 2, 7); i < nt; i++ {
			t := qTrap{Q: -1}
			if gen.Chance(rt, "qtrap", 1, 2) {
				t = qTrap{Q: gen.Pick(rt, "qtq", 8, 8, 14, 70), Extra: gen.OneOf(rt, "qtextra", 0, 1, 1, 2, 3)}
			}
			c.QTraps = append(c.QTraps, t)
		}
	}
	return c
}

const govVoting = 4 * time.Second // voting period of the generated chains

// genGov draws the governance changes of the feeds params. Half of the cases have none. A cooldown raise is followed
// by a burst of threshold moves / status flips on all signals, so that right after the change some signal has a reason
// to be submitted that the old cooldown would allow and the new one does not.
func genGov(rt *rapid.T, c *loopCase) {
	longGap := c.UpdEvery >= 1000
	if !longGap && !gen.Chance(rt, "gov", 11, 20) {
		return
	}
	n := len(c.Sigs)
	cur := c.Cooldown
	maxCd := c.MinI - 10
	if c.UpdEvery <= 8 {
		maxCd = c.MinI - longDelaySlack // fast-update cases keep the slack for delayed submissions
	}
	if cur > maxCd {
		maxCd = cur
	}
	at := 0
	for g, ng := 0, gen.OneOf(rt, "ngov", 1, 1, 1, 2, 2, 3); g < ng; g++ {
		lo := at + 15
		hi := c.Steps - 40
		if lo > hi {
			break
		}
		ch := govChange{At: gen.Range(rt, "gat", lo, hi)}
		kind := gen.Pick(rt, "gkind", 44, 18, 7, 0, 8, 5, 18)
		if longGap && g == 0 {
			// early change of the interval params, long before any recalculation
			ch.At = gen.Range(rt, "gatearly", 15, 60)
			kind = 6
		}
		at = ch.At + 25
		if kind == 0 && cur+1 > maxCd {
			kind = 1
		}
		if kind == 1 && cur <= 1 {
			kind = 0
		}
		raise := false
		switch kind {
		case 0: // cooldown up
			switch gen.Pick(rt, "upk", 20, 25, 55) {
			case 0:
				ch.Cooldown = cur + int64(gen.OneOf(rt, "upsmall", 1, 3, 4, 5))
			case 1:
				ch.Cooldown = maxCd
			default:
				ch.Cooldown = int64(gen.Range(rt, "upto", int(cur+1), int(maxCd)))
			}
			if ch.Cooldown > maxCd {
				ch.Cooldown = maxCd
			}
			raise = true
		case 1: // cooldown down
			ch.Cooldown = int64(gen.Range(rt, "downto", 1, int(cur-1)))
			if gen.Chance(rt, "downsmall", 1, 4) {
				ch.Cooldown = cur - int64(gen.OneOf(rt, "downby", 1, 3, 4))
				if ch.Cooldown < 1 {
					ch.Cooldown = 1
				}
			}
		case 2:
			ch.Grace = gen.OneOf[int64](rt, "ggrace", 10, 15, 30, 60)
		case 6: // the params feed intervals are computed from (in force at the next recalculation of the current feeds)
			switch gen.Pick(rt, "ikind", 35, 35, 15, 15) {
			case 0:
				ch.MaxMul = gen.OneOf[int64](rt, "gmaxmul", 1, 2, 3, 5, 10, 10)
				if c.MaxI >= 3*c.MinI && gen.Chance(rt, "gmaxcut", 1, 2) {
					ch.MaxMul = gen.OneOf[int64](rt, "gmaxmulcut", 1, 1, 2) // a cut: the live params give shorter intervals than the stored ones
				}
			case 1:
				ch.MinMul = gen.OneOf[int64](rt, "gminmul", 1, 2, 2, 3, 3)
			case 2:
				ch.Step = gen.OneOf[int64](rt, "gstep", 500_000, 1_000_000, 2_000_000, 2_000_000)
			default:
				ch.MinMul = gen.OneOf[int64](rt, "gminmul2", 1, 2, 3)
				ch.MaxMul = gen.OneOf[int64](rt, "gmaxmul2", 1, 2, 5, 10)
				if gen.Chance(rt, "gstep2", 1, 2) {
					ch.Step = gen.OneOf[int64](rt, "gstep3", 500_000, 1_000_000, 2_000_000)
				}
			}
		case 3:
			ch.MaxMul = gen.OneOf[int64](rt, "gmaxmul", 1, 2, 3, 5, 10)
		case 4:
			ch.MinDev, ch.MaxDev = genDevParams(rt)
		default:
			ch.Quorum = gen.Range(rt, "gquorum", 1, 3)
		}
		if kind >= 2 && gen.Chance(rt, "alsocd", 1, 3) && cur+4 <= maxCd { // several fields in one proposal
			ch.Cooldown = int64(gen.Range(rt, "alsoto", int(cur+4), int(maxCd)))
			raise = true
		}
		span := 12
		if ch.Cooldown > 0 {
			span = int(ch.Cooldown) + 12
			cur = ch.Cooldown
		}
		nf := gen.Range(rt, "nfollow", 0, 3)
		if raise {
			nf = gen.Range(rt, "nburst", 2*n+2, 4*n+6)
		} else if ch.Cooldown > 0 || ch.MinDev > 0 {
			nf = gen.Range(rt, "nfollow2", n, 2*n+2)
		}
		for i := 0; i < nf; i++ {
			e := evt{At: gen.Range(rt, "foff", 0, span), Sig: i % n}
			if gen.Chance(rt, "fdir", 1, 2) {
				e.Dir = -1
			}
			switch gen.Pick(rt, "fkind", 40, 20, 8, 32) {
			case 3:
				e.Kind = "exact"
				e.Delta = gen.OneOf(rt, "fxdelta", 0, 0, 0, 0, -1, 1)
			case 0:
				e.Kind = "dev"
				e.Delta = gen.OneOf(rt, "fdelta", 0, 0, 1)
			case 1:
				e.Kind = "flip"
				e.To = gen.OneOf(rt, "fto", stAvailable, stAvailable, stUnsupported, stUnavailable)
			default:
				e.Kind = "jump"
			}
			ch.Follow = append(ch.Follow, e)
		}
		sort.SliceStable(ch.Follow, func(i, j int) bool { return ch.Follow[i].At < ch.Follow[j].At })
		c.Gov = append(c.Gov, ch)
		if raise && gen.Chance(rt, "preburst", 1, 2) {
			// threshold moves while the proposal is on its way (voting period + 2..3 blocks), so that a submission may
			// be in flight at the moment the raise is committed
			for st := ch.At + 2; st <= ch.At+16 && st < c.Steps; st += gen.Range(rt, "prestep", 1, 3) {
				e := evt{At: st, Kind: "dev", Sig: gen.Uniform(rt, "presig", n)}
				if gen.Chance(rt, "predir", 1, 2) {
					e.Dir = -1
				}
				c.Events = append(c.Events, e)
			}
		}
	}
	sort.SliceStable(c.Events, func(i, j int) bool { return c.Events[i].At < c.Events[j].At })
}

// sanitize makes a hand-edited / replayed case executable and keeps it inside the stated preconditions.
func (c *loopCase) sanitize() {
	clampI := func(x *int, lo, hi int) {
		if *x < lo {
			*x = lo
		}
		if *x > hi {
			*x = hi
		}
	}
	clamp := func(x *int64, lo, hi int64) {
		if *x < lo {
			*x = lo
		}
		if *x > hi {
			*x = hi
		}
	}
	clampI(&c.NVals, 1, 8)
	if c.ValIdx < 0 {
		c.ValIdx = 0
	}
	c.ValIdx %= c.NVals
	clamp(&c.PhaseNs, 0, 999_999_999)
	clampI(&c.Steps, 1, 2000)
	clamp(&c.MinI, 60, 3600)
	clamp(&c.MaxI, c.MinI, 36000)
	clamp(&c.Cooldown, 1, c.MinI-10)
	clamp(&c.Grace, 10, 600)
	clamp(&c.ABTD, 10, 600)
	clamp(&c.MinDev, 1, 3000)
	clamp(&c.MaxDev, c.MinDev, 3000)
	clamp(&c.UpdEvery, 2, 100000)
	if c.MaxFeeds < 1 {
		c.MaxFeeds = 1
	}
	if len(c.Sigs) == 0 {
		c.Sigs = []sigSpec{{Factor: 1, Price: 10000, Status: stAvailable, In: true}}
	}
	if len(c.Sigs) > 12 {
		c.Sigs = c.Sigs[:12]
	}
	for i := range c.Sigs {
		clampI(&c.Sigs[i].Factor, 1, 12)
		clamp(&c.Sigs[i].Rem, 0, powerStep-1)
		clampI(&c.Sigs[i].Status, 0, 3)
		if c.Sigs[i].Price > uint64(1)<<62 {
			c.Sigs[i].Price = uint64(1) << 62
		}
	}
	if len(c.BlockPat) == 0 {
		c.BlockPat = []int{1}
	}
	for i := range c.BlockPat {
		clampI(&c.BlockPat[i], 1, maxBlockEvery)
	}
	if len(c.OffPat) == 0 {
		c.OffPat = []int{0}
	}
	for i := range c.OffPat {
		clampI(&c.OffPat[i], minOffMs, maxOffMs)
	}
	if len(c.SubPat) == 0 {
		c.SubPat = []int{0}
	}
	for i := range c.SubPat {
		clampI(&c.SubPat[i], -3, longDelaySteps)
	}
	if len(c.QFaults) > 16 {
		c.QFaults = c.QFaults[:16]
	}
	for i := range c.QFaults {
		clampI(&c.QFaults[i].Dur, 0, 8)
		clampI(&c.QFaults[i].Q, 0, nQueries-1)
	}
	if len(c.QTraps) > 16 {
		c.QTraps = c.QTraps[:16]
	}
	for i := range c.QTraps {
		clampI(&c.QTraps[i].Q, -1, nQueries-1)
		clampI(&c.QTraps[i].Extra, 0, 4)
	}
	if len(c.Gov) > 6 {
		c.Gov = c.Gov[:6]
	}
	for i := range c.Gov {
		g := &c.Gov[i]
		if g.At < 0 {
			g.At = 0
		}
		if g.Cooldown != 0 {
			clamp(&g.Cooldown, 1, c.MinI-10)
		}
		if g.Grace != 0 {
			clamp(&g.Grace, 10, 600)
		}
		if g.MaxMul != 0 {
			clamp(&g.MaxMul, 1, 10)
		}
		if g.MinMul != 0 {
			clamp(&g.MinMul, 1, 3)
		}
		if g.Step != 0 {
			clamp(&g.Step, 250_000, 4_000_000)
		}
		if g.MinDev != 0 {
			clamp(&g.MinDev, 1, 3000)
		}
		if g.DevMul != 0 {
			clamp(&g.DevMul, 1, 30)
		}
		if g.MaxDev != 0 {
			clamp(&g.MaxDev, 1, 3000)
		}
		clampI(&g.Quorum, 0, 3)
		if len(g.Follow) > 64 {
			g.Follow = g.Follow[:64]
		}
		for j := range g.Follow {
			clampI(&g.Follow[j].At, 0, 600)
		}
	}
}

// shipped reads the defaults of the `grogu run` flags (cmd/grogu/cmd/run.go), i.e. the shipped timing
// configuration the statement refers to, from the production command definition.
type shippedCfg struct {
	SlotStart, SlotOffset, MaxTry uint64
	OK                            bool
}

var (
	shippedOnce sync.Once
	shippedVal  shippedCfg
)

func shipped() shippedCfg {
	shippedOnce.Do(func() {
		defer func() { _ = recover() }()
		fl := grogucmd.RunCmd(&grogucontext.Context{}).Flags()
		a, e1 := fl.GetUint64("distribution-start-pct")
		b, e2 := fl.GetUint64("distribution-offset-pct")
		m, e3 := fl.GetUint64("max-try")
		shippedVal = shippedCfg{SlotStart: a, SlotOffset: b, MaxTry: m, OK: e1 == nil && e2 == nil && e3 == nil && b > 0}
	})
	return shippedVal
}

// ---- stubs -------------------------------------------------------------------------------------------------

func silentLogger() *logger.Logger {
	return logger.NewLogger(func(_, _ string) bool { return true })
}

func sigID(i int) string { return fmt.Sprintf("CS:S%d-USD", i) }

type svcSig struct {
	status       int
	price        uint64
	missingUntil int
}

// priceSvc is the price-service (bothan) stub.
type priceSvc struct {
	mu       sync.Mutex
	sigs     map[string]*svcSig
	order    []string
	errUntil int
	step     int
	calls    int64
	priced   chan struct{} // signalled (non-blocking) whenever GetPrices returns
}

func (p *priceSvc) served(id string) (status int, price uint64, ok bool) {
	if p.step < p.errUntil {
		return 0, 0, false
	}
	s := p.sigs[id]
	if s == nil || p.step < s.missingUntil || s.status == stUnspecified {
		return 0, 0, false
	}
	if s.status != stAvailable {
		return s.status, 0, true
	}
	return s.status, s.price, true
}

func (p *priceSvc) GetPrices(ids []string) (*bothan.GetPricesResponse, error) {
	p.mu.Lock()
	defer p.mu.Unlock()
	defer func() {
		if p.priced != nil {
			select {
			case p.priced <- struct{}{}:
			default:
			}
		}
	}()
	p.calls++
	if p.step < p.errUntil {
		return nil, fmt.Errorf("price service unavailable")
	}
	res := &bothan.GetPricesResponse{Uuid: fmt.Sprintf("uuid-%d", p.step)}
	for _, id := range ids {
		s := p.sigs[id]
		if s == nil || p.step < s.missingUntil {
			continue
		}
		// the raw record is returned as the service has it (a non-available record may carry a stale price;
		// STATUS_UNSPECIFIED is something the daemon cannot convert)
		res.Prices = append(res.Prices, &bothan.Price{SignalId: id, Price: s.price, Status: bothan.Status(s.status)})
	}
	return res, nil
}
func (p *priceSvc) GetInfo() (*bothan.GetInfoResponse, error)            { return &bothan.GetInfoResponse{}, nil }
func (p *priceSvc) UpdateRegistry(ipfsHash string, version string) error { return nil }
func (p *priceSvc) PushMonitoringRecords(uuid, txHash string) error      { return nil }

// chainQuerier serves the signaller's FeedQuerier from the real feeds gRPC query server on the last committed state.
type chainQuerier struct {
	mu   sync.Mutex
	ch   *sim.Chain
	qs   feedstypes.QueryServer
	fail [nQueries]bool // set by the harness before a tick: this query answers with a transport error
	hits [nQueries]int  // failures served
}

func (q *chainQuerier) down(i int) error {
	if q.fail[i] {
		q.hits[i]++
		return fmt.Errorf("rpc error: code = Unavailable desc = connection refused (injected, %s)", queryName[i])
	}
	return nil
}

func (q *chainQuerier) QueryValidValidator(val sdk.ValAddress) (*feedstypes.QueryValidValidatorResponse, error) {
	q.mu.Lock()
	defer q.mu.Unlock()
	if err := q.down(qValid); err != nil {
		return nil, err
	}
	return q.qs.ValidValidator(q.ch.Ctx(), &feedstypes.QueryValidValidatorRequest{Validator: val.String()})
}

func (q *chainQuerier) QueryValidatorPrices(val sdk.ValAddress) (*feedstypes.QueryValidatorPricesResponse, error) {
	q.mu.Lock()
	defer q.mu.Unlock()
	if err := q.down(qPrices); err != nil {
		return nil, err
	}
	return q.qs.ValidatorPrices(q.ch.Ctx(), &feedstypes.QueryValidatorPricesRequest{Validator: val.String()})
}

func (q *chainQuerier) QueryParams() (*feedstypes.QueryParamsResponse, error) {
	q.mu.Lock()
	defer q.mu.Unlock()
	if err := q.down(qParams); err != nil {
		return nil, err
	}
	return q.qs.Params(q.ch.Ctx(), &feedstypes.QueryParamsRequest{})
}

func (q *chainQuerier) QueryCurrentFeeds() (*feedstypes.QueryCurrentFeedsResponse, error) {
	q.mu.Lock()
	defer q.mu.Unlock()
	if err := q.down(qFeeds); err != nil {
		return nil, err
	}
	return q.qs.CurrentFeeds(q.ch.Ctx(), &feedstypes.QueryCurrentFeedsRequest{})
}

// ---- reference arithmetic --------------------------------------------------------------------------------------

// mulDivFloor returns floor(a*b/d) and whether it overflowed uint64 (d > 0).
func mulDivFloor(a, b, d uint64) (q uint64, overflow bool) {
	hi, lo := bits.Mul64(a, b)
	if hi >= d {
		return math.MaxUint64, true
	}
	q, _ = bits.Div64(hi, lo, d)
	return q, false
}

// mulDivCeil returns ceil(a*b/d) (saturating).
func mulDivCeil(a, b, d uint64) uint64 {
	hi, lo := bits.Mul64(a, b)
	if hi >= d {
		return math.MaxUint64
	}
	q, r := bits.Div64(hi, lo, d)
	if r != 0 && q != math.MaxUint64 {
		q++
	}
	return q
}

type tri int

const (
	triNo tri = iota
	triBand
	triYes
)

// refDeviated: has the price moved by at least devBps basis points of the old price? Exact integer arithmetic;
// for prices >= 2^39 the daemon's float64 computation is given a +-1 bps band.
func refDeviated(devBps int64, oldP, newP uint64) tri {
	if oldP == 0 {
		if newP != 0 {
			return triYes
		}
		return triNo
	}
	diff := newP - oldP
	if oldP > newP {
		diff = oldP - newP
	}
	q, over := mulDivFloor(diff, 10000, oldP)
	if over || q > math.MaxInt64/2 {
		return triYes
	}
	bps := int64(q)
	if oldP < exactPriceLimit && newP < exactPriceLimit {
		if bps >= devBps {
			return triYes
		}
		return triNo
	}
	switch {
	case bps >= devBps+1:
		return triYes
	case bps <= devBps-2:
		return triNo
	default:
		return triBand
	}
}

// refInterval: the feed interval the docs define for a power under given params (0 = not a feed).
func refInterval(power, step, minI, maxI int64) int64 {
	if step <= 0 || power < step {
		return 0
	}
	iv := maxI / (power / step)
	if iv < minI {
		iv = minI
	}
	return iv
}

func refDeviationBps(power, step, minDev, maxDev int64) int64 {
	if step <= 0 || power < step {
		return 0
	}
	d := maxDev / (power / step)
	if d < minDev {
		d = minDev
	}
	return d
}

// ---- run ---------------------------------------------------------------------------------------------------

type flight struct {
	trapQ        int // query kept failing around this submission (-1 none)
	trapExtra    int
	long         bool // delayed 3..4 ticks; not pulled into a feeds-recalculation block
	emitFeedSet  int  // number of changes of the current-feeds id set when the daemon decided
	prices       []feedstypes.SignalPrice
	emitEpoch    int   // number of param changes the chain had gone through when the daemon decided
	emitCooldown int64 // CooldownTime the daemon could see when it decided
	emitStep     int
	emitNow      time.Time
	landStep     int
	lost         bool
	releaseStep  int
}

type handoff struct {
	sub      submitter.SignalPriceSubmission
	unmarked []string
	instant  bool
}

func sortedKeys(m map[string]bool) []string {
	out := make([]string, 0, len(m))
	for k := range m {
		out = append(out, k)
	}
	sort.Strings(out)
	return out
}

func runLoop(c loopCase) *pbt.Verdict {
	v := &pbt.Verdict{}
	c.sanitize()
	nsig := len(c.Sigs)

	// ---- chain ----
	voter := sim.NewAccount("val0")
	var vote feedstypes.Vote
	vote.Voter = voter.Addr.String()
	for i, s := range c.Sigs {
		if s.In {
			vote.Signals = append(vote.Signals, feedstypes.Signal{ID: sigID(i), Power: int64(s.Factor)*powerStep + s.Rem})
		}
	}
	fp := feedstypes.DefaultParams()
	fp.AllowableBlockTimeDiscrepancy = c.ABTD
	fp.GracePeriod = c.Grace
	fp.MinInterval = c.MinI
	fp.MaxInterval = c.MaxI
	fp.PowerStepThreshold = powerStep
	fp.MaxCurrentFeeds = c.MaxFeeds
	fp.CooldownTime = c.Cooldown
	fp.MinDeviationBasisPoint = c.MinDev
	fp.MaxDeviationBasisPoint = c.MaxDev
	fp.CurrentFeedsUpdateInterval = c.UpdEvery
	op := oracletypes.DefaultParams()
	op.InactivePenaltyDuration = uint64(5 * time.Second)
	vals := make([]sim.ValSpec, c.NVals)
	for i := range vals {
		vals[i].Tokens = 10_000_000
	}
	vals[0].Tokens = 1_000_000_000
	ch, err := sim.New(sim.Config{NumAccounts: 1, Validators: vals, Feeds: &fp, Oracle: &op, FeedsVotes: []feedstypes.Vote{vote}, MintOff: true, GovVoting: govVoting}, 0)
	if err != nil {
		v.Failf("C20/harness-setup", "sim.New: %v", err)
		return v
	}
	defer ch.Close()
	me := ch.Vals[c.ValIdx]
	valAddr := me.Val
	res, err := ch.Block([][]byte{ch.SignTx(me, oracletypes.NewMsgActivate(valAddr))}, time.Second)
	if err != nil || res.Resp.TxResults[0].Code != 0 {
		v.Failf("C20/harness-setup", "activate failed: %v", err)
		return v
	}
	fk, orak := ch.App.FeedsKeeper, ch.App.OracleKeeper

	// ---- daemon ----
	svc := &priceSvc{sigs: map[string]*svcSig{}}
	for i, s := range c.Sigs {
		svc.sigs[sigID(i)] = &svcSig{status: s.Status, price: s.Price}
		svc.order = append(svc.order, sigID(i))
	}
	pending := &sync.Map{}
	var sg *signaller.Signaller
	// The hand-off channel is unbuffered and the harness itself plays the submitter's receiving end: the step runs
	// in its own goroutine, the harness waits until the step has fetched its prices, yields for a while so that
	// the step (if it submits) is parked in the channel send, and only then receives. At that moment everything
	// that happens-before the send (in the shipped code: marking the signals pending) is visible.
	submitCh := make(chan submitter.SignalPriceSubmission)
	stepDone := make(chan string, 1)
	svc.priced = make(chan struct{}, 1)
	runStep := func(now time.Time, instantFail bool) (status string, h *handoff) {
		select {
		case <-svc.priced:
		default:
		}
		go func() {
			defer func() {
				if r := recover(); r != nil {
					stepDone <- fmt.Sprintf("panic: %v", r)
				}
			}()
			stepDone <- sg.VerifStep(now)
		}()
		select {
		case status = <-stepDone:
			return status, nil
		case <-svc.priced:
		}
		for i := 0; i < yieldSpins; i++ {
			select {
			case status = <-stepDone:
				return status, nil
			default:
			}
			runtime.Gosched()
		}
		select {
		case status = <-stepDone:
			return status, nil
		case sub := <-submitCh:
			h = &handoff{sub: sub, instant: instantFail}
			for _, p := range sub.SignalPrices {
				if _, marked := pending.Load(p.SignalID); !marked {
					h.unmarked = append(h.unmarked, p.SignalID)
				}
			}
			if instantFail {
				// a submitter that fails at once (e.g. key / account lookup error) runs its deferred removePending now
				for _, p := range sub.SignalPrices {
					pending.LoadAndDelete(p.SignalID)
				}
			}
			return <-stepDone, h
		}
	}
	fq := &chainQuerier{ch: ch, qs: feedskeeper.NewQueryServer(fk)}
	sc := shipped()
	if !sc.OK {
		v.Failf("C20/harness-setup", "cannot read the shipped grogu flag defaults")
		return v
	}
	sg = signaller.New(fq, svc, time.Second, submitCh, silentLogger(), valAddr, pending, sc.SlotStart, sc.SlotOffset)
	if sg.VerifInterval() != time.Second {
		v.Failf("C20/harness-setup", "polling period is not 1s")
		return v
	}

	// ---- bookkeeping of the harness ----
	origin := ch.Time.Add(time.Second) // virtual real-time origin (whole seconds)
	nowAt := func(k int) time.Time {
		return origin.Add(time.Duration(k)*time.Second + time.Duration(c.PhaseNs))
	}
	inFlight := map[string]bool{}
	var flights []*flight
	lastExcuse := map[string]int{} // last step at which the service did not serve s (while required) or a submission with s was lost
	landedStep := map[string]int{} // step after which the last accepted submission of s was committed
	enteredStep := map[string]int{}
	inFeed := map[string]bool{}
	activatedStep := -1
	for _, f := range fk.GetCurrentFeeds(ch.Ctx()).Feeds {
		inFeed[f.SignalID] = true
		enteredStep[f.SignalID] = -1
	}
	getExcuse := func(s string) int {
		if x, ok := lastExcuse[s]; ok {
			return x
		}
		return -1000000
	}
	var pendingVotes []*feedstypes.MsgVote
	// governance: one proposal at a time. idle -> (step >= At) submit tx in the next block -> yes votes in the block
	// after -> executed by gov's end blocker in the first block at or after the end of the voting period.
	const (
		govIdle = iota
		govSubmit
		govVote
		govWait
	)
	govIdx, govState, govPID := 0, govIdle, uint64(0)
	paramEpoch := 0              // number of param changes committed so far
	dynEvents := map[int][]evt{} // follow-up events of a change, keyed by absolute step
	prevCooldown := int64(-1)    // CooldownTime before the latest raise (-1: no raise so far)
	var nParamChanges, nCooldownUp, nCooldownDown, nRaced, nWaitRaised, nWaitRaisedDev, nEarlierLowered, nGovFollow int64
	var nOtherParam int64
	// delayed submissions (3..4 ticks) need the slack: every cooldown of the case <= min interval - longDelaySlack
	allowLong := c.Cooldown <= c.MinI-longDelaySlack
	for _, g := range c.Gov {
		if g.Cooldown > c.MinI-longDelaySlack {
			allowLong = false
		}
	}
	maxLatency := time.Duration(maxDelaySteps+maxBlockEvery) * time.Second
	if allowLong {
		maxLatency = time.Duration(longDelaySteps+maxBlockEvery) * time.Second
	}
	type feedView struct{ power, interval, dev int64 }
	daemonView := map[string]feedView{} // the current feeds as the daemon saw them at its last successful poll
	feedSetEpoch := 0                   // number of changes of the set of current-feed ids
	var nLongSubs, nRecalcInFlight, nRecalcSeen, nRacedFeed int64
	qFailUntil := [nQueries]int{-1, -1, -1, -1} // a trap keeps the query failing up to and including this step
	var nQFailTicks, nPricesDownAtLanding, nPricesDownAtAcceptedLanding, nTraps int64
	staleSince := map[string]int{} // listed signal -> step since which its stored interval differs from what the live params give
	var nStaleSmallerSteps int64
	var nStaleSteps, nStaleFull, nStaleFullLarger, nStaleFullSmaller, nIntervalParamChanges, nQueryChecks int64
	thrSeen := map[int64]bool{} // deviation thresholds (bps) current feeds had during the history
	var nExactSteps, nExactDue, nExactEmit, nExactSecond int64
	type exactWait struct {
		e        evt
		deadline int
	}
	exactPending := map[string]exactWait{} // signals brought to an aligned price that still owe their exact-threshold move
	nextBlockStep, blockIdx, subIdx, evIdx := 0, 0, 0, 0
	var nStatusEmit, nDevEmit, nSlotEmit, nFirstEmit, nEmitted, nSubs, nLegitDeact, nVotesOK, nHeld int64
	usedLarge := false
	for _, s := range c.Sigs {
		usedLarge = usedLarge || s.Price >= exactPriceLimit
	}

	checkPendingConsistent := func(where string, step int) {
		pm := map[string]bool{}
		pending.Range(func(k, _ any) bool {
			if s, ok := k.(string); ok {
				pm[s] = true
			}
			return true
		})
		for _, s := range sortedKeys(pm) {
			if !inFlight[s] {
				v.Failf("C20/pending-leak", "step %d (%s): signal %s is in the pending set but no submission with it is in flight (never released)", step, where, s)
			}
		}
		for _, s := range sortedKeys(inFlight) {
			if !pm[s] {
				v.Failf("C20/pending-lost", "step %d (%s): signal %s is in flight but not in the pending set", step, where, s)
			}
		}
	}
	release := func(f *flight) {
		for _, p := range f.prices {
			pending.LoadAndDelete(p.SignalID) // what the submitter's deferred removePending does
			delete(inFlight, p.SignalID)
		}
	}

	for k := 0; k < c.Steps && v.Violation == ""; k++ {
		now := nowAt(k)
		svc.step = k
		ctx := ch.Ctx()
		params := fk.GetParams(ctx)
		cf := fk.GetCurrentFeeds(ctx)
		oldPrices := map[string]feedstypes.ValidatorPrice{}
		if vpl, err := fk.GetValidatorPriceList(ctx, valAddr); err == nil {
			for _, p := range vpl.ValidatorPrices {
				if p.SignalID != "" && p.SignalPriceStatus != feedstypes.SIGNAL_PRICE_STATUS_UNSPECIFIED {
					oldPrices[p.SignalID] = p
				}
			}
		}
		devOf := map[string]int64{}
		for _, f := range cf.Feeds {
			devOf[f.SignalID] = refDeviationBps(f.Power, params.PowerStepThreshold, params.MinDeviationBasisPoint, params.MaxDeviationBasisPoint)
			thrSeen[devOf[f.SignalID]] = true
		}
		// stored (chain-enforced) interval versus the interval the live params would give
		listed := map[string]bool{}
		for _, f := range cf.Feeds {
			listed[f.SignalID] = true
			live := refInterval(f.Power, params.PowerStepThreshold, params.MinInterval, params.MaxInterval)
			if live == f.Interval {
				delete(staleSince, f.SignalID)
				continue
			}
			nStaleSteps++
			if live < f.Interval {
				nStaleSmallerSteps++
			}
			if _, ok := staleSince[f.SignalID]; !ok {
				staleSince[f.SignalID] = k
			}
			if int64(k-staleSince[f.SignalID]) == f.Interval { // a whole enforced interval has gone by under other live params
				nStaleFull++
				if live > f.Interval {
					nStaleFullLarger++
				} else {
					nStaleFullSmaller++
				}
			}
		}
		for id := range staleSince {
			if !listed[id] {
				delete(staleSince, id)
			}
		}

		// (a0) second half of earlier "exact" events: the aligned price has been accepted by the chain, so the move of
		// exactly the threshold (relative to that accepted price) can be made now
		for _, id := range sortedWaits(exactPending) {
			wt := exactPending[id]
			sv := svc.sigs[id]
			op, ok := oldPrices[id]
			d := uint64(devOf[id])
			switch {
			case k > wt.deadline || sv == nil:
				delete(exactPending, id)
			case ok && op.SignalPriceStatus == feedstypes.SIGNAL_PRICE_STATUS_AVAILABLE && sv.status == stAvailable && op.Price == sv.price && !inFlight[id]:
				delete(exactPending, id)
				base := op.Price
				if d == 0 || base == 0 || base >= exactPriceLimit/2 || (base*d)%10000 != 0 || base*d < 10000 {
					v.Count("exact_second_half_not_aligned", 1) // the threshold changed in between
					break
				}
				amt := base * d / 10000
				if wt.e.Delta < 0 {
					amt--
				} else if wt.e.Delta > 0 {
					amt++
				}
				if wt.e.Dir < 0 && amt < base {
					sv.price = base - amt
				} else {
					sv.price = base + amt
				}
				nExactSecond++
			}
		}

		// (a) events of this step
		applyEvent := func(e evt) {
			id := sigID(((e.Sig % nsig) + nsig) % nsig)
			s := svc.sigs[id]
			base := s.price
			if op, ok := oldPrices[id]; ok && op.SignalPriceStatus == feedstypes.SIGNAL_PRICE_STATUS_AVAILABLE {
				base = op.Price
			}
			dev := devOf[id]
			if dev <= 0 {
				dev = c.MinDev
			}
			thr := mulDivCeil(base, uint64(dev), 10000)
			move := func(amount uint64) {
				up := e.Dir >= 0
				if !up && amount > base {
					up = true
				}
				if up && (base > uint64(1)<<62 || amount > uint64(1)<<62) {
					up = false
					if amount > base {
						amount = base
					}
				}
				if up {
					s.price = base + amount
				} else {
					s.price = base - amount
				}
			}
			switch e.Kind {
			case "dev":
				amt := thr
				if e.Delta < 0 && amt > 0 {
					amt--
				} else if e.Delta > 0 {
					amt++
				}
				move(amt)
			case "exact":
				// a move of EXACTLY dev basis points of the last accepted price (+-1 unit with Delta). That needs
				// base*dev to be a multiple of 10000; if it is not, the price goes to a multiple of 10000 at least
				// one threshold away instead, which becomes the (aligned) last accepted price for the next one.
				if base > 0 && base < exactPriceLimit/2 && (base*uint64(dev))%10000 == 0 && base*uint64(dev) >= 10000 {
					amt := base * uint64(dev) / 10000
					if e.Delta < 0 {
						amt--
					} else if e.Delta > 0 {
						amt++
					}
					move(amt)
				} else if base < exactPriceLimit/2 {
					if e.Dir < 0 && base > thr+20000 {
						s.price = (base - thr) / 10000 * 10000
					} else {
						s.price = ((base+thr)/10000 + 1) * 10000
					}
					exactPending[id] = exactWait{e: e, deadline: k + 200}
				} else {
					move(thr)
				}
			case "small":
				if thr > 1 {
					q, _ := mulDivFloor(thr-1, uint64(((e.Frac%1001)+1001)%1001), 1000)
					move(q)
				}
			case "jump":
				if e.Dir >= 0 && base < uint64(1)<<61 {
					s.price = base*2 + 1
				} else {
					s.price = base / 2
				}
			case "flip":
				to := ((e.To % 4) + 4) % 4
				if to == s.status {
					to = stAvailable
					if s.status == stAvailable {
						to = stUnavailable
					}
				}
				s.status = to
			case "miss":
				if e.Dur > 0 {
					s.missingUntil = k + e.Dur
				}
			case "err":
				if e.Dur > 0 {
					svc.errUntil = k + e.Dur
				}
			case "vote":
				var sigs []feedstypes.Signal
				for j := 0; j < nsig && j < len(e.Set); j++ {
					if f := e.Set[j]; f > 0 && f <= 12 {
						sigs = append(sigs, feedstypes.Signal{ID: sigID(j), Power: int64(f)*powerStep + c.Sigs[j].Rem})
					}
				}
				pendingVotes = append(pendingVotes, feedstypes.NewMsgVote(voter.Addr.String(), sigs))
			}
			if s.price >= exactPriceLimit {
				usedLarge = true
			}
		}
		for ; evIdx < len(c.Events) && c.Events[evIdx].At <= k; evIdx++ {
			if e := c.Events[evIdx]; e.At == k {
				applyEvent(e)
			}
		}
		for _, e := range dynEvents[k] {
			applyEvent(e)
			nGovFollow++
		}
		delete(dynEvents, k)

		// (b) lost submissions are released (the submitter gave up)
		for _, f := range flights {
			if f.lost && f.releaseStep <= k {
				release(f)
			}
		}
		flights = filterFlights(flights, func(f *flight) bool { return !(f.lost && f.releaseStep <= k) })
		checkPendingConsistent("before step", k)

		// (c) the daemon's step; the reference predicate is evaluated on the same view
		st := orak.GetValidatorStatus(ctx, valAddr)
		required := st.IsActive
		for _, f := range cf.Feeds {
			if _, _, served := svc.served(f.SignalID); !served && required {
				lastExcuse[f.SignalID] = k
			}
		}
		inFlightBefore := map[string]bool{}
		for s := range inFlight {
			inFlightBefore[s] = true
		}
		// which of the daemon's queries are down at this tick
		var down [nQueries]bool
		for _, qf := range c.QFaults {
			if qf.Dur > 0 && k >= qf.At && k < qf.At+qf.Dur {
				down[qf.Q] = true
			}
		}
		for _, f := range flights {
			if f.trapQ >= 0 && k > f.emitStep {
				down[f.trapQ] = true // the trapped submission is still in flight
			}
		}
		anyDown := false
		for i := range down {
			if k <= qFailUntil[i] {
				down[i] = true
			}
			anyDown = anyDown || down[i]
		}
		fq.mu.Lock()
		fq.fail = down
		fq.mu.Unlock()
		if anyDown {
			nQFailTicks++
			for _, f := range cf.Feeds { // the daemon cannot work at this tick: as excusable as a price-service outage
				lastExcuse[f.SignalID] = k
			}
		}
		mode := c.SubPat[subIdx%len(c.SubPat)]
		status, h := runStep(now, mode == -1)
		if status == signaller.VerifStepQueryError || status == signaller.VerifStepUpdateFailed {
			required = false // a skipped tick decides nothing: the "must emit" reference does not apply to it
		}
		if strings.HasPrefix(status, "panic") {
			v.Failf("panic", "step %d: signaller step panicked: %s", k, status)
			break
		}
		v.Count("step_"+status, 1)
		if status != signaller.VerifStepQueryError && status != signaller.VerifStepNotValid && status != signaller.VerifStepUpdateFailed {
			// this tick the daemon has polled the current feeds: which listed signals have new parameters, and is a
			// batch with such a signal in flight right now?
			view := map[string]feedView{}
			for _, f := range cf.Feeds {
				fv := feedView{f.Power, f.Interval, devOf[f.SignalID]}
				view[f.SignalID] = fv
				if old, ok := daemonView[f.SignalID]; ok && old != fv {
					nRecalcSeen++
					if inFlightBefore[f.SignalID] {
						nRecalcInFlight++
					}
				}
			}
			daemonView = view
		}
		emitted := map[string]feedstypes.SignalPrice{}
		if h != nil {
			subIdx++
			nSubs++
			if len(h.unmarked) > 0 {
				sort.Strings(h.unmarked)
				v.Failf("C20/handoff-unmarked", "step %d: submission handed to the submitter while %v not yet in the pending set", k, h.unmarked)
			}
			f := &flight{emitStep: k, emitNow: now, emitEpoch: paramEpoch, emitCooldown: params.CooldownTime}
			for _, p := range h.sub.SignalPrices {
				if _, dup := emitted[p.SignalID]; dup {
					v.Failf("C20/duplicate-in-submission", "step %d: signal %s twice in one submission", k, p.SignalID)
				}
				emitted[p.SignalID] = p
				f.prices = append(f.prices, p)
				if inFlightBefore[p.SignalID] {
					v.Failf("C20/double-inflight", "step %d: signal %s emitted while a submission with it is still in flight", k, p.SignalID)
				}
			}
			sort.Slice(f.prices, func(i, j int) bool { return f.prices[i].SignalID < f.prices[j].SignalID })
			f.emitFeedSet = feedSetEpoch
			f.trapQ = -1
			if len(c.QTraps) > 0 {
				if t := c.QTraps[(subIdx-1+len(c.QTraps))%len(c.QTraps)]; t.Q >= 0 {
					f.trapQ, f.trapExtra = t.Q, t.Extra
					nTraps++
				}
			}
			if mode > maxDelaySteps {
				if allowLong {
					f.long = true
					nLongSubs++
				} else {
					mode = maxDelaySteps
				}
			}
			switch {
			case mode == -1:
				f.lost, f.releaseStep = true, k // already released by the consumer
			case mode < -1:
				f.lost, f.releaseStep = true, k+(-mode-1)
			default:
				f.landStep = k + mode
			}
			if f.lost {
				v.Count("subs_lost", 1)
				for _, p := range f.prices {
					lastExcuse[p.SignalID] = k
				}
			}
			if !(f.lost && mode == -1) {
				for _, p := range f.prices {
					inFlight[p.SignalID] = true
				}
				flights = append(flights, f)
			}
		}
		nEmitted += int64(len(emitted))

		// reference predicate (3): status change / deviation, past cooldown+buffer, not in flight => emitted
		for _, f := range cf.Feeds {
			s := f.SignalID
			newSt, newP, served := svc.served(s)
			em, isEmitted := emitted[s]
			if isEmitted && served && (int(em.Status) != newSt || em.Price != newP) {
				v.Count("emitted_value_mismatch", 1)
			}
			old, has := oldPrices[s]
			if !has {
				if isEmitted {
					nFirstEmit++
				} else if served && required && !inFlightBefore[s] {
					v.Count("first_not_emitted", 1)
				}
				continue
			}
			if !served {
				continue
			}
			T := old.Timestamp
			past := !now.Before(time.Unix(T+params.CooldownTime+refTimeBuffer, 0))
			statusChanged := int(old.SignalPriceStatus) != newSt
			dv := triNo
			if !statusChanged && newSt == stAvailable {
				dv = refDeviated(devOf[s], old.Price, newP)
			}
			urgent := newSt != stUnavailable || now.Unix() > T+f.Interval-refUrgentOffset
			// the move is EXACTLY the threshold: |new-old| * 10000 == d * old (128-bit integer comparison)
			exact := false
			if dv == triYes && devOf[s] > 0 && old.Price < exactPriceLimit && newP < exactPriceLimit {
				diff := newP - old.Price
				if old.Price > newP {
					diff = old.Price - newP
				}
				h1, l1 := bits.Mul64(diff, 10000)
				h2, l2 := bits.Mul64(uint64(devOf[s]), old.Price)
				exact = h1 == h2 && l1 == l2
			}
			if exact {
				nExactSteps++
				if required && !inFlightBefore[s] && past && now.Before(time.Unix(T+f.Interval*stmtSlotStart/100, 0)) {
					nExactDue++ // only the deviation rule makes the daemon submit at this step
				}
				if isEmitted {
					nExactEmit++
				}
			}
			if isEmitted {
				switch {
				case statusChanged:
					nStatusEmit++
				case dv == triYes:
					nDevEmit++
				case dv == triNo:
					nSlotEmit++
					if now.Before(time.Unix(T+f.Interval*stmtSlotStart/100, 0)) {
						v.Count("slot_before_50pct", 1)
					}
				}
				if !past {
					v.Count("emitted_before_cooldown_buffer", 1) // decided by the chain (oracle 1)
				}
				if prevCooldown > params.CooldownTime && now.Before(time.Unix(T+prevCooldown+refTimeBuffer, 0)) {
					nEarlierLowered++ // only the lowered cooldown lets the daemon submit this early
				}
				continue
			}
			if required && !inFlightBefore[s] && !past && prevCooldown >= 0 && prevCooldown < params.CooldownTime &&
				!now.Before(time.Unix(T+prevCooldown+refTimeBuffer, 0)) && urgent {
				// the cooldown in force before the raise would let the daemon submit now, the current one does not
				slot := !now.Before(time.Unix(T+f.Interval*stmtSlotEnd/100, 0))
				if statusChanged || dv == triYes {
					nWaitRaisedDev++
				}
				if statusChanged || dv == triYes || slot {
					nWaitRaised++
				}
			}
			if !required || inFlightBefore[s] || !past {
				continue
			}
			if (statusChanged || dv == triYes) && !urgent {
				nHeld++
				continue
			}
			if statusChanged {
				v.Failf("C20/not-emitted-status", "step %d now=%d: %s status %d -> %d, last accepted at %d, cooldown %d: past cooldown+buffer, not in flight, but not emitted",
					k, now.Unix(), s, old.SignalPriceStatus, newSt, T, params.CooldownTime)
			} else if dv == triYes {
				v.Failf("C20/not-emitted-deviation", "step %d now=%d: %s price %d -> %d (threshold %d bps), last accepted at %d, cooldown %d: past cooldown+buffer, not in flight, but not emitted",
					k, now.Unix(), s, old.Price, newP, devOf[s], T, params.CooldownTime)
			} else if urgent && !now.Before(time.Unix(T+(f.Interval*stmtSlotEnd+99)/100, 0)) {
				v.Count("slot_overdue_steps", 1) // statistic: past 80 % of the interval, servable, not in flight, not emitted
			}
		}
		for _, s := range sortedEmitted(emitted) {
			if !feedHas(cf.Feeds, s) {
				v.Count("emitted_not_current_feed", 1) // decided by the chain (oracle 1)
			}
		}
		checkPendingConsistent("after step", k)

		// (d) a block?
		if k < nextBlockStep {
			continue
		}
		nextBlockStep = k + c.BlockPat[blockIdx%len(c.BlockPat)]
		off := c.OffPat[blockIdx%len(c.OffPat)]
		blockIdx++
		bt := now.Add(time.Duration(off) * time.Millisecond)
		if !bt.After(ch.Time) {
			bt = ch.Time.Add(time.Millisecond)
		}
		isUpdate := (ch.Height+1)%c.UpdEvery == 0
		var txs [][]byte
		var kinds []string
		var landing []*flight
		stBefore := orak.GetValidatorStatus(ch.Ctx(), valAddr)
		if !stBefore.IsActive {
			txs = append(txs, ch.SignTx(me, oracletypes.NewMsgActivate(valAddr)))
			kinds = append(kinds, "activate")
		}
		for _, m := range pendingVotes {
			txs = append(txs, ch.SignTx(voter0(ch), m))
			kinds = append(kinds, "vote")
		}
		pendingVotes = nil
		paramsBefore := fk.GetParams(ch.Ctx())
		if govState == govIdle && govIdx < len(c.Gov) && c.Gov[govIdx].At <= k {
			govState = govSubmit
		}
		switch govState {
		case govSubmit:
			g := c.Gov[govIdx]
			np := paramsBefore
			if g.Cooldown > 0 {
				np.CooldownTime = g.Cooldown
			}
			if g.Grace > 0 {
				np.GracePeriod = g.Grace
			}
			if g.MinMul > 0 {
				np.MinInterval = c.MinI * g.MinMul
				if np.MaxInterval < np.MinInterval {
					np.MaxInterval = np.MinInterval
				}
			}
			if g.MaxMul > 0 {
				np.MaxInterval = np.MinInterval * g.MaxMul
			}
			if g.Step > 0 {
				np.PowerStepThreshold = g.Step
			}
			if g.MinDev > 0 {
				np.MinDeviationBasisPoint = g.MinDev
				if np.MaxDeviationBasisPoint < g.MinDev {
					np.MaxDeviationBasisPoint = g.MinDev
				}
			}
			if g.DevMul > 0 {
				np.MaxDeviationBasisPoint = np.MinDeviationBasisPoint * g.DevMul
			}
			if g.MaxDev > 0 {
				np.MaxDeviationBasisPoint = g.MaxDev
				if np.MaxDeviationBasisPoint < np.MinDeviationBasisPoint {
					np.MaxDeviationBasisPoint = np.MinDeviationBasisPoint
				}
			}
			if g.Quorum > 0 {
				np.PriceQuorum = []string{"0.30", "0.30", "0.5", "1"}[g.Quorum]
			}
			prop, perr := govv1.NewMsgSubmitProposal([]sdk.Msg{&feedstypes.MsgUpdateParams{Authority: sim.GovAuthority(), Params: np}},
				sdk.NewCoins(sdk.NewInt64Coin("uband", 10)), ch.Vals[0].Addr.String(), "", "feeds params", "change", false)
			if perr != nil {
				v.Failf("C20/harness-setup", "cannot build the proposal: %v", perr)
				break
			}
			txs = append(txs, ch.SignTx(ch.Vals[0], prop))
			kinds = append(kinds, "gov-submit")
		case govVote:
			for _, val := range ch.Vals {
				txs = append(txs, ch.SignTx(val, govv1.NewMsgVote(val.Addr, govPID, govv1.OptionYes, "")))
				kinds = append(kinds, "gov-vote")
			}
		}
		if v.Violation != "" {
			break
		}
		for _, f := range flights {
			if !f.lost && (f.landStep <= k || (isUpdate && !f.long)) {
				// block time within [emit-3s, emit+latency] by construction
				if bt.Before(f.emitNow.Add(-refTimeBuffer*time.Second)) || bt.After(f.emitNow.Add(maxLatency)) {
					v.Failf("C20/harness-latency", "block time %v outside the stated window of a submission emitted at %v", bt, f.emitNow)
				}
				msg := &feedstypes.MsgSubmitSignalPrices{Validator: valAddr.String(), Timestamp: f.emitNow.Unix(), SignalPrices: f.prices}
				txs = append(txs, ch.SignTx(me, msg))
				kinds = append(kinds, "submit")
				landing = append(landing, f)
			}
		}
		res, err := ch.Block(txs, bt.Sub(ch.Time))
		if err != nil {
			v.Failf("C20/block-failed", "step %d: block could not be finalized: %v", k, err)
			break
		}
		li := 0
		for i, kind := range kinds {
			tr := res.Resp.TxResults[i]
			switch kind {
			case "activate":
				v.Count(fmt.Sprintf("activate_code_%d", tr.Code), 1)
			case "vote":
				if tr.Code == 0 {
					nVotesOK++
				} else {
					v.Count("vote_rejected", 1)
				}
			case "gov-submit":
				if tr.Code != 0 {
					v.Failf("C20/harness-setup", "step %d: proposal refused: %s", k, firstLine(tr.Log))
					break
				}
				for _, ev := range tr.Events {
					if ev.Type == "submit_proposal" {
						for _, a := range ev.Attributes {
							if a.Key == "proposal_id" {
								fmt.Sscan(a.Value, &govPID)
							}
						}
					}
				}
				govState = govVote
			case "gov-vote":
				if tr.Code != 0 {
					v.Failf("C20/harness-setup", "step %d: gov vote refused: %s", k, firstLine(tr.Log))
					break
				}
				govState = govWait
			case "submit":
				f := landing[li]
				li++
				if tr.Code == 0 {
					v.Count("subs_accepted", 1)
					for _, p := range f.prices {
						landedStep[p.SignalID] = k
					}
				} else if f.emitEpoch < paramEpoch && f.emitCooldown < paramsBefore.CooldownTime &&
					tr.Codespace == feedstypes.ModuleName && tr.Code == feedstypes.ErrPriceSubmitTooEarly.ABCICode() {
					// decided on the params of the daemon's last poll, governance raised the cooldown before it landed:
					// the daemon could not know. From its next tick on it sees the new params and gets no such excuse.
					nRaced++
					for _, p := range f.prices {
						lastExcuse[p.SignalID] = k
					}
				} else if f.emitFeedSet < feedSetEpoch && tr.Codespace == feedstypes.ModuleName &&
					(tr.Code == feedstypes.ErrSignalIDNotSupported.ABCICode() || tr.Code == feedstypes.ErrSignalPricesTooLarge.ABCICode()) {
					// decided on the feed list of the daemon's last poll; the chain recalculated the list (a signal of the
					// batch is gone) before the batch was included: the daemon could not know
					nRacedFeed++
					for _, p := range f.prices {
						lastExcuse[p.SignalID] = k
					}
				} else if !stBefore.IsActive && tr.Codespace == feedstypes.ModuleName && tr.Code == feedstypes.ErrOracleStatusNotActive.ABCICode() {
					// the validator was (excusably, or we would have failed already) deactivated while this was in flight
					v.Count("subs_rejected_while_inactive", 1)
				} else {
					ids := make([]string, 0, len(f.prices))
					for _, p := range f.prices {
						ids = append(ids, p.SignalID)
					}
					v.Failf(fmt.Sprintf("C20/rejected:%s/%d", tr.Codespace, tr.Code),
						"submission %v decided at now=%d (step %d) was rejected in block h=%d t=%d: %s", ids, f.emitNow.Unix(), f.emitStep, res.Height, res.Time.Unix(), firstLine(tr.Log))
				}
				if f.trapQ >= 0 && k+f.trapExtra > qFailUntil[f.trapQ] {
					qFailUntil[f.trapQ] = k + f.trapExtra // the query stays down for some ticks after the release
				}
				pricesDownNext := k+1 <= qFailUntil[qPrices]
				for _, qf := range c.QFaults {
					pricesDownNext = pricesDownNext || (qf.Q == qPrices && qf.Dur > 0 && k+1 >= qf.At && k+1 < qf.At+qf.Dur)
				}
				if pricesDownNext {
					nPricesDownAtLanding++
					if tr.Code == 0 {
						nPricesDownAtAcceptedLanding++
					}
				}
				release(f)
			}
		}
		flights = filterFlights(flights, func(f *flight) bool {
			for _, l := range landing {
				if l == f {
					return false
				}
			}
			return true
		})

		// post-block bookkeeping
		ctx2 := ch.Ctx()
		if pa := fk.GetParams(ctx2); !pa.Equal(paramsBefore) {
			// the change is committed with this block: the tick of step k+1 is the first that can see it
			paramEpoch++
			nParamChanges++
			switch {
			case pa.CooldownTime > paramsBefore.CooldownTime:
				nCooldownUp++
				prevCooldown = paramsBefore.CooldownTime
			case pa.CooldownTime < paramsBefore.CooldownTime:
				nCooldownDown++
				prevCooldown = paramsBefore.CooldownTime
			default:
				nOtherParam++
			}
			if pa.MinInterval != paramsBefore.MinInterval || pa.MaxInterval != paramsBefore.MaxInterval || pa.PowerStepThreshold != paramsBefore.PowerStepThreshold {
				nIntervalParamChanges++
			}
			if govState == govWait && govIdx < len(c.Gov) {
				for _, e := range c.Gov[govIdx].Follow {
					dynEvents[k+1+e.At] = append(dynEvents[k+1+e.At], e)
				}
				govIdx++
				govState = govIdle
			}
		} else if govState == govWait {
			if pr, perr := ch.App.GovKeeper.Proposals.Get(ctx2, govPID); perr == nil && pr.Status != govv1.StatusVotingPeriod && pr.Status != govv1.StatusDepositPeriod {
				if pr.Status != govv1.StatusPassed {
					v.Failf("C20/harness-setup", "step %d: proposal %d ended with status %s (%s)", k, govPID, pr.Status, pr.FailedReason)
				} else {
					v.Count("gov_passed_without_change", 1) // the proposed params equal the current ones
					govIdx++
					govState = govIdle
				}
			}
		}
		cf2 := fk.GetCurrentFeeds(ctx2)
		now2 := map[string]bool{}
		for _, f := range cf2.Feeds {
			now2[f.SignalID] = true
			if !inFeed[f.SignalID] {
				enteredStep[f.SignalID] = k
			}
		}
		if isUpdate {
			v.Count("feed_updates", 1)
			if strings.Join(sortedKeys(now2), ",") != strings.Join(sortedKeys(inFeed), ",") {
				v.Count("feed_list_changed", 1)
				feedSetEpoch++
			}
		}
		inFeed = now2
		stAfter := orak.GetValidatorStatus(ctx2, valAddr)
		if !stBefore.IsActive && stAfter.IsActive {
			activatedStep = k
		}
		if stBefore.IsActive && !stAfter.IsActive {
			// oracle (2): never too late for a signal the price service kept serving
			post := map[string]feedstypes.ValidatorPrice{}
			if vpl, err := fk.GetValidatorPriceList(ctx2, valAddr); err == nil {
				for _, p := range vpl.ValidatorPrices {
					if p.SignalID != "" {
						post[p.SignalID] = p
					}
				}
			}
			info := feedstypes.NewValidatorInfo(valAddr, 0, stBefore)
			// the grace period the end blocker used is the current one unless governance changed it in this very block
			// (the order of the two end blockers is not this check's business): take the one that explains the event
			grace := fk.GetParams(ctx2).GracePeriod
			if g0 := paramsBefore.GracePeriod; g0 != grace {
				explained := false
				for _, f := range cf2.Feeds {
					explained = explained || feedskeeper.CheckMissReport(f, cf2.LastUpdateTimestamp, cf2.LastUpdateBlock, post[f.SignalID], info, res.Time, res.Height, grace)
				}
				if !explained {
					grace = g0
				}
			}
			var culprits, inexcusable []string
			for _, f := range cf2.Feeds {
				if feedskeeper.CheckMissReport(f, cf2.LastUpdateTimestamp, cf2.LastUpdateBlock, post[f.SignalID], info, res.Time, res.Height, grace) {
					culprits = append(culprits, f.SignalID)
					start := activatedStep
					if x, ok := landedStep[f.SignalID]; ok && x > start {
						start = x
					}
					if x, ok := enteredStep[f.SignalID]; ok && x > start {
						start = x
					}
					if getExcuse(f.SignalID) <= start {
						inexcusable = append(inexcusable, fmt.Sprintf("%s(last accepted t=%d interval=%d)", f.SignalID, post[f.SignalID].Timestamp, f.Interval))
					}
				}
			}
			switch {
			case len(culprits) == 0:
				v.Failf("C20/deactivated-unattributed", "step %d: validator deactivated in block h=%d but no current feed is overdue", k, res.Height)
			case len(inexcusable) > 0:
				v.Failf("C20/too-late", "step %d: validator deactivated in block h=%d t=%d for %v although the price service served them all the time and no submission was lost",
					k, res.Height, res.Time.Unix(), inexcusable)
			default:
				nLegitDeact++
			}
		}
		// the CurrentFeeds query must describe the stored record: same signals in the same order with the stored power
		// and interval and the stored update stamp; the deviation is computed from the live params
		if os.Getenv("VERIF_C20_NOQUERYCHECK") != "" { // development aid: lets the liveness oracle show what it sees on its own
		} else if qr, qerr := fq.qs.CurrentFeeds(ctx2, &feedstypes.QueryCurrentFeedsRequest{}); qerr != nil {
			v.Failf("C20/current-feeds-query", "step %d: query failed: %v", k, qerr)
		} else {
			nQueryChecks++
			pq := fk.GetParams(ctx2)
			got := qr.CurrentFeeds
			switch {
			case len(got.Feeds) != len(cf2.Feeds):
				v.Failf("C20/current-feeds-query", "step %d h=%d: query lists %d feeds, the stored record %d", k, res.Height, len(got.Feeds), len(cf2.Feeds))
			case got.LastUpdateTimestamp != cf2.LastUpdateTimestamp || got.LastUpdateBlock != cf2.LastUpdateBlock:
				v.Failf("C20/current-feeds-query", "step %d h=%d: query says last update (t=%d, h=%d), the stored record (t=%d, h=%d)", k, res.Height,
					got.LastUpdateTimestamp, got.LastUpdateBlock, cf2.LastUpdateTimestamp, cf2.LastUpdateBlock)
			default:
				for i, f := range cf2.Feeds {
					g := got.Feeds[i]
					wantDev := refDeviationBps(f.Power, pq.PowerStepThreshold, pq.MinDeviationBasisPoint, pq.MaxDeviationBasisPoint)
					if g.SignalID != f.SignalID || g.Power != f.Power || g.Interval != f.Interval || g.DeviationBasisPoint != wantDev {
						v.Failf("C20/current-feeds-query", "step %d h=%d: feed %d: query answers {%s power %d interval %d deviation %d}, stored {%s power %d interval %d} (the interval the chain enforces), deviation from live params %d",
							k, res.Height, i, g.SignalID, g.Power, g.Interval, g.DeviationBasisPoint, f.SignalID, f.Power, f.Interval, wantDev)
						break
					}
				}
			}
		}
		checkPendingConsistent("after block", k)
	}

	// ---- verdict ----
	v.Count("emitted_signals", nEmitted)
	v.Count("submissions", nSubs)
	v.Count("emit_status", nStatusEmit)
	v.Count("emit_deviation", nDevEmit)
	v.Count("emit_slot", nSlotEmit)
	v.Count("emit_first", nFirstEmit)
	v.Count("held_back_unavailable_steps", nHeld)
	v.Count("legit_deactivations", nLegitDeact)
	v.Count("votes_ok", nVotesOK)
	v.Count("blocks", ch.Height)
	v.NonTrivial = nStatusEmit > 0 && nDevEmit > 0 && nSlotEmit > 0
	cls := func(b bool, s string) {
		if b {
			v.Class(s)
		}
	}
	cls(nStatusEmit > 0, "status-flip-submitted")
	cls(nDevEmit > 0, "deviation-triggered")
	cls(nSlotEmit > 0, "slot-triggered")
	cls(nLegitDeact > 0, "deactivated-excusably")
	cls(nHeld > 0, "unavailable-held-back")
	cls(usedLarge, "price>=2^39")
	cls(nVotesOK > 0, "feed-vote")
	cls(nSubs == 0, "no-submission")
	v.Count("param_changes", nParamChanges)
	v.Count("cooldown_raised", nCooldownUp)
	v.Count("cooldown_lowered", nCooldownDown)
	v.Count("other_param_changed", nOtherParam)
	v.Count("subs_raced_with_param_change", nRaced)
	v.Count("steps_waiting_for_raised_cooldown", nWaitRaised)
	v.Count("steps_waiting_for_raised_cooldown_deviation", nWaitRaisedDev)
	v.Count("emitted_earlier_after_cooldown_lowered", nEarlierLowered)
	v.Count("gov_follow_events", nGovFollow)
	cls(nParamChanges > 0, "params-changed-mid-history")
	cls(nCooldownUp > 0, "cooldown-raised")
	cls(nCooldownDown > 0, "cooldown-lowered")
	cls(nOtherParam > 0, "other-param-changed")
	cls(nWaitRaisedDev > 0, "cooldown-raised-with-pending-deviation")
	cls(nWaitRaised > 0, "cooldown-raised-with-pending-reason")
	cls(nEarlierLowered > 0, "cooldown-lowered-and-used")
	cls(nRaced > 0, "submission-raced-with-param-change")
	v.Count("subs_delayed_ticks", nLongSubs)
	v.Count("feed_params_recalculated_seen", nRecalcSeen)
	v.Count("feed_params_recalculated_while_in_flight", nRecalcInFlight)
	v.Count("subs_raced_with_feed_update", nRacedFeed)
	cls(nLongSubs > 0, "submission-delayed-ticks")
	cls(nRecalcInFlight > 0, "feed-params-recalculated-while-in-flight")
	cls(nRacedFeed > 0, "submission-raced-with-feed-update")
	cls(c.UpdEvery <= 8, "fast-feed-updates")
	cls(c.UpdEvery >= 1000, "no-feed-recalculation-in-history")
	fq.mu.Lock()
	for i, n := range fq.hits {
		v.Count("query_failures_served_"+queryName[i], int64(n))
	}
	fq.mu.Unlock()
	v.Count("ticks_with_a_query_down", nQFailTicks)
	v.Count("query_traps_armed", nTraps)
	v.Count("landings_with_validator_prices_query_down_at_next_tick", nPricesDownAtLanding)
	v.Count("accepted_landings_with_validator_prices_query_down_at_next_tick", nPricesDownAtAcceptedLanding)
	cls(nQFailTicks > 0, "daemon-query-failing")
	cls(nPricesDownAtAcceptedLanding > 0, "validator-prices-query-failing-while-own-submission-lands")
	v.Count("interval_param_changes", nIntervalParamChanges)
	v.Count("signal_steps_stored_interval_differs_from_live_params", nStaleSteps)
	v.Count("stored_interval_stale_for_a_full_interval", nStaleFull)
	v.Count("current_feeds_query_checks", nQueryChecks)
	cls(nIntervalParamChanges > 0, "interval-params-changed")
	cls(nStaleFull > 0, "full-enforced-interval-elapsed-under-changed-interval-params")
	cls(nStaleFullLarger > 0, "live-params-give-larger-interval-than-enforced-for-a-full-interval")
	cls(nStaleFullSmaller > 0, "live-params-give-smaller-interval-than-enforced-for-a-full-interval")
	cls(nStaleSmallerSteps > 0, "live-params-give-smaller-interval-than-enforced")
	nonRound := 0
	for d := range thrSeen {
		if d%50 != 0 {
			nonRound++
		}
		if os.Getenv("VERIF_C20_THR_HIST") != "" { // development aid: histogram of thresholds over a run
			v.Count(fmt.Sprintf("thr=%04d", d), 1)
		}
	}
	v.Count("distinct_thresholds", int64(len(thrSeen)))
	v.Count("distinct_non_round_thresholds", int64(nonRound))
	v.Count("steps_price_exactly_at_threshold", nExactSteps)
	v.Count("steps_price_exactly_at_threshold_due_by_deviation_only", nExactDue)
	v.Count("emit_exactly_at_threshold", nExactEmit)
	v.Count("exact_moves_after_alignment", nExactSecond)
	cls(nonRound > 0, "deviation-threshold-non-round")
	cls(nExactSteps > 0, "move-exactly-at-threshold")
	cls(nExactDue > 0, "move-exactly-at-threshold-due-before-slot")
	cls(nExactEmit > 0, "move-exactly-at-threshold-submitted")
	v.Sample = map[string]any{"steps": c.Steps, "sigs": nsig, "min_interval": c.MinI, "cooldown": c.Cooldown, "submissions": nSubs,
		"emit_status": nStatusEmit, "emit_deviation": nDevEmit, "emit_slot": nSlotEmit, "events": len(c.Events), "blocks": ch.Height}
	return v
}

func voter0(ch *sim.Chain) *sim.Account { return ch.Vals[0] }

func sortedWaits[T any](m map[string]T) []string {
	out := make([]string, 0, len(m))
	for k := range m {
		out = append(out, k)
	}
	sort.Strings(out)
	return out
}

func filterFlights(fs []*flight, keep func(*flight) bool) []*flight {
	out := fs[:0:0]
	for _, f := range fs {
		if keep(f) {
			out = append(out, f)
		}
	}
	return out
}

func sortedEmitted(m map[string]feedstypes.SignalPrice) []string {
	out := make([]string, 0, len(m))
	for k := range m {
		out = append(out, k)
	}
	sort.Strings(out)
	return out
}

func feedHas(fs []feedstypes.Feed, id string) bool {
	for _, f := range fs {
		if f.SignalID == id {
			return true
		}
	}
	return false
}

func firstLine(s string) string {
	if i := strings.IndexByte(s, '\n'); i >= 0 {
		s = s[:i]
	}
	if len(s) > 300 {
		s = s[:300]
	}
	return s
}

func TestC20Loop(t *testing.T) { pbt.Check(t, "C20", genLoop, runLoop) }
