// Package gen has generator helpers. rapid's integer generators are deliberately biased towards small values
// and range ends, which is what one wants for sizes but not for weighted choices between operation kinds;
// these helpers draw (nearly) uniform integers from rapid's unbiased bit source (Bool), so every random choice
// still goes through rapid (shrinking and replay work; all-zero bits = first alternative = simplest).
package gen

import "pgregory.net/rapid"

// Uniform returns a (nearly) uniform integer in [0,n).
func Uniform(rt *rapid.T, label string, n int) int {
	if n <= 1 {
		return 0
	}
	var x uint32
	b := rapid.Bool()
	for i := 0; i < 20; i++ {
		x <<= 1
		if b.Draw(rt, label) {
			x |= 1
		}
	}
	return int(uint64(x) * uint64(n) >> 20)
}

// Pick chooses index i with probability weights[i]/sum(weights).
func Pick(rt *rapid.T, label string, weights ...int) int {
	sum := 0
	for _, w := range weights {
		sum += w
	}
	r := Uniform(rt, label, sum)
	for i, w := range weights {
		if r < w {
			return i
		}
		r -= w
	}
	return len(weights) - 1
}

// Chance is true with probability num/den.
func Chance(rt *rapid.T, label string, num, den int) bool { return Uniform(rt, label, den) < num }

// Range returns a uniform integer in [lo,hi].
func Range(rt *rapid.T, label string, lo, hi int) int { return lo + Uniform(rt, label, hi-lo+1) }

// OneOf returns a uniformly chosen element.
func OneOf[T any](rt *rapid.T, label string, xs ...T) T { return xs[Uniform(rt, label, len(xs))] }
