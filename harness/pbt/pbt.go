// Package pbt is the shared property runner: generate -> run -> record stats -> (on failure) save replay.
//
// A property is a pair (gen, run): gen draws a plain JSON-serialisable case with rapid, run is a pure function
// of the case and the code under test and returns a Verdict. All bookkeeping (evaluations, non-triviality
// classification, distinct hashes, samples, known findings, replay files) lives here so every property
// reports evidence the same way.
package pbt

import (
	"encoding/json"
	"fmt"
	"hash/fnv"
	"os"
	"path/filepath"
	"runtime/debug"
	"sort"
	"strings"
	"sync"
	"testing"

	"pgregory.net/rapid"
)

// Verdict is what running one case produced.
type Verdict struct {
	Violation  string   // non-empty: the property was violated on this case (human readable)
	Signature  string   // short stable identifier of the kind of violation (matched against known findings)
	NonTrivial bool     // the case satisfies the property's stated non-triviality rule
	Classes    []string // class labels for the distribution histogram
	Counters   map[string]int64
	Sample     any // optional compact rendering for evidence samples (defaults to the case)
}

func (v *Verdict) Class(s string) { v.Classes = append(v.Classes, s) }
func (v *Verdict) Count(k string, n int64) {
	if v.Counters == nil {
		v.Counters = map[string]int64{}
	}
	v.Counters[k] += n
}
func (v *Verdict) Failf(sig, format string, a ...any) {
	if v.Violation == "" {
		v.Signature = sig
		v.Violation = fmt.Sprintf(format, a...)
	}
}

type collector struct {
	mu          sync.Mutex
	ID          string            `json:"property_id"`
	Evaluations int64             `json:"evaluations"`
	NonTrivial  int64             `json:"nontrivial"`
	Classes     map[string]int64  `json:"classes"`
	Counters    map[string]int64  `json:"counters"`
	Hashes      []uint64          `json:"hashes"`
	Samples     []json.RawMessage `json:"samples"`
	KnownHits   map[string]int64  `json:"known_hits"`
	Violations  int64             `json:"violations"`
	hashset     map[uint64]struct{}
	failing     bool
}

var (
	regMu sync.Mutex
	reg   = map[string]*collector{}
)

func coll(id string) *collector {
	regMu.Lock()
	defer regMu.Unlock()
	c := reg[id]
	if c == nil {
		c = &collector{ID: id, Classes: map[string]int64{}, Counters: map[string]int64{}, KnownHits: map[string]int64{}, hashset: map[uint64]struct{}{}}
		reg[id] = c
	}
	return c
}

const maxSamples = 6

func hashBytes(b []byte) uint64 {
	h := fnv.New64a()
	h.Write(b)
	return h.Sum64()
}

// RecordRaw lets batch-style (enumerating) checks feed the same evidence stream.
func RecordRaw(id string, hash uint64, nontrivial bool, sample func() any, classes ...string) {
	c := coll(id)
	c.mu.Lock()
	defer c.mu.Unlock()
	c.Evaluations++
	for _, cl := range classes {
		c.Classes[cl]++
	}
	if nontrivial {
		c.NonTrivial++
		if _, ok := c.hashset[hash]; !ok {
			c.hashset[hash] = struct{}{}
			if len(c.Samples) < maxSamples && sample != nil {
				b, _ := json.Marshal(sample())
				c.Samples = append(c.Samples, b)
			}
		}
	}
}

func AddCounter(id, k string, n int64) {
	c := coll(id)
	c.mu.Lock()
	c.Counters[k] += n
	c.mu.Unlock()
}

func (c *collector) record(caseJSON []byte, v *Verdict) {
	c.mu.Lock()
	defer c.mu.Unlock()
	c.Evaluations++
	for _, cl := range v.Classes {
		c.Classes[cl]++
	}
	for k, n := range v.Counters {
		c.Counters[k] += n
	}
	if v.NonTrivial {
		c.NonTrivial++
		h := hashBytes(caseJSON)
		if _, ok := c.hashset[h]; !ok {
			c.hashset[h] = struct{}{}
			if len(c.Samples) < maxSamples {
				if v.Sample != nil {
					b, _ := json.Marshal(v.Sample)
					c.Samples = append(c.Samples, b)
				} else if len(caseJSON) < 6000 {
					c.Samples = append(c.Samples, append([]byte(nil), caseJSON...))
				}
			}
		}
	}
}

// Flush writes the shard file named by VERIF_SHARD_OUT (if set).
// RegisterCleanup registers a function run at the end of every Check (temporary directories of the harness).
func RegisterCleanup(f func()) {
	cleanupMu.Lock()
	cleanups = append(cleanups, f)
	cleanupMu.Unlock()
}

var (
	cleanupMu sync.Mutex
	cleanups  []func()
)

func runCleanups() {
	cleanupMu.Lock()
	fs := append([]func(){}, cleanups...)
	cleanupMu.Unlock()
	for _, f := range fs {
		f()
	}
}

func Flush() {
	defer runCleanups()
	out := os.Getenv("VERIF_SHARD_OUT")
	if out == "" {
		return
	}
	regMu.Lock()
	defer regMu.Unlock()
	ids := make([]string, 0, len(reg))
	for id := range reg {
		ids = append(ids, id)
	}
	sort.Strings(ids)
	all := []*collector{}
	for _, id := range ids {
		c := reg[id]
		c.mu.Lock()
		c.Hashes = c.Hashes[:0]
		for h := range c.hashset {
			c.Hashes = append(c.Hashes, h)
		}
		sort.Slice(c.Hashes, func(i, j int) bool { return c.Hashes[i] < c.Hashes[j] })
		c.mu.Unlock()
		all = append(all, c)
	}
	b, _ := json.Marshal(all)
	_ = os.WriteFile(out, b, 0o644)
}

// known findings -------------------------------------------------------------------------------------

type Finding struct {
	Property  string `json:"property"`
	Status    string `json:"status"` // "finding" | "fixed"
	Signature string `json:"signature"`
	Commit    string `json:"commit,omitempty"`
	What      string `json:"what"`
}

var (
	findingsOnce sync.Once
	findings     []Finding
)

func loadFindings() {
	p := os.Getenv("VERIF_KNOWN")
	if p == "" {
		p = "/verif/known_findings.json"
	}
	b, err := os.ReadFile(p)
	if err != nil {
		return
	}
	var f struct {
		Findings []Finding `json:"findings"`
	}
	if json.Unmarshal(b, &f) == nil {
		findings = f.Findings
	}
}

// KnownFinding reports whether (id, signature) is listed as an open (not fixed) finding.
func KnownFinding(id, sig string) *Finding {
	findingsOnce.Do(loadFindings)
	for i := range findings {
		f := &findings[i]
		if f.Property == id && f.Status == "finding" && f.Signature == sig {
			return f
		}
	}
	return nil
}

// IsExcluded tells generators whether a region with this signature must be excluded by construction.
func IsExcluded(id, sig string) bool { return KnownFinding(id, sig) != nil }

// replay ---------------------------------------------------------------------------------------------

func replayDir(id string) string {
	d := os.Getenv("VERIF_REPLAY_OUT")
	if d == "" {
		d = "/verif/replays"
	}
	return filepath.Join(d, id)
}

func saveFailing(id, test string, caseJSON []byte, v *Verdict) string {
	dir := replayDir(id)
	_ = os.MkdirAll(dir, 0o755)
	shard := os.Getenv("VERIF_SHARD")
	if shard == "" {
		shard = "0"
	}
	p := filepath.Join(dir, "last-"+shard+".json")
	wrap := map[string]any{
		"property":  id,
		"test":      test,
		"signature": v.Signature,
		"violation": v.Violation,
		"case":      json.RawMessage(caseJSON),
	}
	b, _ := json.MarshalIndent(wrap, "", " ")
	_ = os.WriteFile(p, b, 0o644)
	return p
}

// Tier returns "quick" or "thorough".
func Tier() string {
	if os.Getenv("VERIF_TIER") == "thorough" {
		return "thorough"
	}
	return "quick"
}

func safeRun[C any](run func(C) *Verdict, cs C) (v *Verdict) {
	defer func() {
		if r := recover(); r != nil {
			v = &Verdict{Signature: "panic", Violation: fmt.Sprintf("panic while running case: %v\n%s", r, debug.Stack())}
		}
	}()
	return run(cs)
}

// Observer hooks let an engine (chainsim in replica mode) turn engine-level failures into violations of the
// property named by VERIF_AS, independent of which property's generator produced the history.
var (
	preRun  func()
	postRun func() (sig, msg string, nontrivial bool, classes []string, counters map[string]int64)
)

// RegisterObserver installs per-case hooks (called before and after every run of a case).
func RegisterObserver(pre func(), post func() (string, string, bool, []string, map[string]int64)) {
	preRun, postRun = pre, post
}

// As returns the property id this run is recorded under (VERIF_AS overrides the test's own id).
func As(id string) string {
	if a := os.Getenv("VERIF_AS"); a != "" {
		return a
	}
	return id
}

func observed[C any](run func(C) *Verdict, cs C) *Verdict {
	if os.Getenv("VERIF_AS") == "" || postRun == nil {
		return safeRun(run, cs)
	}
	if preRun != nil {
		preRun()
	}
	v := safeRun(run, cs)
	sig, msg, nt, classes, counters := postRun()
	out := &Verdict{NonTrivial: nt, Classes: classes, Counters: counters}
	if out.Counters == nil {
		out.Counters = map[string]int64{}
	}
	if sig != "" {
		out.Signature, out.Violation = sig, msg
	} else if v.Violation != "" {
		if v.Signature == "harness" || strings.HasPrefix(v.Signature, os.Getenv("VERIF_AS")+"/") {
			// a harness error, or a violation the donor test itself attributes to the observed property
			out.Signature, out.Violation = v.Signature, v.Violation
		} else {
			out.Counters["other_property_failures_ignored"]++
		}
	}
	return out
}

// Check runs a property. With VERIF_REPLAY=<file.json> it bypasses rapid and re-runs the stored case.
func Check[C any](t *testing.T, id string, gen func(*rapid.T) C, run func(C) *Verdict) {
	defer Flush()
	id = As(id)
	c := coll(id)
	if rp := os.Getenv("VERIF_REPLAY"); rp != "" && strings.HasSuffix(rp, ".json") {
		b, err := os.ReadFile(rp)
		if err != nil {
			t.Fatalf("replay: %v", err)
		}
		var wrap struct {
			Case json.RawMessage `json:"case"`
		}
		if err := json.Unmarshal(b, &wrap); err != nil || wrap.Case == nil {
			t.Fatalf("replay: bad file %s: %v", rp, err)
		}
		var cs C
		if err := json.Unmarshal(wrap.Case, &cs); err != nil {
			t.Fatalf("replay: bad case: %v", err)
		}
		v := observed(run, cs)
		cj, _ := json.Marshal(cs)
		c.record(cj, v)
		if v.Violation != "" {
			if f := KnownFinding(id, v.Signature); f != nil {
				fmt.Printf("KNOWN-FINDING: property=%s %s\n", id, f.What)
				return
			}
			c.Violations++
			fmt.Printf("REPLAY-VIOLATION property=%s signature=%s: %s\n", id, v.Signature, v.Violation)
			t.Fatalf("violation reproduced: %s", v.Violation)
		}
		fmt.Printf("REPLAY-OK property=%s\n", id)
		return
	}
	rapid.Check(t, func(rt *rapid.T) {
		cs := gen(rt)
		v := observed(run, cs)
		cj, _ := json.Marshal(cs)
		c.record(cj, v)
		if v.Violation != "" && v.Signature == "harness" {
			rt.Fatalf("HARNESS-ERROR property=%s: %s", id, v.Violation)
		}
		if v.Violation != "" {
			if f := KnownFinding(id, v.Signature); f != nil {
				c.mu.Lock()
				c.KnownHits[v.Signature]++
				c.mu.Unlock()
				return
			}
			c.mu.Lock()
			c.Violations++
			c.failing = true
			c.mu.Unlock()
			p := saveFailing(id, t.Name(), cj, v)
			rt.Fatalf("VIOLATION-CASE property=%s signature=%s file=%s: %s", id, v.Signature, p, v.Violation)
		}
	})
}
