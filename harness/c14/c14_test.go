// Package c14 checks property C14: block reward allocation (oracle share -> bandtss share -> SDK distribution)
// conserves coins and pays only active participants. Every block of a case is executed on the real application
// and measured: balances of all accounts, total supply, validators' outstanding rewards and the community pool
// are snapshotted before and after, and compared with a math/big reference of the three stages (ref/rewards.go).
package c14

import (
	"fmt"
	"math/big"
	"os"
	"sort"
	"strings"
	"testing"
	"time"

	"pgregory.net/rapid"

	abci "github.com/cometbft/cometbft/abci/types"

	"cosmossdk.io/math"

	sdk "github.com/cosmos/cosmos-sdk/types"
	authtypes "github.com/cosmos/cosmos-sdk/x/auth/types"
	banktypes "github.com/cosmos/cosmos-sdk/x/bank/types"
	distrtypes "github.com/cosmos/cosmos-sdk/x/distribution/types"
	slashingtypes "github.com/cosmos/cosmos-sdk/x/slashing/types"
	stakingtypes "github.com/cosmos/cosmos-sdk/x/staking/types"

	"github.com/bandprotocol/chain/v3/pkg/tss"
	bandtsstypes "github.com/bandprotocol/chain/v3/x/bandtss/types"
	oracletypes "github.com/bandprotocol/chain/v3/x/oracle/types"
	tsstypes "github.com/bandprotocol/chain/v3/x/tss/types"

	"verif/harness/gen"
	"verif/harness/pbt"
	"verif/harness/ref"
	"verif/harness/sim"

	band "github.com/bandprotocol/chain/v3/app"
)

func TestC14(t *testing.T) { pbt.Check(t, "C14", genC14, runC14) }

// ---- case --------------------------------------------------------------------------------------------

var c14Denoms = []string{"uband", "uatom", "ibc/27394FB092D2ECCD56123C74F36E4C1F926001CEADA9CA97EA622B25F41E5EB2", "zzz"}

// c14Coin is one fee-pool entry: denom index and a decimal amount (0 = denom absent).
type c14Coin struct {
	D int    `json:"d"`
	A string `json:"a"`
}

// c14Member is a member of the current group (tss group 1).
type c14Member struct {
	Active bool `json:"active"`
	HasDE  bool `json:"de"`
	InG2   bool `json:"g2,omitempty"` // additionally a member (active, with DE) of the non-current group 2
}

// c14Extra is a user that is NOT in the current group: kind "g2" (active member of group 2 with a DE) or
// "de" (no group at all, but has queued DEs).
type c14Extra struct {
	Kind string `json:"kind"`
}

type c14MemberOp struct {
	Kind string `json:"k"` // submit_de | reset_de | activate
	M    int    `json:"m"` // user index mod (members + extras)
}

type c14Block struct {
	Fees     []c14Coin     `json:"fees,omitempty"`     // fee paid in this block (= pool of the next block)
	Activate []int         `json:"activate,omitempty"` // validators (mod n) sending oracle MsgActivate in this block
	Ops      []c14MemberOp `json:"ops,omitempty"`
	Absent   []bool        `json:"absent,omitempty"` // per validator: flagged absent in the last commit of this block
	Proposer int           `json:"proposer"`
	Jail     int           `json:"jail,omitempty"` // k > 0: double-sign evidence against validator (k-1) mod n is delivered with this block (first one only)
}

type c14Case struct {
	Powers     []int64     `json:"powers"`
	OraclePct  uint64      `json:"oracle_pct"`
	TssPct     uint64      `json:"tss_pct"`
	Tax        string      `json:"tax"` // community tax * 10^18
	Pool       []c14Coin   `json:"pool"`
	Members    []c14Member `json:"members"`
	Extras     []c14Extra  `json:"extras,omitempty"`
	NoCurGroup bool        `json:"no_current_group,omitempty"` // tss group 1 exists but bandtss has no current group
	MaxGS      uint64      `json:"max_group_size,omitempty"`   // tss MaxGroupSize as governance left it (0 = default 20); it only limits NEW groups
	NoSlash    bool        `json:"no_slash,omitempty"`         // SlashFractionDoubleSign = 0: the evidence jails and tombstones but burns nothing
	Blocks     []c14Block  `json:"blocks"`
}

var c14Amounts = []string{"0", "1", "1", "2", "2", "3", "5", "7", "10", "97", "100", "101", "1009", "999983", "1000000", "1000000007",
	"1000000000000000000", "1000000000000000001", "999999999999999999", "170141183460469231731687303715884105727"}

func genCoins(rt *rapid.T, label string) []c14Coin {
	nd := gen.Pick(rt, label+"-nd", 1, 4, 4, 2, 2) // number of denoms 0..4
	start := gen.Uniform(rt, label+"-first", len(c14Denoms))
	if gen.Chance(rt, label+"-uband", 1, 2) {
		start = 0
	}
	var out []c14Coin
	for k := 0; k < nd; k++ {
		a := gen.OneOf(rt, label+"-amt", c14Amounts...)
		if gen.Chance(rt, label+"-rnd", 1, 4) {
			a = fmt.Sprint(rapid.Uint64().Draw(rt, label+"-amtv"))
		}
		out = append(out, c14Coin{D: (start + k) % len(c14Denoms), A: a})
	}
	return out
}

func genC14(rt *rapid.T) c14Case {
	n := rapid.IntRange(1, 8).Draw(rt, "nvals")
	c := c14Case{}
	equal := gen.Chance(rt, "equalpow", 1, 4)
	base := gen.OneOf[int64](rt, "basepow", 1, 1, 2, 3, 7, 100, 999983, 1_000_000_000_000)
	for i := 0; i < n; i++ {
		p := base
		if !equal {
			p = gen.OneOf[int64](rt, "pow", 1, 1, 2, 3, 5, 7, 10, 13, 100, 101, 999983, 1_000_000, 2147483647, 1_000_000_000_000)
		}
		c.Powers = append(c.Powers, p)
	}
	pct := func(label string) uint64 {
		if gen.Chance(rt, label+"-r", 1, 3) {
			return uint64(gen.Range(rt, label+"-v", 0, 100))
		}
		return gen.OneOf[uint64](rt, label, 0, 1, 10, 33, 50, 70, 99, 100)
	}
	c.OraclePct = pct("opct")
	c.TssPct = pct("tpct")
	switch gen.Uniform(rt, "taxkind", 6) {
	case 0:
		c.Tax = "0"
	case 1:
		c.Tax = "20000000000000000"
	case 2:
		c.Tax = "500000000000000000"
	case 3:
		c.Tax = "1000000000000000000"
	default:
		c.Tax = fmt.Sprint(rapid.Uint64Range(0, 1_000_000_000_000_000_000).Draw(rt, "tax"))
	}
	c.Pool = genCoins(rt, "pool")

	nm := rapid.IntRange(0, 6).Draw(rt, "nmembers")
	if gen.Chance(rt, "threemem", 1, 5) {
		nm = 3
	}
	for i := 0; i < nm; i++ {
		c.Members = append(c.Members, c14Member{Active: gen.Chance(rt, "mact", 3, 4), HasDE: gen.Chance(rt, "mde", 3, 4), InG2: gen.Chance(rt, "mg2", 1, 6)})
	}
	ne := gen.Pick(rt, "nextras", 3, 3, 1)
	for i := 0; i < ne; i++ {
		c.Extras = append(c.Extras, c14Extra{Kind: gen.OneOf(rt, "ekind", "g2", "de")})
	}
	c.NoCurGroup = nm > 0 && gen.Chance(rt, "nocur", 1, 10)
	if nm > 1 && gen.Chance(rt, "maxgs", 1, 3) {
		c.MaxGS = uint64(gen.OneOf(rt, "maxgsv", 1, 2, nm-1, nm-1, nm, 20))
	}

	nb := 1 + gen.Pick(rt, "nblocks", 1, 4, 4, 2, 1) // block 2 never has oracle-active validators, so usually >= 2 blocks
	// a validator is jailed (double-sign evidence) in the middle of the case: it stays in the commits of the next two
	// blocks (validator-set updates are delayed), oracle-active and with its power
	jailAt := -1
	if n >= 2 && gen.Chance(rt, "jail", 1, 3) {
		if nb < 3 {
			nb = gen.Range(rt, "nblocksj", 3, 5)
		}
		jailAt = gen.Range(rt, "jailat", 1, nb-2)
		c.NoSlash = gen.Chance(rt, "noslash", 1, 2)
	}
	actMode := gen.Pick(rt, "actmode", 6, 2, 1) // most / all / none
	for b := 0; b < nb; b++ {
		blk := c14Block{Proposer: gen.Uniform(rt, "proposer", n)}
		if b < nb-1 || gen.Chance(rt, "lastfee", 1, 3) {
			blk.Fees = genCoins(rt, "fees")
		}
		for i := 0; i < n; i++ {
			switch {
			case b == 0 && (actMode == 1 || (actMode == 0 && gen.Chance(rt, "act0", 7, 10))):
				blk.Activate = append(blk.Activate, i)
			case b > 0 && actMode != 2 && gen.Chance(rt, "actlate", 1, 8):
				blk.Activate = append(blk.Activate, i)
			}
		}
		if nm+ne > 0 {
			nops := gen.Pick(rt, "nops", 5, 3, 2)
			for k := 0; k < nops; k++ {
				blk.Ops = append(blk.Ops, c14MemberOp{Kind: gen.OneOf(rt, "opkind", "submit_de", "reset_de", "activate", "consume_de", "consume_de"), M: gen.Uniform(rt, "opm", nm+ne)})
			}
		}
		if gen.Chance(rt, "someabsent", 1, 3) {
			for i := 0; i < n; i++ {
				blk.Absent = append(blk.Absent, gen.Chance(rt, "absent", 1, 3))
			}
		}
		if b == jailAt {
			blk.Jail = 1 + gen.Uniform(rt, "jailval", n)
			// mostly a validator that sent its oracle activation in the first block
			if act := c.Blocks[0].Activate; len(act) > 0 && gen.Chance(rt, "jailactive", 5, 6) {
				blk.Jail = 1 + act[gen.Uniform(rt, "jailact", len(act))]
			}
		}
		c.Blocks = append(c.Blocks, blk)
	}
	return c
}

// ---- helpers -----------------------------------------------------------------------------------------

func coinsOf(cs []c14Coin) ref.Amounts {
	out := ref.Amounts{}
	for _, x := range cs {
		v, ok := new(big.Int).SetString(x.A, 10)
		if !ok || v.Sign() <= 0 {
			continue
		}
		d := c14Denoms[((x.D%len(c14Denoms))+len(c14Denoms))%len(c14Denoms)]
		out[d] = new(big.Int).Add(out.Get(d), v)
	}
	return out
}

func toSDK(a ref.Amounts) sdk.Coins {
	out := sdk.NewCoins()
	for _, d := range a.Denoms() {
		out = out.Add(sdk.NewCoin(d, math.NewIntFromBigInt(a[d])))
	}
	return out
}

func show(a ref.Amounts) string {
	ds := a.Denoms()
	if len(ds) == 0 {
		return "{}"
	}
	var sb strings.Builder
	for i, d := range ds {
		if i > 0 {
			sb.WriteString(",")
		}
		dd := d
		if len(dd) > 8 {
			dd = dd[:8]
		}
		sb.WriteString(a[d].String() + dd)
	}
	return sb.String()
}

func pointOf(k int) tss.Point {
	b := make([]byte, 32)
	b[30], b[31] = byte(k>>8), byte(k)
	s, err := tss.NewScalar(b)
	if err != nil {
		return nil
	}
	return s.Point()
}

// snapshot of everything the property talks about.
type snap struct {
	bal    map[string]ref.Amounts // bech32 -> whole coins
	supply ref.Amounts
	out    map[string]ref.Amounts // valoper bech32 -> outstanding rewards (dec)
	pool   ref.Amounts            // community pool (dec)
}

func (s *snap) balOf(addr string) ref.Amounts {
	if a, ok := s.bal[addr]; ok {
		return a
	}
	return ref.Amounts{}
}
func (s *snap) outOf(val string) ref.Amounts {
	if a, ok := s.out[val]; ok {
		return a
	}
	return ref.Amounts{}
}

func takeSnap(ch *sim.Chain) (*snap, error) {
	ctx := ch.Ctx()
	s := &snap{bal: map[string]ref.Amounts{}, supply: ref.Amounts{}, out: map[string]ref.Amounts{}, pool: ref.Amounts{}}
	ch.App.BankKeeper.IterateAllBalances(ctx, func(addr sdk.AccAddress, coin sdk.Coin) bool {
		k := addr.String()
		if s.bal[k] == nil {
			s.bal[k] = ref.Amounts{}
		}
		s.bal[k][coin.Denom] = new(big.Int).Add(s.bal[k].Get(coin.Denom), coin.Amount.BigInt())
		return false
	})
	ch.App.BankKeeper.IterateTotalSupply(ctx, func(coin sdk.Coin) bool {
		s.supply[coin.Denom] = coin.Amount.BigInt()
		return false
	})
	ch.App.DistrKeeper.IterateValidatorOutstandingRewards(ctx, func(val sdk.ValAddress, rewards distrtypes.ValidatorOutstandingRewards) bool {
		a := ref.Amounts{}
		for _, dc := range rewards.Rewards {
			a[dc.Denom] = dc.Amount.BigInt()
		}
		s.out[val.String()] = a
		return false
	})
	fp, err := ch.App.DistrKeeper.FeePool.Get(ctx)
	if err != nil {
		return nil, err
	}
	for _, dc := range fp.CommunityPool {
		s.pool[dc.Denom] = dc.Amount.BigInt()
	}
	return s, nil
}

func sortedKeys(ms ...map[string]ref.Amounts) []string {
	seen := map[string]bool{}
	var ks []string
	for _, m := range ms {
		for k := range m {
			if !seen[k] {
				seen[k] = true
				ks = append(ks, k)
			}
		}
	}
	sort.Strings(ks)
	return ks
}

func delta(after, before ref.Amounts) ref.Amounts { return after.Clone().SubFrom(before) }

func truncDec(a ref.Amounts) ref.Amounts {
	out := ref.Amounts{}
	for _, d := range a.Denoms() {
		out[d] = new(big.Int).Quo(a[d], ref.Scale)
	}
	return out
}

// ---- run ---------------------------------------------------------------------------------------------

// module addresses as bech32; filled in by runC14 once the "band" prefix is configured (sim.NewAccount does that).
var feeCollectorAddr, distrAddr, bondedAddr, notBondedAddr string

func initAddrs() {
	feeCollectorAddr = authtypes.NewModuleAddress(authtypes.FeeCollectorName).String()
	distrAddr = authtypes.NewModuleAddress(distrtypes.ModuleName).String()
	bondedAddr = authtypes.NewModuleAddress(stakingtypes.BondedPoolName).String()
	notBondedAddr = authtypes.NewModuleAddress(stakingtypes.NotBondedPoolName).String()
}

// model is what the harness predicts about who is eligible.
type model struct {
	oracleActive []bool
	inCur        []bool // per user: member of the current group
	tssActive    []bool // per user: active in the current group
	deCount      []int  // per user: queued DEs
}

func (m *model) eligible(u int) bool { return m.inCur[u] && m.tssActive[u] && m.deCount[u] > 0 }

type blockInput struct {
	height    int64
	pre, post *snap
	feesPaid  ref.Amounts // fee paid by the payer in this block
	payer     string
	proposer  int
	events    []transferEv // begin-block transfers fee collector -> distribution (nil at height 1: not observable)
	hasEvents bool
	powers    []int64 // voting power per validator in the last commit handed to this block (0 = not in the commit)
	evidence  bool    // this block carries double-sign evidence: the slashed stake is burned from the staking pools
	jailedIn  int     // validator that is jailed in staking but still in this block's last commit (-1: none)
}

type transferEv struct{ amount string }

func runC14(c c14Case) *pbt.Verdict {
	v := &pbt.Verdict{}
	n := len(c.Powers)
	if n == 0 || len(c.Blocks) == 0 {
		return v
	}
	tax, ok := new(big.Int).SetString(c.Tax, 10)
	if !ok || tax.Sign() < 0 || tax.Cmp(ref.Scale) > 0 || c.OraclePct > 100 || c.TssPct > 100 {
		return v // outside the quantifier
	}
	nm, ne := len(c.Members), len(c.Extras)
	nu := nm + ne + 1 // last user pays the fees
	payerIdx := nu - 1

	users := make([]*sim.Account, nu)
	for i := range users {
		users[i] = sim.NewAccount(fmt.Sprintf("user%d", i))
	}
	initAddrs()
	genesisTime := time.Unix(1_700_000_000, 0).UTC()

	// ---- genesis -------------------------------------------------------------------------------------
	vals := make([]sim.ValSpec, n)
	bonded := new(big.Int)
	for i, p := range c.Powers {
		vals[i] = sim.ValSpec{Tokens: p * 1_000_000}
		bonded.Add(bonded, big.NewInt(p*1_000_000))
	}
	huge, _ := new(big.Int).SetString("1000000000000000000000000000000000000000000000", 10)
	balance := ref.Amounts{}
	for _, d := range c14Denoms {
		balance[d] = huge
	}
	pool0 := coinsOf(c.Pool)

	md := &model{oracleActive: make([]bool, n), inCur: make([]bool, nu), tssActive: make([]bool, nu), deCount: make([]int, nu)}
	hasCur := nm > 0 && !c.NoCurGroup

	tg := tsstypes.DefaultGenesisState()
	bg := bandtsstypes.DefaultGenesisState()
	addDE := func(u int) {
		tg.DEs = append(tg.DEs, tsstypes.DEGenesis{Address: users[u].Addr.String(), DE: tsstypes.DE{PubD: pointOf(1000 + 2*u), PubE: pointOf(1001 + 2*u)}})
		md.deCount[u]++
	}
	if nm > 0 {
		tg.Groups = append(tg.Groups, tsstypes.NewGroup(1, uint64(nm), uint64((nm+1)/2), pointOf(7), tsstypes.GROUP_STATUS_ACTIVE, 1, bandtsstypes.ModuleName))
		for i, m := range c.Members {
			tg.Members = append(tg.Members, tsstypes.NewMember(tss.MemberID(i+1), 1, users[i].Addr, pointOf(100+i), false, m.Active))
			if m.HasDE {
				addDE(i)
			}
			if hasCur {
				md.inCur[i] = true
				md.tssActive[i] = m.Active
				bg.Members = append(bg.Members, bandtsstypes.Member{Address: users[i].Addr.String(), GroupID: 1, IsActive: m.Active, Since: time.Unix(1_600_000_000, 0).UTC()})
			}
		}
		if hasCur {
			bg.CurrentGroup = bandtsstypes.NewCurrentGroup(1, genesisTime)
		}
	}
	var g2 []int
	for i, m := range c.Members {
		if m.InG2 {
			g2 = append(g2, i)
		}
	}
	for j, e := range c.Extras {
		u := nm + j
		if e.Kind == "g2" {
			g2 = append(g2, u)
		}
		addDE(u)
	}
	if len(g2) > 0 {
		// group ids must be contiguous from 1 (the tss end blocker walks 1..count), so the non-current group is
		// group 2 when the member group exists and group 1 otherwise.
		gid2 := tss.GroupID(2)
		if nm == 0 {
			gid2 = 1
		}
		tg.Groups = append(tg.Groups, tsstypes.NewGroup(gid2, uint64(len(g2)), uint64((len(g2)+1)/2), pointOf(8), tsstypes.GROUP_STATUS_ACTIVE, 1, bandtsstypes.ModuleName))
		for k, u := range g2 {
			tg.Members = append(tg.Members, tsstypes.NewMember(tss.MemberID(k+1), gid2, users[u].Addr, pointOf(200+k), false, true))
			if md.deCount[u] == 0 {
				addDE(u)
			}
		}
	}

	op := oracletypes.DefaultParams()
	op.OracleRewardPercentage = c.OraclePct
	bp := bandtsstypes.DefaultParams()
	bp.RewardPercentage = c.TssPct
	taxDec := math.LegacyNewDecFromBigIntWithPrec(tax, 18)
	cfg := sim.Config{
		GenesisTime: genesisTime, NumAccounts: nu, Validators: vals, Balance: toSDK(balance),
		Oracle: &op, Bandtss: &bp, TSSGenesis: tg, BandtssGen: bg, MintOff: true, CommunityTax: &taxDec,
	}
	if c.NoSlash {
		cfg.ExtraGenesis = func(gs band.GenesisState, app *band.BandApp) {
			var sg slashingtypes.GenesisState
			app.AppCodec().MustUnmarshalJSON(gs[slashingtypes.ModuleName], &sg)
			sg.Params.SlashFractionDoubleSign = math.LegacyZeroDec()
			gs[slashingtypes.ModuleName] = app.AppCodec().MustMarshalJSON(&sg)
		}
	}
	if c.MaxGS > 0 {
		// the limit applies to group creation only: an existing (larger) group keeps all its members
		tp := tsstypes.DefaultParams()
		tp.MaxGroupSize = c.MaxGS
		cfg.TSS = &tp
	}
	if !pool0.IsZero() {
		cfg.ExtraBalance = map[string]sdk.Coins{feeCollectorAddr: toSDK(pool0)}
	}
	ch, err := sim.New(cfg, 0)
	if err != nil {
		if strings.Contains(err.Error(), "InitChain") || strings.Contains(err.Error(), "sim.New panic") {
			v.Failf("harness", "sim.New: %v", err)
		} else {
			v.Failf("C14/finalize", "block 1 (genesis fee pool %s) could not be produced: %v", show(pool0), err)
		}
		return v
	}
	defer ch.Close()
	if len(ch.Users) != nu || len(ch.Vals) != n {
		v.Failf("harness", "unexpected accounts")
		return v
	}
	for i := range users {
		if !ch.Users[i].Addr.Equals(users[i].Addr) {
			v.Failf("harness", "user address derivation differs")
			return v
		}
	}

	st := &caseStats{classes: map[string]bool{}}
	if c.MaxGS > 0 {
		st.classes["max-group-size-param-set"] = true
		if int(c.MaxGS) < len(c.Members) {
			st.classes["current-group-larger-than-max-group-size"] = true
		}
	}
	ck := &checker{c: c, v: v, ch: ch, tax: tax, md: md, st: st, nm: nm, ne: ne}

	// ---- block 1 (executed inside sim.New): pre-state is the genesis the harness itself configured ------
	pre := &snap{bal: map[string]ref.Amounts{}, supply: ref.Amounts{}, out: map[string]ref.Amounts{}, pool: ref.Amounts{}}
	for _, a := range ch.Users {
		pre.bal[a.Addr.String()] = balance.Clone()
		pre.supply.AddTo(balance)
	}
	for _, a := range ch.Vals {
		pre.bal[a.Addr.String()] = balance.Clone()
		pre.supply.AddTo(balance)
	}
	pre.bal[bondedAddr] = ref.Amounts{"uband": bonded}
	pre.supply.AddTo(pre.bal[bondedAddr])
	if !pool0.IsZero() {
		pre.bal[feeCollectorAddr] = pool0.Clone()
		pre.supply.AddTo(pool0)
	}
	post, err := takeSnap(ch)
	if err != nil {
		v.Failf("harness", "snapshot: %v", err)
		return v
	}
	ck.checkBlock(blockInput{height: 1, pre: pre, post: post, feesPaid: ref.Amounts{}, payer: ch.Users[payerIdx].Addr.String(), proposer: 0, powers: c.Powers, jailedIn: -1})
	if v.Violation != "" {
		return v
	}

	// ---- generated blocks ----------------------------------------------------------------------------
	jailed, jailH := -1, int64(0) // validator under evidence and the height of the block that carried it
	for bi, blk := range c.Blocks {
		pre = post
		type ptx struct {
			kind string
			idx  int
			okay bool // predicted to succeed
		}
		var txs [][]byte
		var meta []ptx
		next := &model{oracleActive: append([]bool(nil), md.oracleActive...), inCur: md.inCur,
			tssActive: append([]bool(nil), md.tssActive...), deCount: append([]int(nil), md.deCount...)}
		for _, a := range blk.Activate {
			i := ((a % n) + n) % n
			txs = append(txs, ch.SignTx(ch.Vals[i], oracletypes.NewMsgActivate(ch.Vals[i].Val)))
			meta = append(meta, ptx{"oracle_activate", i, !next.oracleActive[i]})
			next.oracleActive[i] = true
		}
		touched := map[int]bool{} // members with a queue-changing tx already in this block
		for _, o := range blk.Ops {
			if nm+ne == 0 {
				st.inapplicable++
				continue
			}
			u := ((o.M % (nm + ne)) + (nm + ne)) % (nm + ne)
			switch o.Kind {
			case "submit_de":
				k := 5000 + 16*bi + 2*len(txs)
				txs = append(txs, ch.SignTx(ch.Users[u], tsstypes.NewMsgSubmitDEs([]tsstypes.DE{{PubD: pointOf(k), PubE: pointOf(k + 1)}}, ch.Users[u].Addr.String())))
				meta = append(meta, ptx{"submit_de", u, true})
				next.deCount[u]++
				touched[u] = true
			case "consume_de":
				// a signing takes the member's oldest nonce (the keeper function signings use, applied between blocks; a
				// direct store write, so not in replica mode): queues drained this way have Head == Tail > 0
				if sim.Replicas > 1 || md.deCount[u] == 0 || touched[u] {
					st.inapplicable++
					continue
				}
				if _, derr := ch.App.TSSKeeper.DequeueDE(ch.WriteCtx(), ch.Users[u].Addr); derr != nil {
					v.Failf("harness", "DequeueDE: %v", derr)
					return v
				}
				md.deCount[u]--
				next.deCount[u]--
				if md.deCount[u] == 0 {
					st.classes["nonce-queue-drained-by-consumption"] = true
				}
			case "reset_de":
				txs = append(txs, ch.SignTx(ch.Users[u], tsstypes.NewMsgResetDE(ch.Users[u].Addr.String())))
				meta = append(meta, ptx{"reset_de", u, true})
				next.deCount[u] = 0
				touched[u] = true
			case "activate":
				txs = append(txs, ch.SignTx(ch.Users[u], bandtsstypes.NewMsgActivate(ch.Users[u].Addr.String(), 1)))
				okay := next.inCur[u] && !next.tssActive[u]
				meta = append(meta, ptx{"tss_activate", u, okay})
				if okay {
					next.tssActive[u] = true
				}
			default:
				st.inapplicable++
			}
		}
		fees := coinsOf(blk.Fees)
		if !fees.IsZero() {
			p := ch.Users[payerIdx]
			txs = append(txs, ch.SignTxOpts(p, 60_000_000, toSDK(fees), 0, banktypes.NewMsgSend(p.Addr, p.Addr, sdk.NewCoins(sdk.NewInt64Coin("uband", 1)))))
			meta = append(meta, ptx{"fee", payerIdx, true})
		}
		for i := 0; i < n; i++ {
			ch.Absent[i] = i < len(blk.Absent) && blk.Absent[i]
		}
		ch.Proposer = ((blk.Proposer % n) + n) % n
		evidence := false
		if blk.Jail > 0 && jailed < 0 && n >= 2 {
			// what CometBFT hands over when it has seen two votes of one validator for the last height
			jailed, jailH, evidence = (blk.Jail-1)%n, ch.Height+1, true
			ch.Misbehavior = append(ch.Misbehavior, abci.Misbehavior{Type: abci.MisbehaviorType_DUPLICATE_VOTE,
				Validator: abci.Validator{Address: ch.ConsKeys[jailed].PubKey().Address(), Power: c.Powers[jailed]},
				Height:    ch.Height, Time: ch.Time, TotalVotingPower: 100})
		}
		// The validator set changes two blocks after the block that jailed the validator: the commits handed to blocks
		// jailH+1 and jailH+2 still carry it with its power, from jailH+3 on it is gone (sim builds the commit from the
		// configured validators; power 0 = not in the commit) and cannot propose.
		powers := append([]int64(nil), c.Powers...)
		jailedIn := -1
		if jailed >= 0 && ch.Height+1 > jailH {
			if ch.Height+1 >= jailH+3 {
				powers[jailed] = 0
				ch.Cfg.Validators[jailed].Tokens = 0
				if ch.Proposer == jailed {
					ch.Proposer = (jailed + 1) % n
				}
			} else {
				jailedIn = jailed
			}
		}

		res, err := ch.Block(txs, 3*time.Second)
		if err != nil {
			v.Failf("C14/finalize", "block %d (fee pool %s, oracle pct %d, tss pct %d, tax %s) could not be produced: %v",
				ch.Height+1, show(pre.balOf(feeCollectorAddr)), c.OraclePct, c.TssPct, c.Tax, err)
			return v
		}
		for i, m := range meta {
			got := res.Resp.TxResults[i].Code == 0
			if got != m.okay {
				v.Failf("harness/tx-outcome", "block %d tx %d (%s %d): predicted ok=%v, code=%d log=%s", res.Height, i, m.kind, m.idx, m.okay,
					res.Resp.TxResults[i].Code, res.Resp.TxResults[i].Log)
				return v
			}
		}
		post, err = takeSnap(ch)
		if err != nil {
			v.Failf("harness", "snapshot: %v", err)
			return v
		}
		var evs []transferEv
		for _, e := range res.Resp.Events {
			if e.Type == "transfer" && sim.Attr(e, "mode") == "BeginBlock" && sim.Attr(e, "sender") == feeCollectorAddr && sim.Attr(e, "recipient") == distrAddr {
				evs = append(evs, transferEv{amount: sim.Attr(e, "amount")})
			}
		}
		if os.Getenv("C14_DEBUG") != "" {
			fmt.Printf("C14 block %d begin-block transfers fee_collector->distribution: %v\n", res.Height, evs)
		}
		for i := 0; i < n; i++ {
			if ch.Absent[i] && md.oracleActive[i] {
				st.absentActive++
			}
		}
		if evidence {
			// harness sanity: the evidence was accepted
			sv, serr := ch.App.StakingKeeper.GetValidator(ch.Ctx(), ch.Vals[jailed].Val)
			if serr != nil || !sv.IsJailed() {
				v.Failf("harness", "block %d: evidence against validator %d did not jail it (%v)", res.Height, jailed, serr)
				return v
			}
			st.classes["validator-jailed-by-evidence"] = true
		}
		ck.checkBlock(blockInput{height: res.Height, pre: pre, post: post, feesPaid: fees, payer: ch.Users[payerIdx].Addr.String(),
			proposer: ch.Proposer, events: evs, hasEvents: true, powers: powers, evidence: evidence, jailedIn: jailedIn})
		if v.Violation != "" {
			return v
		}
		*md = *next
		ck.checkModelSync()
		if v.Violation != "" {
			return v
		}
	}

	v.NonTrivial = st.nontrivial
	cls := make([]string, 0, len(st.classes))
	for k := range st.classes {
		cls = append(cls, k)
	}
	sort.Strings(cls)
	for _, k := range cls {
		v.Class(k)
	}
	v.Class(fmt.Sprintf("nvals:%d", n))
	v.Class("tax:" + taxClass(c.Tax))
	v.Class("opct:" + pctClass(c.OraclePct))
	v.Class("tpct:" + pctClass(c.TssPct))
	v.Count("blocks_measured", st.blocks)
	v.Count("blocks_oracle_ran", st.oracleRan)
	v.Count("blocks_tss_ran", st.tssRan)
	v.Count("blocks_both_ran", st.bothRan)
	v.Count("blocks_pool_empty", st.poolEmpty)
	v.Count("blocks_pool_multidenom", st.multiDenom)
	v.Count("inactive_proposer_got_remainder", st.inactiveProposerDust)
	v.Count("member_reward_below_exact_floor", st.idealDiffer)
	v.Count("absent_but_oracle_active_validator_blocks", st.absentActive)
	v.Count("other_account_changed", st.otherChanged)
	v.Count("inapplicable_ops", st.inapplicable)
	v.Count("ineligible_checked", st.ineligibleChecked)
	v.Count("eligible_checked", st.eligibleChecked)
	v.Count("inactive_validators_checked", st.inactiveValsChecked)
	v.Count("jailed_active_in_commit_blocks", st.jailedActiveInCommit)
	v.Count("jailed_active_in_commit_reward_due_blocks", st.jailedActiveDue)
	if os.Getenv("C14_DEBUG") != "" {
		fmt.Printf("C14 case ok: blocks=%d oracleRan=%d tssRan=%d nontrivial=%v\n", st.blocks, st.oracleRan, st.tssRan, st.nontrivial)
	}
	return v
}

func taxClass(t string) string {
	switch t {
	case "0":
		return "0"
	case "20000000000000000":
		return "0.02"
	case "500000000000000000":
		return "0.5"
	case "1000000000000000000":
		return "1"
	}
	return "random"
}

func pctClass(p uint64) string {
	switch {
	case p == 0:
		return "0"
	case p == 100:
		return "100"
	case p < 50:
		return "1-49"
	}
	return "50-99"
}

type caseStats struct {
	classes                                                   map[string]bool
	nontrivial                                                bool
	blocks, oracleRan, tssRan, bothRan, poolEmpty, multiDenom int64
	inactiveProposerDust, idealDiffer, absentActive           int64
	otherChanged, inapplicable                                int64
	ineligibleChecked, eligibleChecked, inactiveValsChecked   int64
	jailedActiveInCommit, jailedActiveDue                     int64
}

type checker struct {
	c      c14Case
	v      *pbt.Verdict
	ch     *sim.Chain
	tax    *big.Int
	md     *model
	st     *caseStats
	nm, ne int
}

// checkModelSync makes sure the harness' idea of who is active / has a DE agrees with the chain (a mismatch is a
// harness problem, not a property violation).
func (k *checker) checkModelSync() {
	ctx := k.ch.Ctx()
	for i, a := range k.ch.Vals {
		if got := k.ch.App.OracleKeeper.GetValidatorStatus(ctx, a.Val).IsActive; got != k.md.oracleActive[i] {
			k.v.Failf("harness", "validator %d oracle-active: chain %v model %v", i, got, k.md.oracleActive[i])
		}
	}
	cur := k.ch.App.BandtssKeeper.GetCurrentGroup(ctx).GroupID
	for u := 0; u < k.nm+k.ne; u++ {
		q := k.ch.App.TSSKeeper.GetDEQueue(ctx, k.ch.Users[u].Addr)
		if int(q.Tail-q.Head) != k.md.deCount[u] {
			k.v.Failf("harness", "user %d DE count: chain %d model %d", u, q.Tail-q.Head, k.md.deCount[u])
		}
		in, act := false, false
		if cur != 0 {
			// point read by member id (genesis members of group 1 are users 0..nm-1 with ids 1..nm): the sync check must
			// not depend on the member ITERATION the reward code itself uses
			if u < k.nm && cur == 1 {
				if m, err := k.ch.App.TSSKeeper.GetMember(ctx, cur, tss.MemberID(u+1)); err == nil && m.Address == k.ch.Users[u].Addr.String() {
					in, act = true, m.IsActive
				}
			} else if m, err := k.ch.App.TSSKeeper.GetMemberByAddress(ctx, cur, k.ch.Users[u].Addr.String()); err == nil {
				in, act = true, m.IsActive
			}
		}
		if in != k.md.inCur[u] || (in && act != k.md.tssActive[u]) {
			k.v.Failf("harness", "user %d membership: chain in=%v active=%v model in=%v active=%v", u, in, act, k.md.inCur[u], k.md.tssActive[u])
		}
	}
}

// checkBlock compares one measured block with the reference. The model state k.md is the state at the BEGINNING of
// the block (allocation happens in begin-block, before the block's own transactions).
func (k *checker) checkBlock(in blockInput) {
	v, st, c := k.v, k.st, k.c
	n := len(c.Powers)
	pre, post := in.pre, in.post
	st.blocks++
	where := fmt.Sprintf("block %d", in.height)

	// ---------- reference: the three stages in begin-block order ----------
	pool := pre.balOf(feeCollectorAddr).Clone()
	powers := in.powers
	if len(powers) != n {
		powers = c.Powers
	}
	// the property's rule: every oracle-active validator of the last commit shares the oracle reward by its power in
	// that commit (whatever staking says about it meanwhile)
	os1 := ref.RewardOracle(pool, c.OraclePct, k.tax, powers, k.md.oracleActive, in.proposer)
	pool2 := pool.Clone()
	if os1.Ran {
		pool2.SubFrom(os1.Share)
	}
	var elig []int
	for u := 0; u < k.nm+k.ne; u++ {
		if k.md.eligible(u) {
			elig = append(elig, u)
		}
	}
	ts := ref.RewardBandtss(pool2, c.TssPct, k.tax, len(elig))
	pool3 := pool2.Clone()
	if ts.Ran {
		pool3.SubFrom(ts.Share)
	}
	ds := ref.DistrStage{Moved: ref.Amounts{}, Community: ref.Amounts{}, PerVal: make([]ref.Amounts, n)}
	for i := range ds.PerVal {
		ds.PerVal[i] = ref.Amounts{}
	}
	if in.height > 1 { // the SDK distribution module does not allocate in the first block
		ds = ref.RewardDistr(pool3, k.tax, powers)
	}

	// ---------- statistics / classes ----------
	nd := len(pool.Denoms())
	if nd == 0 {
		st.poolEmpty++
	}
	if nd >= 2 {
		st.multiDenom++
	}
	nAct := 0
	for _, a := range k.md.oracleActive {
		if a {
			nAct++
		}
	}
	if j := in.jailedIn; j >= 0 && j < n && powers[j] > 0 && k.md.oracleActive[j] {
		st.jailedActiveInCommit++
		st.classes["jailed-but-still-in-commit-and-active"] = true
		if os1.Ran && !os1.PerVal[j].IsZero() {
			st.jailedActiveDue++
			st.classes["jailed-but-still-in-commit-and-active:oracle-reward-due"] = true
		}
	} else if j >= 0 && j < n {
		st.classes["jailed-but-still-in-commit:not-oracle-active"] = true
	}
	if os1.Ran {
		st.oracleRan++
		st.classes["oracle-stage:ran"] = true
		if !os1.Share.IsZero() && (len(os1.Share.Denoms()) >= 2 || os1.Indiv) {
			st.nontrivial = true
		}
		if os1.Indiv {
			st.classes["oracle-stage:non-divisible"] = true
		}
		if !k.md.oracleActive[in.proposer] {
			st.classes["oracle-stage:inactive-proposer"] = true
			if !os1.Remainder.IsZero() {
				st.inactiveProposerDust++
			}
		}
		if nAct < n {
			st.classes["oracle-stage:some-inactive"] = true
		}
	} else {
		st.classes["oracle-stage:skipped"] = true
	}
	if ts.Ran {
		st.tssRan++
		st.classes["tss-stage:ran"] = true
		st.classes[fmt.Sprintf("tss-eligible:%d", len(elig))] = true
		if !ts.Share.IsZero() && (len(ts.Share.Denoms()) >= 2 || ts.Indiv) {
			st.nontrivial = true
		}
		if ts.Indiv {
			st.classes["tss-stage:non-divisible"] = true
		}
		if ts.IdealDiffer {
			st.idealDiffer++
		}
		if len(elig) < k.nm+k.ne {
			st.classes["tss-stage:some-ineligible"] = true
		}
	} else {
		st.classes["tss-stage:skipped"] = true
	}
	if os1.Ran && ts.Ran {
		st.bothRan++
		st.classes["both-stages-ran"] = true
	}
	st.classes[fmt.Sprintf("pool-denoms:%d", nd)] = true

	// ---------- 1. total supply unchanged ----------
	// A block carrying double-sign evidence takes the slashed stake out of the staking pools. That is not allocation;
	// conservation still has to hold for it: the stake is either burned (the supply drops by exactly that much) or
	// credited somewhere else - this chain's bank keeper turns burns into community-pool funding - and nothing else
	// may leave or enter the supply.
	slashed, burned := ref.Amounts{}, ref.Amounts{}
	if in.evidence {
		pools := delta(post.balOf(bondedAddr), pre.balOf(bondedAddr)).AddTo(delta(post.balOf(notBondedAddr), pre.balOf(notBondedAddr)))
		slashed = ref.Amounts{}.SubFrom(pools)
		for _, d := range slashed.Denoms() {
			if slashed[d].Sign() < 0 {
				v.Failf("C14/supply", "%s: the staking pools grew by %s in a block that slashes", where, show(pools))
				return
			}
		}
		if !slashed.IsZero() {
			st.classes["evidence-block-slashes-stake"] = true
			if !pre.supply.Equal(post.supply) {
				burned = slashed
			}
		}
	}
	if !pre.supply.Clone().SubFrom(burned).Equal(post.supply) {
		v.Failf("C14/supply", "%s: total supply changed: before %s after %s (stake slashed in this block: %s)", where, show(pre.supply), show(post.supply), show(slashed))
		return
	}
	toPool := slashed.Clone().SubFrom(burned) // slashed stake that stays in the supply: community pool
	// ---------- 2. all balance changes sum to zero ----------
	sum := ref.Amounts{}
	for _, a := range sortedKeys(pre.bal, post.bal) {
		sum.AddTo(delta(post.balOf(a), pre.balOf(a)))
	}
	if !sum.AddTo(burned).IsZero() {
		v.Failf("C14/sum-deltas", "%s: balance changes (plus burned stake %s) sum to %s, expected zero", where, show(burned), show(sum))
		return
	}
	// ---------- 3. the distribution module account backs its books ----------
	books := post.pool.Clone()
	booksPre := pre.pool.Clone()
	for _, val := range sortedKeys(post.out) {
		books.AddTo(post.out[val])
	}
	for _, val := range sortedKeys(pre.out) {
		booksPre.AddTo(pre.out[val])
	}
	if !truncDec(books).Equal(post.balOf(distrAddr)) {
		v.Failf("C14/distr-backing", "%s: distribution account holds %s but outstanding rewards + community pool = %s (x1e-18)", where,
			show(post.balOf(distrAddr)), show(books))
		return
	}
	if !delta(books, booksPre).Equal(delta(post.balOf(distrAddr), pre.balOf(distrAddr)).Scaled()) {
		v.Failf("C14/books-delta", "%s: books (outstanding + community pool) changed by %s (x1e-18) but the distribution account by %s", where,
			show(delta(books, booksPre)), show(delta(post.balOf(distrAddr), pre.balOf(distrAddr))))
		return
	}

	// ---------- 4. shares moved out of the fee collector ----------
	moved := ref.Amounts{}
	if os1.Ran {
		moved.AddTo(os1.Share)
	}
	if ts.Ran {
		moved.AddTo(ts.Share)
	}
	moved.AddTo(ds.Moved)
	wantFC := pool.Clone().SubFrom(moved).AddTo(in.feesPaid)
	if !wantFC.Equal(post.balOf(feeCollectorAddr)) {
		v.Failf("C14/fee-collector", "%s: fee collector holds %s, expected %s (pool %s, oracle share %s, tss share %s, rest %s, fees paid in block %s)", where,
			show(post.balOf(feeCollectorAddr)), show(wantFC), show(pool), show(os1.Share), show(ts.Share), show(ds.Moved), show(in.feesPaid))
		return
	}
	if in.hasEvents {
		var want []string
		var names []string
		if os1.Ran && !os1.Share.IsZero() {
			want = append(want, toSDK(os1.Share).String())
			names = append(names, "oracle-share")
		}
		if ts.Ran && !ts.Share.IsZero() {
			want = append(want, toSDK(ts.Share).String())
			names = append(names, "tss-share")
		}
		if !ds.Moved.IsZero() {
			want = append(want, toSDK(ds.Moved).String())
			names = append(names, "rest")
		}
		var got []string
		for _, e := range in.events {
			if e.amount != "" {
				got = append(got, e.amount)
			}
		}
		for i := 0; i < len(want) || i < len(got); i++ {
			w, g, nm := "", "", "unexpected-transfer"
			if i < len(want) {
				w, nm = want[i], names[i]
			}
			if i < len(got) {
				g = got[i]
			}
			if w != g {
				v.Failf("C14/"+nm, "%s: transfer #%d fee collector -> distribution is %q, expected %s = %q (pool %s, oracle pct %d ran=%v, tss pct %d ran=%v)", where,
					i, g, nm, w, show(pool), c.OraclePct, os1.Ran, c.TssPct, ts.Ran)
				return
			}
		}
	}

	// ---------- 5. validators' outstanding rewards ----------
	for i, a := range k.ch.Vals {
		val := a.Val.String()
		got := delta(post.outOf(val), pre.outOf(val))
		want := ds.PerVal[i].Clone()
		if os1.Ran {
			want.AddTo(os1.PerVal[i])
		}
		if !k.md.oracleActive[i] {
			st.inactiveValsChecked++
		}
		if !got.Equal(want) {
			sig := "C14/validator-reward"
			if !k.md.oracleActive[i] {
				sig = "C14/inactive-validator-paid"
			}
			oracleWant := ref.Amounts{}
			if os1.Ran {
				oracleWant = os1.PerVal[i]
			}
			v.Failf(sig, "%s: validator %d (power %d, oracle-active %v, proposer %v): outstanding rewards changed by %s, expected %s = oracle stage %s + distribution stage %s (x1e-18; pool %s, oracle share %s, tax %s)",
				where, i, powers[i], k.md.oracleActive[i], i == in.proposer, show(got), show(want), show(oracleWant), show(ds.PerVal[i]), show(pool), show(os1.Share), c.Tax)
			return
		}
	}

	// ---------- 6. members ----------
	isElig := map[int]bool{}
	for _, u := range elig {
		isElig[u] = true
	}
	for u := 0; u < k.nm+k.ne; u++ {
		addr := k.ch.Users[u].Addr.String()
		got := delta(post.balOf(addr), pre.balOf(addr))
		if isElig[u] {
			st.eligibleChecked++
			if !got.Equal(ts.PerMember) {
				v.Failf("C14/member-reward", "%s: eligible member %d balance changed by %s, expected %s (tss share %s, %d eligible, tax %s)", where, u,
					show(got), show(ts.PerMember), show(ts.Share), len(elig), c.Tax)
				return
			}
		} else {
			st.ineligibleChecked++
			if !got.IsZero() {
				v.Failf("C14/ineligible-paid", "%s: user %d (in current group %v, active %v, queued DEs %d) balance changed by %s, expected no change", where, u,
					k.md.inCur[u], k.md.tssActive[u], k.md.deCount[u], show(got))
				return
			}
		}
	}

	// ---------- 7. community pool ----------
	wantPool := ds.Community.Clone().AddTo(toPool.Scaled())
	if os1.Ran {
		wantPool.AddTo(os1.Community.Scaled())
	}
	if ts.Ran {
		wantPool.AddTo(ts.Community.Scaled())
	}
	if got := delta(post.pool, pre.pool); !got.Equal(wantPool) {
		v.Failf("C14/community-pool", "%s: community pool changed by %s, expected %s (x1e-18) = oracle tax %s + tss tax and remainder %s + distribution remainder %s", where,
			show(got), show(wantPool), show(os1.Community), show(ts.Community), show(ds.Community))
		return
	}

	// ---------- statistic: anything else that moved ----------
	known := map[string]bool{feeCollectorAddr: true, distrAddr: true, in.payer: true}
	for u := 0; u < k.nm+k.ne; u++ {
		known[k.ch.Users[u].Addr.String()] = true
	}
	for _, a := range sortedKeys(pre.bal, post.bal) {
		if !known[a] && !delta(post.balOf(a), pre.balOf(a)).IsZero() {
			st.otherChanged++
		}
	}
}
