// Package sim is "chainsim": a deterministic in-process BandChain built from the real application
// (band.NewBandApp + InitChain + FinalizeBlock/Commit). Nothing is mocked: real ante handler, real keepers,
// real begin/end blockers. Everything that varies is data in Config.
package sim

import (
	"verif/harness/pbt"

	"context"
	"crypto/sha256"
	"encoding/json"
	"fmt"
	"os"
	"strings"
	"sync"
	"time"

	abci "github.com/cometbft/cometbft/abci/types"
	cmtproto "github.com/cometbft/cometbft/proto/tendermint/types"
	cmttypes "github.com/cometbft/cometbft/types"

	cosmosdb "github.com/cosmos/cosmos-db"

	"cosmossdk.io/log"
	"cosmossdk.io/math"

	"github.com/cosmos/cosmos-sdk/baseapp"
	codectypes "github.com/cosmos/cosmos-sdk/codec/types"
	"github.com/cosmos/cosmos-sdk/crypto/keys/ed25519"
	"github.com/cosmos/cosmos-sdk/crypto/keys/secp256k1"
	cryptotypes "github.com/cosmos/cosmos-sdk/crypto/types"
	"github.com/cosmos/cosmos-sdk/testutil/sims"
	sdk "github.com/cosmos/cosmos-sdk/types"
	"github.com/cosmos/cosmos-sdk/types/tx/signing"
	authsign "github.com/cosmos/cosmos-sdk/x/auth/signing"
	authtypes "github.com/cosmos/cosmos-sdk/x/auth/types"
	banktypes "github.com/cosmos/cosmos-sdk/x/bank/types"
	distrtypes "github.com/cosmos/cosmos-sdk/x/distribution/types"
	govtypes "github.com/cosmos/cosmos-sdk/x/gov/types"
	govv1 "github.com/cosmos/cosmos-sdk/x/gov/types/v1"
	minttypes "github.com/cosmos/cosmos-sdk/x/mint/types"
	slashingtypes "github.com/cosmos/cosmos-sdk/x/slashing/types"
	stakingtypes "github.com/cosmos/cosmos-sdk/x/staking/types"

	band "github.com/bandprotocol/chain/v3/app"
	"github.com/bandprotocol/chain/v3/pkg/filecache"
	bandtsstypes "github.com/bandprotocol/chain/v3/x/bandtss/types"
	feedstypes "github.com/bandprotocol/chain/v3/x/feeds/types"
	oracletypes "github.com/bandprotocol/chain/v3/x/oracle/types"
	restaketypes "github.com/bandprotocol/chain/v3/x/restake/types"
	tsstypes "github.com/bandprotocol/chain/v3/x/tss/types"
	tunneltypes "github.com/bandprotocol/chain/v3/x/tunnel/types"
)

var setupOnce sync.Once

func setupGlobals() {
	setupOnce.Do(func() {
		band.SetBech32AddressPrefixesAndBip44CoinTypeAndSeal(sdk.GetConfig())
	})
}

// Account is a key the harness controls.
type Account struct {
	Name string
	Priv cryptotypes.PrivKey
	Addr sdk.AccAddress
	Val  sdk.ValAddress
	Num  uint64
	Seq  uint64
}

func NewAccount(name string) *Account {
	setupGlobals()
	p := secp256k1.GenPrivKeyFromSecret([]byte("verif-acct-" + name))
	return &Account{Name: name, Priv: p, Addr: sdk.AccAddress(p.PubKey().Address()), Val: sdk.ValAddress(p.PubKey().Address())}
}

// ValSpec describes a genesis validator (operator = account "val<i>", self-delegated, rate 1, bonded).
type ValSpec struct {
	Tokens int64 // uband, >= 1_000_000
}

// DSSpec is a genesis data source.
type DSSpec struct {
	Exec     []byte
	Fee      sdk.Coins
	Treasury int // index into Accounts
}

// Config is everything that varies about a simulated chain.
type Config struct {
	ChainID      string
	GenesisTime  time.Time
	NumAccounts  int       // plain user accounts user0..userN-1
	Balance      sdk.Coins // initial balance of each user account and each validator operator
	Validators   []ValSpec
	DataSources  []DSSpec
	Scripts      [][]byte // raw wasm (uncompiled) of genesis oracle scripts
	Oracle       *oracletypes.Params
	TSS          *tsstypes.Params
	Bandtss      *bandtsstypes.Params
	Feeds        *feedstypes.Params
	Tunnel       *tunneltypes.Params
	Restake      *restaketypes.Params
	TSSGenesis   *tsstypes.GenesisState     // optional: pre-formed groups/members/DEs (params overwritten by TSS)
	BandtssGen   *bandtsstypes.GenesisState // optional: current group / members (params overwritten by Bandtss)
	FeedsVotes   []feedstypes.Vote
	CommunityTax *math.LegacyDec
	MintOff      bool // inflation 0 (so fee pool contents are exactly what the test puts there)
	GovVoting    time.Duration
	ExtraGenesis func(gs band.GenesisState, app *band.BandApp)
	ExtraBalance map[string]sdk.Coins // bech32 -> extra genesis balance (e.g. fee collector)
}

// Chain is one running replica.
type Chain struct {
	App      *band.BandApp
	Cfg      Config
	Users    []*Account
	Vals     []*Account // operator accounts
	ConsKeys []cryptotypes.PrivKey
	Height   int64
	Time     time.Time
	AppHash  []byte
	Home     string
	byAddr   map[string]*Account
	Proposer int
	// VoteFlags lets a test mark validators as absent in DecidedLastCommit (index by validator).
	Absent map[int]bool
	// Misbehavior (evidence of double signing) delivered with the next block, then cleared.
	Misbehavior []abci.Misbehavior
	// replica mode (see replicas.go)
	twins   []*band.BandApp
	tainted bool
	slot    int
	// Reimports counts genesis export/import round trips done on this chain.
	Reimports int
}

var (
	homeMu   sync.Mutex
	homeDirs []string
)

func newHome() string {
	d, err := os.MkdirTemp("", "verif-home-")
	if err != nil {
		panic(err)
	}
	homeMu.Lock()
	homeDirs = append(homeDirs, d)
	homeMu.Unlock()
	return d
}

// Cleanup removes all temporary home directories created by this process (registered with pbt: runs at the end of
// every Check; the directories are re-created on demand).
func Cleanup() {
	sharedHome.Lock()
	sharedHome.dirs = map[int]string{}
	sharedHome.Unlock()
	homeMu.Lock()
	defer homeMu.Unlock()
	for _, d := range homeDirs {
		os.RemoveAll(d)
	}
	homeDirs = nil
}

func init() { pbt.RegisterCleanup(Cleanup) }

var sharedHome struct {
	sync.Mutex
	dirs map[int]string // one per replica slot, created on first use
}

// homeFor returns a per-process home directory for replica slot i (the file cache is content addressed, so
// sharing it between cases is safe and saves disk churn).
func homeFor(slot int) string {
	sharedHome.Lock()
	defer sharedHome.Unlock()
	if sharedHome.dirs == nil {
		sharedHome.dirs = map[int]string{}
	}
	d, ok := sharedHome.dirs[slot]
	if !ok {
		d = newHome()
		sharedHome.dirs[slot] = d
	}
	return d
}

var compiledCache sync.Map // sha of raw wasm -> compiled

// DefaultConsensusParams as in the repo's testing app.
var DefaultConsensusParams = &cmtproto.ConsensusParams{
	Block:    &cmtproto.BlockParams{MaxBytes: 3000000, MaxGas: -1},
	Evidence: &cmtproto.EvidenceParams{MaxAgeNumBlocks: 100000, MaxAgeDuration: 48 * time.Hour, MaxBytes: 1048576},
	Validator: &cmtproto.ValidatorParams{
		PubKeyTypes: []string{cmttypes.ABCIPubKeyTypeEd25519, cmttypes.ABCIPubKeyTypeSecp256k1},
	},
}

// New builds a chain from cfg in replica slot `slot` (distinct slots have distinct home dirs and DBs).
func New(cfg Config, slot int) (c *Chain, err error) {
	setupGlobals()
	defer func() {
		if r := recover(); r != nil {
			err = fmt.Errorf("sim.New panic: %v", r)
		}
	}()
	if cfg.ChainID == "" {
		cfg.ChainID = "bandsim"
	}
	if cfg.GenesisTime.IsZero() {
		cfg.GenesisTime = time.Unix(1_700_000_000, 0).UTC()
	}
	if cfg.Balance == nil {
		cfg.Balance = sdk.NewCoins(sdk.NewInt64Coin("uband", 1_000_000_000_000))
	}
	if cfg.GovVoting == 0 {
		cfg.GovVoting = 10 * time.Second
	}
	home := homeFor(slot)
	build := func(home string) *band.BandApp {
		return band.NewBandApp(log.NewNopLogger(), cosmosdb.NewMemDB(), nil, true, map[int64]bool{}, home,
			sims.EmptyAppOptions{}, 100, baseapp.SetChainID(cfg.ChainID))
	}
	app := build(home)
	var files [][]byte
	c = &Chain{App: app, Cfg: cfg, Home: home, byAddr: map[string]*Account{}, Absent: map[int]bool{}, slot: slot}

	gs := band.NewDefaultGenesisState(app.AppCodec())
	cdc := app.AppCodec()

	var genAccs []authtypes.GenesisAccount
	var balances []banktypes.Balance
	total := sdk.NewCoins()
	addAcc := func(a *Account) {
		a.Num = uint64(len(genAccs))
		genAccs = append(genAccs, &authtypes.BaseAccount{Address: a.Addr.String(), AccountNumber: a.Num})
		balances = append(balances, banktypes.Balance{Address: a.Addr.String(), Coins: cfg.Balance})
		total = total.Add(cfg.Balance...)
		c.byAddr[a.Addr.String()] = a
	}
	for i := 0; i < cfg.NumAccounts; i++ {
		a := NewAccount(fmt.Sprintf("user%d", i))
		c.Users = append(c.Users, a)
		addAcc(a)
	}
	for i := range cfg.Validators {
		a := NewAccount(fmt.Sprintf("val%d", i))
		c.Vals = append(c.Vals, a)
		addAcc(a)
		c.ConsKeys = append(c.ConsKeys, ed25519.GenPrivKeyFromSecret([]byte(fmt.Sprintf("verif-cons-%d", i))))
	}
	authGen := authtypes.NewGenesisState(authtypes.DefaultParams(), genAccs)
	gs[authtypes.ModuleName] = cdc.MustMarshalJSON(authGen)

	// staking
	var validators []stakingtypes.Validator
	var delegations []stakingtypes.Delegation
	var signingInfos []slashingtypes.SigningInfo
	bonded := math.ZeroInt()
	for i, vs := range cfg.Validators {
		pkAny, _ := codectypes.NewAnyWithValue(c.ConsKeys[i].PubKey())
		tok := math.NewInt(vs.Tokens)
		v := stakingtypes.Validator{
			OperatorAddress: c.Vals[i].Val.String(), ConsensusPubkey: pkAny, Status: stakingtypes.Bonded,
			Tokens: tok, DelegatorShares: math.LegacyNewDecFromInt(tok),
			UnbondingTime:     time.Unix(0, 0).UTC(),
			Commission:        stakingtypes.NewCommission(math.LegacyZeroDec(), math.LegacyZeroDec(), math.LegacyZeroDec()),
			MinSelfDelegation: math.ZeroInt(),
		}
		consAddr, _ := v.GetConsAddr()
		signingInfos = append(signingInfos, slashingtypes.SigningInfo{
			Address:              sdk.ConsAddress(consAddr).String(),
			ValidatorSigningInfo: slashingtypes.NewValidatorSigningInfo(consAddr, 0, 0, time.Unix(0, 0), false, 0),
		})
		validators = append(validators, v)
		delegations = append(delegations, stakingtypes.NewDelegation(c.Vals[i].Addr.String(), c.Vals[i].Val.String(), math.LegacyNewDecFromInt(tok)))
		bonded = bonded.Add(tok)
	}
	sp := stakingtypes.DefaultParams()
	sp.BondDenom = "uband"
	sp.UnbondingTime = 30 * time.Second
	gs[stakingtypes.ModuleName] = cdc.MustMarshalJSON(stakingtypes.NewGenesisState(sp, validators, delegations))
	gs[slashingtypes.ModuleName] = cdc.MustMarshalJSON(slashingtypes.NewGenesisState(slashingtypes.DefaultParams(), signingInfos, nil))
	if bonded.IsPositive() {
		bc := sdk.NewCoins(sdk.NewCoin("uband", bonded))
		balances = append(balances, banktypes.Balance{Address: authtypes.NewModuleAddress(stakingtypes.BondedPoolName).String(), Coins: bc})
		total = total.Add(bc...)
	}
	for addr, coins := range cfg.ExtraBalance {
		balances = append(balances, banktypes.Balance{Address: addr, Coins: coins})
		total = total.Add(coins...)
	}
	gs[banktypes.ModuleName] = cdc.MustMarshalJSON(banktypes.NewGenesisState(banktypes.DefaultGenesisState().Params, balances, total, nil, nil))

	// gov: short voting so authority-only messages are reachable through real proposals
	var govGen govv1.GenesisState
	cdc.MustUnmarshalJSON(gs[govtypes.ModuleName], &govGen)
	vp := cfg.GovVoting
	evp := cfg.GovVoting / 2
	govGen.Params.VotingPeriod = &vp
	govGen.Params.ExpeditedVotingPeriod = &evp
	mdp := 2 * time.Hour
	govGen.Params.MaxDepositPeriod = &mdp
	govGen.Params.MinDeposit = sdk.NewCoins(sdk.NewInt64Coin("uband", 10))
	govGen.Params.ExpeditedMinDeposit = sdk.NewCoins(sdk.NewInt64Coin("uband", 20))
	gs[govtypes.ModuleName] = cdc.MustMarshalJSON(&govGen)

	if cfg.MintOff {
		var mg minttypes.GenesisState
		cdc.MustUnmarshalJSON(gs[minttypes.ModuleName], &mg)
		mg.Minter.Inflation = math.LegacyZeroDec()
		mg.Params.InflationMax = math.LegacyZeroDec()
		mg.Params.InflationMin = math.LegacyZeroDec()
		mg.Params.InflationRateChange = math.LegacyZeroDec()
		gs[minttypes.ModuleName] = cdc.MustMarshalJSON(&mg)
	}
	if cfg.CommunityTax != nil {
		var dg distrtypes.GenesisState
		cdc.MustUnmarshalJSON(gs[distrtypes.ModuleName], &dg)
		dg.Params.CommunityTax = *cfg.CommunityTax
		gs[distrtypes.ModuleName] = cdc.MustMarshalJSON(&dg)
	}

	// oracle
	og := oracletypes.DefaultGenesisState()
	if cfg.Oracle != nil {
		og.Params = *cfg.Oracle
	}
	fc := filecache.New(home + "/files")
	for i, ds := range cfg.DataSources {
		files = append(files, ds.Exec)
		h := fc.AddFile(ds.Exec)
		tre := c.Users[ds.Treasury%len(c.Users)]
		og.DataSources = append(og.DataSources, oracletypes.NewDataSource(c.Users[0].Addr, fmt.Sprintf("ds%d", i+1), "", h, ds.Fee, tre.Addr))
	}
	for i, raw := range cfg.Scripts {
		comp := CompileWasm(raw)
		files = append(files, comp)
		h := fc.AddFile(comp)
		og.OracleScripts = append(og.OracleScripts, oracletypes.NewOracleScript(c.Users[0].Addr, fmt.Sprintf("os%d", i+1), "", h, "", ""))
	}
	gs[oracletypes.ModuleName] = cdc.MustMarshalJSON(og)

	tg := tsstypes.DefaultGenesisState()
	if cfg.TSSGenesis != nil {
		tg = cfg.TSSGenesis
	}
	if cfg.TSS != nil {
		tg.Params = *cfg.TSS
	}
	gs[tsstypes.ModuleName] = cdc.MustMarshalJSON(tg)

	bg := bandtsstypes.DefaultGenesisState()
	if cfg.BandtssGen != nil {
		bg = cfg.BandtssGen
	}
	if cfg.Bandtss != nil {
		bg.Params = *cfg.Bandtss
	}
	gs[bandtsstypes.ModuleName] = cdc.MustMarshalJSON(bg)

	fg := feedstypes.DefaultGenesisState()
	if cfg.Feeds != nil {
		fg.Params = *cfg.Feeds
	}
	if fg.Params.Admin == "" || fg.Params.Admin == "[NOT_SET]" {
		fg.Params.Admin = c.Users[0].Addr.String()
	}
	fg.Votes = cfg.FeedsVotes
	gs[feedstypes.ModuleName] = cdc.MustMarshalJSON(fg)

	if cfg.Tunnel != nil {
		tng := tunneltypes.DefaultGenesisState()
		tng.Params = *cfg.Tunnel
		gs[tunneltypes.ModuleName] = cdc.MustMarshalJSON(tng)
	}
	if cfg.Restake != nil {
		rg := restaketypes.DefaultGenesisState()
		rg.Params = *cfg.Restake
		gs[restaketypes.ModuleName] = cdc.MustMarshalJSON(rg)
	}
	if cfg.ExtraGenesis != nil {
		cfg.ExtraGenesis(gs, app)
	}

	stateBytes, err := json.Marshal(gs)
	if err != nil {
		return nil, err
	}
	initChain := func(a *band.BandApp) error {
		_, err := a.InitChain(&abci.RequestInitChain{
			Time: cfg.GenesisTime, ChainId: cfg.ChainID, ConsensusParams: DefaultConsensusParams,
			Validators: []abci.ValidatorUpdate{}, AppStateBytes: stateBytes, InitialHeight: 1,
		})
		return err
	}
	if err = initChain(app); err != nil {
		return nil, fmt.Errorf("InitChain: %w", err)
	}
	if Replicas > 1 {
		if err = c.newTwins(stateBytes, slot, files, build, initChain); err != nil {
			return nil, fmt.Errorf("InitChain (replica): %w", err)
		}
	}
	c.Height = 0
	c.Time = cfg.GenesisTime
	// commit block 1 so that state is visible to readers
	if _, err := c.Block(nil, time.Second); err != nil {
		return nil, err
	}
	return c, nil
}

// Close releases the app's resources.
func (c *Chain) Close() {
	if c != nil && c.App != nil {
		_ = c.App.Close()
		for _, t := range c.twins {
			_ = t.Close()
		}
	}
}

// CompileWasm compiles raw wasm with the owasm VM (cached per process).
func CompileWasm(raw []byte) []byte {
	k := string(raw)
	if v, ok := compiledCache.Load(k); ok {
		return v.([]byte)
	}
	comp := compileOwasm(raw)
	compiledCache.Store(k, comp)
	return comp
}

// Account returns the harness account for an address (nil if not ours).
func (c *Chain) Account(addr string) *Account { return c.byAddr[addr] }

// AddAccount registers a harness-controlled account that was not in genesis (it must be funded by a tx).
func (c *Chain) AddAccount(a *Account) { c.byAddr[a.Addr.String()] = a }

// BlockResult is what one block produced.
type BlockResult struct {
	Resp   *abci.ResponseFinalizeBlock
	Height int64
	Time   time.Time
}

// Block executes FinalizeBlock+Commit for the next height with block time advanced by dt.
// A returned error means FinalizeBlock itself failed (the node could not produce the block); a panic
// inside FinalizeBlock is recovered and returned as an error with Panic=true semantic via ErrPanic.
func (c *Chain) Block(txs [][]byte, dt time.Duration) (res *BlockResult, err error) {
	defer func() {
		if r := recover(); r != nil {
			err = &PanicError{Value: r}
		}
	}()
	h := c.Height + 1
	t := c.Time.Add(dt)
	votes := []abci.VoteInfo{}
	var rctx sdk.Context
	if c.Height > 0 {
		rctx = c.Ctx()
	}
	for i, vs := range c.Cfg.Validators {
		if c.Height > 0 {
			// a real CometBFT commit only contains validators that still exist (a validator removed after
			// unbonding with zero shares is gone from the set)
			if _, err := c.App.StakingKeeper.GetValidatorByConsAddr(rctx, sdk.ConsAddress(c.ConsKeys[i].PubKey().Address())); err != nil {
				continue
			}
		}
		flag := cmtproto.BlockIDFlagCommit
		if c.Absent[i] {
			flag = cmtproto.BlockIDFlagAbsent
		}
		votes = append(votes, abci.VoteInfo{
			Validator:   abci.Validator{Address: c.ConsKeys[i].PubKey().Address(), Power: vs.Tokens / 1_000_000},
			BlockIdFlag: flag,
		})
	}
	var proposer []byte
	if len(c.ConsKeys) > 0 {
		proposer = c.ConsKeys[c.Proposer%len(c.ConsKeys)].PubKey().Address()
	}
	// the first byte of the block hash feeds the rolling seed: derive a varying, deterministic hash
	hsum := sha256.Sum256([]byte(fmt.Sprintf("blk-%d-%d-%d", h, t.UnixNano(), len(txs))))
	hash := hsum[:]
	req := &abci.RequestFinalizeBlock{
		Height: h, Time: t, Txs: txs, Hash: hash, ProposerAddress: proposer,
		DecidedLastCommit: abci.CommitInfo{Votes: votes}, NextValidatorsHash: hash, Misbehavior: c.Misbehavior,
	}
	c.Misbehavior = nil
	resp, err := finalizeRecover(c.App, req)
	if err != nil {
		if _, isPanic := err.(*PanicError); isPanic {
			obs.fail("C02/panic", "height %d: node panic while executing the block: %v", h, err)
		} else if len(req.Misbehavior) > 0 && strings.Contains(err.Error(), "unable to undelegate") {
			// begin-block slashing of a redelegation is vetoed by the restake staking hook (lock above remaining power)
			obs.fail("C02/slash-blocked-by-restake-lock", "height %d: a block carrying misbehaviour evidence cannot be finalized: %v", h, err)
		} else {
			obs.fail("C02/finalize-error", "height %d: FinalizeBlock returned an error (the node cannot produce the block): %v", h, err)
		}
		return nil, err
	}
	if _, err := c.App.Commit(); err != nil {
		return nil, err
	}
	c.observeBlock(txs, resp)
	c.runTwins(req, resp)
	c.Height, c.Time, c.AppHash = h, t, resp.AppHash
	c.resync()
	return &BlockResult{Resp: resp, Height: h, Time: t}, nil
}

// PanicError marks a recovered panic from block execution.
type PanicError struct{ Value any }

func (p *PanicError) Error() string { return fmt.Sprintf("panic: %v", p.Value) }

// Ctx returns a read context on the latest committed state (a cache branch that is never written back).
func (c *Chain) Ctx() sdk.Context {
	ctx := c.App.NewUncachedContext(false, cmtproto.Header{Height: c.Height, Time: c.Time, ChainID: c.Cfg.ChainID})
	cc, _ := ctx.CacheContext()
	return cc
}

// WriteCtx returns a context whose writes go straight to the root store (set-up steps only).
func (c *Chain) WriteCtx() sdk.Context {
	c.taint() // direct writes reach the primary only: replicas stop being comparable
	return c.App.NewUncachedContext(false, cmtproto.Header{Height: c.Height, Time: c.Time, ChainID: c.Cfg.ChainID})
}

func (c *Chain) resync() {
	ctx := c.Ctx()
	for _, a := range c.byAddr {
		acc := c.App.AccountKeeper.GetAccount(ctx, a.Addr)
		if acc != nil {
			a.Num, a.Seq = acc.GetAccountNumber(), acc.GetSequence()
		}
	}
}

// SignTx builds and signs (SIGN_MODE_DIRECT) a tx from one signer; the signer's local sequence is advanced
// optimistically and re-synchronised from the chain after every block.
func (c *Chain) SignTx(signer *Account, msgs ...sdk.Msg) []byte {
	return c.SignTxOpts(signer, 60_000_000, nil, 0, msgs...)
}

// SignTxOpts is SignTx with explicit gas, fee and sequence offset (seqDelta != 0 produces an ante failure).
func (c *Chain) SignTxOpts(signer *Account, gas uint64, fee sdk.Coins, seqDelta int64, msgs ...sdk.Msg) []byte {
	txCfg := c.App.GetTxConfig()
	b := txCfg.NewTxBuilder()
	if err := b.SetMsgs(msgs...); err != nil {
		panic(err)
	}
	b.SetGasLimit(gas)
	b.SetFeeAmount(fee)
	seq := uint64(int64(signer.Seq) + seqDelta)
	sig := signing.SignatureV2{PubKey: signer.Priv.PubKey(), Data: &signing.SingleSignatureData{SignMode: signing.SignMode_SIGN_MODE_DIRECT}, Sequence: seq}
	if err := b.SetSignatures(sig); err != nil {
		panic(err)
	}
	sd := authsign.SignerData{Address: signer.Addr.String(), ChainID: c.Cfg.ChainID, AccountNumber: signer.Num, Sequence: seq, PubKey: signer.Priv.PubKey()}
	bz, err := authsign.GetSignBytesAdapter(context.Background(), txCfg.SignModeHandler(), signing.SignMode_SIGN_MODE_DIRECT, sd, b.GetTx())
	if err != nil {
		panic(err)
	}
	s, err := signer.Priv.Sign(bz)
	if err != nil {
		panic(err)
	}
	sig.Data.(*signing.SingleSignatureData).Signature = s
	if err := b.SetSignatures(sig); err != nil {
		panic(err)
	}
	out, err := txCfg.TxEncoder()(b.GetTx())
	if err != nil {
		panic(err)
	}
	// The ante handler rejects a tx whose message fails ValidateBasic before the sequence is incremented.
	anteOK := seqDelta == 0
	for _, m := range msgs {
		if hv, ok := m.(sdk.HasValidateBasic); ok && hv.ValidateBasic() != nil {
			anteOK = false
		}
	}
	// A tx the node cannot even decode (e.g. an Any whose type is not registered for its interface) never reaches
	// the ante handler.
	if _, derr := txCfg.TxDecoder()(out); derr != nil {
		anteOK = false
	}
	if anteOK {
		signer.Seq++
	}
	return out
}

// GovAuthority is the address of the gov module account (authority of the band modules).
func GovAuthority() string { return authtypes.NewModuleAddress(govtypes.ModuleName).String() }

// GovExec runs msgs through a real governance proposal: submit (block n), all validators vote yes
// (block n+1), voting period elapses (block n+2; executed by gov's end blocker). Returns the proposal
// status and the three block results.
func (c *Chain) GovExec(msgs ...sdk.Msg) (passed bool, results []*BlockResult, err error) {
	prop, err := govv1.NewMsgSubmitProposal(msgs, sdk.NewCoins(sdk.NewInt64Coin("uband", 10)), c.Vals[0].Addr.String(), "", "t", "s", false)
	if err != nil {
		return false, nil, err
	}
	r1, err := c.Block([][]byte{c.SignTx(c.Vals[0], prop)}, time.Second)
	if err != nil {
		return false, nil, err
	}
	results = append(results, r1)
	if r1.Resp.TxResults[0].Code != 0 {
		return false, results, fmt.Errorf("submit proposal failed: %s", r1.Resp.TxResults[0].Log)
	}
	var pid uint64
	for _, ev := range r1.Resp.TxResults[0].Events {
		if ev.Type == "submit_proposal" {
			for _, a := range ev.Attributes {
				if a.Key == "proposal_id" {
					fmt.Sscan(a.Value, &pid)
				}
			}
		}
	}
	var txs [][]byte
	for _, v := range c.Vals {
		txs = append(txs, c.SignTx(v, govv1.NewMsgVote(v.Addr, pid, govv1.OptionYes, "")))
	}
	r2, err := c.Block(txs, time.Second)
	if err != nil {
		return false, results, err
	}
	results = append(results, r2)
	r3, err := c.Block(nil, c.Cfg.GovVoting+time.Second)
	if err != nil {
		return false, results, err
	}
	results = append(results, r3)
	p, perr := c.App.GovKeeper.Proposals.Get(c.Ctx(), pid)
	if perr != nil {
		return false, results, perr
	}
	return p.Status == govv1.StatusPassed, results, nil
}

// Events returns all events of a block result with the given type (begin/end block and tx events).
func Events(resp *abci.ResponseFinalizeBlock, typ string) []abci.Event {
	var out []abci.Event
	for _, e := range resp.Events {
		if e.Type == typ {
			out = append(out, e)
		}
	}
	for _, tr := range resp.TxResults {
		for _, e := range tr.Events {
			if e.Type == typ {
				out = append(out, e)
			}
		}
	}
	return out
}

// Attr returns the first attribute value with the key.
func Attr(e abci.Event, key string) string {
	for _, a := range e.Attributes {
		if a.Key == key {
			return a.Value
		}
	}
	return ""
}

// Attrs returns all attribute values with the key (in order).
func Attrs(e abci.Event, key string) []string {
	var out []string
	for _, a := range e.Attributes {
		if a.Key == key {
			out = append(out, a.Value)
		}
	}
	return out
}
