package sim

import (
	"encoding/json"
	"fmt"

	abci "github.com/cometbft/cometbft/abci/types"

	"cosmossdk.io/log"

	cosmosdb "github.com/cosmos/cosmos-db"

	"github.com/cosmos/cosmos-sdk/baseapp"
	sims "github.com/cosmos/cosmos-sdk/testutil/sims"

	band "github.com/bandprotocol/chain/v3/app"
)

// TryImportMutated exports the application state like Reimport, lets `mutate` edit the exported genesis document
// (module name -> raw JSON; e.g. an operator's migration script that drops or rewrites an entry), and tries to
// initialise a NEW application instance from the result. The chain itself is not touched: the new instance is
// closed again. The document first goes through the modules' ValidateGenesis (the validate-genesis command), then through
// InitChain. It returns the first error (a panic is turned into an error) or nil when the import succeeded.
func (c *Chain) TryImportMutated(mutate func(state map[string]json.RawMessage) error) (err error) {
	defer func() {
		if r := recover(); r != nil {
			err = fmt.Errorf("genesis import panic: %v", r)
		}
	}()
	exp, eerr := c.App.ExportAppStateAndValidators(false, nil, nil)
	if eerr != nil {
		return fmt.Errorf("harness: export: %w", eerr)
	}
	var state map[string]json.RawMessage
	if uerr := json.Unmarshal(exp.AppState, &state); uerr != nil {
		return fmt.Errorf("harness: exported state: %w", uerr)
	}
	if merr := mutate(state); merr != nil {
		return fmt.Errorf("harness: mutate: %w", merr)
	}
	// what `bandd validate-genesis` runs before an operator starts a node from a genesis file
	if verr := c.App.ModuleBasics.ValidateGenesis(c.App.AppCodec(), c.App.GetTxConfig(), state); verr != nil {
		return fmt.Errorf("validate-genesis: %w", verr)
	}
	bz, jerr := json.Marshal(state)
	if jerr != nil {
		return fmt.Errorf("harness: marshal: %w", jerr)
	}
	app := band.NewBandApp(log.NewNopLogger(), cosmosdb.NewMemDB(), nil, true, map[int64]bool{}, homeFor(2000+c.slot),
		sims.EmptyAppOptions{}, 100, baseapp.SetChainID(c.Cfg.ChainID))
	defer func() { _ = app.Close() }()
	_, ierr := app.InitChain(&abci.RequestInitChain{
		Time: c.Time, ChainId: c.Cfg.ChainID, ConsensusParams: DefaultConsensusParams,
		Validators: []abci.ValidatorUpdate{}, AppStateBytes: bz, InitialHeight: c.Height + 1,
	})
	return ierr
}
