package sim

// Replica mode (C02): with VERIF_REPLICAS=N every simulated chain is N independent applications (own DB, own
// home directory, own owasm VM) fed with the same genesis and the same blocks. After every block the replicas
// must agree on the app hash and on every transaction's code, codespace, gas wanted/used, data and events.
// Go randomises map iteration per range statement, so replicas in one process traverse maps in different orders;
// an order-dependent write, event or gas charge shows up as a mismatch. A FinalizeBlock error or panic of any
// replica is a totality failure. Failures are reported to pbt through the observer hooks, under the property
// named by VERIF_AS.

import (
	"bytes"
	"fmt"
	"os"
	"strconv"
	"strings"
	"sync"

	abci "github.com/cometbft/cometbft/abci/types"

	sdk "github.com/cosmos/cosmos-sdk/types"

	band "github.com/bandprotocol/chain/v3/app"

	"verif/harness/pbt"
)

// Replicas is the number of replicas per chain (1 = plain mode).
var Replicas = func() int {
	n, _ := strconv.Atoi(os.Getenv("VERIF_REPLICAS"))
	if n < 1 {
		n = 1
	}
	return n
}()

type caseObs struct {
	sync.Mutex
	sig, msg     string
	modules      map[string]bool
	endWork      map[string]bool
	blocks, txs  int64
	okTxs        int64
	tainted      bool
	chains       int64
	comparedBlks int64
}

var obs = &caseObs{}

func init() {
	pbt.RegisterObserver(func() {
		obs.Lock()
		defer obs.Unlock()
		obs.sig, obs.msg = "", ""
		obs.modules, obs.endWork = map[string]bool{}, map[string]bool{}
		obs.blocks, obs.txs, obs.okTxs, obs.chains, obs.comparedBlks, obs.tainted = 0, 0, 0, 0, 0, false
	}, func() (string, string, bool, []string, map[string]int64) {
		obs.Lock()
		defer obs.Unlock()
		var classes []string
		for m := range obs.modules {
			classes = append(classes, "module:"+m)
		}
		for w := range obs.endWork {
			classes = append(classes, "endblock:"+w)
		}
		if obs.tainted {
			classes = append(classes, "tainted-by-direct-write")
		}
		counters := map[string]int64{"blocks": obs.blocks, "txs": obs.txs, "txs_ok": obs.okTxs, "chains": obs.chains, "blocks_compared": obs.comparedBlks}
		nt := len(obs.modules) >= 2 && len(obs.endWork) >= 1 && obs.comparedBlks > 0
		return obs.sig, obs.msg, nt, classes, counters
	})
}

func (o *caseObs) fail(sig, format string, a ...any) {
	o.Lock()
	defer o.Unlock()
	if o.sig == "" {
		o.sig, o.msg = sig, fmt.Sprintf(format, a...)
	}
}

var customModules = map[string]bool{"oracle": true, "tss": true, "bandtss": true, "feeds": true, "tunnel": true, "restake": true, "globalfee": true}

// endblock work that involves more than one module
var crossModuleEvents = map[string]string{
	"resolve": "oracle-resolve", "signing_success": "tss-aggregate", "signing_failed": "tss-fail", "request_signature": "tss-assign",
	"produce_packet_success": "tunnel-packet", "produce_packet_fail": "tunnel-packet-fail", "update_price": "feeds-price",
	"group_transition_success": "bandtss-transition", "inactive_status": "bandtss-penalty", "deactivate": "oracle-deactivate",
	"round3_success": "tss-dkg",
}

func (c *Chain) observeBlock(txs [][]byte, resp *abci.ResponseFinalizeBlock) {
	obs.Lock()
	defer obs.Unlock()
	if obs.modules == nil {
		return
	}
	obs.blocks++
	obs.txs += int64(len(txs))
	for i, tr := range resp.TxResults {
		if tr.Code != 0 {
			continue
		}
		obs.okTxs++
		tx, err := c.App.GetTxConfig().TxDecoder()(txs[i])
		if err != nil {
			continue
		}
		for _, m := range tx.GetMsgs() {
			seg := strings.Split(strings.TrimPrefix(sdk.MsgTypeURL(m), "/"), ".")
			if len(seg) >= 2 && seg[0] == "band" && customModules[seg[1]] {
				obs.modules[seg[1]] = true
			}
		}
	}
	for _, e := range resp.Events {
		if w, ok := crossModuleEvents[e.Type]; ok {
			mode := ""
			for _, a := range e.Attributes {
				if a.Key == "mode" {
					mode = a.Value
				}
			}
			if mode == "EndBlock" || mode == "" {
				obs.endWork[w] = true
			}
		}
	}
}

func (c *Chain) newTwins(stateBytes []byte, slot int, files [][]byte, build func(home string) *band.BandApp, initChain func(app *band.BandApp) error) error {
	for i := 1; i < Replicas; i++ {
		home := homeFor(1000 + slot*16 + i)
		for _, f := range files {
			addFile(home, f)
		}
		app := build(home)
		if err := initChain(app); err != nil {
			return err
		}
		c.twins = append(c.twins, app)
	}
	obs.Lock()
	obs.chains++
	obs.Unlock()
	return nil
}

func eventsEqual(a, b []abci.Event) (bool, string) {
	if len(a) != len(b) {
		return false, fmt.Sprintf("%d vs %d events", len(a), len(b))
	}
	for i := range a {
		if a[i].Type != b[i].Type || len(a[i].Attributes) != len(b[i].Attributes) {
			return false, fmt.Sprintf("event %d: %s(%d attrs) vs %s(%d attrs)", i, a[i].Type, len(a[i].Attributes), b[i].Type, len(b[i].Attributes))
		}
		for j := range a[i].Attributes {
			if a[i].Attributes[j].Key != b[i].Attributes[j].Key || a[i].Attributes[j].Value != b[i].Attributes[j].Value {
				return false, fmt.Sprintf("event %d (%s) attribute %d: %s=%q vs %s=%q", i, a[i].Type, j,
					a[i].Attributes[j].Key, a[i].Attributes[j].Value, b[i].Attributes[j].Key, b[i].Attributes[j].Value)
			}
		}
	}
	return true, ""
}

// runTwins executes the block on every twin and compares with the primary's response.
func (c *Chain) runTwins(req *abci.RequestFinalizeBlock, primary *abci.ResponseFinalizeBlock) {
	if len(c.twins) == 0 || c.tainted {
		return
	}
	for ti, app := range c.twins {
		resp, err := finalizeRecover(app, req)
		if err != nil {
			obs.fail("C02/replica-finalize", "height %d: replica %d could not finalize a block the primary finalized: %v", req.Height, ti+1, err)
			return
		}
		if _, err := app.Commit(); err != nil {
			obs.fail("C02/replica-commit", "height %d: replica %d commit: %v", req.Height, ti+1, err)
			return
		}
		if !bytes.Equal(resp.AppHash, primary.AppHash) {
			obs.fail("C02/apphash-divergence", "height %d: app hash of replica %d is %X, primary %X (same genesis, same blocks)", req.Height, ti+1, resp.AppHash, primary.AppHash)
			return
		}
		if len(resp.TxResults) != len(primary.TxResults) {
			obs.fail("C02/result-divergence", "height %d: replica %d returned %d tx results, primary %d", req.Height, ti+1, len(resp.TxResults), len(primary.TxResults))
			return
		}
		for i := range resp.TxResults {
			a, b := primary.TxResults[i], resp.TxResults[i]
			if a.Code != b.Code || a.Codespace != b.Codespace || a.GasUsed != b.GasUsed || a.GasWanted != b.GasWanted || !bytes.Equal(a.Data, b.Data) {
				obs.fail("C02/result-divergence", "height %d tx %d: primary code=%d/%s gas=%d/%d data=%x ; replica %d code=%d/%s gas=%d/%d data=%x",
					req.Height, i, a.Code, a.Codespace, a.GasUsed, a.GasWanted, a.Data, ti+1, b.Code, b.Codespace, b.GasUsed, b.GasWanted, b.Data)
				return
			}
			if ok, why := eventsEqual(a.Events, b.Events); !ok {
				obs.fail("C02/event-divergence", "height %d tx %d: events differ between primary and replica %d: %s", req.Height, i, ti+1, why)
				return
			}
		}
		if ok, why := eventsEqual(primary.Events, resp.Events); !ok {
			obs.fail("C02/event-divergence", "height %d: block events differ between primary and replica %d: %s", req.Height, ti+1, why)
			return
		}
	}
	obs.Lock()
	obs.comparedBlks++
	obs.Unlock()
}

func finalizeRecover(app *band.BandApp, req *abci.RequestFinalizeBlock) (resp *abci.ResponseFinalizeBlock, err error) {
	defer func() {
		if r := recover(); r != nil {
			err = &PanicError{Value: r}
		}
	}()
	return app.FinalizeBlock(req)
}

func (c *Chain) taint() {
	if len(c.twins) > 0 && !c.tainted {
		c.tainted = true
		obs.Lock()
		obs.tainted = true
		obs.Unlock()
	}
}
