package sim

import (
	"fmt"
	"strings"
	"sync"

	owasm "github.com/bandprotocol/go-owasm/api"
	"github.com/bytecodealliance/wasmtime-go/v20"

	"github.com/bandprotocol/chain/v3/pkg/filecache"
	oracletypes "github.com/bandprotocol/chain/v3/x/oracle/types"
)

var filecacheNew = filecache.New

var (
	vmOnce sync.Once
	vm     *owasm.Vm
)

func compileOwasm(raw []byte) []byte {
	vmOnce.Do(func() {
		v, err := owasm.NewVm(10)
		if err != nil {
			panic(err)
		}
		vm = v
	})
	out, err := vm.Compile(raw, oracletypes.MaxCompiledWasmCodeSize)
	if err != nil {
		panic(err)
	}
	return out
}

// Wat compiles WAT text to wasm.
func Wat(wat string) []byte {
	b, err := wasmtime.Wat2Wasm(wat)
	if err != nil {
		panic(err)
	}
	return b
}

// ScriptAsk returns an oracle script that in prepare asks the given data source ids (external id = position+1,
// calldata "test") and in execute returns the constant bytes ret (empty ret => script returns nothing => FAILURE).
func ScriptAsk(dsIDs []int, ret string) []byte {
	eids := make([]int, len(dsIDs))
	for i := range eids {
		eids[i] = i + 1
	}
	return ScriptAskEIDs(dsIDs, eids, ret)
}

// ScriptAskEIDs is ScriptAsk with explicit external ids (asked in the given order, which need not be ascending).
func ScriptAskEIDs(dsIDs []int, eids []int, ret string) []byte {
	var sb strings.Builder
	sb.WriteString(`(module
	(type $t0 (func))
	(type $t1 (func (param i64 i64 i64 i64)))
	(type $t2 (func (param i64 i64)))
	(import "env" "ask_external_data" (func $ask_external_data (type $t1)))
	(import "env" "set_return_data" (func $set_return_data (type $t2)))
	(func $prepare (export "prepare") (type $t0)
`)
	for i, d := range dsIDs {
		fmt.Fprintf(&sb, "  i64.const %d\n  i64.const %d\n  i64.const 1024\n  i64.const 4\n  call $ask_external_data\n", eids[i], d)
	}
	sb.WriteString(")\n\t(func $execute (export \"execute\") (type $t0)\n")
	if ret != "" {
		fmt.Fprintf(&sb, "  i64.const 2048\n  i64.const %d\n  call $set_return_data\n", len(ret))
	}
	sb.WriteString(")\n\t(memory $memory (export \"memory\") 17)\n\t(data (i32.const 1024) \"test\")\n")
	if ret != "" {
		fmt.Fprintf(&sb, "\t(data (i32.const 2048) %q)\n", ret)
	}
	sb.WriteString(")\n")
	return Wat(sb.String())
}

// ScriptEcho asks data source dsID once (external id 1) and, in execute, returns
// ans_count|min_count|ask_count|execute_time (little-endian i64 each) followed, for every requested validator
// index, by status (i64; -1 = no report) and, when a report exists, len (i64) + data of external id 1.
func ScriptEcho(dsID int) []byte {
	return Wat(fmt.Sprintf(`(module
 (type $v_i (func (result i64)))
 (type $t0 (func))
 (type $t1 (func (param i64 i64 i64 i64)))
 (type $t2 (func (param i64 i64)))
 (type $ii_i (func (param i64 i64) (result i64)))
 (type $iii_i (func (param i64 i64 i64) (result i64)))
 (import "env" "get_ask_count" (func $get_ask_count (type $v_i)))
 (import "env" "get_min_count" (func $get_min_count (type $v_i)))
 (import "env" "get_ans_count" (func $get_ans_count (type $v_i)))
 (import "env" "get_execute_time" (func $get_execute_time (type $v_i)))
 (import "env" "ask_external_data" (func $ask (type $t1)))
 (import "env" "set_return_data" (func $ret (type $t2)))
 (import "env" "get_external_data_status" (func $status (type $ii_i)))
 (import "env" "read_external_data" (func $read (type $iii_i)))
 (func $prepare (export "prepare") (type $t0)
   i64.const 1
   i64.const %d
   i64.const 1024
   i64.const 4
   call $ask)
 (func $execute (export "execute") (type $t0)
   (local $vid i64) (local $ptr i64) (local $st i64) (local $n i64) (local $len i64)
   (i64.store (i32.const 2048) (call $get_ans_count))
   (i64.store (i32.const 2056) (call $get_min_count))
   (i64.store (i32.const 2064) (call $get_ask_count))
   (i64.store (i32.const 2072) (call $get_execute_time))
   (local.set $ptr (i64.const 2080))
   (local.set $n (call $get_ask_count))
   (block $done
     (loop $l
       (br_if $done (i64.ge_s (local.get $vid) (local.get $n)))
       (local.set $st (call $status (i64.const 1) (local.get $vid)))
       (i64.store (i32.wrap_i64 (local.get $ptr)) (local.get $st))
       (local.set $ptr (i64.add (local.get $ptr) (i64.const 8)))
       (if (i64.ge_s (local.get $st) (i64.const 0))
         (then
           (local.set $len (call $read (i64.const 1) (local.get $vid) (i64.add (local.get $ptr) (i64.const 8))))
           (i64.store (i32.wrap_i64 (local.get $ptr)) (local.get $len))
           (local.set $ptr (i64.add (local.get $ptr) (i64.add (i64.const 8) (local.get $len))))))
       (local.set $vid (i64.add (local.get $vid) (i64.const 1)))
       (br $l)))
   (call $ret (i64.const 2048) (i64.sub (local.get $ptr) (i64.const 2048))))
 (memory (export "memory") 17)
 (data (i32.const 1024) "test"))
`, dsID))
}

func addFile(home string, data []byte) {
	filecacheNew(home + "/files").AddFile(data)
}

// ScriptProbe asks data source dsID once (external id 1) and, in execute, queries get_external_data_status(1, vid)
// with vid = ask_count + delta (or the constant -1 when neg is set) before returning "test". An out-of-range validator
// index must make the script fail (request resolves FAILURE), never disturb the node.
func ScriptProbe(dsID int, delta int, neg bool) []byte {
	vid := fmt.Sprintf("(i64.add (call $get_ask_count) (i64.const %d))", delta)
	if neg {
		vid = "(i64.const -1)"
	}
	return Wat(fmt.Sprintf(`(module
 (type $v_i (func (result i64)))
 (type $t0 (func))
 (type $t1 (func (param i64 i64 i64 i64)))
 (type $t2 (func (param i64 i64)))
 (type $ii_i (func (param i64 i64) (result i64)))
 (type $iii_i (func (param i64 i64 i64) (result i64)))
 (import "env" "get_ask_count" (func $get_ask_count (type $v_i)))
 (import "env" "ask_external_data" (func $ask (type $t1)))
 (import "env" "set_return_data" (func $ret (type $t2)))
 (import "env" "get_external_data_status" (func $status (type $ii_i)))
 (import "env" "read_external_data" (func $read (type $iii_i)))
 (func $prepare (export "prepare") (type $t0)
   i64.const 1
   i64.const %d
   i64.const 1024
   i64.const 4
   call $ask)
 (func $execute (export "execute") (type $t0)
   (drop (call $status (i64.const 1) %s))
   (drop (call $read (i64.const 1) %s (i64.const 4096)))
   (call $ret (i64.const 1024) (i64.const 4)))
 (memory (export "memory") 17)
 (data (i32.const 1024) "test"))
`, dsID, vid, vid))
}

// ScriptReturnEmpty asks the given data sources and, in execute, sets a ZERO-LENGTH return value (which is a
// successful execution with an empty result, unlike not calling set_return_data at all).
func ScriptReturnEmpty(dsIDs []int) []byte {
	var sb strings.Builder
	sb.WriteString(`(module
	(type $t0 (func))
	(type $t1 (func (param i64 i64 i64 i64)))
	(type $t2 (func (param i64 i64)))
	(import "env" "ask_external_data" (func $ask_external_data (type $t1)))
	(import "env" "set_return_data" (func $set_return_data (type $t2)))
	(func $prepare (export "prepare") (type $t0)
`)
	for i, d := range dsIDs {
		fmt.Fprintf(&sb, "  i64.const %d\n  i64.const %d\n  i64.const 1024\n  i64.const 4\n  call $ask_external_data\n", i+1, d)
	}
	sb.WriteString(")\n\t(func $execute (export \"execute\") (type $t0)\n  i64.const 2048\n  i64.const 0\n  call $set_return_data\n)\n")
	sb.WriteString("\t(memory $memory (export \"memory\") 17)\n\t(data (i32.const 1024) \"test\"))\n")
	return Wat(sb.String())
}
