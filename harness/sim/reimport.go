package sim

import (
	"fmt"
	"time"

	abci "github.com/cometbft/cometbft/abci/types"

	"cosmossdk.io/log"

	cosmosdb "github.com/cosmos/cosmos-db"

	"github.com/cosmos/cosmos-sdk/baseapp"
	sims "github.com/cosmos/cosmos-sdk/testutil/sims"

	band "github.com/bandprotocol/chain/v3/app"
)

// Reimport takes the operator's "export the state, start a new node from the exported genesis" path: the
// application state is exported with the app's own ExportAppStateAndValidators (not for zero height), a NEW
// application instance (fresh DB, same home directory for the file cache) is initialised from that document at
// initial height = last height + 1, and the chain continues on it. Like New it commits one (empty) block right
// away so that the imported state is readable; that block is returned so callers can treat it as an ordinary block.
//
// In replica mode every replica is re-created from the PRIMARY's export (the replicas keep sharing one genesis).
func (c *Chain) Reimport(dt time.Duration) (res *BlockResult, err error) {
	defer func() {
		if r := recover(); r != nil {
			err = fmt.Errorf("genesis export/import panic: %v", r)
		}
	}()
	exp, err := c.App.ExportAppStateAndValidators(false, nil, nil)
	if err != nil {
		return nil, fmt.Errorf("export: %w", err)
	}
	build := func(home string) (*band.BandApp, error) {
		app := band.NewBandApp(log.NewNopLogger(), cosmosdb.NewMemDB(), nil, true, map[int64]bool{}, home,
			sims.EmptyAppOptions{}, 100, baseapp.SetChainID(c.Cfg.ChainID))
		_, err := app.InitChain(&abci.RequestInitChain{
			Time: c.Time, ChainId: c.Cfg.ChainID, ConsensusParams: DefaultConsensusParams,
			Validators: []abci.ValidatorUpdate{}, AppStateBytes: exp.AppState, InitialHeight: c.Height + 1,
		})
		return app, err
	}
	app, err := build(c.Home)
	if err != nil {
		return nil, fmt.Errorf("import (InitChain from the exported genesis): %w", err)
	}
	old := c.App
	c.App = app
	_ = old.Close()
	for i := range c.twins {
		t, terr := build(homeFor(1000 + c.slot*16 + i + 1))
		if terr != nil {
			return nil, fmt.Errorf("import into replica %d: %w", i+1, terr)
		}
		_ = c.twins[i].Close()
		c.twins[i] = t
	}
	c.Reimports++
	return c.Block(nil, dt)
}
