package c11

// A minimal, app-free environment for the content handlers: the handlers of x/tss, x/oracle and x/feeds read
// params / results / prices through their keepers, so the pure layer gives them real keepers on an in-memory
// store (no other keeper is wired, none is used by the handlers) and registers the five handlers on a
// ContentRouter exactly like app/keepers does. Every case works on a CacheContext that is thrown away.

import (
	"fmt"
	"os"
	"path/filepath"
	"sync"

	storetypes "cosmossdk.io/store/types"
	"github.com/cosmos/cosmos-sdk/codec"
	codectypes "github.com/cosmos/cosmos-sdk/codec/types"
	"github.com/cosmos/cosmos-sdk/testutil"
	sdk "github.com/cosmos/cosmos-sdk/types"
	capabilitykeeper "github.com/cosmos/ibc-go/modules/capability/keeper"

	"github.com/bandprotocol/chain/v3/x/bandtss"
	bandtsstypes "github.com/bandprotocol/chain/v3/x/bandtss/types"
	"github.com/bandprotocol/chain/v3/x/feeds"
	feedskeeper "github.com/bandprotocol/chain/v3/x/feeds/keeper"
	feedstypes "github.com/bandprotocol/chain/v3/x/feeds/types"
	"github.com/bandprotocol/chain/v3/x/oracle"
	oraclekeeper "github.com/bandprotocol/chain/v3/x/oracle/keeper"
	oracletypes "github.com/bandprotocol/chain/v3/x/oracle/types"
	"github.com/bandprotocol/chain/v3/x/tss"
	tsskeeper "github.com/bandprotocol/chain/v3/x/tss/keeper"
	tsstypes "github.com/bandprotocol/chain/v3/x/tss/types"
	"github.com/bandprotocol/chain/v3/x/tunnel"
	tunnelkeeper "github.com/bandprotocol/chain/v3/x/tunnel/keeper"
	tunneltypes "github.com/bandprotocol/chain/v3/x/tunnel/types"
)

type handlerEnv struct {
	base    sdk.Context
	router  *tsstypes.ContentRouter
	oracleK oraclekeeper.Keeper
	feedsK  feedskeeper.Keeper
	tssK    *tsskeeper.Keeper
	// route names as registered by the code under test (compared with the documented names in the check)
	routes map[string]string
}

var (
	envOnce sync.Once
	envVal  *handlerEnv
	envErr  error
)

func getEnv() (*handlerEnv, error) {
	envOnce.Do(func() {
		defer func() {
			if r := recover(); r != nil {
				envErr = fmt.Errorf("building handler environment panicked: %v", r)
			}
		}()
		keys := storetypes.NewKVStoreKeys(tsstypes.StoreKey, oracletypes.StoreKey, feedstypes.StoreKey)
		ctx := testutil.DefaultContextWithKeys(keys, nil, nil)
		cdc := codec.NewProtoCodec(codectypes.NewInterfaceRegistry())
		authority := sdk.AccAddress(make([]byte, 20)).String()

		e := &handlerEnv{base: ctx}
		e.router = tsstypes.NewContentRouter()
		e.tssK = tsskeeper.NewKeeper(cdc, keys[tsstypes.StoreKey], nil, nil, e.router, tsstypes.NewCallbackRouter(), authority)
		e.oracleK = oraclekeeper.NewKeeper(cdc, keys[oracletypes.StoreKey], filepath.Join(os.TempDir(), "verif-c11-unused-filecache"),
			"fee_collector", nil, nil, nil, nil, nil, nil, nil, nil, nil, capabilitykeeper.ScopedKeeper{}, nil, authority)
		e.feedsK = feedskeeper.NewKeeper(cdc, keys[feedstypes.StoreKey], nil, nil, nil, nil, authority)
		if err := e.tssK.SetParams(ctx, tsstypes.DefaultParams()); err != nil {
			envErr = err
			return
		}
		if err := e.feedsK.SetParams(ctx, feedstypes.DefaultParams()); err != nil {
			envErr = err
			return
		}
		e.router.
			AddRoute(tsstypes.RouterKey, tss.NewSignatureOrderHandler(*e.tssK)).
			AddRoute(oracletypes.RouterKey, oracle.NewSignatureOrderHandler(e.oracleK)).
			AddRoute(bandtsstypes.RouterKey, bandtss.NewSignatureOrderHandler()).
			AddRoute(feedstypes.RouterKey, feeds.NewSignatureOrderHandler(e.feedsK)).
			AddRoute(tunneltypes.RouterKey, tunnel.NewSignatureOrderHandler(tunnelkeeper.Keeper{}))
		e.routes = map[string]string{
			"tss": tsstypes.RouterKey, "oracle": oracletypes.RouterKey, "bandtss": bandtsstypes.RouterKey,
			"feeds": feedstypes.RouterKey, "tunnel": tunneltypes.RouterKey,
		}
		envVal = e
	})
	if envVal == nil && envErr == nil {
		envErr = fmt.Errorf("handler environment not available")
	}
	return envVal, envErr
}

// handle routes a content through the router like x/tss CreateSigning's callers do.
func (e *handlerEnv) handle(ctx sdk.Context, c tsstypes.Content) (bz []byte, err error) {
	defer func() {
		if r := recover(); r != nil {
			err = fmt.Errorf("handler panicked: %v", r)
		}
	}()
	if !e.router.HasRoute(c.OrderRoute()) {
		return nil, fmt.Errorf("no route %q", c.OrderRoute())
	}
	return e.router.GetRoute(c.OrderRoute())(ctx, c)
}
