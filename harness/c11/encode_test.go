package c11

import (
	"bytes"
	"fmt"
	"math"
	"strings"
	"testing"
	"time"
	"unicode/utf8"

	"pgregory.net/rapid"

	"github.com/bandprotocol/chain/v3/x/bandtss"
	bandtsstypes "github.com/bandprotocol/chain/v3/x/bandtss/types"
	feedstypes "github.com/bandprotocol/chain/v3/x/feeds/types"
	"github.com/bandprotocol/chain/v3/x/oracle"
	oracletypes "github.com/bandprotocol/chain/v3/x/oracle/types"
	"github.com/bandprotocol/chain/v3/x/tss"
	tsstypes "github.com/bandprotocol/chain/v3/x/tss/types"
	tunneltypes "github.com/bandprotocol/chain/v3/x/tunnel/types"

	"verif/harness/gen"
	"verif/harness/pbt"
	"verif/harness/ref"
)

// ---- case ------------------------------------------------------------------------------------------------

type c11Orig struct {
	Kind        string `json:"kind"` // direct | tunnel
	Src         string `json:"src"`
	Requester   string `json:"requester,omitempty"`
	Memo        string `json:"memo,omitempty"`
	TunnelID    uint64 `json:"tunnel_id,omitempty"`
	DstChain    string `json:"dst_chain,omitempty"`
	DstContract string `json:"dst_contract,omitempty"`
}

type c11Price struct {
	SignalID  string `json:"signal_id"`
	Price     uint64 `json:"price"`
	Status    int32  `json:"status"`
	Timestamp int64  `json:"timestamp"`
	Stored    bool   `json:"stored"` // feeds only: the price exists in the store (otherwise the id is unknown on chain)
}

type c11Content struct {
	Kind           string           `json:"kind"`    // text | transition | oracle | feeds | tunnel
	Encoder        int32            `json:"encoder"` // oracle: 1 proto 2 full 3 partial; feeds/tunnel: 1 fixed point 2 tick
	Text           []byte           `json:"text,omitempty"`
	PubKey         []byte           `json:"pub_key,omitempty"`
	TransitionTime int64            `json:"transition_time,omitempty"`
	Result         ref.OracleResult `json:"result"`
	Prices         []c11Price       `json:"prices,omitempty"`
	Sequence       uint64           `json:"sequence,omitempty"`
	CreatedAt      int64            `json:"created_at,omitempty"`
}

// c11Mut describes the second request of the metamorphic pair: case B = case A with Target changed.
type c11Mut struct {
	Target string `json:"target"`
	Index  int    `json:"index"` // late bound: mod number of candidates
	Mode   int    `json:"mode"`
	Delta  uint64 `json:"delta"` // non-zero
	Str    string `json:"str"`   // non-empty
}

type c11EncCase struct {
	Orig    c11Orig    `json:"orig"`
	Time    int64      `json:"time"`
	TimeNs  int64      `json:"time_ns,omitempty"` // sub-second part of the block time (the signed header carries whole seconds)
	ID      uint64     `json:"id"`
	Content c11Content `json:"content"`
	Mut     c11Mut     `json:"mut"`
}

const sigLeadingNul = "C11/signalid-leading-nul"

// ---- generators --------------------------------------------------------------------------------------------

const maxBlockTime = 253402300799 // 9999-12-31T23:59:59Z, the largest valid protobuf/CometBFT timestamp

var (
	runesPlain = []rune("abcdefghijklmnopqrstuvwxyzABCDEFGHIJKLMNOPQRSTUVWXYZ0123456789-_.:")
	runesDelim = []rune("|,;:/\\ \x00\x01\n\t\"'{}[]=&%#0a")
	runesWide  = []rune("aZ09é€漢😀ÿĀ")
)

func genStr(rt *rapid.T, label string, maxLen int, allowEmpty bool) string {
	k := gen.Pick(rt, label+"-kind", 2, 40, 25, 10, 8, 8, 7)
	if k == 0 && !allowEmpty {
		k = 1
	}
	var s string
	switch k {
	case 0:
		return ""
	case 1: // realistic identifier
		s = rapid.StringOfN(rapid.SampledFrom(runesPlain), 1, 24, -1).Draw(rt, label)
	case 2: // delimiter-like
		s = rapid.StringOfN(rapid.SampledFrom(runesDelim), 1, 12, -1).Draw(rt, label)
	case 3: // long
		s = rapid.StringOfN(rapid.SampledFrom(runesPlain), 60, 200, -1).Draw(rt, label)
	case 4: // multi-byte
		s = rapid.StringOfN(rapid.SampledFrom(runesWide), 1, 10, -1).Draw(rt, label)
	case 5: // looks like a hex hash / address (what sits next to it in the layout)
		s = fmt.Sprintf("%x", rapid.SliceOfN(rapid.Byte(), 20, 32).Draw(rt, label))
	default: // a bech32-like address or a chain id
		s = gen.OneOf(rt, label+"-fixed", "bandchain", "band-laozi-testnet6", "band1qqqqqqqqqqqqqqqqqqqqqqqqqqqqqqqq4rqqxe",
			"0x5FbDB2315678afecb367f032d93F642f64180aa3", "eth", "1", "0")
	}
	return clip(s, maxLen)
}

// clip cuts s to at most n bytes on a rune boundary.
func clip(s string, n int) string {
	if len(s) <= n {
		return s
	}
	for n > 0 && !utf8.RuneStart(s[n]) {
		n--
	}
	return s[:n]
}

func genU64(rt *rapid.T, label string) uint64 {
	switch gen.Pick(rt, label+"-kind", 10, 10, 10, 30, 40) {
	case 0:
		return 0
	case 1:
		return math.MaxUint64
	case 2:
		return gen.OneOf[uint64](rt, label+"-b", 1, 2, 255, 256, 1<<32-1, 1<<32, 1<<63-1, 1<<63, math.MaxUint64-1)
	case 3:
		return rapid.Uint64Range(1, 100000).Draw(rt, label)
	default:
		l := gen.Range(rt, label+"-bits", 1, 64)
		lo := uint64(1) << uint(l-1)
		return rapid.Uint64Range(lo, lo-1+lo).Draw(rt, label)
	}
}

func genTime(rt *rapid.T, label string) int64 {
	switch gen.Pick(rt, label+"-kind", 60, 15, 25) {
	case 0:
		return rapid.Int64Range(1_600_000_000, 2_000_000_000).Draw(rt, label)
	case 1:
		return gen.OneOf[int64](rt, label+"-b", 1, 255, 256, 1<<31-1, 1<<31, 1<<32-1, 1<<32, maxBlockTime-1, maxBlockTime)
	default:
		return rapid.Int64Range(1, maxBlockTime).Draw(rt, label)
	}
}

func genOrig(rt *rapid.T) c11Orig {
	if gen.Chance(rt, "orig-direct", 1, 2) {
		return c11Orig{Kind: "direct",
			Src:       genStr(rt, "src", 200, true),
			Requester: genStr(rt, "requester", 200, true),
			Memo:      genStr(rt, "memo", 100, true)}
	}
	o := c11Orig{Kind: "tunnel",
		Src:         genStr(rt, "src", 200, true),
		TunnelID:    genU64(rt, "tunnel-id"),
		DstChain:    genStr(rt, "dst-chain", 200, true),
		DstContract: genStr(rt, "dst-contract", 200, true)}
	return o
}

func genSignalID(rt *rapid.T) string {
	id := genSignalIDRaw(rt)
	if len(id) > 0 && id[0] == 0 && pbt.IsExcluded("C11", sigLeadingNul) {
		id = "|" + id[1:]
	}
	return id
}

func genSignalIDRaw(rt *rapid.T) string {
	k := gen.Pick(rt, "sid-kind", 45, 20, 15, 10, 8, 4)
	switch k {
	case 0:
		return gen.OneOf(rt, "sid-fixed", "CS:BTC-USD", "CS:ETH-USD", "CS:BAND-USD", "CS:USDT-USD", "A", "BTC")
	case 1: // exactly 32 bytes
		return rapid.StringOfN(rapid.SampledFrom(runesPlain), 32, 32, 32).Draw(rt, "sid32")
	case 2:
		return rapid.StringOfN(rapid.SampledFrom(runesPlain), 1, 31, -1).Draw(rt, "sid")
	case 3: // delimiter-like / trailing NUL (stays distinguishable, padding is on the left)
		return clip(rapid.StringOfN(rapid.SampledFrom(runesDelim), 1, 8, -1).Draw(rt, "sid-delim")+"x\x00", 32)
	case 4:
		return clip(rapid.StringOfN(rapid.SampledFrom(runesWide), 1, 10, -1).Draw(rt, "sid-wide"), 32)
	default:
		// ids that begin with the padding byte; see the report (genuine ambiguity of the bytes32 encoding)
		tail := gen.OneOf(rt, "sid-nul", "CS:BTC-USD", "A", "\x00B")
		if gen.Chance(rt, "sid-nul-full", 1, 2) {
			// the same, but zero bytes all the way to the full width of 32: no padding is added, yet the bytes32 equals
			// that of the short id without them
			return strings.Repeat("\x00", 32-len(tail)) + tail
		}
		return "\x00" + tail
	}
}

func genPrice(rt *rapid.T) uint64 {
	switch gen.Pick(rt, "price-kind", 8, 6, 8, 33, 25, 20) {
	case 0:
		return 0
	case 1:
		return math.MaxUint64
	case 2:
		return gen.OneOf[uint64](rt, "price-b", 1, 1, 2, 3, 999_999_999, 1_000_000_000, 1_000_000_001, 1_000_100_000, math.MaxUint64-1)
	case 3: // realistic: 0.0001 .. 10^6 with nine decimals
		return rapid.Uint64Range(100_000, 1_000_000_000_000_000).Draw(rt, "price")
	case 4: // log uniform
		l := gen.Range(rt, "price-bits", 1, 64)
		lo := uint64(1) << uint(l-1)
		return rapid.Uint64Range(lo, lo-1+lo).Draw(rt, "price")
	default: // around a tick boundary
		t := int64(gen.Range(rt, "price-tick", -207243, 236330))
		fl, ce := ref.TickBoundaryInts(t)
		x := gen.OneOf(rt, "price-side", fl, ce)
		d := int64(gen.Range(rt, "price-off", -1, 1))
		if x == nil || !x.IsUint64() {
			return 1
		}
		p := x.Uint64() + uint64(d)
		if p == 0 || (d > 0 && p < x.Uint64()) || (d < 0 && p > x.Uint64()) {
			return x.Uint64() | 1
		}
		return p
	}
}

func genPrices(rt *rapid.T, feeds bool) []c11Price {
	n := 0
	switch gen.Pick(rt, "nprices-kind", 8, 12, 55, 20, 5) {
	case 0:
		n = 0
	case 1:
		n = 1
	case 2:
		n = gen.Range(rt, "nprices", 2, 6)
	case 3:
		n = gen.Range(rt, "nprices", 7, 24)
	default:
		n = 25
	}
	ps := make([]c11Price, 0, n)
	for i := 0; i < n; i++ {
		p := c11Price{SignalID: genSignalID(rt), Price: genPrice(rt), Status: int32(gen.Pick(rt, "pstatus", 1, 2, 4, 30, 3)),
			Timestamp: genTime(rt, "ptime"), Stored: true}
		if len(ps) > 0 && gen.Chance(rt, "dup-id", 1, 40) {
			p.SignalID = ps[gen.Uniform(rt, "dup-of", len(ps))].SignalID
		}
		if feeds && gen.Chance(rt, "unknown-id", 1, 8) {
			p.Stored = false
		}
		ps = append(ps, p)
	}
	return ps
}

func genResult(rt *rapid.T) ref.OracleResult {
	r := ref.OracleResult{
		ClientID:       genStr(rt, "client-id", 128, true),
		OracleScriptID: genU64(rt, "os-id"),
		AskCount:       genU64(rt, "ask"),
		MinCount:       genU64(rt, "min"),
		RequestID:      genU64(rt, "req-id"),
		AnsCount:       genU64(rt, "ans"),
		RequestTime:    genTime(rt, "req-time"),
		ResolveTime:    genTime(rt, "res-time"),
		ResolveStatus:  int32(gen.Pick(rt, "res-status", 1, 10, 4, 4)),
	}
	if r.RequestID == 0 { // a stored result always belongs to a request id >= 1
		r.RequestID = 1
	}
	if gen.Chance(rt, "time-extreme", 1, 12) {
		r.RequestTime = gen.OneOf[int64](rt, "rt-x", 0, math.MaxInt64)
		r.ResolveTime = gen.OneOf[int64](rt, "st-x", 0, math.MaxInt64)
	}
	bytesOf := func(label string, max int) []byte {
		switch gen.Pick(rt, label+"-kind", 15, 45, 20, 10, 10) {
		case 0:
			return nil
		case 1:
			return rapid.SliceOfN(rapid.Byte(), 1, 40).Draw(rt, label)
		case 2: // exactly on / around the 32 byte word boundary
			return rapid.SliceOfN(rapid.Byte(), 31, 33).Draw(rt, label)
		case 3:
			return rapid.SliceOfN(rapid.Byte(), max, max).Draw(rt, label)
		default:
			return bytes.Repeat([]byte{gen.OneOf[byte](rt, label+"-fill", 0, 0xff)}, gen.Range(rt, label+"-len", 1, 64))
		}
	}
	r.Calldata = bytesOf("calldata", 256)
	r.Result = bytesOf("result", 512)
	return r
}

func genContent(rt *rapid.T) c11Content {
	switch gen.Pick(rt, "content-kind", 10, 10, 35, 25, 20) {
	case 0:
		c := c11Content{Kind: "text"}
		switch gen.Pick(rt, "text-kind", 10, 50, 20, 10, 10, 20) {
		case 0:
		case 5: // text that is itself an encoded content body: starts with a kind tag (once or repeated), e.g. a text
			// that is the signed body of another Text request
			for n := gen.Range(rt, "nest-depth", 1, 3); n > 0; n-- {
				c.Text = append(c.Text, ref.SelectorTag(gen.OneOf(rt, "nest-kind", ref.KindText, ref.KindText, ref.KindTransition, ref.KindProto, ref.KindTickABI))...)
			}
			c.Text = append(c.Text, rapid.SliceOfN(rapid.Byte(), 0, 40).Draw(rt, "text")...)
		case 1:
			c.Text = rapid.SliceOfN(rapid.Byte(), 1, 64).Draw(rt, "text")
		case 2: // text that imitates another content: starts with some selector and tag
			c.Text = append(append(ref.SelectorTag(gen.OneOf(rt, "imit-route", ref.RouteNames...)),
				ref.SelectorTag(gen.OneOf(rt, "imit-kind", ref.KindNames...))...), rapid.SliceOfN(rapid.Byte(), 0, 40).Draw(rt, "text")...)
		case 3:
			c.Text = rapid.SliceOfN(rapid.Byte(), 1000, 1000).Draw(rt, "text")
		default:
			c.Text = rapid.SliceOfN(rapid.Byte(), 900, 999).Draw(rt, "text")
		}
		return c
	case 1:
		c := c11Content{Kind: "transition", TransitionTime: genTime(rt, "transition-time")}
		c.PubKey = rapid.SliceOfN(rapid.Byte(), 33, 33).Draw(rt, "pubkey")
		c.PubKey[0] = 2 + c.PubKey[0]&1
		return c
	case 2:
		return c11Content{Kind: "oracle", Encoder: int32(gen.Range(rt, "encoder", 1, 3)), Result: genResult(rt)}
	case 3:
		return c11Content{Kind: "feeds", Encoder: int32(gen.Range(rt, "encoder", 1, 2)), Prices: genPrices(rt, true)}
	default:
		return c11Content{Kind: "tunnel", Encoder: int32(gen.Range(rt, "encoder", 1, 2)), Prices: genPrices(rt, false),
			Sequence: genU64(rt, "sequence"), CreatedAt: genTime(rt, "created-at")}
	}
}

var mutTargets = []string{
	"orig.src", "orig.f2", "orig.f3", "orig.f4", "orig.shift", "orig.swap", "orig.kind",
	"time", "id", "time<->id",
	"content.a", "content.b", "content.c", "content.len", "content.encoder",
}

func genC11Enc(rt *rapid.T) c11EncCase {
	c := c11EncCase{Orig: genOrig(rt), Time: genTime(rt, "time"), ID: genU64(rt, "id"), Content: genContent(rt)}
	if gen.Chance(rt, "subsecond", 1, 2) {
		c.TimeNs = gen.OneOf[int64](rt, "time-ns", 1, 1_000_000, 499_999_999, 500_000_000, 600_000_000, 999_999_999)
	}
	if c.ID == 0 && gen.Chance(rt, "id-nonzero", 9, 10) {
		c.ID = 1 // signing ids start at 1; 0 is kept with low probability as an encoding edge
	}
	w := make([]int, len(mutTargets))
	for i := range w {
		w[i] = 5
	}
	w[10], w[11], w[12] = 12, 12, 8
	c.Mut = c11Mut{
		Target: mutTargets[gen.Pick(rt, "mut-target", w...)],
		Index:  gen.Uniform(rt, "mut-index", 1024),
		Mode:   gen.Uniform(rt, "mut-mode", 4),
		Delta:  gen.OneOf[uint64](rt, "mut-delta", 1, 1, 256, 1<<32, 1<<63, math.MaxUint64, 0x0100000000000000),
		Str:    gen.OneOf(rt, "mut-str", "x", "0", "\x00", "|", ":", "é"),
	}
	return c
}

// ---- executing one request against the code under test ----------------------------------------------------------

type implOut struct {
	orig     []byte
	content  []byte
	msg      []byte
	route    string
	internal bool
}

func (o c11Orig) build() tsstypes.Originator {
	if o.Kind == "direct" {
		d := tsstypes.NewDirectOriginator(o.Src, o.Requester, o.Memo)
		return &d
	}
	t := tsstypes.NewTunnelOriginator(o.Src, o.TunnelID, o.DstChain, o.DstContract)
	return &t
}

func (o c11Orig) refEncode() []byte {
	if o.Kind == "direct" {
		return ref.EncodeDirectOriginator(o.Src, o.Requester, o.Memo)
	}
	return ref.EncodeTunnelOriginator(o.Src, o.TunnelID, o.DstChain, o.DstContract)
}

func toFeedsPrices(ps []c11Price) []feedstypes.Price {
	out := make([]feedstypes.Price, 0, len(ps))
	for _, p := range ps {
		out = append(out, feedstypes.Price{Status: feedstypes.PriceStatus(p.Status), SignalID: p.SignalID, Price: p.Price, Timestamp: p.Timestamp})
	}
	return out
}

func toOracleResult(r ref.OracleResult) oracletypes.Result {
	return oracletypes.NewResult(r.ClientID, oracletypes.OracleScriptID(r.OracleScriptID), r.Calldata, r.AskCount, r.MinCount,
		oracletypes.RequestID(r.RequestID), r.AnsCount, r.RequestTime, r.ResolveTime, oracletypes.ResolveStatus(r.ResolveStatus), r.Result)
}

// execute runs one request through Originator.Encode, the routed content handler and EncodeSigning.
func execute(e *handlerEnv, c c11EncCase) (implOut, error) {
	var out implOut
	ctx, _ := e.base.CacheContext()
	ctx = ctx.WithBlockTime(time.Unix(c.Time, c.TimeNs).UTC())
	var content tsstypes.Content
	switch c.Content.Kind {
	case "text":
		content = tsstypes.NewTextSignatureOrder(c.Content.Text)
	case "transition":
		content = bandtsstypes.NewGroupTransitionSignatureOrder(c.Content.PubKey, time.Unix(c.Content.TransitionTime, 0).UTC())
	case "oracle":
		r := toOracleResult(c.Content.Result)
		e.oracleK.SetResult(ctx, r.RequestID, r)
		content = oracletypes.NewOracleResultSignatureOrder(r.RequestID, oracletypes.Encoder(c.Content.Encoder))
	case "feeds":
		ids := make([]string, 0, len(c.Content.Prices))
		for _, p := range c.Content.Prices {
			ids = append(ids, p.SignalID)
			if p.Stored {
				e.feedsK.SetPrice(ctx, feedstypes.Price{Status: feedstypes.PriceStatus(p.Status), SignalID: p.SignalID, Price: p.Price, Timestamp: p.Timestamp})
			}
		}
		content = feedstypes.NewFeedSignatureOrder(ids, feedstypes.Encoder(c.Content.Encoder))
	case "tunnel":
		content = tunneltypes.NewTunnelSignatureOrder(c.Content.Sequence, toFeedsPrices(c.Content.Prices), c.Content.CreatedAt,
			feedstypes.Encoder(c.Content.Encoder))
	default:
		return out, fmt.Errorf("harness: unknown content kind %q", c.Content.Kind)
	}
	out.route = content.OrderRoute()
	out.internal = content.IsInternal()
	ob, err := c.Orig.build().Encode()
	if err != nil {
		return out, fmt.Errorf("originator encode: %w", err)
	}
	out.orig = ob
	cb, err := e.handle(ctx, content)
	if err != nil {
		return out, fmt.Errorf("content handler: %w", err)
	}
	out.content = cb
	out.msg = tsstypes.EncodeSigning(ctx, c.ID, ob, cb)
	return out, nil
}

// ---- expected values ------------------------------------------------------------------------------------------

// sourcePrices is the on-chain data a price payload must carry: for feeds the stored price of each requested
// id in request order (0 for ids without a price), for tunnel the packet's prices.
func sourcePrices(c c11Content) []ref.RelayPrice {
	out := make([]ref.RelayPrice, 0, len(c.Prices))
	if c.Kind == "feeds" {
		stored := map[string]uint64{}
		for _, p := range c.Prices {
			if p.Stored {
				stored[p.SignalID] = p.Price
			}
		}
		for _, p := range c.Prices {
			out = append(out, ref.RelayPrice{SignalID: p.SignalID, Value: stored[p.SignalID]})
		}
		return out
	}
	for _, p := range c.Prices {
		out = append(out, ref.RelayPrice{SignalID: p.SignalID, Value: p.Price})
	}
	return out
}

func kindNames(c c11Content) (route, kind string, internal bool) {
	switch c.Kind {
	case "text":
		return ref.RouteTSS, ref.KindText, false
	case "transition":
		return ref.RouteBandtss, ref.KindTransition, true
	case "oracle":
		return ref.RouteOracle, []string{"", ref.KindProto, ref.KindFullABI, ref.KindPartialABI}[c.Encoder&3], false
	case "feeds":
		return ref.RouteFeeds, []string{"", ref.KindFixedPointABI, ref.KindTickABI, ""}[c.Encoder&3], false
	default:
		return ref.RouteTunnel, []string{"", ref.KindFixedPointABI, ref.KindTickABI, ""}[c.Encoder&3], true
	}
}

func hasLeadingNul(ps []c11Price) bool {
	for _, p := range ps {
		if len(p.SignalID) > 0 && p.SignalID[0] == 0 {
			return true
		}
	}
	return false
}

// staticChecks compares every tag constant of the code base with keccak(name)[:4] and enumerates collisions.
func staticChecks(e *handlerEnv) (sig, msg string) {
	consts := []struct{ name, got string }{
		{ref.NameDirectOriginator, tsstypes.DirectOriginatorPrefix},
		{ref.NameTunnelOriginator, tsstypes.TunnelOriginatorPrefix},
		{ref.KindText, tss.TextMsgPrefix},
		{ref.KindTransition, bandtss.GroupTransitionMsgPrefix},
		{ref.KindProto, oracle.EncoderProtoPrefix},
		{ref.KindFullABI, oracle.EncoderFullABIPrefix},
		{ref.KindPartialABI, oracle.EncoderPartialABIPrefix},
		{ref.KindFixedPointABI, feedstypes.EncoderFixedPointABIPrefix},
		{ref.KindTickABI, feedstypes.EncoderTickABIPrefix},
	}
	for _, c := range consts {
		if !bytes.Equal([]byte(c.got), ref.SelectorTag(c.name)) {
			return "C11/tag-constant", fmt.Sprintf("tag of %q is %x in the code, keccak256(name)[:4] = %x", c.name, c.got, ref.SelectorTag(c.name))
		}
	}
	for doc, got := range map[string]string{ref.RouteTSS: e.routes["tss"], ref.RouteOracle: e.routes["oracle"],
		ref.RouteBandtss: e.routes["bandtss"], ref.RouteFeeds: e.routes["feeds"], ref.RouteTunnel: e.routes["tunnel"]} {
		if doc != got {
			return "C11/route-name", fmt.Sprintf("route %q is registered as %q", doc, got)
		}
	}
	if col := ref.TagCollisions(); len(col) > 0 {
		return "C11/tag-collision", fmt.Sprintf("tags collide: %v", col)
	}
	// the code's own constants pairwise (catches a changed constant colliding with another one)
	for i := range consts {
		for j := i + 1; j < len(consts); j++ {
			sameSpace := (i < 2) == (j < 2)
			if sameSpace && consts[i].got == consts[j].got {
				return "C11/tag-collision", fmt.Sprintf("constants of %s and %s are equal", consts[i].name, consts[j].name)
			}
		}
	}
	return "", ""
}

// ---- the check ---------------------------------------------------------------------------------------------

func runC11Enc(c c11EncCase) *pbt.Verdict {
	v := &pbt.Verdict{}
	e, err := getEnv()
	if err != nil {
		v.Failf("C11/harness-env", "cannot build the handler environment: %v", err)
		return v
	}
	if sig, msg := staticChecks(e); sig != "" {
		v.Failf(sig, "%s", msg)
		return v
	}
	cc := c.Content
	route, kind, wantInternal := kindNames(cc)
	if kind == "" {
		v.Failf("C11/harness-case", "bad encoder %d for %s", cc.Encoder, cc.Kind)
		return v
	}
	v.Class("kind:" + cc.Kind)
	v.Class("enc:" + kind)
	v.Class("orig:" + c.Orig.Kind)

	a, err := execute(e, c)
	if err != nil {
		if hasLeadingNul(cc.Prices) {
			// a signal id that starts with a zero byte has no injective left-padded bytes32 form; refusing to
			// encode it is the sound outcome (encoding it anyway is flagged below as C11/signalid-leading-nul)
			v.Class("signal-leading-nul-refused")
			return v
		}
		v.Failf("C11/encode-error", "a valid request could not be encoded: %v", err)
		return v
	}

	// (a) format ---------------------------------------------------------------------------------------
	wantOrig := c.Orig.refEncode()
	if !bytes.Equal(a.orig, wantOrig) {
		v.Failf("C11/originator-layout", "%s originator encodes to %x, reference layout %x", c.Orig.Kind, a.orig, wantOrig)
		return v
	}
	if a.route != route {
		v.Failf("C11/route-name", "content %s is routed to %q, documented route %q", cc.Kind, a.route, route)
		return v
	}
	if a.internal != wantInternal {
		v.Failf("C11/internal-flag", "content %s IsInternal()=%v, want %v", cc.Kind, a.internal, wantInternal)
		return v
	}
	if len(a.content) < 8 || !bytes.Equal(a.content[:4], ref.SelectorTag(route)) || !bytes.Equal(a.content[4:8], ref.SelectorTag(kind)) {
		v.Failf("C11/content-prefix", "content of %s/%s starts with %x, want %x|%x", route, kind, head(a.content, 8), ref.SelectorTag(route), ref.SelectorTag(kind))
		return v
	}
	if !wantInternal {
		for _, r := range ref.InternalRoutes {
			if bytes.Equal(a.content[:4], ref.SelectorTag(r)) {
				v.Failf("C11/internal-reachable", "user reachable content %s carries the selector of internal route %s", cc.Kind, r)
				return v
			}
		}
	}
	body := a.content[8:]

	// (c) round trip + byte exact reference body ----------------------------------------------------------------
	var wantBody []byte
	src := sourcePrices(cc)
	nearSkipped := 0
	switch cc.Kind {
	case "text":
		wantBody = ref.TextBody(cc.Text)
	case "transition":
		wantBody = ref.TransitionBody(cc.PubKey, uint64(cc.TransitionTime))
		if len(body) >= 8 {
			if !bytes.Equal(body[:len(body)-8], cc.PubKey) || !bytes.Equal(body[len(body)-8:], ref.EncU64BE(uint64(cc.TransitionTime))) {
				v.Failf("C11/roundtrip-transition", "transition body %x does not split into pubkey %x and time %d", body, cc.PubKey, cc.TransitionTime)
				return v
			}
		}
	case "oracle":
		var got ref.OracleResult
		var derr error
		want := cc.Result
		switch cc.Encoder {
		case 1:
			got, derr = ref.DecodeOracleProto(body)
			wantBody = ref.ProtoOracleResult(cc.Result)
			if derr == nil { // and with the generated unmarshaller
				var pr oracletypes.Result
				if uerr := pr.Unmarshal(body); uerr != nil || !pr.Equal(toOracleResult(cc.Result)) {
					v.Failf("C11/roundtrip-Proto", "proto.Unmarshal of the payload gives %v (err %v), stored result %+v", pr, uerr, cc.Result)
					return v
				}
			}
		case 2:
			got, derr = ref.DecodeOracleFullABI(body)
			wantBody = ref.ABIOracleFull(cc.Result)
		default:
			got, derr = ref.DecodeOraclePartialABI(body)
			wantBody = ref.ABIOraclePartial(cc.Result)
			want = cc.Result.Partial()
		}
		if derr != nil {
			v.Failf("C11/roundtrip-"+kind, "payload does not decode: %v (body %x)", derr, head(body, 96))
			return v
		}
		if !got.Equal(want) {
			v.Failf("C11/roundtrip-"+kind, "payload decodes to %+v, on-chain result %+v", got, want)
			return v
		}
	case "feeds", "tunnel":
		var got []ref.RelayPrice
		var derr error
		var ts int64
		var seq uint64
		if cc.Kind == "feeds" {
			got, ts, derr = ref.DecodeFeedsPrices(body)
		} else {
			seq, got, ts, derr = ref.DecodeTunnelPacket(body)
		}
		if derr != nil {
			v.Failf("C11/roundtrip-"+cc.Kind, "payload does not decode: %v (body %x)", derr, head(body, 96))
			return v
		}
		wantTS := c.Time
		if cc.Kind == "tunnel" {
			wantTS = cc.CreatedAt
			if seq != cc.Sequence {
				v.Failf("C11/roundtrip-tunnel", "sequence decodes to %d, packet has %d", seq, cc.Sequence)
				return v
			}
		}
		if ts != wantTS {
			v.Failf("C11/roundtrip-"+cc.Kind, "timestamp decodes to %d, want %d", ts, wantTS)
			return v
		}
		if len(got) != len(src) {
			v.Failf("C11/roundtrip-"+cc.Kind, "payload has %d prices, request has %d", len(got), len(src))
			return v
		}
		for i := range src {
			if got[i].SignalID != src[i].SignalID {
				sig := "C11/roundtrip-" + cc.Kind
				if len(src[i].SignalID) > 0 && src[i].SignalID[0] == 0 {
					sig = sigLeadingNul
				}
				v.Failf(sig, "price %d: signal id decodes to %q, on-chain id %q", i, got[i].SignalID, src[i].SignalID)
				return v
			}
			if cc.Encoder == 1 || src[i].Value == 0 {
				if got[i].Value != src[i].Value {
					v.Failf("C11/roundtrip-"+cc.Kind, "price %d (%q): decodes to %d, on-chain price %d", i, src[i].SignalID, got[i].Value, src[i].Value)
					return v
				}
				continue
			}
			// tick encoded: value = tick + 2^18 of the largest tick whose price does not exceed the price
			if got[i].Value == 0 || got[i].Value > uint64(2*ref.TickOffset) {
				v.Failf("C11/tick-range", "price %d: %d encoded as tick value %d", i, src[i].Value, got[i].Value)
				return v
			}
			t := int64(got[i].Value) - ref.TickOffset
			sig, msg, near := tickVerdict(src[i].Value, t)
			if sig != "" {
				v.Failf(sig, "price %d (%q): %s", i, src[i].SignalID, msg)
				return v
			}
			if near {
				nearSkipped++
			}
		}
		// byte exact layout, using the decoded (already judged) tick values for the tick kind
		if cc.Kind == "feeds" {
			wantBody, err = ref.ABIFeedsPrices(got, wantTS)
		} else {
			wantBody, err = ref.ABITunnelPacket(cc.Sequence, got, wantTS)
		}
		if err != nil {
			v.Failf("C11/harness-case", "reference encoder: %v", err)
			return v
		}
	}
	if !bytes.Equal(body, wantBody) {
		v.Failf("C11/body-layout-"+kind, "%s body is %x, reference encoding %x", kind, head(body, 160), head(wantBody, 160))
		return v
	}
	wantContent := ref.EncContent(route, kind, wantBody)

	// the exported pure encoders agree with what the handlers produced
	if cc.Kind == "feeds" || cc.Kind == "tunnel" {
		var direct []byte
		var derr error
		if cc.Kind == "feeds" {
			ps := make([]feedstypes.Price, 0, len(src))
			for _, p := range src {
				ps = append(ps, feedstypes.Price{SignalID: p.SignalID, Price: p.Value})
			}
			direct, derr = feedstypes.EncodeTSS(ps, c.Time, feedstypes.Encoder(cc.Encoder))
		} else {
			direct, derr = tunneltypes.EncodeTSS(cc.Sequence, toFeedsPrices(cc.Prices), cc.CreatedAt, feedstypes.Encoder(cc.Encoder))
		}
		if derr != nil || !bytes.Equal(direct, wantContent[4:]) {
			v.Failf("C11/encoder-layout-"+cc.Kind, "EncodeTSS gives %x (err %v), reference %x", head(direct, 160), derr, head(wantContent[4:], 160))
			return v
		}
	}

	// header -----------------------------------------------------------------------------------------------------
	wantMsg := ref.SigningMessage(wantOrig, uint64(c.Time), c.ID, wantContent)
	if !bytes.Equal(a.msg, wantMsg) {
		v.Failf("C11/signing-layout", "signed message is %x, reference layout keccak(originator)|time|id|content = %x", head(a.msg, 120), head(wantMsg, 120))
		return v
	}
	if p, perr := ref.ParseSigningMessage(a.msg); perr != nil || p.Time != uint64(c.Time) || p.SigningID != c.ID ||
		!bytes.Equal(p.OriginatorHash, ref.EncKeccak256(wantOrig)) || !bytes.Equal(p.Content, a.content) {
		v.Failf("C11/signing-parse", "signed message does not parse back to (originator hash, %d, %d, content): %+v %v", c.Time, c.ID, p, perr)
		return v
	}

	// (b) injectivity: the mutated request must be signed as a different message -----------------------------------
	b, what, ok := mutate(c)
	v.Class("mut:" + c.Mut.Target)
	if !ok {
		v.Count("mut_inapplicable", 1)
	} else {
		bo, berr := execute(e, b)
		if berr != nil {
			v.Count("mut_b_error", 1)
		} else {
			v.Count("mut_applied", 1)
			if bytes.Equal(bo.msg, a.msg) {
				sig := "C11/injectivity-" + c.Mut.Target
				if what == "strip-nul" {
					sig = sigLeadingNul
				}
				v.Failf(sig, "two distinct requests (%s) share the signed message %x", what, head(a.msg, 120))
				return v
			}
			if strings.HasPrefix(c.Mut.Target, "orig") && bytes.Equal(bo.orig, a.orig) {
				v.Failf("C11/injectivity-"+c.Mut.Target, "two distinct originators (%s) share the encoding %x", what, a.orig)
				return v
			}
		}
	}

	// statistics ---------------------------------------------------------------------------------------------------
	switch cc.Kind {
	case "oracle":
		v.NonTrivial = len(cc.Result.Result) > 0
		if len(cc.Result.Result) == 0 {
			v.Class("result-empty")
		}
		r := cc.Result
		for _, x := range []uint64{r.OracleScriptID, r.AskCount, r.MinCount, r.RequestID, r.AnsCount} {
			if x == math.MaxUint64 {
				v.Class("result-u64-max")
				break
			}
		}
		if r.AskCount == 0 || r.MinCount == 0 || r.AnsCount == 0 || r.OracleScriptID == 0 {
			v.Class("result-u64-zero")
		}
	case "feeds", "tunnel":
		v.NonTrivial = len(cc.Prices) >= 2
		switch {
		case len(cc.Prices) == 0:
			v.Class("prices=0")
		case len(cc.Prices) == 1:
			v.Class("prices=1")
		case len(cc.Prices) == 25:
			v.Class("prices=25")
		default:
			v.Class("prices>=2")
		}
		for _, p := range src {
			if len(p.SignalID) == 32 {
				v.Class("signal-32-bytes")
				break
			}
		}
		for _, p := range src {
			if p.Value == math.MaxUint64 {
				v.Class("price-max")
				break
			}
		}
		for _, p := range src {
			if p.Value == 0 {
				v.Class("price-0")
				break
			}
		}
		if hasLeadingNul(cc.Prices) {
			v.Class("signal-leading-nul")
		}
		if nearSkipped > 0 {
			v.Count("skipped_near_boundary", int64(nearSkipped))
		}
	}
	o := c.Orig
	if o.Src == "" || (o.Kind == "direct" && (o.Requester == "" || o.Memo == "")) || (o.Kind == "tunnel" && (o.DstChain == "" || o.DstContract == "")) {
		v.Class("orig-empty-field")
	}
	return v
}

func head(b []byte, n int) []byte {
	if len(b) > n {
		return b[:n]
	}
	return b
}

func TestC11Encode(t *testing.T) { pbt.Check(t, "C11", genC11Enc, runC11Enc) }
