package c11

// Construction of the second request of the metamorphic pair. mutate returns a request that differs from c in
// data the statement says is bound into the signed bytes (never in data that is deliberately not encoded: price
// status / per-price timestamp, fields outside the partial ABI, prices inside one tick for the tick kind).

import (
	"fmt"
	"unicode/utf8"
)

func cloneCase(c c11EncCase) c11EncCase {
	b := c
	b.Content.Text = append([]byte(nil), c.Content.Text...)
	b.Content.PubKey = append([]byte(nil), c.Content.PubKey...)
	b.Content.Result.Calldata = append([]byte(nil), c.Content.Result.Calldata...)
	b.Content.Result.Result = append([]byte(nil), c.Content.Result.Result...)
	b.Content.Prices = append([]c11Price(nil), c.Content.Prices...)
	return b
}

func mutStr(s string, mode int, str string, maxLen int) (string, bool) {
	var r string
	switch mode & 3 {
	case 0:
		r = s + str
	case 1:
		r = str + s
	case 2:
		_, n := utf8.DecodeLastRuneInString(s)
		r = s[:len(s)-n] + str
	default:
		if s == "" {
			r = str
		} else {
			_, n := utf8.DecodeLastRuneInString(s)
			r = s[:len(s)-n]
		}
	}
	if r == s || len(r) > maxLen {
		// fall back to replacing the whole string
		r = str
		if r == s {
			r = str + str
		}
		if len(r) > maxLen {
			return s, false
		}
	}
	return r, true
}

func mutBytes(b []byte, mode, index int, str string, maxLen int) ([]byte, bool) {
	out := append([]byte(nil), b...)
	switch {
	case mode&3 == 0 || len(out) == 0:
		out = append(out, str...)
	case mode&3 == 1:
		out[index%len(out)] ^= 1 << uint(index%8)
	case mode&3 == 2:
		out = out[:len(out)-1]
	default:
		out = append([]byte(str), out...)
	}
	if len(out) > maxLen {
		if len(b) == 0 {
			return b, false
		}
		out = append([]byte(nil), b...)
		out[index%len(out)] ^= 1 << uint(index%8)
	}
	return out, true
}

func mutTime(t int64, delta uint64) int64 {
	d := int64(delta % uint64(maxBlockTime-1))
	if d == 0 {
		d = 1
	}
	t2 := t + d
	if t2 > maxBlockTime {
		t2 -= maxBlockTime
	}
	return t2
}

// shift moves one rune across the border between a and b.
func shift(a, b string, mode int) (string, string, bool) {
	if mode&1 == 0 && a != "" {
		_, n := utf8.DecodeLastRuneInString(a)
		return a[:len(a)-n], a[len(a)-n:] + b, true
	}
	if b != "" {
		_, n := utf8.DecodeRuneInString(b)
		return a + b[:n], b[n:], true
	}
	if a != "" {
		_, n := utf8.DecodeLastRuneInString(a)
		return a[:len(a)-n], a[len(a)-n:] + b, true
	}
	return a, b, false
}

func mutate(c c11EncCase) (c11EncCase, string, bool) {
	b := cloneCase(c)
	m := c.Mut
	if m.Delta == 0 {
		m.Delta = 1
	}
	if m.Str == "" {
		m.Str = "x"
	}
	if m.Index < 0 {
		m.Index = -m.Index
	}
	o := &b.Orig
	direct := o.Kind == "direct"
	var ok bool
	switch m.Target {
	case "orig.src":
		o.Src, ok = mutStr(o.Src, m.Mode, m.Str, 400)
		return b, "source chain id changed", ok
	case "orig.f2":
		if direct {
			o.Requester, ok = mutStr(o.Requester, m.Mode, m.Str, 400)
			return b, "requester changed", ok
		}
		o.TunnelID += m.Delta
		return b, "tunnel id changed", true
	case "orig.f3":
		if direct {
			o.Memo, ok = mutStr(o.Memo, m.Mode, m.Str, 100)
			return b, "memo changed", ok
		}
		o.DstChain, ok = mutStr(o.DstChain, m.Mode, m.Str, 400)
		return b, "destination chain changed", ok
	case "orig.f4":
		if direct {
			o.Memo, ok = mutStr(o.Memo, m.Mode+1, m.Str, 100)
			return b, "memo changed", ok
		}
		o.DstContract, ok = mutStr(o.DstContract, m.Mode, m.Str, 400)
		return b, "destination contract changed", ok
	case "orig.shift":
		if direct {
			if m.Index&1 == 0 {
				o.Src, o.Requester, ok = shift(o.Src, o.Requester, m.Mode)
				return b, "one character moved between source chain and requester", ok
			}
			o.Requester, o.Memo, ok = shift(o.Requester, o.Memo, m.Mode)
			return b, "one character moved between requester and memo", ok && len(o.Memo) <= 100
		}
		if m.Index&1 == 0 {
			o.DstChain, o.DstContract, ok = shift(o.DstChain, o.DstContract, m.Mode)
			return b, "one character moved between destination chain and contract", ok
		}
		o.Src, o.DstChain, ok = shift(o.Src, o.DstChain, m.Mode)
		return b, "one character moved between source and destination chain", ok
	case "orig.swap":
		if direct {
			switch m.Index % 3 {
			case 0:
				o.Src, o.Requester = o.Requester, o.Src
				return b, "source chain and requester swapped", c.Orig.Src != c.Orig.Requester
			case 1:
				o.Requester, o.Memo = o.Memo, o.Requester
				return b, "requester and memo swapped", c.Orig.Requester != c.Orig.Memo && len(o.Memo) <= 100
			default:
				o.Src, o.Memo = o.Memo, o.Src
				return b, "source chain and memo swapped", c.Orig.Src != c.Orig.Memo && len(o.Memo) <= 100
			}
		}
		if m.Index&1 == 0 {
			o.DstChain, o.DstContract = o.DstContract, o.DstChain
			return b, "destination chain and contract swapped", c.Orig.DstChain != c.Orig.DstContract
		}
		o.Src, o.DstChain = o.DstChain, o.Src
		return b, "source and destination chain swapped", c.Orig.Src != c.Orig.DstChain
	case "orig.kind":
		if direct {
			*o = c11Orig{Kind: "tunnel", Src: c.Orig.Src, TunnelID: m.Delta, DstChain: c.Orig.Requester, DstContract: c.Orig.Memo}
		} else {
			*o = c11Orig{Kind: "direct", Src: c.Orig.Src, Requester: c.Orig.DstChain, Memo: clip(c.Orig.DstContract, 100)}
		}
		return b, "originator kind changed", true
	case "time":
		b.Time = mutTime(c.Time, m.Delta)
		return b, "block time changed", b.Time != c.Time
	case "id":
		b.ID = c.ID + m.Delta
		return b, "signing id changed", b.ID != c.ID
	case "time<->id":
		if c.ID == 0 || c.ID > maxBlockTime || int64(c.ID) == c.Time {
			return b, "", false
		}
		b.Time, b.ID = int64(c.ID), uint64(c.Time)
		return b, "block time and signing id swapped", true
	}

	cc := &b.Content
	switch cc.Kind {
	case "text":
		switch m.Target {
		case "content.a", "content.b", "content.c", "content.len":
			mode := map[string]int{"content.a": 0, "content.b": 1, "content.c": 2, "content.len": 3}[m.Target]
			cc.Text, ok = mutBytes(cc.Text, mode, m.Index, m.Str, 1000)
			return b, "text changed", ok
		}
	case "transition":
		switch m.Target {
		case "content.a", "content.c":
			if len(cc.PubKey) < 2 {
				return b, "", false
			}
			i := 1 + m.Index%(len(cc.PubKey)-1)
			cc.PubKey[i] ^= 1 << uint(m.Mode&7)
			return b, "new group public key changed", true
		case "content.b":
			cc.TransitionTime = mutTime(cc.TransitionTime, m.Delta)
			return b, "transition time changed", cc.TransitionTime != c.Content.TransitionTime
		}
	case "oracle":
		r := &cc.Result
		switch m.Target {
		case "content.a":
			full := []string{"client", "os", "calldata", "ask", "min", "req", "ans", "reqtime", "restime", "status", "result"}
			partial := []string{"calldata", "os", "req", "min", "restime", "status", "result"}
			fs := full
			if cc.Encoder == 3 {
				fs = partial
			}
			f := fs[m.Index%len(fs)]
			switch f {
			case "client":
				r.ClientID, ok = mutStr(r.ClientID, m.Mode, m.Str, 128)
			case "os":
				r.OracleScriptID += m.Delta
				ok = true
			case "calldata":
				r.Calldata, ok = mutBytes(r.Calldata, m.Mode, m.Index, m.Str, 256)
			case "ask":
				r.AskCount += m.Delta
				ok = true
			case "min":
				r.MinCount += m.Delta
				ok = true
			case "req":
				r.RequestID += m.Delta
				if r.RequestID == 0 {
					r.RequestID = 1
				}
				ok = r.RequestID != c.Content.Result.RequestID
			case "ans":
				r.AnsCount += m.Delta
				ok = true
			case "reqtime":
				r.RequestTime = mutTime(r.RequestTime%maxBlockTime, m.Delta)
				ok = r.RequestTime != c.Content.Result.RequestTime
			case "restime":
				r.ResolveTime = mutTime(r.ResolveTime%maxBlockTime, m.Delta)
				ok = r.ResolveTime != c.Content.Result.ResolveTime
			case "status":
				r.ResolveStatus = (r.ResolveStatus + 1 + int32(m.Mode%3)) % 4
				ok = r.ResolveStatus != c.Content.Result.ResolveStatus
			case "result":
				r.Result, ok = mutBytes(r.Result, m.Mode, m.Index, m.Str, 512)
			}
			return b, "oracle result field " + f + " changed", ok
		case "content.b":
			r.Result, ok = mutBytes(r.Result, m.Mode, m.Index, m.Str, 512)
			return b, "oracle result bytes changed", ok
		case "content.c":
			r.Calldata, ok = mutBytes(r.Calldata, m.Mode, m.Index, m.Str, 256)
			return b, "oracle calldata changed", ok
		case "content.encoder":
			cc.Encoder = 1 + (cc.Encoder-1+1+int32(m.Mode&1))%3
			return b, "oracle encoder changed", cc.Encoder != c.Content.Encoder
		}
	case "feeds", "tunnel":
		feeds := cc.Kind == "feeds"
		n := len(cc.Prices)
		switch m.Target {
		case "content.a": // price value (of every entry with that id, so the change is visible in the store too)
			if n == 0 {
				return b, "", false
			}
			i := m.Index % n
			old := sourcePrices(c.Content)[i].Value // for feeds: what the store holds for that id (last write, 0 if none)
			var nw uint64
			if cc.Encoder == 1 {
				nw = old + m.Delta
			} else if old == 0 {
				nw = m.Delta | 1
			} else {
				nw = 0
			}
			id := cc.Prices[i].SignalID
			for j := range cc.Prices {
				if cc.Prices[j].SignalID == id {
					cc.Prices[j].Price = nw
					cc.Prices[j].Stored = true
				}
			}
			return b, fmt.Sprintf("price of %q changed from %d to %d", id, old, nw), nw != old
		case "content.b": // signal id
			if n == 0 {
				return b, "", false
			}
			i := m.Index % n
			id := cc.Prices[i].SignalID
			if len(id) > 0 && id[0] == 0 {
				k := 0
				for k < len(id) && id[k] == 0 {
					k++
				}
				if k == len(id) {
					return b, "", false
				}
				cc.Prices[i].SignalID = id[k:]
				return b, "strip-nul", true
			}
			nid, ok := mutStr(id, m.Mode, m.Str, 32)
			if !ok || nid == "" || nid[0] == 0 {
				return b, "", false
			}
			cc.Prices[i].SignalID = nid
			return b, fmt.Sprintf("signal id %q changed to %q", id, nid), true
		case "content.c":
			if !feeds && m.Mode&2 == 0 {
				if m.Mode&1 == 0 {
					cc.Sequence += m.Delta
					return b, "packet sequence changed", true
				}
				cc.CreatedAt = mutTime(cc.CreatedAt, m.Delta)
				return b, "packet creation time changed", cc.CreatedAt != c.Content.CreatedAt
			}
			if n < 2 {
				return b, "", false
			}
			i := m.Index % (n - 1)
			sa, sb := sourcePrices(c.Content)[i], sourcePrices(c.Content)[i+1]
			if sa == sb || (cc.Encoder != 1 && sa.SignalID == sb.SignalID && (sa.Value == 0) == (sb.Value == 0)) {
				return b, "", false // (tick kind: two prices of one id may share a tick, the swap would be invisible by design)
			}
			cc.Prices[i], cc.Prices[i+1] = cc.Prices[i+1], cc.Prices[i]
			// with duplicate ids the stored value is the last write: only accept if the source data really differs
			na, nb := sourcePrices(*cc)[i], sourcePrices(*cc)[i+1]
			return b, "two prices swapped", na == sb && nb == sa
		case "content.len":
			if m.Mode&1 == 0 || n == 0 {
				cc.Prices = append(cc.Prices, c11Price{SignalID: "CS:NEW-" + fmt.Sprint(n), Price: m.Delta, Status: 3, Timestamp: 1, Stored: true})
				return b, "one price appended", true
			}
			cc.Prices = cc.Prices[:n-1]
			return b, "last price removed", true
		case "content.encoder":
			cc.Encoder = 3 - cc.Encoder
			return b, "price encoder changed", cc.Encoder != c.Content.Encoder
		}
	}
	return b, "", false
}
