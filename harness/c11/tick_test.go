package c11

import (
	"encoding/json"
	"fmt"
	"math"
	"math/big"
	"os"
	"path/filepath"
	"strconv"
	"testing"

	"pgregory.net/rapid"

	"github.com/bandprotocol/chain/v3/pkg/tickmath"

	"verif/harness/gen"
	"verif/harness/pbt"
	"verif/harness/ref"
)

// c11TickCase: P is the price that is converted; Kind/Tick/Side only say how P was constructed.
type c11TickCase struct {
	Kind string `json:"kind"` // boundary | fixed | loguniform
	Tick int64  `json:"tick,omitempty"`
	Side int    `json:"side,omitempty"` // 0 floor(b)-1, 1 floor(b), 2 ceil(b), 3 ceil(b)+1 with b = price(Tick)
	P    uint64 `json:"p"`
}

var sideNames = []string{"floor-1", "floor", "ceil", "ceil+1"}

// boundaryPrice returns the side-th integer price around price(tick), ok=false if it is not in 1..2^64-1.
func boundaryPrice(fl, ce *big.Int, side int) (uint64, bool) {
	if fl == nil || ce == nil {
		return 0, false
	}
	var x *big.Int
	switch side {
	case 0:
		x = new(big.Int).Sub(fl, big.NewInt(1))
	case 1:
		x = fl
	case 2:
		x = ce
	default:
		x = new(big.Int).Add(ce, big.NewInt(1))
	}
	if x.Sign() <= 0 || !x.IsUint64() {
		return 0, false
	}
	return x.Uint64(), true
}

var (
	reachLo = ref.RefTick(1)              // lowest tick any price maps to
	reachHi = ref.RefTick(math.MaxUint64) // highest
)

func genC11Tick(rt *rapid.T) c11TickCase {
	switch gen.Pick(rt, "tick-kind", 62, 8, 30) {
	case 0:
		var t int64
		switch gen.Pick(rt, "tick-range", 70, 12, 18) {
		case 0: // ticks whose boundary is a representable price
			t = reachLo + int64(gen.Uniform(rt, "tick", int(reachHi-reachLo+2)))
		case 1: // the ends of the supported and of the reachable range
			t = gen.OneOf(rt, "tick-end", ref.TickMin, ref.TickMin+1, ref.TickMax-1, ref.TickMax, reachLo-1, reachLo, reachLo+1,
				reachHi-1, reachHi, reachHi+1, int64(-1), int64(0), int64(1))
		default: // anywhere in the supported range
			t = ref.TickMin + int64(gen.Uniform(rt, "tick", int(2*ref.TickMax+1)))
		}
		c := c11TickCase{Kind: "boundary", Tick: t, Side: gen.Uniform(rt, "side", 4)}
		fl, ce := ref.TickBoundaryInts(t)
		if p, ok := boundaryPrice(fl, ce, c.Side); ok {
			c.P = p
		} else if fl != nil && fl.Sign() <= 0 {
			c.P = uint64(1 + c.Side&1) // boundary below the price domain: the smallest prices
		} else {
			c.P = math.MaxUint64 - uint64(c.Side) // boundary above the price domain: the largest prices
		}
		return c
	case 1:
		return c11TickCase{Kind: "fixed", P: gen.OneOf[uint64](rt, "fixed", 1, 2, math.MaxUint64, 3, math.MaxUint64-1,
			1_000_000_000, 999_999_999, 1_000_000_001, 1<<32, 1<<63)}
	default:
		l := gen.Range(rt, "bits", 1, 64)
		lo := uint64(1) << uint(l-1)
		// uniform mantissa from unbiased bits (rapid's integer ranges favour the ends)
		var m uint64
		for i := 0; i < 4; i++ {
			m = m<<16 | uint64(gen.Uniform(rt, "mant", 1<<16))
		}
		return c11TickCase{Kind: "loguniform", P: lo + m%lo}
	}
}

// lastUnits separates two kinds of wrong ticks: a price that is at most this many 10^-9 units beyond the boundary
// it was put on the wrong side of (the precision of the production price table, signature suffix -last-units)
// from a wrong tick for a price clearly inside another tick. It only applies to prices of at least 2^53 units, where
// 8 units are less than 2^-50 of the price; below that every wrong tick is a plain violation.
const (
	lastUnits     = 8.0
	lastUnitsFrom = uint64(1) << 53
)

// tickVerdict judges "t is the largest tick whose price does not exceed p" against the reference.
func tickVerdict(p uint64, t int64) (sig, msg string, near bool) {
	lo, up := ref.JudgeTick(p, t)
	if lo == ref.TickBad {
		sig = "C11/tick-lower"
		if p >= lastUnitsFrom && ref.TickAbsDiff(p, t) <= lastUnits {
			sig += "-last-units"
		}
		return sig, fmt.Sprintf("price %d is encoded as tick %d, but price(%d) = %s exceeds the price", p, t, t, tickText(t)), false
	}
	if up == ref.TickBad {
		sig = "C11/tick-upper"
		if p >= lastUnitsFrom && ref.TickAbsDiff(p, t+1) <= lastUnits {
			sig += "-last-units"
		}
		return sig, fmt.Sprintf("price %d is encoded as tick %d which is not the largest: price(%d) = %s does not exceed the price", p, t, t+1, tickText(t+1)), false
	}
	return "", "", lo == ref.TickNear || up == ref.TickNear
}

func tickText(t int64) string {
	if b := ref.TickPrice(t); b != nil {
		return b.Text('f', 9)
	}
	return "n/a"
}

type tickOutcome struct {
	sig, msg    string
	tick        int64
	near        bool
	decodeErr   bool
	withinUnit  bool
	decodedOK   bool
	decodePrice uint64
}

// judgePrice converts p with the code under test and judges the result against the reference.
func judgePrice(p uint64) (o tickOutcome) {
	defer func() {
		if r := recover(); r != nil {
			o.sig, o.msg = "C11/tick-panic", fmt.Sprintf("PriceToTick(%d) panicked: %v", p, r)
		}
	}()
	got, err := tickmath.PriceToTick(p)
	if err != nil {
		o.sig, o.msg = "C11/tick-error", fmt.Sprintf("PriceToTick(%d) failed: %v", p, err)
		return o
	}
	if got < 1 || got > uint64(2*ref.TickOffset-1) {
		o.sig, o.msg = "C11/tick-range", fmt.Sprintf("PriceToTick(%d) = %d is outside 1..2^19-1", p, got)
		return o
	}
	t := int64(got) - ref.TickOffset
	o.tick = t
	var near bool
	if o.sig, o.msg, near = tickVerdict(p, t); o.sig != "" {
		return o
	}
	if p == 1_000_000_000 && t != 0 {
		// 10^9 * 1.0001^0 is exactly 10^9: the one boundary that needs no approximation on either side
		o.sig, o.msg = "C11/tick-unit-price", fmt.Sprintf("PriceToTick(10^9) = tick %d, the price 1.0 is exactly price(0)", t)
		return o
	}
	o.near = near
	o.withinUnit = ref.TickDistanceUnits(p, t) <= 1
	back, err := tickmath.TickToPrice(t)
	if err != nil {
		o.decodeErr = true // the exported decoder refuses ticks whose price is below one unit; counted, not judged
		return o
	}
	o.decodedOK, o.decodePrice = true, back
	if back > p {
		o.sig = "C11/tick-decoder-exceeds"
		o.msg = fmt.Sprintf("PriceToTick(%d) = tick %d but TickToPrice(%d) = %d exceeds the price", p, t, t, back)
	}
	return o
}

func runC11Tick(c c11TickCase) *pbt.Verdict {
	v := &pbt.Verdict{}
	if tickmath.MaxTick != ref.TickMax || tickmath.MinTick != ref.TickMin || tickmath.Offset != ref.TickOffset {
		v.Failf("C11/tick-constants", "tick constants are %d/%d/%d, documented ±(2^18-1) and offset 2^18", tickmath.MinTick, tickmath.MaxTick, tickmath.Offset)
		return v
	}
	if c.P == 0 {
		v.Failf("C11/harness-case", "price 0 is outside the domain")
		return v
	}
	o := judgePrice(c.P)
	if o.sig != "" {
		v.Failf(o.sig, "%s", o.msg)
		return v
	}
	v.NonTrivial = o.withinUnit
	v.Class("tick:" + c.Kind)
	if c.Kind == "boundary" {
		v.Class("side:" + sideNames[c.Side&3])
		if c.Tick < reachLo || c.Tick > reachHi+1 {
			v.Class("boundary-outside-price-domain")
		}
	}
	switch {
	case o.tick < 0:
		v.Class("tick<0")
	case o.tick == 0:
		v.Class("tick=0")
	default:
		v.Class("tick>0")
	}
	if o.withinUnit {
		v.Class("within-one-unit")
	}
	if o.near {
		v.Count("skipped_near_boundary", 1)
	}
	if o.decodeErr {
		v.Count("decoder_refused_tick", 1)
	}
	if o.decodedOK && o.decodePrice == c.P {
		v.Count("decoder_exact", 1)
	}
	return v
}

func TestC11Tick(t *testing.T) { pbt.Check(t, "C11", genC11Tick, runC11Tick) }

// ---- exhaustive enumeration (thorough tier) ---------------------------------------------------------------------

func envInt(name string, def int) int {
	if s := os.Getenv(name); s != "" {
		if n, err := strconv.Atoi(s); err == nil {
			return n
		}
	}
	return def
}

func saveTickReplay(c c11TickCase, sig, violation string) string {
	d := os.Getenv("VERIF_REPLAY_OUT")
	if d == "" {
		d = "/verif/replays"
	}
	dir := filepath.Join(d, "C11")
	_ = os.MkdirAll(dir, 0o755)
	shard := os.Getenv("VERIF_SHARD")
	if shard == "" {
		shard = "0"
	}
	p := filepath.Join(dir, "last-"+shard+".json")
	cj, _ := json.Marshal(c)
	// "test" names TestC11Tick: the case has that test's format, so the standard replay path re-runs it
	b, _ := json.MarshalIndent(map[string]any{"property": "C11", "test": "TestC11Tick", "signature": sig,
		"violation": violation, "case": json.RawMessage(cj)}, "", " ")
	_ = os.WriteFile(p, b, 0o644)
	return p
}

// TestC11TickExhaustive enumerates every tick of the supported range with its four boundary prices.
// Sharding: tick index i (0-based from MinTick) belongs to shard i mod VERIF_NSHARDS.
func TestC11TickExhaustive(t *testing.T) {
	if pbt.Tier() != "thorough" {
		t.Skip("exhaustive tick enumeration runs in the thorough tier only")
	}
	defer pbt.Flush()
	nsh, idx := envInt("VERIF_NSHARDS", 1), envInt("VERIF_SHARD_INDEX", 0)
	if nsh < 1 {
		nsh = 1
	}
	if idx < 0 || idx >= nsh {
		t.Fatalf("bad shard %d of %d", idx, nsh)
	}
	if tickmath.MaxTick != ref.TickMax || tickmath.MinTick != ref.TickMin || tickmath.Offset != ref.TickOffset {
		t.Fatalf("VIOLATION-CASE property=C11 signature=C11/tick-constants file=%s: tick constants changed",
			saveTickReplay(c11TickCase{Kind: "fixed", P: 1}, "C11/tick-constants", "tick constants changed"))
	}
	var near, refused, outside, known int64
	for tick := ref.TickMin + int64(idx); tick <= ref.TickMax; tick += int64(nsh) {
		fl, ce := ref.TickBoundaryInts(tick)
		for side := 0; side < 4; side++ {
			p, ok := boundaryPrice(fl, ce, side)
			if !ok {
				outside++
				continue
			}
			c := c11TickCase{Kind: "boundary", Tick: tick, Side: side, P: p}
			o := judgePrice(p)
			if o.sig != "" {
				if pbt.KnownFinding("C11", o.sig) != nil {
					known++
					continue
				}
				pbt.AddCounter("C11", "skipped_near_boundary", near)
				path := saveTickReplay(c, o.sig, o.msg)
				t.Fatalf("VIOLATION-CASE property=C11 signature=%s file=%s: %s", o.sig, path, o.msg)
			}
			if o.near {
				near++
			}
			if o.decodeErr {
				refused++
			}
			classes := []string{"tick:exhaustive", "side:" + sideNames[side]}
			if o.withinUnit {
				classes = append(classes, "within-one-unit")
			}
			cc := c
			pbt.RecordRaw("C11", uint64(tick+ref.TickOffset)<<2|uint64(side), o.withinUnit, func() any { return cc }, classes...)
		}
	}
	pbt.AddCounter("C11", "skipped_near_boundary", near)
	pbt.AddCounter("C11", "decoder_refused_tick", refused)
	pbt.AddCounter("C11", "boundary_price_outside_domain", outside)
	pbt.AddCounter("C11", "known_finding_hits", known)
}
