package c06

// C06 pure stage: differential check of x/feeds CalculatePrice / MedianValidatorPriceInfos against the independent
// big.Rat reference in verif/harness/ref/median.go, plus range/membership and metamorphic relations.

import (
	"fmt"
	"math/big"
	"os"
	"sort"
	"sync"
	"testing"

	"pgregory.net/rapid"

	sdkmath "cosmossdk.io/math"

	sdk "github.com/cosmos/cosmos-sdk/types"

	feedskeeper "github.com/bandprotocol/chain/v3/x/feeds/keeper"
	feedstypes "github.com/bandprotocol/chain/v3/x/feeds/types"

	"verif/harness/gen"
	"verif/harness/pbt"
	"verif/harness/ref"
	"verif/harness/sim"
)

// quorum0Enabled: generate the region of the known defect (PriceQuorum 0 and nobody reporting).
func quorum0Enabled() bool {
	return os.Getenv("VERIF_C06_QUORUM0") == "1" && !pbt.IsExcluded("C06", "C06/quorum0-empty-median")
}

// ---- case --------------------------------------------------------------------------------------------

type c06Entry struct {
	S int    `json:"s"` // SignalPriceStatus 0..3
	P uint64 `json:"p"` // power
	V uint64 `json:"v"` // price
	T int64  `json:"t"` // timestamp
}

type c06PureCase struct {
	Mode     string     `json:"mode"`
	Entries  []c06Entry `json:"entries"`
	Quorum   string     `json:"quorum"` // power quorum (decimal)
	K        uint64     `json:"k"`      // power scaling factor of the metamorphic relation
	Shift    int64      `json:"shift"`  // timestamp shift of the metamorphic relation
	Extra    c06Entry   `json:"extra"`  // non-AVAILABLE entry that must not influence the median
	ExtraPos int        `json:"extra_pos"`
	Perm     []int      `json:"perm"` // sort keys of the permutation
}

const c06BaseTime = int64(1_700_000_000)

var c06EdgePrices = []uint64{0, 1, 2, 100, 101, 1 << 63, ^uint64(0) - 1, ^uint64(0)}

func genC06Powers(rt *rapid.T, n int) []uint64 {
	p := make([]uint64, n)
	if n == 0 {
		return p
	}
	switch gen.Pick(rt, "pkind", 10, 15, 12, 12, 12, 10, 14, 15) {
	case 0: // all one
		for i := range p {
			p[i] = 1
		}
	case 1: // small
		for i := range p {
			p[i] = uint64(gen.Range(rt, "p", 1, 5))
		}
	case 2: // equal
		x := rapid.Uint64Range(1, 1_000_000_000_000).Draw(rt, "peq")
		for i := range p {
			p[i] = x
		}
	case 3, 4: // one dominant: > 25 % (case 3) or > 50 % (case 4) of the total
		var s uint64
		for i := range p {
			p[i] = rapid.Uint64Range(1, 1000).Draw(rt, "p")
			s += p[i]
		}
		d := gen.Uniform(rt, "dom", n)
		s -= p[d]
		if p[d] = s/3 + 1 + uint64(gen.Uniform(rt, "domx", 3)); s == 0 {
			p[d] = 1
		}
		if gen.Chance(rt, "dom50", 1, 2) {
			p[d] = s + 1 + uint64(gen.Uniform(rt, "domy", 3))
			if gen.Chance(rt, "domhuge", 1, 3) {
				p[d] = s*10 + 7
			}
		}
	case 5: // near 2^63
		for i := range p {
			p[i] = (1 << 63) - 2 + uint64(gen.Uniform(rt, "p63", 5))
		}
		if gen.Chance(rt, "mix63", 1, 2) { // mixed with ordinary powers
			for i := range p {
				if gen.Chance(rt, "ord", 1, 2) {
					p[i] = rapid.Uint64Range(1, 1_000_000).Draw(rt, "p")
				}
			}
		}
	case 6: // realistic token amounts (uband)
		for i := range p {
			p[i] = rapid.Uint64Range(1_000_000, 200_000_000_000_000).Draw(rt, "p")
		}
	default: // arbitrary
		for i := range p {
			p[i] = rapid.Uint64Range(1, 1<<62).Draw(rt, "p")
		}
	}
	return p
}

func genC06Times(rt *rapid.T, n int) []int64 {
	t := make([]int64, n)
	switch gen.Pick(rt, "tkind", 20, 30, 25, 15, 10) {
	case 0: // all equal
	case 1: // two or three distinct values
		k := gen.Range(rt, "tk", 2, 3)
		for i := range t {
			t[i] = int64(gen.Uniform(rt, "t", k))
		}
	case 2: // a handful of values
		for i := range t {
			t[i] = int64(gen.Uniform(rt, "t", 10))
		}
	case 3: // all distinct, any order
		for i := range t {
			t[i] = int64(i)
		}
		for i := n - 1; i > 0; i-- {
			j := gen.Uniform(rt, "tsh", i+1)
			t[i], t[j] = t[j], t[i]
		}
	default: // wide range incl. negative
		for i := range t {
			t[i] = rapid.Int64Range(-c06BaseTime-1000, 1_000_000).Draw(rt, "t")
		}
	}
	for i := range t {
		t[i] += c06BaseTime
	}
	return t
}

func genC06Prices(rt *rapid.T, n int) []uint64 {
	v := make([]uint64, n)
	switch gen.Pick(rt, "vkind", 30, 25, 20, 15, 10) {
	case 0: // few values, many ties, extremes
		for i := range v {
			v[i] = gen.OneOf(rt, "v", c06EdgePrices...)
		}
	case 1: // close together
		base := rapid.Uint64Range(0, 1_000_000_000_000).Draw(rt, "vbase")
		for i := range v {
			v[i] = base + uint64(gen.Uniform(rt, "v", 8))
		}
	case 2: // arbitrary
		for i := range v {
			v[i] = rapid.Uint64().Draw(rt, "v")
		}
	case 3: // monotone in index
		for i := range v {
			v[i] = uint64(1000 + 10*i)
		}
		if gen.Chance(rt, "vdesc", 1, 2) {
			for i := range v {
				v[i] = uint64(1000 + 10*(n-i))
			}
		}
	default: // all equal
		x := gen.OneOf(rt, "v", c06EdgePrices...)
		for i := range v {
			v[i] = x
		}
	}
	return v
}

func genC06Statuses(rt *rapid.T, n int) []int {
	s := make([]int, n)
	kind := gen.Pick(rt, "skind", 30, 35, 25, 10)
	for i := range s {
		switch kind {
		case 0:
			s[i] = ref.FeedEntryAvailable
		case 1: // mostly available
			s[i] = ref.FeedEntryAvailable
			if gen.Chance(rt, "sna", 1, 4) {
				s[i] = gen.Range(rt, "s", 1, 2)
			}
		case 2: // uniform over the valid statuses
			s[i] = gen.Range(rt, "s", 1, 3)
		default: // includes UNSPECIFIED (never passed by the real caller; only the median is compared then)
			s[i] = gen.Range(rt, "s", 0, 3)
		}
	}
	return s
}

func c06Total(es []c06Entry) *big.Int {
	t := new(big.Int)
	for _, e := range es {
		t.Add(t, new(big.Int).SetUint64(e.P))
	}
	return t
}

// balance the last entry's power so that the group `in` holds exactly half (+delta/2) of the total.
func c06Balance(es []c06Entry, in func(s int) bool, delta int64) {
	n := len(es)
	if n < 2 {
		return
	}
	a, r := new(big.Int), new(big.Int)
	for _, e := range es[:n-1] {
		if in(e.S) {
			a.Add(a, new(big.Int).SetUint64(e.P))
		} else {
			r.Add(r, new(big.Int).SetUint64(e.P))
		}
	}
	// last in group with power p:   2(a+p) = a+r+p  => p = r-a ; last outside: 2a = a+r+p => p = a-r
	p := new(big.Int).Sub(r, a)
	lastIn := in(es[n-1].S)
	if !lastIn {
		p.Neg(p)
	}
	p.Add(p, big.NewInt(delta))
	if p.Sign() <= 0 || !p.IsUint64() {
		return
	}
	es[n-1].P = p.Uint64()
}

func genC06Pure(rt *rapid.T) c06PureCase {
	c := c06PureCase{}
	mode := gen.Pick(rt, "mode", 55, 15, 10, 20)
	switch mode {
	case 3: // exact-half weighted median: the newest group holds exactly 3/11 of the power (see ref/median.go)
		c.Mode = "exact-half-median"
		m := gen.OneOf[uint64](rt, "m", 1, 2, 3, 32, 1_000_000, 0)
		if m == 0 {
			m = rapid.Uint64Range(1, 1_000_000_000_000).Draw(rt, "mbig")
		}
		split := func(total uint64, maxParts int, label string) []uint64 {
			k := uint64(gen.Range(rt, label+"k", 1, maxParts))
			if k > total {
				k = total
			}
			parts := make([]uint64, k)
			rem := total - k
			for i := range parts {
				parts[i] = 1
				if i == len(parts)-1 {
					parts[i] += rem
				} else if rem > 0 {
					x := rapid.Uint64Range(0, rem).Draw(rt, label)
					parts[i] += x
					rem -= x
				}
			}
			return parts
		}
		newLow := gen.Chance(rt, "newlow", 1, 2)
		d := int64(gen.OneOf(rt, "halfdelta", 0, 0, 0, 0, 1, -1))
		for gi, parts := range [][]uint64{split(3*m, 6, "pa"), split(8*m, 8, "pb")} {
			for _, p := range parts {
				e := c06Entry{S: ref.FeedEntryAvailable, P: p}
				if gi == 0 {
					e.T = c06BaseTime + 10 + int64(gen.Uniform(rt, "ta", 3))
				} else {
					e.T = c06BaseTime + int64(gen.Uniform(rt, "tb", 3))
				}
				if (gi == 0) == newLow {
					e.V = uint64(gen.Uniform(rt, "vlo", 50))
				} else {
					e.V = 100 + uint64(gen.Uniform(rt, "vhi", 50))
				}
				c.Entries = append(c.Entries, e)
			}
		}
		if d != 0 && int64(c.Entries[0].P)+d > 0 { // one unit off the exact crossing
			c.Entries[0].P = uint64(int64(c.Entries[0].P) + d)
		}
		if gen.Chance(rt, "noise", 1, 3) {
			c.Entries = append(c.Entries, c06Entry{S: gen.Range(rt, "ns", 1, 2), P: uint64(gen.Range(rt, "np", 1, 3)), T: c06BaseTime + 5})
		}
		// shuffle the input order
		for i := len(c.Entries) - 1; i > 0; i-- {
			j := gen.Uniform(rt, "sh", i+1)
			c.Entries[i], c.Entries[j] = c.Entries[j], c.Entries[i]
		}
	default:
		n := rapid.IntRange(0, 40).Draw(rt, "n")
		p, t, v, s := genC06Powers(rt, n), genC06Times(rt, n), genC06Prices(rt, n), genC06Statuses(rt, n)
		for i := 0; i < n; i++ {
			e := c06Entry{S: s[i], P: p[i], V: v[i], T: t[i]}
			if e.S != ref.FeedEntryAvailable && gen.Chance(rt, "v0", 9, 10) {
				e.V = 0 // what ValidateBasic enforces for real submissions; the aggregation must not care
			}
			c.Entries = append(c.Entries, e)
		}
		c.Mode = "generic"
		d := int64(gen.Range(rt, "bdelta", -1, 1))
		switch mode {
		case 1:
			c.Mode = "half-available"
			c06Balance(c.Entries, func(s int) bool { return s == ref.FeedEntryAvailable }, d)
		case 2:
			c.Mode = "half-unsupported"
			c06Balance(c.Entries, func(s int) bool { return s == ref.FeedEntryUnsupported }, d)
		}
	}
	total := c06Total(c.Entries)
	q := new(big.Int)
	switch gen.Pick(rt, "qkind", 55, 10, 15, 5, 15) {
	case 0:
		q.Add(total, big.NewInt(int64(gen.Range(rt, "qd", -1, 1))))
	case 1:
		q.SetInt64(int64(gen.Uniform(rt, "q01", 2)))
	case 2:
		q.Mul(total, big.NewInt(int64(gen.Uniform(rt, "q16", 17))))
		q.Quo(q, big.NewInt(16))
	case 3:
		q.Mul(total, big.NewInt(2))
		q.Add(q, big.NewInt(1))
	default: // the available power (+-1)
		for _, e := range c.Entries {
			if e.S == ref.FeedEntryAvailable {
				q.Add(q, new(big.Int).SetUint64(e.P))
			}
		}
		q.Add(q, big.NewInt(int64(gen.Range(rt, "qd", -1, 1))))
	}
	if q.Sign() < 0 {
		q.SetInt64(0)
	}
	if q.Sign() == 0 && total.Sign() == 0 && !quorum0Enabled() {
		q.SetInt64(1)
	}
	c.Quorum = q.String()
	c.K = gen.OneOf[uint64](rt, "k", 2, 3, 7, 10, 32, 1000, 1_000_003)
	c.Shift = gen.OneOf[int64](rt, "shift", 1, -1, 3600, -c06BaseTime, 1_000_000_007, -86400)
	c.Extra = c06Entry{S: gen.Range(rt, "xs", 0, 2), P: rapid.Uint64Range(1, 1<<62).Draw(rt, "xp"), V: gen.OneOf(rt, "xv", c06EdgePrices...),
		T: c06BaseTime + int64(gen.Range(rt, "xt", -5, 15))}
	c.ExtraPos = rapid.IntRange(0, 40).Draw(rt, "xpos")
	for i := 0; i < len(c.Entries); i++ {
		c.Perm = append(c.Perm, gen.Uniform(rt, "perm", 1000))
	}
	return c
}

// ---- code under test ---------------------------------------------------------------------------------

var c06Keeper struct {
	once sync.Once
	k    feedskeeper.Keeper
	ctx  sdk.Context
	err  error
}

// pureKeeper returns the FeedsKeeper of one process-wide sim chain (CalculatePrice is a keeper method that only
// uses ctx.BlockTime()).
func pureKeeper() (feedskeeper.Keeper, sdk.Context, error) {
	c06Keeper.once.Do(func() {
		ch, err := sim.New(sim.Config{NumAccounts: 1, Validators: []sim.ValSpec{{Tokens: 10_000_000}}}, 3)
		if err != nil {
			c06Keeper.err = err
			return
		}
		c06Keeper.k, c06Keeper.ctx = ch.App.FeedsKeeper, ch.Ctx()
	})
	return c06Keeper.k, c06Keeper.ctx, c06Keeper.err
}

func c06Infos(es []c06Entry, k uint64, shift int64) []feedstypes.ValidatorPriceInfo {
	out := make([]feedstypes.ValidatorPriceInfo, 0, len(es))
	for _, e := range es {
		p := new(big.Int).Mul(new(big.Int).SetUint64(e.P), new(big.Int).SetUint64(k))
		out = append(out, feedstypes.NewValidatorPriceInfo(feedstypes.SignalPriceStatus(e.S), sdkmath.NewIntFromBigInt(p), e.V, e.T+shift))
	}
	return out
}

func c06Ref(es []c06Entry) []ref.FeedEntry {
	out := make([]ref.FeedEntry, 0, len(es))
	for _, e := range es {
		out = append(out, ref.FeedEntry{Status: e.S, Power: new(big.Int).SetUint64(e.P), Price: e.V, Time: e.T})
	}
	return out
}

type c06Out struct {
	st  int
	pr  uint64
	err error
}

func (o c06Out) String() string {
	if o.err != nil {
		return "error(" + o.err.Error() + ")"
	}
	return fmt.Sprintf("%s/%d", feedstypes.PriceStatus(o.st), o.pr)
}

func c06Calc(k feedskeeper.Keeper, ctx sdk.Context, infos []feedstypes.ValidatorPriceInfo, q *big.Int) c06Out {
	p, err := k.CalculatePrice(ctx, feedstypes.NewFeed("CS:VERIF-USD", 1, 60), infos, sdkmath.NewIntFromBigInt(q))
	if err != nil {
		return c06Out{err: err}
	}
	return c06Out{st: int(p.Status), pr: p.Price}
}

func c06Median(infos []feedstypes.ValidatorPriceInfo) c06Out {
	m, err := feedstypes.MedianValidatorPriceInfos(infos)
	return c06Out{st: ref.FeedPriceAvailable, pr: m, err: err}
}

func c06Same(a, b c06Out) bool {
	if (a.err != nil) != (b.err != nil) {
		return false
	}
	return a.err != nil || (a.st == b.st && a.pr == b.pr)
}

// ---- run ---------------------------------------------------------------------------------------------

func runC06Pure(c c06PureCase) *pbt.Verdict {
	v := &pbt.Verdict{}
	k, ctx, err := pureKeeper()
	if err != nil {
		v.Failf("harness", "sim.New: %v", err)
		return v
	}
	q, ok := new(big.Int).SetString(c.Quorum, 10)
	if !ok || q.Sign() < 0 {
		v.Failf("harness", "bad quorum %q", c.Quorum)
		return v
	}
	if c.K == 0 {
		c.K = 1
	}
	es := c.Entries
	hasUnspec := false
	var availPrices []uint64
	for _, e := range es {
		if e.S < 0 || e.S > 3 || e.P == 0 {
			v.Failf("harness", "bad entry %+v", e)
			return v
		}
		if e.S == ref.FeedEntryUnspecified {
			hasUnspec = true
		}
		if e.S == ref.FeedEntryAvailable {
			availPrices = append(availPrices, e.V)
		}
	}
	sort.Slice(availPrices, func(i, j int) bool { return availPrices[i] < availPrices[j] })
	inRange := func(what string, p uint64) {
		if len(availPrices) == 0 {
			return
		}
		if p < availPrices[0] || p > availPrices[len(availPrices)-1] {
			v.Failf("C06/range", "%s %d outside [%d,%d] of the AVAILABLE inputs", what, p, availPrices[0], availPrices[len(availPrices)-1])
		}
		i := sort.Search(len(availPrices), func(i int) bool { return availPrices[i] >= p })
		if i >= len(availPrices) || availPrices[i] != p {
			v.Failf("C06/not-an-input", "%s %d is not one of the AVAILABLE input prices", what, p)
		}
	}

	re := c06Ref(es)
	info := ref.FeedMedianDetail(re)
	infos := c06Infos(es, 1, 0)

	// (1) CalculatePrice == reference (status rule + median)
	var base c06Out
	boundary := false
	if !hasUnspec {
		rst, rpr, rok, _, bnd := ref.FeedPrice(re, q)
		boundary = bnd
		base = c06Calc(k, ctx, infos, q)
		switch {
		case !rok:
			// AVAILABLE demanded with nothing to take a median of: quorum 0 and no report (known defect region)
			v.Class("quorum0-empty")
			if base.err != nil {
				v.Failf("C06/quorum0-empty-median", "CalculatePrice fails with %q for an empty report list and power quorum 0 (the end blocker would abort the block)", base.err)
			} else {
				v.Count("quorum0_empty_no_error", 1)
			}
		case base.err != nil:
			v.Failf("C06/calc-error", "CalculatePrice error %v; reference %s/%d", base.err, feedstypes.PriceStatus(rst), rpr)
		case base.st != rst:
			t, a, u := ref.FeedPowers(re)
			v.Failf("C06/status", "status %s, reference %s (total %s available %s unsupported %s quorum %s)",
				feedstypes.PriceStatus(base.st), feedstypes.PriceStatus(rst), t, a, u, q)
		case rst == ref.FeedPriceAvailable && base.pr != rpr:
			v.Failf("C06/price", "price %d, reference weighted median %d", base.pr, rpr)
		case rst != ref.FeedPriceAvailable && base.pr != 0:
			v.Failf("C06/price-nonzero", "status %s published with price %d (README: price 0)", feedstypes.PriceStatus(rst), base.pr)
		}
		if base.err == nil && base.st == ref.FeedPriceAvailable {
			inRange("published price", base.pr)
		}
		v.Class("status:" + feedstypes.PriceStatus(rst).String())
	} else {
		v.Class("has-unspecified(median only)")
	}

	// (2) the exported median function == reference
	var med c06Out
	if info.NAvailable > 0 {
		med = c06Median(infos)
		switch {
		case med.err != nil:
			v.Failf("C06/median-error", "MedianValidatorPriceInfos: %v (reference %d)", med.err, info.Price)
		case !info.OK:
			v.Failf("harness", "reference median undefined with %d AVAILABLE entries", info.NAvailable)
		case med.pr != info.Price:
			v.Failf("C06/median", "MedianValidatorPriceInfos %d, reference weighted median %d", med.pr, info.Price)
		default:
			inRange("median", med.pr)
		}
	}
	if v.Violation != "" {
		return v
	}

	// (3) metamorphic relations on the implementation itself
	meta := func(sig string, es2 []c06Entry, kk uint64, shift int64, withCalc bool) {
		in2 := c06Infos(es2, kk, shift)
		if info.NAvailable > 0 {
			if m2 := c06Median(in2); !c06Same(med, m2) {
				v.Failf(sig, "median changed from %s to %s", med, m2)
			}
		}
		if withCalc && !hasUnspec {
			q2 := new(big.Int).Mul(q, new(big.Int).SetUint64(kk))
			if o2 := c06Calc(k, ctx, in2, q2); !c06Same(base, o2) {
				v.Failf(sig, "CalculatePrice changed from %s to %s", base, o2)
			}
		}
	}
	meta("C06/meta-scale", es, c.K, 0, true)
	meta("C06/meta-shift", es, 1, c.Shift, true)
	if c.Extra.S != ref.FeedEntryAvailable && c.Extra.S >= 0 && c.Extra.S <= 2 && c.Extra.P > 0 {
		pos := 0
		if c.ExtraPos > 0 {
			pos = c.ExtraPos % (len(es) + 1)
		}
		es2 := append(append(append([]c06Entry(nil), es[:pos]...), c.Extra), es[pos:]...)
		meta("C06/meta-extra", es2, 1, 0, false)
	}
	// permutation: keep the first AVAILABLE entry of every (time,power) key, then permute
	{
		type key struct {
			t int64
			p uint64
		}
		seen := map[key]bool{}
		var d []c06Entry
		for _, e := range es {
			if e.S == ref.FeedEntryAvailable {
				kk := key{e.T, e.P}
				if seen[kk] {
					continue
				}
				seen[kk] = true
			}
			d = append(d, e)
		}
		idx := make([]int, len(d))
		for i := range idx {
			idx[i] = i
		}
		if len(c.Perm) > 0 {
			sort.SliceStable(idx, func(a, b int) bool { return c.Perm[idx[a]%len(c.Perm)] < c.Perm[idx[b]%len(c.Perm)] })
		}
		dp := make([]c06Entry, len(d))
		moved := false
		for i, j := range idx {
			dp[i] = d[j]
			moved = moved || i != j
		}
		if moved {
			a, b := c06Infos(d, 1, 0), c06Infos(dp, 1, 0)
			if len(seen) > 0 {
				if ma, mb := c06Median(a), c06Median(b); !c06Same(ma, mb) {
					v.Failf("C06/meta-permute", "median of entries with distinct (time,power) keys depends on their order: %s vs %s", ma, mb)
				}
			}
			if !hasUnspec && !(len(d) == 0 && q.Sign() == 0) {
				if oa, ob := c06Calc(k, ctx, a, q), c06Calc(k, ctx, b, q); !c06Same(oa, ob) {
					v.Failf("C06/meta-permute", "CalculatePrice of entries with distinct (time,power) keys depends on their order: %s vs %s", oa, ob)
				}
			}
			v.Count("permuted", 1)
		}
	}

	// classification
	v.Class("mode:" + c.Mode)
	if len(es) == 0 {
		v.Class("n=0")
	}
	if info.NAvailable >= 3 {
		v.Class("avail>=3")
	}
	if info.TimeTie {
		v.Class("time-tie")
	}
	if info.KeyTie {
		v.Class("key-tie")
	}
	if info.TieOrderMatters {
		v.Class("tie-order-matters")
	}
	if info.Splits > 0 {
		v.Class("section-split")
	}
	if info.ExactHalf {
		v.Class("exact-half-weight")
	}
	if boundary {
		v.Class("status-boundary")
	}
	if info.NAvailable > 0 {
		ta, maxp := new(big.Int), uint64(0)
		for _, e := range es {
			if e.S == ref.FeedEntryAvailable {
				ta.Add(ta, new(big.Int).SetUint64(e.P))
				if e.P > maxp {
					maxp = e.P
				}
			}
		}
		m := new(big.Int).SetUint64(maxp)
		if info.NAvailable >= 2 && new(big.Int).Mul(m, big.NewInt(2)).Cmp(ta) > 0 {
			v.Class("dominant>50%")
		} else if info.NAvailable >= 2 && new(big.Int).Mul(m, big.NewInt(4)).Cmp(ta) > 0 {
			v.Class("dominant>25%")
		}
		if maxp >= 1<<62 {
			v.Class("power>=2^62")
		}
	}
	v.NonTrivial = (info.NAvailable >= 3 && (info.TimeTie || info.Splits > 0)) || boundary
	return v
}

func TestC06Pure(t *testing.T) { pbt.Check(t, "C06", genC06Pure, runC06Pure) }
