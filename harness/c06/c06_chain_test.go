package c06

// C06 chain stage: histories on the real application. After every end block the Price store of every current
// feed must equal the reference (ref/median.go) applied to the reports the MODEL considers fresh.
//
// Model inputs and where they come from (none of them from x/feeds price code):
//   * reports: the (status, price) of every MsgSubmitSignalPrices tx that succeeded (tx result code 0), time-stamped
//     with the time of the block that included it (x/feeds stores the block time, not msg.Timestamp);
//   * bonded validators, their tokens and their enumeration order: x/staking after the block (its end blocker runs
//     before x/feeds and nothing later in the block touches staking);
//   * oracle activity at the moment x/feeds looks: x/oracle status before the block plus MsgActivate txs that
//     succeeded in the block (deactivation only happens inside the feeds end blocker, after the collection);
//   * current feeds and their intervals: the CurrentFeeds store (C07's subject), total bonded tokens: x/staking.
//
// Governance: "propose" / "vote" ops carry a feeds MsgUpdateParams through a real x/gov proposal (voting period 2 s),
// as ordinary transactions of ordinary blocks, so every block of the proposal's life is checked like any other. The
// freshness window stays what the statement and x/feeds/README.md say - "within the acceptance period (1 interval)"
// of the FEED, i.e. the interval stored with the current feed - whatever the parameters in force are: feeds and
// their intervals are only re-calculated every CurrentFeedsUpdateInterval blocks, so after MaxInterval was lowered
// a current feed keeps an interval above MaxInterval until the next re-calculation. The parameters the model tracks
// (applied when x/gov reports the proposal as passed; the gov end blocker runs before the feeds one) are used for
// statistics only, never for the expected price.

import (
	"fmt"
	"math/big"
	"sort"
	"strings"
	"testing"
	"time"

	"pgregory.net/rapid"

	sdkmath "cosmossdk.io/math"

	sdk "github.com/cosmos/cosmos-sdk/types"
	govv1 "github.com/cosmos/cosmos-sdk/x/gov/types/v1"
	stakingtypes "github.com/cosmos/cosmos-sdk/x/staking/types"

	feedstypes "github.com/bandprotocol/chain/v3/x/feeds/types"
	oracletypes "github.com/bandprotocol/chain/v3/x/oracle/types"

	"verif/harness/gen"
	"verif/harness/pbt"
	"verif/harness/ref"
	"verif/harness/sim"
)

// ---- case --------------------------------------------------------------------------------------------

type c06SigPrice struct {
	Sig   int    `json:"sig"` // index mod (number of signals + 1); the extra index is an unknown signal id
	St    int    `json:"st"`  // 1..3
	Price uint64 `json:"p"`
}

// c06Gov: the fields of the feeds parameters a proposal changes; 0 = keep the value in force.
type c06Gov struct {
	MaxInterval int64 `json:"max_interval,omitempty"`
	MinInterval int64 `json:"min_interval,omitempty"`
	Step        int64 `json:"step,omitempty"`
	MaxFeeds    int64 `json:"max_feeds,omitempty"`
	Cooldown    int64 `json:"cooldown,omitempty"`
	Grace       int64 `json:"grace,omitempty"`
}

type c06Op struct {
	K      string        `json:"k"` // submit | activate | delegate | undelegate | propose | vote | feedvote | end
	Gov    *c06Gov       `json:"gov,omitempty"`
	Factor []int64       `json:"factor,omitempty"` // feedvote: the delegator's signal powers (x step), index = signal, 0 = none
	Val    int           `json:"val,omitempty"`
	TsOff  int64         `json:"tsoff,omitempty"` // msg.Timestamp - block time
	Prices []c06SigPrice `json:"prices,omitempty"`
	Amt    int64         `json:"amt,omitempty"`
	All    bool          `json:"all,omitempty"`
	Dt     int           `json:"dt,omitempty"`
}

type c06ChainCase struct {
	Tokens      []int64 `json:"tokens"`
	Active      []bool  `json:"active"`
	SigFactor   []int64 `json:"sig_factor"` // vote power of signal i = factor * step
	WeakSignal  bool    `json:"weak_signal"`
	MinInterval int64   `json:"min_interval"`
	MaxInterval int64   `json:"max_interval"`
	UpdateEvery int64   `json:"update_every"`
	Grace       int64   `json:"grace"`
	Cooldown    int64   `json:"cooldown"`
	Discrepancy int64   `json:"discrepancy"`
	PenaltySec  int64   `json:"penalty_sec"`
	QMask       int     `json:"qmask"`  // quorum = power of this validator subset + QDelta (as a fraction of bonded)
	QDelta      int64   `json:"qdelta"` //
	QFrac       string  `json:"qfrac"`  // if set: the quorum fraction literally
	Replica     bool    `json:"replica"`
	Ops         []c06Op `json:"ops"`
}

const c06Step = int64(1000)

var c06ChainPrices = []uint64{0, 1, 2, 100, 100, 101, 102, 1000, ^uint64(0)}

func genC06Submit(rt *rapid.T, nsig, val int, disc int64) c06Op {
	op := c06Op{K: "submit", Val: val}
	switch gen.Pick(rt, "tsoff", 12, 2, 2) {
	case 1: // at / just outside the allowed discrepancy
		op.TsOff = int64(gen.OneOf(rt, "tsoffv", -1, 1)) * (disc + int64(gen.Uniform(rt, "tsd", 2)))
	case 2: // a validator clock that is off, inside the allowed discrepancy: earlier or later than the block time
		op.TsOff = int64(gen.OneOf(rt, "tsoffv", -1, 1)) * int64(gen.Range(rt, "tsin", 1, int(disc)))
	}
	first := gen.Uniform(rt, "sig0", nsig)
	cnt := nsig
	if gen.Chance(rt, "partial", 1, 4) {
		cnt = gen.Range(rt, "cnt", 1, nsig)
	}
	for j := 0; j < cnt; j++ {
		sp := c06SigPrice{Sig: (first + j) % nsig, St: gen.Pick(rt, "st", 0, 12, 10, 78)}
		if sp.St == ref.FeedEntryAvailable {
			sp.Price = gen.OneOf(rt, "price", c06ChainPrices...)
			if gen.Chance(rt, "pval", 1, 3) {
				sp.Price = 100 + uint64(val)
			}
		}
		op.Prices = append(op.Prices, sp)
	}
	if gen.Chance(rt, "bogus", 1, 40) {
		op.Prices = append(op.Prices, c06SigPrice{Sig: nsig, St: 3, Price: 5})
	}
	return op
}

func genC06Chain(rt *rapid.T) c06ChainCase {
	n := rapid.IntRange(3, 7).Draw(rt, "nvals")
	c := c06ChainCase{}
	tk := gen.Pick(rt, "tokkind", 30, 25, 20, 25)
	eq := int64(gen.Range(rt, "eqtok", 1, 20)) * 1_000_000
	for i := 0; i < n; i++ {
		var t int64
		switch tk {
		case 0: // equal
			t = eq
		case 1: // equal up to a few base units (same consensus power, different feeds power)
			t = eq + int64(gen.Uniform(rt, "tokd", 3))
		case 2: // one dominant validator
			t = int64(gen.Range(rt, "tok", 1, 5)) * 1_000_000
			if i == 0 {
				t = int64(gen.OneOf(rt, "domtok", 8, 20, 60)) * 1_000_000
			}
		default:
			t = int64(gen.Range(rt, "tok", 1, 30))*1_000_000 + int64(gen.Uniform(rt, "tokd", 2))
		}
		c.Tokens = append(c.Tokens, t)
		c.Active = append(c.Active, gen.Chance(rt, "act", 17, 20))
	}
	nsig := rapid.IntRange(1, 3).Draw(rt, "nsig")
	for i := 0; i < nsig; i++ {
		c.SigFactor = append(c.SigFactor, int64(gen.Range(rt, "sigf", 1, 4)))
	}
	c.WeakSignal = gen.Chance(rt, "weak", 1, 4)
	c.MinInterval = int64(gen.Range(rt, "minint", 1, 3))
	c.MaxInterval = gen.OneOf[int64](rt, "maxint", 6, 12, 30, 60)
	c.UpdateEvery = gen.OneOf[int64](rt, "upd", 2, 3, 5, 7, 1000)
	c.Grace = gen.OneOf[int64](rt, "grace", 1, 3, 6, 12, 30, 1000, 1000)
	c.Cooldown = gen.OneOf[int64](rt, "cool", 1, 1, 1, 2)
	c.Discrepancy = gen.OneOf[int64](rt, "disc", 1, 2, 60)
	c.PenaltySec = gen.OneOf[int64](rt, "pen", 1, 2, 10)
	switch gen.Pick(rt, "qkind", 60, 40) {
	case 0:
		c.QMask = 1 + gen.Uniform(rt, "qmask", (1<<n)-1)
		c.QDelta = int64(gen.Range(rt, "qdelta", -1, 1))
	default:
		c.QFrac = gen.OneOf(rt, "qfrac", "0.000001", "0.3", "0.5", "0.666666666666666667", "1")
		if quorum0Enabled() && gen.Chance(rt, "q0", 1, 2) {
			// quorum POWER 0: PriceQuorum "0", or any fraction with fraction*bonded < 1
			c.QFrac = gen.OneOf(rt, "q0v", "0", "0.000000000000000001")
		}
	}
	c.Replica = gen.Chance(rt, "replica", 1, 5)

	// generator-side belief about chain height and the parameters in force (exact for the height: sim.New commits
	// block 1, the activation block is 2, every "end" op and the final flush are one block each)
	h := int64(2)
	gMin, gMax, gStep := c.MinInterval, c.MaxInterval, c06Step
	interval := func(sig int) int64 {
		f := c.SigFactor[sig] * c06Step / gStep
		if f < 1 {
			f = 1
		}
		iv := gMax / f
		if iv < gMin {
			iv = gMin
		}
		return iv
	}
	submitted := map[int]bool{}
	end := func(dt int) {
		if dt < 1 {
			dt = 1
		}
		c.Ops = append(c.Ops, c06Op{K: "end", Dt: dt})
		submitted = map[int]bool{}
		h++
	}
	// governance lowers MaxInterval below the interval of a current feed in the middle of a current-feeds period, with
	// reports whose age lies in (new MaxInterval, feed interval] when the change takes effect. All ordinary ops.
	lowerMaxInterval := func() bool {
		iv := int64(0)
		for i, k := 0, gen.Uniform(rt, "gsig", nsig); i < nsig; i++ { // a feed with interval >= 2, starting at a random one
			if x := interval((k + i) % nsig); x >= 2 && (iv < 2 || gen.Chance(rt, "gsigalt", 1, 3)) {
				iv = x
			}
		}
		if iv < 2 {
			return false
		}
		m := int64(gen.Range(rt, "gmax", 1, int(iv-1)))
		if len(c.Ops) > 0 && c.Ops[len(c.Ops)-1].K != "end" || gen.Chance(rt, "gcool", 1, 2) {
			end(int(c.Cooldown)) // earlier reports of this block out of the way, cooldown over
		}
		if (h+3)%c.UpdateEvery == 0 { // the block in which the change takes effect must not re-calculate the feeds
			end(1)
		}
		for i := 0; i < n; i++ {
			if gen.Chance(rt, "grep", 5, 6) {
				c.Ops = append(c.Ops, genC06Submit(rt, nsig, i, c.Discrepancy))
			}
		}
		c.Ops = append(c.Ops, c06Op{K: "propose", Gov: &c06Gov{MaxInterval: m}})
		end(1)
		if gen.Chance(rt, "glate", 1, 3) { // some validators report one block later
			for i, k := 0, gen.Range(rt, "glaten", 1, 2); i < k; i++ {
				c.Ops = append(c.Ops, genC06Submit(rt, nsig, gen.Uniform(rt, "val", n), c.Discrepancy))
			}
		}
		c.Ops = append(c.Ops, c06Op{K: "vote"})
		end(1)
		// the reports of the proposal block are 1+d old when the proposal passes: d in [m, iv-1] <=> age in (m, iv]
		d := gen.Range(rt, "gdt", int(m), int(iv-1))
		switch gen.Pick(rt, "gdtk", 6, 2, 2) {
		case 1:
			d = int(m) // age = new MaxInterval + 1
		case 2:
			d = int(iv - 1) // age = feed interval
		}
		end(d)
		gMax = m
		for k := gen.Pick(rt, "gmore", 4, 3, 2); k > 0; k-- {
			end(1)
		}
		return true
	}
	// A validator with a fresh report leaves the bonded set at the end of one block (undelegation below one unit of
	// consensus power) and re-enters it at the end of a later one (delegation): in both blocks the price must be computed
	// from the validator set x/staking leaves behind at the END of the block. All ordinary ops.
	bondFlip := func() {
		if n < 2 {
			return
		}
		x := 1 + gen.Uniform(rt, "bfval", n-1)
		if len(c.Ops) > 0 && c.Ops[len(c.Ops)-1].K != "end" {
			end(int(c.Cooldown))
		}
		c.Ops = append(c.Ops, c06Op{K: "activate", Val: x})
		end(int(c.Cooldown))
		for i := 0; i < n; i++ {
			if i == x || gen.Chance(rt, "bfrep", 4, 5) {
				c.Ops = append(c.Ops, genC06Submit(rt, nsig, i, c.Discrepancy))
			}
		}
		if gen.Chance(rt, "bfsame", 1, 2) {
			end(1)
		}
		c.Ops = append(c.Ops, c06Op{K: "undelegate", Val: x, Amt: gen.OneOf[int64](rt, "bfamt", 1, 2, 500_000), All: true})
		end(1)
		if gen.Chance(rt, "bfgap", 1, 3) {
			end(1)
		}
		c.Ops = append(c.Ops, c06Op{K: "delegate", Val: x, Amt: gen.OneOf[int64](rt, "bfback", 1_000_000, 7_000_000, 7_000_000)})
		if gen.Chance(rt, "bflate", 1, 3) {
			c.Ops = append(c.Ops, genC06Submit(rt, nsig, (x+1)%n, c.Discrepancy))
		}
		end(1)
		end(1)
	}
	// The delegator re-votes so that the lowest ranked signal becomes the highest; the next current-feeds update lists the
	// same signals in another order; then validators send PARTIAL reports while their older prices for the other
	// signals are still fresh. All ordinary ops.
	gVote := make([]int64, nsig)
	reorderFeeds := func() bool {
		if nsig < 2 || c.UpdateEvery > 7 {
			return false
		}
		if len(c.Ops) > 0 && c.Ops[len(c.Ops)-1].K != "end" {
			end(int(c.Cooldown))
		}
		c.Ops = append(c.Ops, c06Op{K: "delegate", Val: 0, Amt: 1_000_000})
		end(int(c.Cooldown))
		for i := 0; i < n; i++ {
			if gen.Chance(rt, "rfrep", 9, 10) {
				op := genC06Submit(rt, nsig, i, c.Discrepancy)
				c.Ops = append(c.Ops, op)
			}
		}
		lo, hi := 0, int64(0)
		for i := 0; i < nsig; i++ {
			if t := c.SigFactor[i] + gVote[i]; t > hi {
				hi = t
			}
			if c.SigFactor[i]+gVote[i] < c.SigFactor[lo]+gVote[lo] || (c.SigFactor[i]+gVote[i] == c.SigFactor[lo]+gVote[lo] && gen.Chance(rt, "rflo", 1, 2)) {
				lo = i
			}
		}
		gVote[lo] = hi + 1 - c.SigFactor[lo]
		c.Ops = append(c.Ops, c06Op{K: "feedvote", Factor: append([]int64(nil), gVote...)})
		end(1)
		for h%c.UpdateEvery != 0 {
			end(1)
		}
		for i := 0; i < n; i++ {
			if gen.Chance(rt, "rfpart", 4, 5) {
				sp := c06SigPrice{Sig: gen.Uniform(rt, "rfsig", nsig), St: gen.Pick(rt, "st", 0, 12, 10, 78)}
				if sp.St == ref.FeedEntryAvailable {
					sp.Price = gen.OneOf(rt, "price", c06ChainPrices...)
				}
				c.Ops = append(c.Ops, c06Op{K: "submit", Val: i, Prices: []c06SigPrice{sp}})
			}
		}
		end(1)
		end(1)
		return true
	}
	// any other change of the feeds parameters
	changeParams := func() {
		g := &c06Gov{}
		for k := 1 + gen.Pick(rt, "gnf", 3, 1); k > 0; k-- {
			switch gen.Pick(rt, "gfield", 30, 14, 12, 10, 8, 8) {
			case 0:
				g.MaxInterval = gen.OneOf[int64](rt, "gmaxv", 2, 3, 6, 12, 30, 60, 120)
			case 1:
				g.MinInterval = gen.OneOf[int64](rt, "gminv", 1, 2, 3, 5, 10)
			case 2:
				g.Step = gen.OneOf[int64](rt, "gstep", c06Step/2, c06Step, 2*c06Step, 3*c06Step)
			case 3:
				g.MaxFeeds = gen.OneOf[int64](rt, "gfeeds", 1, 2, 300)
			case 4:
				g.Cooldown = gen.OneOf[int64](rt, "gcoolv", 1, 2, 3)
			default:
				g.Grace = gen.OneOf[int64](rt, "ggrace", 1, 3, 30, 1000)
			}
		}
		c.Ops = append(c.Ops, c06Op{K: "propose", Gov: g})
		end(1)
		voted := gen.Chance(rt, "gvote", 9, 10) // else: no quorum, the proposal is rejected
		if voted {
			c.Ops = append(c.Ops, c06Op{K: "vote"})
		}
		end(1)
		end(gen.Range(rt, "gdt2", 1, 3))
		if voted {
			if g.MaxInterval > 0 {
				gMax = g.MaxInterval
			}
			if g.MinInterval > 0 {
				gMin = g.MinInterval
			}
			if g.Step > 0 {
				gStep = g.Step
			}
		}
	}

	nops := rapid.IntRange(25, 90).Draw(rt, "nops")
	scenarioAt := -1
	if gen.Chance(rt, "gscen", 2, 5) {
		scenarioAt = gen.Uniform(rt, "gscenat", nops)
	}
	bondFlipAt := -1
	if gen.Chance(rt, "bfscen", 3, 10) {
		bondFlipAt = gen.Uniform(rt, "bfscenat", nops)
	}
	reorderAt := -1
	if gen.Chance(rt, "rfscen", 3, 10) {
		reorderAt = gen.Uniform(rt, "rfscenat", nops)
	}
	for i := 0; i < nops; i++ {
		if i == bondFlipAt {
			bondFlip()
		}
		if i == reorderAt {
			reorderFeeds()
		}
		if i == scenarioAt && lowerMaxInterval() {
			continue
		}
		switch gen.Pick(rt, "opw", 44, 52, 64, 12, 10, 8, 10, 3) {
		case 0: // burst: several validators report in the same block (=> equal timestamps)
			k := rapid.IntRange(2, n).Draw(rt, "burst")
			start := gen.Uniform(rt, "start", n)
			for j := 0; j < k; j++ {
				if submitted[(start+j)%n] && gen.Chance(rt, "nodup", 3, 4) {
					continue
				}
				submitted[(start+j)%n] = true
				c.Ops = append(c.Ops, genC06Submit(rt, nsig, (start+j)%n, c.Discrepancy))
			}
		case 1:
			val := gen.Uniform(rt, "val", n)
			if submitted[val] && gen.Chance(rt, "nodup", 3, 4) { // a second report in one block only hits the cooldown
				for j := 0; j < n && submitted[val]; j++ {
					val = (val + 1) % n
				}
			}
			submitted[val] = true
			c.Ops = append(c.Ops, genC06Submit(rt, nsig, val, c.Discrepancy))
		case 2:
			dt := gen.OneOf(rt, "dt", 1, 1, 1, 2, 3)
			if gen.Chance(rt, "dtint", 1, 3) { // around a feed interval
				dt = int(interval(gen.Uniform(rt, "dtsig", nsig))) + gen.Range(rt, "dtd", -1, 1)
			}
			end(dt)
		case 3:
			c.Ops = append(c.Ops, c06Op{K: "activate", Val: gen.Uniform(rt, "val", n)})
		case 4:
			c.Ops = append(c.Ops, c06Op{K: "delegate", Val: gen.Uniform(rt, "val", n), Amt: gen.OneOf[int64](rt, "amt", 1, 2, 999_999, 1_000_000, 1_000_000, 7_000_000)})
		case 5:
			c.Ops = append(c.Ops, c06Op{K: "undelegate", Val: gen.Uniform(rt, "val", n), Amt: gen.OneOf[int64](rt, "amt", 1, 2, 500_000, 1_000_000),
				All: gen.Chance(rt, "all", 1, 3)})
		case 6: // every validator (re)activates
			for j := 0; j < n; j++ {
				c.Ops = append(c.Ops, c06Op{K: "activate", Val: j})
			}
		case 7:
			if gen.Chance(rt, "glower", 1, 3) && lowerMaxInterval() {
				continue
			}
			changeParams()
		}
	}
	return c
}

// ---- run ---------------------------------------------------------------------------------------------

type c06Report struct {
	st    int
	price uint64
	ts    int64
	// what the validator wrote into msg.Timestamp (within the allowed discrepancy of the block time). The documents
	// date a report by the block that included it; the claimed time is kept for statistics only
	claimed int64
	// the validator sent a later report while this signal was not a current feed. x/feeds keeps "the latest price of
	// each signal ID of Current feeds" only, the documents do not say when exactly the older report is dropped: the
	// model does not decide (feeds it matters for are not compared while the report would still be fresh)
	ambiguous bool
}

type c06Proposal struct {
	id     uint64
	params feedstypes.Params
	gov    c06Gov
}

const c06GovVoting = 2 * time.Second

func c06Reason(log string) string {
	for _, k := range []string{"not active", "not bonded validator", "too early", "invalid timestamp", "not supported", "too large"} {
		if strings.Contains(log, k) {
			return k
		}
	}
	if len(log) > 40 {
		log = log[len(log)-40:]
	}
	return log
}

func c06SigName(i int) string { return fmt.Sprintf("CS:SIG%d-USD", i) }

var c06E18 = new(big.Int).Exp(big.NewInt(10), big.NewInt(18), nil)

func c06FracString(e18 *big.Int) string {
	ip, fp := new(big.Int).QuoRem(e18, c06E18, new(big.Int))
	f := fp.String()
	return ip.String() + "." + strings.Repeat("0", 18-len(f)) + f
}

func runC06Chain(c c06ChainCase) *pbt.Verdict {
	v := &pbt.Verdict{}
	n, nsig := len(c.Tokens), len(c.SigFactor)
	if n == 0 || nsig == 0 || len(c.Active) != n || c.UpdateEvery <= 0 {
		v.Failf("harness", "malformed case")
		return v
	}
	// quorum fraction (18 decimals)
	genesisBonded := new(big.Int)
	for _, t := range c.Tokens {
		genesisBonded.Add(genesisBonded, big.NewInt(t))
	}
	qE18 := new(big.Int)
	if c.QFrac != "" {
		d, err := sdkmath.LegacyNewDecFromStr(c.QFrac)
		if err != nil {
			v.Failf("harness", "bad quorum fraction %q", c.QFrac)
			return v
		}
		qE18 = d.BigInt()
	} else {
		target := big.NewInt(c.QDelta)
		for i, t := range c.Tokens {
			if c.QMask>>uint(i)&1 == 1 {
				target.Add(target, big.NewInt(t))
			}
		}
		if target.Sign() <= 0 {
			target.SetInt64(1)
		}
		if target.Cmp(genesisBonded) > 0 {
			target.Set(genesisBonded)
		}
		// smallest 18-decimal fraction q with floor(q * bonded) == target
		num := new(big.Int).Mul(target, c06E18)
		qE18.Quo(num, genesisBonded)
		if new(big.Int).Mul(qE18, genesisBonded).Cmp(num) < 0 {
			qE18.Add(qE18, big.NewInt(1))
		}
	}
	// known defect region: the quorum POWER floor(fraction*bonded) is 0 and nobody reports
	if ref.FeedQuorumPower(genesisBonded, qE18).Sign() == 0 && !quorum0Enabled() {
		qE18.Quo(c06E18, big.NewInt(1_000_000)) // 10^-6 of >= 3*10^6 bonded uband is a positive power
	}
	lastBonded := genesisBonded
	quorum0 := ref.FeedQuorumPower(lastBonded, qE18).Sign() == 0

	fp := feedstypes.DefaultParams()
	fp.PowerStepThreshold = c06Step
	fp.MinInterval, fp.MaxInterval = c.MinInterval, c.MaxInterval
	fp.CurrentFeedsUpdateInterval = c.UpdateEvery
	fp.GracePeriod, fp.CooldownTime, fp.AllowableBlockTimeDiscrepancy = c.Grace, c.Cooldown, c.Discrepancy
	fp.PriceQuorum = c06FracString(qE18)
	op := oracletypes.DefaultParams()
	op.InactivePenaltyDuration = uint64(time.Duration(c.PenaltySec) * time.Second)
	var sigs []feedstypes.Signal
	for i, f := range c.SigFactor {
		sigs = append(sigs, feedstypes.NewSignal(c06SigName(i), f*c06Step))
	}
	if c.WeakSignal {
		sigs = append(sigs, feedstypes.NewSignal("CS:WEAK-USD", c06Step-1))
	}
	vals := make([]sim.ValSpec, n)
	for i := range vals {
		vals[i] = sim.ValSpec{Tokens: c.Tokens[i]}
	}
	cfg := sim.Config{NumAccounts: 2, Validators: vals, Oracle: &op, Feeds: &fp, GovVoting: c06GovVoting,
		FeedsVotes: []feedstypes.Vote{feedstypes.NewVote(sim.NewAccount("user0").Addr.String(), sigs)}}
	ch, err := sim.New(cfg, 0)
	if err != nil {
		if quorum0 && strings.Contains(err.Error(), "invalid weighted prices") {
			v.Failf("C06/quorum0-empty-median", "block 1 cannot be finalized with PriceQuorum 0 and no report: %v", err)
			return v
		}
		v.Failf("harness", "sim.New: %v", err)
		return v
	}
	defer ch.Close()
	var rep *sim.Chain
	if c.Replica {
		if rep, err = sim.New(cfg, 1); err != nil {
			v.Failf("harness", "sim.New replica: %v", err)
			return v
		}
		defer rep.Close()
	}
	valIdx := map[string]int{}
	for i, a := range ch.Vals {
		valIdx[a.Val.String()] = i
	}

	model := make([]map[string]c06Report, n) // validator -> signal -> latest accepted report
	for i := range model {
		model[i] = map[string]c06Report{}
	}
	var pending []c06Op
	curParams := fp                 // the feeds parameters in force (statistics and building the next proposal only)
	var proposals []*c06Proposal    // in their voting period
	lastReorder := int64(0)         // height of the last block that re-ordered the current feeds without changing their number
	lastSubmitH := make([]int64, n) // height of each validator's last accepted report
	prevBonded := make([]bool, n)   // bonded at the end of the previous block
	for i := range prevBonded {
		prevBonded[i] = true
	}
	feedSetFree := false // a passed proposal changed which signals qualify as current feeds
	nontrivial := false
	stat := map[string]int64{}
	classes := map[string]bool{}

	flush := func(dt int) bool {
		if dt < 1 {
			dt = 1
		}
		blockTime := ch.Time.Add(time.Duration(dt) * time.Second).Unix()
		pre := ch.Ctx()
		activeBefore := make([]bool, n)
		for i, a := range ch.Vals {
			activeBefore[i] = ch.App.OracleKeeper.GetValidatorStatus(pre, a.Val).IsActive
		}
		preFeeds := map[string]bool{} // the current feeds the transactions of this block see
		var preOrder []string
		for _, f := range ch.App.FeedsKeeper.GetCurrentFeeds(pre).Feeds {
			preFeeds[f.SignalID] = true
			preOrder = append(preOrder, f.SignalID)
		}
		var txs [][]byte
		var ops []c06Op
		var proposed []*c06Proposal // parallel to ops (nil for other ops)
		undelegating := make([]sdkmath.Int, n)
		for i := range undelegating {
			undelegating[i] = sdkmath.ZeroInt()
		}
		for _, o := range pending {
			a := ch.Vals[o.Val%n]
			var msg sdk.Msg
			switch o.K {
			case "submit":
				var sps []feedstypes.SignalPrice
				for _, p := range o.Prices {
					id := "CS:NOPE-USD"
					if p.Sig%(nsig+1) < nsig {
						id = c06SigName(p.Sig % (nsig + 1))
					}
					sps = append(sps, feedstypes.NewSignalPrice(feedstypes.SignalPriceStatus(p.St), id, p.Price))
				}
				msg = feedstypes.NewMsgSubmitSignalPrices(a.Val.String(), blockTime+o.TsOff, sps)
			case "activate":
				msg = oracletypes.NewMsgActivate(a.Val)
			case "delegate":
				msg = stakingtypes.NewMsgDelegate(ch.Users[1].Addr.String(), a.Val.String(), sdk.NewInt64Coin("uband", o.Amt))
				a = ch.Users[1]
			case "feedvote": // the delegator (re)votes; its powers add to the genesis vote of user 0
				var sg []feedstypes.Signal
				for i, f := range o.Factor {
					if i < nsig && f > 0 {
						sg = append(sg, feedstypes.NewSignal(c06SigName(i), f*c06Step))
					}
				}
				a = ch.Users[1]
				msg = feedstypes.NewMsgVote(a.Addr.String(), sg)
			case "undelegate":
				// The self delegation never drops to zero: a validator without shares is deleted once unbonded, and
				// chainsim keeps listing every genesis validator in the last-commit votes ("validator does not
				// exist" in the distribution begin blocker - an artefact no real node can see). Leaving less than
				// one unit of consensus power (10^6 uband) is enough to push the validator out of the bonded set.
				d, err := ch.App.StakingKeeper.GetDelegation(pre, a.Addr, a.Val)
				if err != nil {
					stat["op_inapplicable"]++
					continue
				}
				self := d.Shares.TruncateInt().Sub(undelegating[o.Val%n]) // minus what earlier txs of this block take
				amt := sdkmath.NewInt(o.Amt)
				if o.All {
					amt = self.SubRaw(1 + o.Amt%999_999)
				}
				// validator 0 always keeps one unit of consensus power: an empty validator set (total bonded 0, hence
				// quorum power 0) cannot occur on a live chain
				if !amt.IsPositive() || amt.GTE(self) || (o.Val%n == 0 && self.Sub(amt).LT(sdkmath.NewInt(1_000_000))) {
					stat["op_inapplicable"]++
					continue
				}
				undelegating[o.Val%n] = undelegating[o.Val%n].Add(amt)
				msg = stakingtypes.NewMsgUndelegate(a.Addr.String(), a.Val.String(), sdk.NewCoin("uband", amt))
			case "propose":
				if o.Gov == nil {
					stat["op_inapplicable"]++
					continue
				}
				g, p := *o.Gov, curParams
				if g.MaxInterval > 0 {
					p.MaxInterval = g.MaxInterval
				}
				if g.MinInterval > 0 {
					p.MinInterval = g.MinInterval
				}
				if g.Step > 0 {
					p.PowerStepThreshold = g.Step
				}
				if g.MaxFeeds > 0 {
					p.MaxCurrentFeeds = uint64(g.MaxFeeds)
				}
				if g.Cooldown > 0 {
					p.CooldownTime = g.Cooldown
				}
				if g.Grace > 0 {
					p.GracePeriod = g.Grace
				}
				a = ch.Vals[0]
				m, err := govv1.NewMsgSubmitProposal([]sdk.Msg{&feedstypes.MsgUpdateParams{Authority: sim.GovAuthority(), Params: p}},
					sdk.NewCoins(sdk.NewInt64Coin("uband", 10)), a.Addr.String(), "", "feeds params", "c06", false)
				if err != nil {
					v.Failf("harness", "NewMsgSubmitProposal: %v", err)
					return false
				}
				txs = append(txs, ch.SignTx(a, m))
				ops = append(ops, o)
				proposed = append(proposed, &c06Proposal{params: p, gov: g})
				continue
			case "vote": // every validator operator votes yes on every proposal in its voting period
				if len(proposals) == 0 {
					stat["op_inapplicable"]++
				}
				for _, pr := range proposals {
					for _, va := range ch.Vals {
						txs = append(txs, ch.SignTx(va, govv1.NewMsgVote(va.Addr, pr.id, govv1.OptionYes, "")))
						ops = append(ops, c06Op{K: "votetx"})
						proposed = append(proposed, nil)
					}
				}
				continue
			default:
				continue
			}
			txs = append(txs, ch.SignTx(a, msg))
			ops = append(ops, o)
			proposed = append(proposed, nil)
		}
		pending = nil
		res, err := ch.Block(txs, time.Duration(dt)*time.Second)
		if err != nil {
			if strings.Contains(err.Error(), "invalid weighted prices") && ref.FeedQuorumPower(lastBonded, qE18).Sign() == 0 {
				v.Failf("C06/quorum0-empty-median", "FinalizeBlock fails at height %d with PriceQuorum 0 and a current feed nobody reports: %v", ch.Height+1, err)
			} else {
				v.Failf("C06/finalize", "FinalizeBlock failed at height %d: %v", ch.Height+1, err)
			}
			return false
		}
		if rep != nil {
			rres, rerr := rep.Block(txs, time.Duration(dt)*time.Second)
			if rerr != nil || string(rres.Resp.AppHash) != string(res.Resp.AppHash) {
				v.Failf("C06/replica-divergence", "second node differs at height %d (err %v)", res.Height, rerr)
				return false
			}
		}
		now := res.Time.Unix()
		activated := make([]bool, n)
		for i, o := range ops {
			ok := res.Resp.TxResults[i].Code == 0
			if !ok {
				stat["tx_rejected_"+o.K]++
				if o.K == "submit" {
					stat["submit_rejected:"+c06Reason(res.Resp.TxResults[i].Log)]++
				}
				continue
			}
			stat["tx_ok_"+o.K]++
			switch o.K {
			case "feedvote":
				feedSetFree = true // which signals qualify (and how many) is C07's subject
				classes["feeds-vote-changed"] = true
			case "submit":
				if len(o.Prices) < len(preFeeds) && lastReorder > 0 && lastSubmitH[o.Val%n] > 0 && lastSubmitH[o.Val%n] <= lastReorder {
					classes["partial-report-after-feeds-reordered"] = true
					stat["partial_report_after_feeds_reordered"]++
				}
				lastSubmitH[o.Val%n] = res.Height
				for id, r := range model[o.Val%n] {
					if !preFeeds[id] {
						r.ambiguous = true
						model[o.Val%n][id] = r
					}
				}
				for _, p := range o.Prices {
					model[o.Val%n][c06SigName(p.Sig%(nsig+1))] = c06Report{st: p.St, price: p.Price, ts: now, claimed: now + o.TsOff}
				}
				if o.TsOff != 0 {
					classes["msg-timestamp!=block-time accepted"] = true
					stat["submit_ok_msg_timestamp_off"]++
				}
			case "activate":
				activated[o.Val%n] = true
			case "propose":
				pr := proposed[i]
				for _, ev := range res.Resp.TxResults[i].Events {
					if ev.Type == "submit_proposal" && sim.Attr(ev, "proposal_id") != "" {
						fmt.Sscan(sim.Attr(ev, "proposal_id"), &pr.id)
					}
				}
				if pr.id == 0 {
					v.Failf("harness", "no proposal id in the events of an accepted MsgSubmitProposal at height %d", res.Height)
					return false
				}
				proposals = append(proposals, pr)
			}
		}
		// proposals decided in this block (x/gov's end blocker runs before x/feeds')
		ctx := ch.Ctx()
		var open []*c06Proposal
		for _, pr := range proposals {
			p, err := ch.App.GovKeeper.Proposals.Get(ctx, pr.id)
			if err != nil {
				v.Failf("harness", "proposal %d: %v", pr.id, err)
				return false
			}
			switch p.Status {
			case govv1.StatusVotingPeriod, govv1.StatusDepositPeriod:
				open = append(open, pr)
			case govv1.StatusPassed:
				if pr.params.PowerStepThreshold != curParams.PowerStepThreshold || pr.params.MaxCurrentFeeds != curParams.MaxCurrentFeeds {
					feedSetFree = true
				}
				if pr.params.MaxInterval < curParams.MaxInterval {
					classes["gov-max-interval-lowered"] = true
				}
				if pr.params.MaxInterval > curParams.MaxInterval {
					classes["gov-max-interval-raised"] = true
				}
				if pr.gov.MinInterval > 0 || pr.gov.Step > 0 || pr.gov.MaxFeeds > 0 || pr.gov.Cooldown > 0 || pr.gov.Grace > 0 {
					classes["gov-other-param-changed"] = true
				}
				curParams = pr.params
				classes["gov-params-changed"] = true
				stat["gov_params_changed"]++
			default:
				stat["gov_proposal_not_passed"]++
			}
		}
		proposals = open
		stat["deactivations"] += int64(len(sim.Events(res.Resp, oracletypes.EventTypeDeactivate)))

		// what the model says the feeds module must have seen
		type bval struct {
			i      int
			tokens *big.Int
		}
		var bonded []bval
		isBonded := make([]bool, n)
		ierr := ch.App.StakingKeeper.IterateBondedValidatorsByPower(ctx, func(_ int64, val stakingtypes.ValidatorI) bool {
			if i, ok := valIdx[val.GetOperator()]; ok {
				bonded = append(bonded, bval{i, val.GetTokens().BigInt()})
				isBonded[i] = true
			}
			return false
		})
		tbt, terr := ch.App.StakingKeeper.TotalBondedTokens(ctx)
		if ierr != nil || terr != nil {
			v.Failf("harness", "staking read failed: %v %v", ierr, terr)
			return false
		}
		quorum := ref.FeedQuorumPower(tbt.BigInt(), qE18)
		lastBonded = tbt.BigInt()
		quorumRounded := new(big.Int).Mul(quorum, c06E18).Cmp(new(big.Int).Mul(tbt.BigInt(), qE18)) != 0
		cf := ch.App.FeedsKeeper.GetCurrentFeeds(ctx)
		if len(cf.Feeds) == len(preOrder) {
			same, moved := true, false
			for i, f := range cf.Feeds {
				same = same && preFeeds[f.SignalID]
				moved = moved || f.SignalID != preOrder[i]
			}
			if same && moved {
				lastReorder = res.Height
				classes["feeds-reordered-same-set"] = true
			} else if moved {
				lastReorder = res.Height
				classes["feeds-replaced-same-count"] = true
			}
		}
		if !feedSetFree && len(cf.Feeds) != nsig {
			v.Failf("harness", "expected %d current feeds at height %d, store has %d", nsig, res.Height, len(cf.Feeds))
			return false
		}
		for _, feed := range cf.Feeds {
			var entries []ref.FeedEntry
			for i := 0; i < n; i++ { // statistics about what is ignored
				r, ok := model[i][feed.SignalID]
				if !ok {
					continue
				}
				fresh := r.ts >= now-feed.Interval
				switch {
				case !fresh:
					stat["ignored_stale"]++
				case !isBonded[i]:
					stat["ignored_not_bonded"]++
					classes["ignored-not-bonded"] = true
					if prevBonded[i] && (activeBefore[i] || activated[i]) {
						classes["fresh-reporter-left-bonded-set-in-this-block"] = true
					}
				case !(activeBefore[i] || activated[i]):
					stat["ignored_inactive"]++
					classes["ignored-inactive"] = true
				}
				if fresh && isBonded[i] && !prevBonded[i] && (activeBefore[i] || activated[i]) {
					classes["fresh-reporter-entered-bonded-set-in-this-block"] = true
					stat["fresh_reporter_entered_bonded_set"]++
				}
				if fresh && r.ts == now-feed.Interval {
					classes["freshness-boundary"] = true
				}
				if !fresh && r.ts == now-feed.Interval-1 {
					classes["staleness-boundary"] = true
				}
			}
			var lo, hi uint64
			prices := map[uint64]bool{}
			var clamped []ref.FeedEntry // the reports that are also fresh for the MaxInterval parameter in force
			var byClaim []ref.FeedEntry // what the inputs would be if reports were dated by msg.Timestamp
			type stamp struct{ ts, claimed int64 }
			var stamps []stamp
			undecided := false
			for _, b := range bonded {
				if !(activeBefore[b.i] || activated[b.i]) {
					continue
				}
				r, ok := model[b.i][feed.SignalID]
				if ok && !r.ambiguous && r.claimed >= now-feed.Interval {
					byClaim = append(byClaim, ref.FeedEntry{Status: r.st, Power: b.tokens, Price: r.price, Time: r.claimed})
				}
				if !ok || r.ts < now-feed.Interval {
					continue
				}
				if r.ambiguous {
					undecided = true
					break
				}
				stamps = append(stamps, stamp{r.ts, r.claimed})
				entries = append(entries, ref.FeedEntry{Status: r.st, Power: b.tokens, Price: r.price, Time: r.ts})
				if r.ts >= now-curParams.MaxInterval {
					clamped = append(clamped, entries[len(entries)-1])
				}
				if r.st == ref.FeedEntryAvailable {
					if len(prices) == 0 || r.price < lo {
						lo = r.price
					}
					if len(prices) == 0 || r.price > hi {
						hi = r.price
					}
					prices[r.price] = true
				}
			}
			if undecided {
				stat["feed_not_compared_report_from_before_signal_left_current_feeds"]++
				continue
			}
			if feed.Interval > curParams.MaxInterval {
				classes["feed-interval>max-interval"] = true
				stat["feed_interval_above_max_interval"]++
				if len(clamped) < len(entries) {
					classes["price-age-in-(max,interval]"] = true
					stat["price_age_in_(max,interval]"] += int64(len(entries) - len(clamped))
				}
			}
			wst, wpr, wok, info, bnd := ref.FeedPrice(entries, quorum)
			if len(clamped) < len(entries) {
				if cst, cpr, cok, _, _ := ref.FeedPrice(clamped, quorum); cok != wok || cst != wst || cpr != wpr {
					classes["price-age-in-(max,interval] decides the result"] = true
					stat["price_age_in_(max,interval]_decides"]++
				}
			}
			for _, a := range stamps {
				for _, b := range stamps {
					if a.ts < b.ts && a.claimed > b.claimed {
						classes["earlier-submitter-claims-later-time"] = true
					}
				}
			}
			if cst, cpr, cok, _, _ := ref.FeedPrice(byClaim, quorum); cok != wok || cst != wst || cpr != wpr {
				classes["msg-timestamp would decide the result"] = true
				stat["msg_timestamp_would_decide"]++
				if len(byClaim) > len(entries) {
					classes["report stale by block time, fresh by msg-timestamp"] = true
				}
			}
			got := ch.App.FeedsKeeper.GetPrice(ctx, feed.SignalID)
			if !wok {
				// quorum 0 and nobody reporting: the statement cannot be met; the block normally fails before we get here
				stat["quorum0_empty_no_error"]++
				continue
			}
			desc := func() string {
				s := ""
				for _, e := range entries {
					s += fmt.Sprintf(" {st %d pow %s price %d t-now %d}", e.Status, e.Power, e.Price, e.Time-now)
				}
				return fmt.Sprintf("height %d feed %s interval %d quorum %s bonded %s; fresh reports:%s", res.Height, feed.SignalID, feed.Interval, quorum, tbt, s)
			}
			if int(got.Status) != wst {
				v.Failf("C06/status", "price status %s, reference %s; %s", got.Status, feedstypes.PriceStatus(wst), desc())
				return false
			}
			if wst == ref.FeedPriceAvailable {
				if got.Price != wpr {
					v.Failf("C06/price", "price %d, reference weighted median %d; %s", got.Price, wpr, desc())
					return false
				}
				if got.Price < lo || got.Price > hi {
					v.Failf("C06/range", "price %d outside [%d,%d]; %s", got.Price, lo, hi, desc())
					return false
				}
				if !prices[got.Price] {
					v.Failf("C06/not-an-input", "price %d is not a fresh AVAILABLE report; %s", got.Price, desc())
					return false
				}
			} else if got.Price != 0 {
				v.Failf("C06/price-nonzero", "status %s published with price %d; %s", got.Status, got.Price, desc())
				return false
			}
			stat["feed_evaluations"]++
			if total, _, _ := ref.FeedPowers(entries); quorumRounded && total.Cmp(quorum) == 0 {
				// reporting power == floor(fraction*bonded) < fraction*bonded: accepted as "reaching the quorum"
				stat["quorum_met_only_after_rounding_down"]++
			}
			classes["status:"+feedstypes.PriceStatus(wst).String()] = true
			if wst == ref.FeedPriceAvailable {
				stat["available_prices"]++
				if info.NAvailable >= 3 && (info.TimeTie || info.Splits > 0) {
					nontrivial = true
					classes["avail>=3 tie/split"] = true
				}
				if info.TimeTie {
					classes["time-tie"] = true
				}
				if info.KeyTie {
					classes["key-tie"] = true
				}
				if info.TieOrderMatters {
					classes["tie-order-matters"] = true
				}
				if info.ExactHalf {
					classes["exact-half-weight"] = true
				}
			}
			if bnd {
				nontrivial = true
				classes["status-boundary"] = true
			}
		}
		copy(prevBonded, isBonded)
		return true
	}

	// initial activation block
	for i, a := range c.Active {
		if a {
			pending = append(pending, c06Op{K: "activate", Val: i})
		}
	}
	if !flush(1) {
		return v
	}
	for _, o := range c.Ops {
		if o.K == "end" {
			if !flush(o.Dt) {
				return v
			}
			continue
		}
		pending = append(pending, o)
	}
	if !flush(1) {
		return v
	}
	var cls []string
	for k := range classes {
		cls = append(cls, k)
	}
	sort.Strings(cls)
	for _, k := range cls {
		v.Class(k)
	}
	for k, x := range stat {
		v.Count(k, x)
	}
	if c.Replica {
		v.Class("replica")
	}
	if quorum0 {
		v.Class("quorum0")
	}
	v.NonTrivial = nontrivial
	return v
}

func TestC06Chain(t *testing.T) { pbt.Check(t, "C06", genC06Chain, runC06Chain) }
