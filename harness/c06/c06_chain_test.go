package c06

// C06 chain stage: histories on the real application. After every end block the Price store of every current
// feed must equal the reference (ref/median.go) applied to the reports the MODEL considers fresh.
//
// Model inputs and where they come from (none of them from x/feeds price code):
//   * reports: the (status, price) of every MsgSubmitSignalPrices tx that succeeded (tx result code 0), time-stamped
//     with the time of the block that included it (x/feeds stores the block time, not msg.Timestamp);
//   * bonded validators, their tokens and their enumeration order: x/staking after the block (its end blocker runs
//     before x/feeds and nothing later in the block touches staking);
//   * oracle activity at the moment x/feeds looks: x/oracle status before the block plus MsgActivate txs that
//     succeeded in the block (deactivation only happens inside the feeds end blocker, after the collection);
//   * current feeds and their intervals: the CurrentFeeds store (C07's subject), total bonded tokens: x/staking.

import (
	"fmt"
	"math/big"
	"sort"
	"strings"
	"testing"
	"time"

	"pgregory.net/rapid"

	sdkmath "cosmossdk.io/math"

	sdk "github.com/cosmos/cosmos-sdk/types"
	stakingtypes "github.com/cosmos/cosmos-sdk/x/staking/types"

	feedstypes "github.com/bandprotocol/chain/v3/x/feeds/types"
	oracletypes "github.com/bandprotocol/chain/v3/x/oracle/types"

	"verif/harness/gen"
	"verif/harness/pbt"
	"verif/harness/ref"
	"verif/harness/sim"
)

// ---- case --------------------------------------------------------------------------------------------

type c06SigPrice struct {
	Sig   int    `json:"sig"` // index mod (number of signals + 1); the extra index is an unknown signal id
	St    int    `json:"st"`  // 1..3
	Price uint64 `json:"p"`
}

type c06Op struct {
	K      string        `json:"k"` // submit | activate | delegate | undelegate | end
	Val    int           `json:"val,omitempty"`
	TsOff  int64         `json:"tsoff,omitempty"` // msg.Timestamp - block time
	Prices []c06SigPrice `json:"prices,omitempty"`
	Amt    int64         `json:"amt,omitempty"`
	All    bool          `json:"all,omitempty"`
	Dt     int           `json:"dt,omitempty"`
}

type c06ChainCase struct {
	Tokens      []int64 `json:"tokens"`
	Active      []bool  `json:"active"`
	SigFactor   []int64 `json:"sig_factor"` // vote power of signal i = factor * step
	WeakSignal  bool    `json:"weak_signal"`
	MinInterval int64   `json:"min_interval"`
	MaxInterval int64   `json:"max_interval"`
	UpdateEvery int64   `json:"update_every"`
	Grace       int64   `json:"grace"`
	Cooldown    int64   `json:"cooldown"`
	Discrepancy int64   `json:"discrepancy"`
	PenaltySec  int64   `json:"penalty_sec"`
	QMask       int     `json:"qmask"`  // quorum = power of this validator subset + QDelta (as a fraction of bonded)
	QDelta      int64   `json:"qdelta"` //
	QFrac       string  `json:"qfrac"`  // if set: the quorum fraction literally
	Replica     bool    `json:"replica"`
	Ops         []c06Op `json:"ops"`
}

const c06Step = int64(1000)

var c06ChainPrices = []uint64{0, 1, 2, 100, 100, 101, 102, 1000, ^uint64(0)}

func genC06Submit(rt *rapid.T, nsig, val int, disc int64) c06Op {
	op := c06Op{K: "submit", Val: val}
	if gen.Chance(rt, "tsoff", 1, 8) {
		op.TsOff = int64(gen.OneOf(rt, "tsoffv", -1, 1)) * (disc + int64(gen.Uniform(rt, "tsd", 2)))
	}
	first := gen.Uniform(rt, "sig0", nsig)
	cnt := nsig
	if gen.Chance(rt, "partial", 1, 4) {
		cnt = gen.Range(rt, "cnt", 1, nsig)
	}
	for j := 0; j < cnt; j++ {
		sp := c06SigPrice{Sig: (first + j) % nsig, St: gen.Pick(rt, "st", 0, 12, 10, 78)}
		if sp.St == ref.FeedEntryAvailable {
			sp.Price = gen.OneOf(rt, "price", c06ChainPrices...)
			if gen.Chance(rt, "pval", 1, 3) {
				sp.Price = 100 + uint64(val)
			}
		}
		op.Prices = append(op.Prices, sp)
	}
	if gen.Chance(rt, "bogus", 1, 40) {
		op.Prices = append(op.Prices, c06SigPrice{Sig: nsig, St: 3, Price: 5})
	}
	return op
}

func genC06Chain(rt *rapid.T) c06ChainCase {
	n := rapid.IntRange(3, 7).Draw(rt, "nvals")
	c := c06ChainCase{}
	tk := gen.Pick(rt, "tokkind", 30, 25, 20, 25)
	eq := int64(gen.Range(rt, "eqtok", 1, 20)) * 1_000_000
	for i := 0; i < n; i++ {
		var t int64
		switch tk {
		case 0: // equal
			t = eq
		case 1: // equal up to a few base units (same consensus power, different feeds power)
			t = eq + int64(gen.Uniform(rt, "tokd", 3))
		case 2: // one dominant validator
			t = int64(gen.Range(rt, "tok", 1, 5)) * 1_000_000
			if i == 0 {
				t = int64(gen.OneOf(rt, "domtok", 8, 20, 60)) * 1_000_000
			}
		default:
			t = int64(gen.Range(rt, "tok", 1, 30))*1_000_000 + int64(gen.Uniform(rt, "tokd", 2))
		}
		c.Tokens = append(c.Tokens, t)
		c.Active = append(c.Active, gen.Chance(rt, "act", 17, 20))
	}
	nsig := rapid.IntRange(1, 3).Draw(rt, "nsig")
	for i := 0; i < nsig; i++ {
		c.SigFactor = append(c.SigFactor, int64(gen.Range(rt, "sigf", 1, 4)))
	}
	c.WeakSignal = gen.Chance(rt, "weak", 1, 4)
	c.MinInterval = int64(gen.Range(rt, "minint", 1, 3))
	c.MaxInterval = gen.OneOf[int64](rt, "maxint", 6, 12, 30, 60)
	c.UpdateEvery = gen.OneOf[int64](rt, "upd", 2, 3, 5, 7, 1000)
	c.Grace = gen.OneOf[int64](rt, "grace", 1, 3, 6, 12, 30, 1000, 1000)
	c.Cooldown = gen.OneOf[int64](rt, "cool", 1, 1, 1, 2)
	c.Discrepancy = gen.OneOf[int64](rt, "disc", 1, 2, 60)
	c.PenaltySec = gen.OneOf[int64](rt, "pen", 1, 2, 10)
	switch gen.Pick(rt, "qkind", 60, 40) {
	case 0:
		c.QMask = 1 + gen.Uniform(rt, "qmask", (1<<n)-1)
		c.QDelta = int64(gen.Range(rt, "qdelta", -1, 1))
	default:
		c.QFrac = gen.OneOf(rt, "qfrac", "0.000001", "0.3", "0.5", "0.666666666666666667", "1")
		if quorum0Enabled() && gen.Chance(rt, "q0", 1, 2) {
			// quorum POWER 0: PriceQuorum "0", or any fraction with fraction*bonded < 1
			c.QFrac = gen.OneOf(rt, "q0v", "0", "0.000000000000000001")
		}
	}
	c.Replica = gen.Chance(rt, "replica", 1, 5)

	nops := rapid.IntRange(25, 90).Draw(rt, "nops")
	submitted := map[int]bool{}
	for i := 0; i < nops; i++ {
		switch gen.Pick(rt, "opw", 22, 26, 32, 6, 5, 4, 5) {
		case 0: // burst: several validators report in the same block (=> equal timestamps)
			k := rapid.IntRange(2, n).Draw(rt, "burst")
			start := gen.Uniform(rt, "start", n)
			for j := 0; j < k; j++ {
				if submitted[(start+j)%n] && gen.Chance(rt, "nodup", 3, 4) {
					continue
				}
				submitted[(start+j)%n] = true
				c.Ops = append(c.Ops, genC06Submit(rt, nsig, (start+j)%n, c.Discrepancy))
			}
		case 1:
			val := gen.Uniform(rt, "val", n)
			if submitted[val] && gen.Chance(rt, "nodup", 3, 4) { // a second report in one block only hits the cooldown
				for j := 0; j < n && submitted[val]; j++ {
					val = (val + 1) % n
				}
			}
			submitted[val] = true
			c.Ops = append(c.Ops, genC06Submit(rt, nsig, val, c.Discrepancy))
		case 2:
			dt := gen.OneOf(rt, "dt", 1, 1, 1, 2, 3)
			if gen.Chance(rt, "dtint", 1, 3) { // around a feed interval
				f := c.SigFactor[gen.Uniform(rt, "dtsig", nsig)]
				iv := c.MaxInterval / f
				if iv < c.MinInterval {
					iv = c.MinInterval
				}
				dt = int(iv) + gen.Range(rt, "dtd", -1, 1)
				if dt < 1 {
					dt = 1
				}
			}
			c.Ops = append(c.Ops, c06Op{K: "end", Dt: dt})
			submitted = map[int]bool{}
		case 3:
			c.Ops = append(c.Ops, c06Op{K: "activate", Val: gen.Uniform(rt, "val", n)})
		case 4:
			c.Ops = append(c.Ops, c06Op{K: "delegate", Val: gen.Uniform(rt, "val", n), Amt: gen.OneOf[int64](rt, "amt", 1, 2, 999_999, 1_000_000, 1_000_000, 7_000_000)})
		case 5:
			c.Ops = append(c.Ops, c06Op{K: "undelegate", Val: gen.Uniform(rt, "val", n), Amt: gen.OneOf[int64](rt, "amt", 1, 2, 500_000, 1_000_000),
				All: gen.Chance(rt, "all", 1, 3)})
		case 6: // every validator (re)activates
			for j := 0; j < n; j++ {
				c.Ops = append(c.Ops, c06Op{K: "activate", Val: j})
			}
		}
	}
	return c
}

// ---- run ---------------------------------------------------------------------------------------------

type c06Report struct {
	st    int
	price uint64
	ts    int64
}

func c06Reason(log string) string {
	for _, k := range []string{"not active", "not bonded validator", "too early", "invalid timestamp", "not supported", "too large"} {
		if strings.Contains(log, k) {
			return k
		}
	}
	if len(log) > 40 {
		log = log[len(log)-40:]
	}
	return log
}

func c06SigName(i int) string { return fmt.Sprintf("CS:SIG%d-USD", i) }

var c06E18 = new(big.Int).Exp(big.NewInt(10), big.NewInt(18), nil)

func c06FracString(e18 *big.Int) string {
	ip, fp := new(big.Int).QuoRem(e18, c06E18, new(big.Int))
	f := fp.String()
	return ip.String() + "." + strings.Repeat("0", 18-len(f)) + f
}

func runC06Chain(c c06ChainCase) *pbt.Verdict {
	v := &pbt.Verdict{}
	n, nsig := len(c.Tokens), len(c.SigFactor)
	if n == 0 || nsig == 0 || len(c.Active) != n || c.UpdateEvery <= 0 {
		v.Failf("harness", "malformed case")
		return v
	}
	// quorum fraction (18 decimals)
	genesisBonded := new(big.Int)
	for _, t := range c.Tokens {
		genesisBonded.Add(genesisBonded, big.NewInt(t))
	}
	qE18 := new(big.Int)
	if c.QFrac != "" {
		d, err := sdkmath.LegacyNewDecFromStr(c.QFrac)
		if err != nil {
			v.Failf("harness", "bad quorum fraction %q", c.QFrac)
			return v
		}
		qE18 = d.BigInt()
	} else {
		target := big.NewInt(c.QDelta)
		for i, t := range c.Tokens {
			if c.QMask>>uint(i)&1 == 1 {
				target.Add(target, big.NewInt(t))
			}
		}
		if target.Sign() <= 0 {
			target.SetInt64(1)
		}
		if target.Cmp(genesisBonded) > 0 {
			target.Set(genesisBonded)
		}
		// smallest 18-decimal fraction q with floor(q * bonded) == target
		num := new(big.Int).Mul(target, c06E18)
		qE18.Quo(num, genesisBonded)
		if new(big.Int).Mul(qE18, genesisBonded).Cmp(num) < 0 {
			qE18.Add(qE18, big.NewInt(1))
		}
	}
	// known defect region: the quorum POWER floor(fraction*bonded) is 0 and nobody reports
	if ref.FeedQuorumPower(genesisBonded, qE18).Sign() == 0 && !quorum0Enabled() {
		qE18.Quo(c06E18, big.NewInt(1_000_000)) // 10^-6 of >= 3*10^6 bonded uband is a positive power
	}
	lastBonded := genesisBonded
	quorum0 := ref.FeedQuorumPower(lastBonded, qE18).Sign() == 0

	fp := feedstypes.DefaultParams()
	fp.PowerStepThreshold = c06Step
	fp.MinInterval, fp.MaxInterval = c.MinInterval, c.MaxInterval
	fp.CurrentFeedsUpdateInterval = c.UpdateEvery
	fp.GracePeriod, fp.CooldownTime, fp.AllowableBlockTimeDiscrepancy = c.Grace, c.Cooldown, c.Discrepancy
	fp.PriceQuorum = c06FracString(qE18)
	op := oracletypes.DefaultParams()
	op.InactivePenaltyDuration = uint64(time.Duration(c.PenaltySec) * time.Second)
	var sigs []feedstypes.Signal
	for i, f := range c.SigFactor {
		sigs = append(sigs, feedstypes.NewSignal(c06SigName(i), f*c06Step))
	}
	if c.WeakSignal {
		sigs = append(sigs, feedstypes.NewSignal("CS:WEAK-USD", c06Step-1))
	}
	vals := make([]sim.ValSpec, n)
	for i := range vals {
		vals[i] = sim.ValSpec{Tokens: c.Tokens[i]}
	}
	cfg := sim.Config{NumAccounts: 2, Validators: vals, Oracle: &op, Feeds: &fp,
		FeedsVotes: []feedstypes.Vote{feedstypes.NewVote(sim.NewAccount("user0").Addr.String(), sigs)}}
	ch, err := sim.New(cfg, 0)
	if err != nil {
		if quorum0 && strings.Contains(err.Error(), "invalid weighted prices") {
			v.Failf("C06/quorum0-empty-median", "block 1 cannot be finalized with PriceQuorum 0 and no report: %v", err)
			return v
		}
		v.Failf("harness", "sim.New: %v", err)
		return v
	}
	defer ch.Close()
	var rep *sim.Chain
	if c.Replica {
		if rep, err = sim.New(cfg, 1); err != nil {
			v.Failf("harness", "sim.New replica: %v", err)
			return v
		}
		defer rep.Close()
	}
	valIdx := map[string]int{}
	for i, a := range ch.Vals {
		valIdx[a.Val.String()] = i
	}

	model := make([]map[string]c06Report, n) // validator -> signal -> latest accepted report
	for i := range model {
		model[i] = map[string]c06Report{}
	}
	var pending []c06Op
	nontrivial := false
	stat := map[string]int64{}
	classes := map[string]bool{}

	flush := func(dt int) bool {
		if dt < 1 {
			dt = 1
		}
		blockTime := ch.Time.Add(time.Duration(dt) * time.Second).Unix()
		pre := ch.Ctx()
		activeBefore := make([]bool, n)
		for i, a := range ch.Vals {
			activeBefore[i] = ch.App.OracleKeeper.GetValidatorStatus(pre, a.Val).IsActive
		}
		var txs [][]byte
		var ops []c06Op
		undelegating := make([]sdkmath.Int, n)
		for i := range undelegating {
			undelegating[i] = sdkmath.ZeroInt()
		}
		for _, o := range pending {
			a := ch.Vals[o.Val%n]
			var msg sdk.Msg
			switch o.K {
			case "submit":
				var sps []feedstypes.SignalPrice
				for _, p := range o.Prices {
					id := "CS:NOPE-USD"
					if p.Sig%(nsig+1) < nsig {
						id = c06SigName(p.Sig % (nsig + 1))
					}
					sps = append(sps, feedstypes.NewSignalPrice(feedstypes.SignalPriceStatus(p.St), id, p.Price))
				}
				msg = feedstypes.NewMsgSubmitSignalPrices(a.Val.String(), blockTime+o.TsOff, sps)
			case "activate":
				msg = oracletypes.NewMsgActivate(a.Val)
			case "delegate":
				msg = stakingtypes.NewMsgDelegate(ch.Users[1].Addr.String(), a.Val.String(), sdk.NewInt64Coin("uband", o.Amt))
				a = ch.Users[1]
			case "undelegate":
				// The self delegation never drops to zero: a validator without shares is deleted once unbonded, and
				// chainsim keeps listing every genesis validator in the last-commit votes ("validator does not
				// exist" in the distribution begin blocker - an artefact no real node can see). Leaving less than
				// one unit of consensus power (10^6 uband) is enough to push the validator out of the bonded set.
				d, err := ch.App.StakingKeeper.GetDelegation(pre, a.Addr, a.Val)
				if err != nil {
					stat["op_inapplicable"]++
					continue
				}
				self := d.Shares.TruncateInt().Sub(undelegating[o.Val%n]) // minus what earlier txs of this block take
				amt := sdkmath.NewInt(o.Amt)
				if o.All {
					amt = self.SubRaw(1 + o.Amt%999_999)
				}
				// validator 0 always keeps one unit of consensus power: an empty validator set (total bonded 0, hence
				// quorum power 0) cannot occur on a live chain
				if !amt.IsPositive() || amt.GTE(self) || (o.Val%n == 0 && self.Sub(amt).LT(sdkmath.NewInt(1_000_000))) {
					stat["op_inapplicable"]++
					continue
				}
				undelegating[o.Val%n] = undelegating[o.Val%n].Add(amt)
				msg = stakingtypes.NewMsgUndelegate(a.Addr.String(), a.Val.String(), sdk.NewCoin("uband", amt))
			default:
				continue
			}
			txs = append(txs, ch.SignTx(a, msg))
			ops = append(ops, o)
		}
		pending = nil
		res, err := ch.Block(txs, time.Duration(dt)*time.Second)
		if err != nil {
			if strings.Contains(err.Error(), "invalid weighted prices") && ref.FeedQuorumPower(lastBonded, qE18).Sign() == 0 {
				v.Failf("C06/quorum0-empty-median", "FinalizeBlock fails at height %d with PriceQuorum 0 and a current feed nobody reports: %v", ch.Height+1, err)
			} else {
				v.Failf("C06/finalize", "FinalizeBlock failed at height %d: %v", ch.Height+1, err)
			}
			return false
		}
		if rep != nil {
			rres, rerr := rep.Block(txs, time.Duration(dt)*time.Second)
			if rerr != nil || string(rres.Resp.AppHash) != string(res.Resp.AppHash) {
				v.Failf("C06/replica-divergence", "second node differs at height %d (err %v)", res.Height, rerr)
				return false
			}
		}
		now := res.Time.Unix()
		activated := make([]bool, n)
		for i, o := range ops {
			ok := res.Resp.TxResults[i].Code == 0
			if !ok {
				stat["tx_rejected_"+o.K]++
				if o.K == "submit" {
					stat["submit_rejected:"+c06Reason(res.Resp.TxResults[i].Log)]++
				}
				continue
			}
			stat["tx_ok_"+o.K]++
			switch o.K {
			case "submit":
				for _, p := range o.Prices {
					model[o.Val%n][c06SigName(p.Sig%(nsig+1))] = c06Report{st: p.St, price: p.Price, ts: now}
				}
			case "activate":
				activated[o.Val%n] = true
			}
		}
		stat["deactivations"] += int64(len(sim.Events(res.Resp, oracletypes.EventTypeDeactivate)))

		// what the model says the feeds module must have seen
		ctx := ch.Ctx()
		type bval struct {
			i      int
			tokens *big.Int
		}
		var bonded []bval
		isBonded := make([]bool, n)
		ierr := ch.App.StakingKeeper.IterateBondedValidatorsByPower(ctx, func(_ int64, val stakingtypes.ValidatorI) bool {
			if i, ok := valIdx[val.GetOperator()]; ok {
				bonded = append(bonded, bval{i, val.GetTokens().BigInt()})
				isBonded[i] = true
			}
			return false
		})
		tbt, terr := ch.App.StakingKeeper.TotalBondedTokens(ctx)
		if ierr != nil || terr != nil {
			v.Failf("harness", "staking read failed: %v %v", ierr, terr)
			return false
		}
		quorum := ref.FeedQuorumPower(tbt.BigInt(), qE18)
		lastBonded = tbt.BigInt()
		quorumRounded := new(big.Int).Mul(quorum, c06E18).Cmp(new(big.Int).Mul(tbt.BigInt(), qE18)) != 0
		cf := ch.App.FeedsKeeper.GetCurrentFeeds(ctx)
		if len(cf.Feeds) != nsig {
			v.Failf("harness", "expected %d current feeds at height %d, store has %d", nsig, res.Height, len(cf.Feeds))
			return false
		}
		for _, feed := range cf.Feeds {
			var entries []ref.FeedEntry
			for i := 0; i < n; i++ { // statistics about what is ignored
				r, ok := model[i][feed.SignalID]
				if !ok {
					continue
				}
				fresh := r.ts >= now-feed.Interval
				switch {
				case !fresh:
					stat["ignored_stale"]++
				case !isBonded[i]:
					stat["ignored_not_bonded"]++
					classes["ignored-not-bonded"] = true
				case !(activeBefore[i] || activated[i]):
					stat["ignored_inactive"]++
					classes["ignored-inactive"] = true
				}
				if fresh && r.ts == now-feed.Interval {
					classes["freshness-boundary"] = true
				}
				if !fresh && r.ts == now-feed.Interval-1 {
					classes["staleness-boundary"] = true
				}
			}
			var lo, hi uint64
			prices := map[uint64]bool{}
			for _, b := range bonded {
				if !(activeBefore[b.i] || activated[b.i]) {
					continue
				}
				r, ok := model[b.i][feed.SignalID]
				if !ok || r.ts < now-feed.Interval {
					continue
				}
				entries = append(entries, ref.FeedEntry{Status: r.st, Power: b.tokens, Price: r.price, Time: r.ts})
				if r.st == ref.FeedEntryAvailable {
					if len(prices) == 0 || r.price < lo {
						lo = r.price
					}
					if len(prices) == 0 || r.price > hi {
						hi = r.price
					}
					prices[r.price] = true
				}
			}
			wst, wpr, wok, info, bnd := ref.FeedPrice(entries, quorum)
			got := ch.App.FeedsKeeper.GetPrice(ctx, feed.SignalID)
			if !wok {
				// quorum 0 and nobody reporting: the statement cannot be met; the block normally fails before we get here
				stat["quorum0_empty_no_error"]++
				continue
			}
			desc := func() string {
				s := ""
				for _, e := range entries {
					s += fmt.Sprintf(" {st %d pow %s price %d t-now %d}", e.Status, e.Power, e.Price, e.Time-now)
				}
				return fmt.Sprintf("height %d feed %s interval %d quorum %s bonded %s; fresh reports:%s", res.Height, feed.SignalID, feed.Interval, quorum, tbt, s)
			}
			if int(got.Status) != wst {
				v.Failf("C06/status", "price status %s, reference %s; %s", got.Status, feedstypes.PriceStatus(wst), desc())
				return false
			}
			if wst == ref.FeedPriceAvailable {
				if got.Price != wpr {
					v.Failf("C06/price", "price %d, reference weighted median %d; %s", got.Price, wpr, desc())
					return false
				}
				if got.Price < lo || got.Price > hi {
					v.Failf("C06/range", "price %d outside [%d,%d]; %s", got.Price, lo, hi, desc())
					return false
				}
				if !prices[got.Price] {
					v.Failf("C06/not-an-input", "price %d is not a fresh AVAILABLE report; %s", got.Price, desc())
					return false
				}
			} else if got.Price != 0 {
				v.Failf("C06/price-nonzero", "status %s published with price %d; %s", got.Status, got.Price, desc())
				return false
			}
			stat["feed_evaluations"]++
			if total, _, _ := ref.FeedPowers(entries); quorumRounded && total.Cmp(quorum) == 0 {
				// reporting power == floor(fraction*bonded) < fraction*bonded: accepted as "reaching the quorum"
				stat["quorum_met_only_after_rounding_down"]++
			}
			classes["status:"+feedstypes.PriceStatus(wst).String()] = true
			if wst == ref.FeedPriceAvailable {
				stat["available_prices"]++
				if info.NAvailable >= 3 && (info.TimeTie || info.Splits > 0) {
					nontrivial = true
					classes["avail>=3 tie/split"] = true
				}
				if info.TimeTie {
					classes["time-tie"] = true
				}
				if info.KeyTie {
					classes["key-tie"] = true
				}
				if info.TieOrderMatters {
					classes["tie-order-matters"] = true
				}
				if info.ExactHalf {
					classes["exact-half-weight"] = true
				}
			}
			if bnd {
				nontrivial = true
				classes["status-boundary"] = true
			}
		}
		return true
	}

	// initial activation block
	for i, a := range c.Active {
		if a {
			pending = append(pending, c06Op{K: "activate", Val: i})
		}
	}
	if !flush(1) {
		return v
	}
	for _, o := range c.Ops {
		if o.K == "end" {
			if !flush(o.Dt) {
				return v
			}
			continue
		}
		pending = append(pending, o)
	}
	if !flush(1) {
		return v
	}
	var cls []string
	for k := range classes {
		cls = append(cls, k)
	}
	sort.Strings(cls)
	for _, k := range cls {
		v.Class(k)
	}
	for k, x := range stat {
		v.Count(k, x)
	}
	if c.Replica {
		v.Class("replica")
	}
	if quorum0 {
		v.Class("quorum0")
	}
	v.NonTrivial = nontrivial
	return v
}

func TestC06Chain(t *testing.T) { pbt.Check(t, "C06", genC06Chain, runC06Chain) }
