// Package c01ibc checks property C01 for oracle requests that enter through IBC: the OracleResponsePacketData the
// band chain sends back over the channel at resolution / expiry must mirror the stored Result and the reference
// model of the request life cycle, exactly once per request.
//
// Two real band applications (the band chain "B" and a counterparty "A") are connected with the ibc-go testing
// framework the way /repo/x/oracle/ibc_test.go does it (tendermint light clients, connection and channel handshakes
// on the oracle port). Everything that the framework normally randomises (validator keys, sender keys, tx memos) is
// replaced by deterministic values, and every block of chain B after set-up is produced by this file so that its
// FinalizeBlock response (send_packet events) can be observed.
package c01ibc

import (
	"bytes"
	"context"
	"encoding/binary"
	"encoding/hex"
	"encoding/json"
	"fmt"
	"os"
	"strconv"
	"strings"
	"testing"
	"time"

	"pgregory.net/rapid"

	abci "github.com/cometbft/cometbft/abci/types"
	cmtsecp "github.com/cometbft/cometbft/crypto/secp256k1"
	cmtproto "github.com/cometbft/cometbft/proto/tendermint/types"
	cmttypes "github.com/cometbft/cometbft/types"

	cosmosdb "github.com/cosmos/cosmos-db"
	clienttypes "github.com/cosmos/ibc-go/v8/modules/core/02-client/types"
	channeltypes "github.com/cosmos/ibc-go/v8/modules/core/04-channel/types"
	host "github.com/cosmos/ibc-go/v8/modules/core/24-host"
	ibctesting "github.com/cosmos/ibc-go/v8/testing"

	"cosmossdk.io/log"
	sdkmath "cosmossdk.io/math"

	"github.com/cosmos/cosmos-sdk/crypto/keys/secp256k1"
	cryptotypes "github.com/cosmos/cosmos-sdk/crypto/types"
	"github.com/cosmos/cosmos-sdk/testutil/sims"
	sdk "github.com/cosmos/cosmos-sdk/types"
	"github.com/cosmos/cosmos-sdk/types/tx/signing"
	authsign "github.com/cosmos/cosmos-sdk/x/auth/signing"
	authtypes "github.com/cosmos/cosmos-sdk/x/auth/types"
	banktypes "github.com/cosmos/cosmos-sdk/x/bank/types"

	band "github.com/bandprotocol/chain/v3/app"
	"github.com/bandprotocol/chain/v3/pkg/filecache"
	oracletypes "github.com/bandprotocol/chain/v3/x/oracle/types"

	"verif/harness/gen"
	"verif/harness/pbt"
	"verif/harness/sim"
)

func init() {
	band.SetBech32AddressPrefixesAndBip44CoinTypeAndSeal(sdk.GetConfig())
	sdk.DefaultBondDenom = "uband" // as in /repo/x/oracle/ibc_test.go: ibctesting funds and bonds in the default denom
}

// ---- case --------------------------------------------------------------------------------------------

type ibcOp struct {
	Kind     string `json:"k"` // request | report | end
	Script   int    `json:"script,omitempty"`
	Ask      int    `json:"ask,omitempty"`
	Min      int    `json:"min,omitempty"`
	CallLen  int    `json:"calllen,omitempty"`
	ClientID string `json:"client,omitempty"`
	Req      int    `json:"req,omitempty"`     // late-bound: request ordinal = Req mod (#relayed requests)
	Pos      int    `json:"pos,omitempty"`     // late-bound: reporter = chosen[Pos mod ask] of that request
	DataLen  int    `json:"datalen,omitempty"` // report payload length
	Dt       int    `json:"dt,omitempty"`      // seconds the clock advances after the block
}

type ibcCase struct {
	NVals      int     `json:"nvals"`
	Expiration uint64  `json:"expiration"`
	Ops        []ibcOp `json:"ops"`
}

// scripts of the band chain: 1 = constant "ok" (two external ids), 2 = echo of the reports (result depends on which
// reports are present at resolution), 3 = returns nothing (FAILURE).
var scriptEids = [][]uint64{{1, 2}, {1}, {1}}

func genIBC(rt *rapid.T) ibcCase {
	n := gen.Range(rt, "nvals", 3, 5)
	c := ibcCase{NVals: n, Expiration: gen.OneOf[uint64](rt, "exp", 3, 4, 5, 6, 8, 12)}
	nreq := gen.Pick(rt, "nreq", 5, 3, 2) + 1
	seqs := make([][]ibcOp, nreq)
	for q := 0; q < nreq; q++ {
		ask := gen.Range(rt, "ask", 1, n)
		min := gen.Range(rt, "min", 1, ask)
		ops := []ibcOp{{Kind: "request", Script: gen.Pick(rt, "script", 3, 5, 1), Ask: ask, Min: min,
			CallLen: rapid.IntRange(0, 8).Draw(rt, "calllen"), ClientID: rapid.StringMatching(`[a-z]{0,6}`).Draw(rt, "client")}}
		// reporters: a permutation of the chosen positions
		perm := make([]int, ask)
		for i := range perm {
			perm[i] = i
		}
		for i := ask - 1; i > 0; i-- {
			j := gen.Uniform(rt, "perm", i+1)
			perm[i], perm[j] = perm[j], perm[i]
		}
		nrep, lateFrom := 0, -1 // lateFrom: index of the first report that is put after a forced block boundary
		switch gen.Pick(rt, "plan", 3, 2, 4, 2) {
		case 0: // fewer than min (expires)
			nrep = gen.Range(rt, "under", 0, min-1)
		case 1: // exactly min
			nrep = min
		case 2: // more than min, the extras in the block of the min-th report
			nrep = gen.Range(rt, "over", min, ask)
			if nrep == min && ask > min {
				nrep = min + 1
			}
		default: // min in time, the others after the resolution
			nrep = gen.Range(rt, "late", min, ask)
			lateFrom = min
		}
		sameFrom := min - 1 // no voluntary block boundary from the min-th report on (plan 2)
		for i := 0; i < nrep; i++ {
			switch {
			case i == lateFrom:
				ops = append(ops, ibcOp{Kind: "end", Dt: gen.OneOf(rt, "dt", 1, 5, 5, 7, 60)})
			case i > 0 && (i < sameFrom+1 || lateFrom >= 0) && gen.Chance(rt, "brk", 1, 3):
				ops = append(ops, ibcOp{Kind: "end", Dt: gen.OneOf(rt, "dt", 1, 5, 5, 7, 60)})
			}
			ops = append(ops, ibcOp{Kind: "report", Req: q, Pos: perm[i], DataLen: rapid.IntRange(0, 8).Draw(rt, "datalen")})
		}
		ops = append(ops, ibcOp{Kind: "end", Dt: gen.OneOf(rt, "dt", 1, 5, 5, 7, 60)})
		for k := gen.Pick(rt, "idle", 4, 2, 1); k > 0; k-- {
			ops = append(ops, ibcOp{Kind: "end", Dt: gen.OneOf(rt, "dt", 1, 5, 5, 7, 60)})
		}
		seqs[q] = ops
	}
	// merge: mostly one request after the other, sometimes interleaved (several requests in flight)
	interleave := nreq > 1 && gen.Chance(rt, "interleave", 1, 2)
	idx := make([]int, nreq)
	started := 0 // requests must be relayed in ordinal order so that Req of a report names its own request
	for {
		var cand []int
		for q := 0; q < nreq; q++ {
			if idx[q] >= len(seqs[q]) {
				continue
			}
			if idx[q] == 0 && q != started {
				continue
			}
			cand = append(cand, q)
		}
		if len(cand) == 0 {
			break
		}
		q := cand[0]
		if interleave && len(cand) > 1 {
			q = cand[gen.Uniform(rt, "merge", len(cand))]
		}
		if idx[q] == 0 {
			started++
		}
		c.Ops = append(c.Ops, seqs[q][idx[q]])
		idx[q]++
	}
	return c
}

// ---- a testing.TB that turns require failures inside ibctesting into a recoverable abort ------------------

type tbAbort struct{ msg string }

type softTB struct {
	testing.TB // never called for failing: every failing method is overridden below
	errs       []string
	cleanups   []func()
}

func (s *softTB) Helper()                         {}
func (s *softTB) Name() string                    { return "c01ibc" }
func (s *softTB) Log(args ...any)                 {}
func (s *softTB) Logf(format string, args ...any) {}
func (s *softTB) Cleanup(f func())                { s.cleanups = append(s.cleanups, f) }
func (s *softTB) Error(args ...any)               { s.errs = append(s.errs, fmt.Sprint(args...)) }
func (s *softTB) Errorf(format string, args ...any) {
	s.errs = append(s.errs, fmt.Sprintf(format, args...))
}
func (s *softTB) Fail()                             { s.errs = append(s.errs, "Fail()") }
func (s *softTB) Failed() bool                      { return len(s.errs) > 0 }
func (s *softTB) FailNow()                          { panic(tbAbort{strings.Join(s.errs, " | ")}) }
func (s *softTB) Fatal(args ...any)                 { s.Error(args...); s.FailNow() }
func (s *softTB) Fatalf(format string, args ...any) { s.Errorf(format, args...); s.FailNow() }
func (s *softTB) Skip(args ...any)                  { s.Fatal(args...) }
func (s *softTB) Skipf(format string, args ...any)  { s.Fatalf(format, args...) }
func (s *softTB) SkipNow()                          { s.FailNow() }
func (s *softTB) Setenv(key, value string)          {}
func (s *softTB) TempDir() string {
	d, err := os.MkdirTemp("", "verif-c01ibc-")
	if err != nil {
		s.Fatalf("tempdir: %v", err)
	}
	s.cleanups = append(s.cleanups, func() { _ = os.RemoveAll(d) })
	return d
}
func (s *softTB) runCleanups() {
	for i := len(s.cleanups) - 1; i >= 0; i-- {
		s.cleanups[i]()
	}
	s.cleanups = nil
}

// ---- world: two chains, a path, deterministic keys ---------------------------------------------------------

var (
	curT      *testing.T // set by TestC01IBC; only handed to ibctesting.Coordinator, whose helpers we do not call
	homeDirs  [2]string
	curParams oracletypes.Params // oracle params of the next app built by appInit
	appSlot   int
	lastTrace string // app hashes of both chains at the end of the last completed run (determinism self-check)
)

func homeFor(slot int) string {
	if homeDirs[slot] == "" {
		d, err := os.MkdirTemp("", "verif-home-c01ibc-")
		if err != nil {
			panic(err)
		}
		homeDirs[slot] = d
		if curT != nil {
			curT.Cleanup(func() { _ = os.RemoveAll(d) })
		}
	}
	return homeDirs[slot]
}

func key(tag string, i int) *secp256k1.PrivKey {
	return secp256k1.GenPrivKeyFromSecret([]byte(fmt.Sprintf("verif-c01ibc-%s-%d", tag, i)))
}

// appInit is the ibctesting.DefaultTestingAppInit of this package: band's app with the default genesis plus the
// oracle scripts / data sources of this check (the counterpart of bandtesting.CreateTestingAppFn, whose accounts are
// seeded from the wall clock).
func appInit() (ibctesting.TestingApp, map[string]json.RawMessage) {
	home := homeFor(appSlot % 2)
	appSlot++
	app := band.NewBandApp(log.NewNopLogger(), cosmosdb.NewMemDB(), nil, true, map[int64]bool{}, home, sims.EmptyAppOptions{}, 100)
	g := band.NewDefaultGenesisState(app.AppCodec())
	og := oracletypes.DefaultGenesisState()
	og.Params = curParams
	fc := filecache.New(home + "/files")
	owner := sdk.AccAddress(key("owner", 0).PubKey().Address())
	treasury := sdk.AccAddress(key("treasury", 0).PubKey().Address())
	for i, exec := range [][]byte{[]byte("ds-one-executable-bytes-0123456789abcdef"), []byte("ds-two-executable-bytes-0123456789abcdef")} {
		og.DataSources = append(og.DataSources, oracletypes.NewDataSource(owner, fmt.Sprintf("ds%d", i+1), "", fc.AddFile(exec),
			sdk.NewCoins(sdk.NewInt64Coin("uband", 1000)), treasury))
	}
	for i, raw := range [][]byte{sim.ScriptAsk([]int{1, 2}, "ok"), sim.ScriptEcho(1), sim.ScriptAsk([]int{2}, "")} {
		og.OracleScripts = append(og.OracleScripts, oracletypes.NewOracleScript(owner, fmt.Sprintf("os%d", i+1), "", fc.AddFile(sim.CompileWasm(raw)), "", ""))
	}
	g[oracletypes.ModuleName] = app.AppCodec().MustMarshalJSON(og)
	return app, g
}

type account struct {
	priv cryptotypes.PrivKey
	addr sdk.AccAddress
	num  uint64
	seq  uint64
}

type world struct {
	tb         *softTB
	coord      *ibctesting.Coordinator
	a, b       *ibctesting.TestChain
	path       *ibctesting.Path
	valsB      map[string]*account // operator address (bech32 valoper) -> account of the same key
	orderB     []string            // operator addresses in a fixed order
	extraB     [][]byte            // txs to put into the next relayer block of B, before the relayer's tx
	relayerIdx int                 // index of the relayer's tx in the last relayer block
	// observation of chain B
	observing  bool
	lastSeenB  int64
	afterBlock func(res *abci.ResponseFinalizeBlock, height int64, now time.Time, nOwn int)
	failed     func(sig, format string, a ...any)
}

// newChain is ibctesting.NewTestChainWithValSet with deterministic validator and sender keys; the validators use
// secp256k1 consensus keys so that the operator address sdk.ValAddress(consensus address), which ibctesting puts into
// the staking genesis, is also the address of an account whose key we hold (it signs MsgActivate / MsgReportData).
func (w *world) newChain(chainID, tag string, nvals int) (*ibctesting.TestChain, map[string]*account, []string) {
	var validators []*cmttypes.Validator
	signers := map[string]cmttypes.PrivValidator{}
	var genAccs []authtypes.GenesisAccount
	var genBals []banktypes.Balance
	amount, _ := sdkmath.NewIntFromString(ibctesting.DefaultGenesisAccBalance)
	addAcc := func(priv cryptotypes.PrivKey) *account {
		acc := authtypes.NewBaseAccount(priv.PubKey().Address().Bytes(), priv.PubKey(), uint64(len(genAccs)), 0)
		genAccs = append(genAccs, acc)
		genBals = append(genBals, banktypes.Balance{Address: acc.GetAddress().String(), Coins: sdk.NewCoins(sdk.NewCoin(sdk.DefaultBondDenom, amount))})
		return &account{priv: priv, addr: acc.GetAddress(), num: acc.GetAccountNumber()}
	}
	var senders []ibctesting.SenderAccount
	for i := 0; i < 2; i++ {
		priv := key(tag+"-sender", i)
		addAcc(priv)
		senders = append(senders, ibctesting.SenderAccount{SenderPrivKey: priv, SenderAccount: genAccs[len(genAccs)-1].(*authtypes.BaseAccount)})
	}
	vals := map[string]*account{}
	var order []string
	for i := 0; i < nvals; i++ {
		priv := key(tag+"-val", i)
		cpriv := cmtsecp.PrivKey(priv.Key)
		pub := cpriv.PubKey()
		validators = append(validators, cmttypes.NewValidator(pub, 1))
		signers[pub.Address().String()] = cmttypes.NewMockPVWithParams(cpriv, false, false)
		oper := sdk.ValAddress(pub.Address()).String()
		vals[oper] = addAcc(priv)
		order = append(order, oper)
	}
	valSet := cmttypes.NewValidatorSet(validators)
	app := ibctesting.SetupWithGenesisValSet(w.tb, valSet, genAccs, chainID, sdk.DefaultPowerReduction, genBals...)
	chain := &ibctesting.TestChain{
		TB: w.tb, Coordinator: w.coord, ChainID: chainID, App: app,
		CurrentHeader: cmtproto.Header{ChainID: chainID, Height: 1, Time: w.coord.CurrentTime.UTC()},
		QueryServer:   app.GetIBCKeeper(), TxConfig: app.GetTxConfig(), Codec: app.AppCodec(),
		Vals: valSet, NextVals: valSet, Signers: signers,
		SenderPrivKey: senders[0].SenderPrivKey, SenderAccount: senders[0].SenderAccount, SenderAccounts: senders,
	}
	chain.SendMsgsOverride = func(msgs ...sdk.Msg) (*abci.ExecTxResult, error) { return w.sendMsgs(chain, msgs...) }
	chain.NextBlock() // commit the genesis block
	return chain, vals, order
}

func signTx(chain *ibctesting.TestChain, priv cryptotypes.PrivKey, num, seq, gas uint64, msgs ...sdk.Msg) ([]byte, error) {
	txCfg := chain.TxConfig
	b := txCfg.NewTxBuilder()
	if err := b.SetMsgs(msgs...); err != nil {
		return nil, err
	}
	b.SetGasLimit(gas)
	b.SetFeeAmount(sdk.Coins{sdk.NewInt64Coin(sdk.DefaultBondDenom, 0)})
	sig := signing.SignatureV2{PubKey: priv.PubKey(), Data: &signing.SingleSignatureData{SignMode: signing.SignMode_SIGN_MODE_DIRECT}, Sequence: seq}
	if err := b.SetSignatures(sig); err != nil {
		return nil, err
	}
	sd := authsign.SignerData{Address: sdk.AccAddress(priv.PubKey().Address()).String(), ChainID: chain.ChainID, AccountNumber: num, Sequence: seq, PubKey: priv.PubKey()}
	bz, err := authsign.GetSignBytesAdapter(context.Background(), txCfg.SignModeHandler(), signing.SignMode_SIGN_MODE_DIRECT, sd, b.GetTx())
	if err != nil {
		return nil, err
	}
	s, err := priv.Sign(bz)
	if err != nil {
		return nil, err
	}
	sig.Data.(*signing.SingleSignatureData).Signature = s
	if err := b.SetSignatures(sig); err != nil {
		return nil, err
	}
	return txCfg.TxEncoder()(b.GetTx())
}

// deliver runs one block (FinalizeBlock + Commit) on a chain and does what ibctesting's unexported commitBlock does.
func (w *world) deliver(chain *ibctesting.TestChain, txs [][]byte) (res *abci.ResponseFinalizeBlock, height int64, now time.Time, err error) {
	height, now = chain.CurrentHeader.Height, chain.CurrentHeader.GetTime()
	func() {
		defer func() {
			if r := recover(); r != nil {
				err = fmt.Errorf("panic in FinalizeBlock: %v", r)
			}
		}()
		res, err = chain.App.FinalizeBlock(&abci.RequestFinalizeBlock{Height: height, Time: now, NextValidatorsHash: chain.NextVals.Hash(), Txs: txs})
	}()
	if err != nil {
		return nil, height, now, err
	}
	if _, err = chain.App.Commit(); err != nil {
		return nil, height, now, err
	}
	chain.LastHeader = chain.CurrentTMClientHeader()
	chain.Vals = chain.NextVals
	chain.NextVals = ibctesting.ApplyValSetChanges(chain, chain.Vals, res.ValidatorUpdates)
	chain.Vals.IncrementProposerPriority(1)
	chain.CurrentHeader = cmtproto.Header{
		ChainID: chain.ChainID, Height: chain.App.LastBlockHeight() + 1, AppHash: chain.App.LastCommitID().Hash,
		Time: chain.CurrentHeader.Time, ValidatorsHash: chain.Vals.Hash(), NextValidatorsHash: chain.NextVals.Hash(),
		ProposerAddress: chain.Vals.Proposer.Address,
	}
	return res, height, now, nil
}

// relayerBlock is ibctesting's TestChain.SendMsgs without the wall-clock seeded memo: one block whose tx carries
// msgs signed by the chain's sender account; on chain B the queued extra txs come first. The coordinator clock advances
// by 5 s afterwards, as in the original.
func (w *world) relayerBlock(chain *ibctesting.TestChain, msgs ...sdk.Msg) (*abci.ResponseFinalizeBlock, int64, time.Time, error) {
	w.coord.UpdateTimeForChain(chain)
	acc := chain.SenderAccount
	tx, err := signTx(chain, chain.SenderPrivKey, acc.GetAccountNumber(), acc.GetSequence(), 10_000_000, msgs...)
	if err != nil {
		return nil, 0, time.Time{}, err
	}
	_ = acc.SetSequence(acc.GetSequence() + 1)
	var txs [][]byte
	if chain == w.b {
		txs = append(txs, w.extraB...)
		w.extraB = nil
	}
	ri := len(txs)
	w.relayerIdx = ri
	txs = append(txs, tx)
	res, height, now, err := w.deliver(chain, txs)
	if err != nil {
		return nil, height, now, err
	}
	if len(res.TxResults) != len(txs) {
		return nil, height, now, fmt.Errorf("%d tx results for %d txs", len(res.TxResults), len(txs))
	}
	if tr := res.TxResults[ri]; tr.Code != 0 {
		return res, height, now, fmt.Errorf("%s/%d: %q", tr.Codespace, tr.Code, tr.Log)
	}
	w.coord.IncrementTime()
	return res, height, now, nil
}

// sendMsgs is installed as SendMsgsOverride of both chains (used by the ibctesting endpoint helpers).
func (w *world) sendMsgs(chain *ibctesting.TestChain, msgs ...sdk.Msg) (*abci.ExecTxResult, error) {
	res, height, now, err := w.relayerBlock(chain, msgs...)
	if res != nil && chain == w.b && w.observing {
		w.afterBlock(res, height, now, 0)
	}
	if err != nil {
		if res != nil {
			return res.TxResults[w.relayerIdx], err
		}
		return nil, err
	}
	return res.TxResults[w.relayerIdx], nil
}

func (w *world) close() {
	if w.tb == nil {
		return
	}
	for _, ch := range []*ibctesting.TestChain{w.a, w.b} {
		if ch == nil || ch.App == nil {
			continue
		}
		if c, ok := ch.App.(interface{ Close() error }); ok {
			_ = c.Close()
		}
	}
	w.tb.runCleanups()
}

// setup builds both chains and opens the oracle channel (coordinator.Setup of the repo's suite, with errors returned).
func (w *world) setup(c ibcCase) error {
	w.tb = &softTB{TB: curT}
	w.coord = &ibctesting.Coordinator{T: curT, CurrentTime: time.Date(2020, 1, 2, 0, 0, 0, 0, time.UTC)}
	ibctesting.DefaultTestingAppInit = appInit
	appSlot = 0
	curParams = oracletypes.DefaultParams()
	curParams.ExpirationBlockCount = c.Expiration
	curParams.InactivePenaltyDuration = 0 // a validator deactivated for a missed report may re-activate at once
	w.a, _, _ = w.newChain(ibctesting.GetChainID(1), "a", 2)
	w.b, w.valsB, w.orderB = w.newChain(ibctesting.GetChainID(2), "b", c.NVals)
	w.coord.Chains = map[string]*ibctesting.TestChain{w.a.ChainID: w.a, w.b.ChainID: w.b}
	w.path = ibctesting.NewPath(w.a, w.b)
	for _, e := range []*ibctesting.Endpoint{w.path.EndpointA, w.path.EndpointB} {
		e.ChannelConfig.PortID = oracletypes.ModuleName
		e.ChannelConfig.Version = oracletypes.Version
	}
	p := w.path
	steps := []struct {
		name string
		f    func() error
	}{
		{"A.CreateClient", p.EndpointA.CreateClient}, {"B.CreateClient", p.EndpointB.CreateClient},
		{"A.ConnOpenInit", p.EndpointA.ConnOpenInit}, {"B.ConnOpenTry", p.EndpointB.ConnOpenTry},
		{"A.ConnOpenAck", p.EndpointA.ConnOpenAck}, {"B.ConnOpenConfirm", p.EndpointB.ConnOpenConfirm},
		{"A.UpdateClient", p.EndpointA.UpdateClient},
		{"A.ChanOpenInit", p.EndpointA.ChanOpenInit}, {"B.ChanOpenTry", p.EndpointB.ChanOpenTry},
		{"A.ChanOpenAck", p.EndpointA.ChanOpenAck}, {"B.ChanOpenConfirm", p.EndpointB.ChanOpenConfirm},
		{"A.UpdateClient", p.EndpointA.UpdateClient},
	}
	for _, s := range steps {
		if err := s.f(); err != nil {
			return fmt.Errorf("%s: %w", s.name, err)
		}
	}
	return nil
}

// ---- model -------------------------------------------------------------------------------------------------

type mReq struct {
	id                uint64
	script            int
	ask, min          uint64
	calldata          []byte
	clientID          string
	height            int64
	reqTime           int64
	chosen            []string
	reports           map[string][]oracletypes.RawReport
	hasResult         bool
	status            oracletypes.ResolveStatus
	ansCount          uint64
	resolveTime       int64
	resolvedAt        int64
	result            []byte
	expired           bool
	responses         int
	snapshot          []byte
	lateReport        bool
	resolvedInRelayer bool
}

func echoResult(r *mReq, execTime int64) []byte {
	var b bytes.Buffer
	w := func(x int64) { _ = binary.Write(&b, binary.LittleEndian, x) }
	w(int64(len(r.reports)))
	w(int64(r.min))
	w(int64(r.ask))
	w(execTime)
	for _, v := range r.chosen {
		rep, ok := r.reports[v]
		if !ok || len(rep) == 0 {
			w(-1)
			continue
		}
		w(int64(rep[0].ExitCode))
		w(int64(len(rep[0].Data)))
		b.Write(rep[0].Data)
	}
	return b.Bytes()
}

type txMeta struct {
	kind string // report | other
	id   uint64
	val  string
	raw  []oracletypes.RawReport
}

type sentPacket struct {
	pkt  channeltypes.Packet
	data oracletypes.OracleResponsePacketData
}

func attr(e abci.Event, key string) string {
	for _, a := range e.Attributes {
		if a.Key == key {
			return a.Value
		}
	}
	return ""
}

func attrs(e abci.Event, key string) []string {
	var out []string
	for _, a := range e.Attributes {
		if a.Key == key {
			out = append(out, a.Value)
		}
	}
	return out
}

func allEvents(res *abci.ResponseFinalizeBlock) []abci.Event {
	out := append([]abci.Event(nil), res.Events...)
	for _, tr := range res.TxResults {
		out = append(out, tr.Events...)
	}
	return out
}

// ---- run ---------------------------------------------------------------------------------------------------

func runIBC(c ibcCase) (v *pbt.Verdict) {
	v = &pbt.Verdict{}
	if c.NVals < 1 || c.NVals > 16 || c.Expiration < 1 {
		v.Failf("harness", "malformed case")
		return v
	}
	w := &world{}
	inSetup := true
	defer func() {
		if r := recover(); r != nil {
			if a, ok := r.(tbAbort); ok {
				v.Failf("harness", "ibctesting helper failed: %s", a.msg)
			} else if inSetup {
				v.Failf("harness", "panic during set-up: %v", r)
			} else {
				w.close()
				panic(r)
			}
		}
		w.close()
	}()
	if err := w.setup(c); err != nil {
		v.Failf("harness", "ibc set-up: %v", err)
		return v
	}
	b, path := w.b, w.path
	app, ok := b.App.(*band.BandApp)
	if !ok {
		v.Failf("harness", "chain B is not a band app")
		return v
	}
	k := app.OracleKeeper
	portB, chanB := path.EndpointB.ChannelConfig.PortID, path.EndpointB.ChannelID
	portA, chanA := path.EndpointA.ChannelConfig.PortID, path.EndpointA.ChannelID

	reqs := map[uint64]*mReq{}
	var ids []uint64 // ids of relayed and accepted requests, in relay order
	var count, lastExpired uint64
	var metas []txMeta // of the block under construction / just delivered (aligned with the txs after the relayer's)
	responses := 0
	inRelayerBlock := false

	w.afterBlock = func(res *abci.ResponseFinalizeBlock, height int64, now time.Time, nOwn int) {
		nowU := now.Unix()
		if w.lastSeenB != 0 && height != w.lastSeenB+1 {
			v.Failf("harness", "chain B committed a block that was not observed (height %d after %d)", height, w.lastSeenB)
		}
		w.lastSeenB = height
		// 1. reports
		var pending []uint64
		off := len(res.TxResults) - len(metas)
		for i, m := range metas {
			if m.kind != "report" || off < 0 {
				continue
			}
			tr := res.TxResults[off+i]
			r := reqs[m.id]
			accept, why := true, ""
			switch {
			case r == nil:
				accept, why = false, "no such request"
			case m.id <= lastExpired:
				accept, why = false, "expired"
			default:
				in := false
				for _, x := range r.chosen {
					if x == m.val {
						in = true
					}
				}
				if _, dup := r.reports[m.val]; !in {
					accept, why = false, "not chosen"
				} else if dup {
					accept, why = false, "duplicate"
				}
			}
			if (tr.Code == 0) != accept {
				v.Failf("C01/report-accept", "report(req=%d val=%s) code=%d log=%q but model accept=%v (%s)", m.id, m.val, tr.Code, tr.Log, accept, why)
				return
			}
			if !accept {
				v.Count("rejected_reports", 1)
				continue
			}
			r.reports[m.val] = m.raw
			if r.hasResult {
				r.lateReport = true
			}
			if !r.hasResult && uint64(len(r.reports)) == r.min {
				pending = append(pending, r.id)
			}
		}
		metas = nil
		// 2. resolve at the end of the block of the min_count-th report
		for _, id := range pending {
			r := reqs[id]
			r.hasResult, r.ansCount, r.resolveTime, r.resolvedAt = true, uint64(len(r.reports)), nowU, height
			switch r.script {
			case 0:
				r.status, r.result = oracletypes.RESOLVE_STATUS_SUCCESS, []byte("ok")
			case 1:
				r.status, r.result = oracletypes.RESOLVE_STATUS_SUCCESS, echoResult(r, nowU)
			default:
				r.status, r.result = oracletypes.RESOLVE_STATUS_FAILURE, []byte{}
			}
		}
		// 3. expiry
		for id := lastExpired + 1; id <= count; id++ {
			r := reqs[id]
			if r == nil || r.height+int64(c.Expiration) > height {
				break
			}
			if !r.hasResult {
				r.hasResult, r.status, r.result, r.ansCount, r.resolveTime, r.resolvedAt = true, oracletypes.RESOLVE_STATUS_EXPIRED, []byte{}, uint64(len(r.reports)), nowU, height
				r.resolvedInRelayer = inRelayerBlock
			}
			r.expired = true
			lastExpired = id
		}
		// 4. the packets chain B sent in this block
		var sent []sentPacket
		for _, e := range allEvents(res) {
			if e.Type != channeltypes.EventTypeSendPacket || attr(e, channeltypes.AttributeKeySrcPort) != portB {
				continue
			}
			var sp sentPacket
			raw, err := hex.DecodeString(attr(e, channeltypes.AttributeKeyDataHex))
			if err != nil {
				v.Failf("C01/ibc-response-undecodable", "send_packet event at height %d: bad data hex: %v", height, err)
				return
			}
			if err := oracletypes.ModuleCdc.UnmarshalJSON(raw, &sp.data); err != nil {
				v.Failf("C01/ibc-response-undecodable", "send_packet event at height %d: data %q is not an OracleResponsePacketData: %v", height, raw, err)
				return
			}
			seq, _ := strconv.ParseUint(attr(e, channeltypes.AttributeKeySequence), 10, 64)
			th, _ := clienttypes.ParseHeight(attr(e, channeltypes.AttributeKeyTimeoutHeight))
			ts, _ := strconv.ParseUint(attr(e, channeltypes.AttributeKeyTimeoutTimestamp), 10, 64)
			sp.pkt = channeltypes.NewPacket(raw, seq, portB, attr(e, channeltypes.AttributeKeySrcChannel),
				attr(e, channeltypes.AttributeKeyDstPort), attr(e, channeltypes.AttributeKeyDstChannel), th, ts)
			sent = append(sent, sp)
		}
		ctx := b.GetContext()
		for _, sp := range sent {
			d := sp.data
			id := uint64(d.RequestID)
			r := reqs[id]
			if r == nil {
				v.Failf("C01/ibc-response-unknown", "height %d: response packet for request %d, which was never accepted: %+v", height, id, d)
				return
			}
			if r.responses > 0 {
				v.Failf("C01/ibc-response-duplicate", "height %d: a second response packet for request %d: %+v", height, id, d)
				return
			}
			if !r.hasResult || r.resolvedAt != height {
				v.Failf("C01/ibc-response-unexpected", "height %d: response packet for request %d but the model has hasResult=%v resolvedAt=%d: %+v", height, id, r.hasResult, r.resolvedAt, d)
				return
			}
			r.responses++
			responses++
			if d.ClientID != r.clientID || d.AnsCount != r.ansCount || d.RequestTime != r.reqTime || d.ResolveTime != r.resolveTime ||
				d.ResolveStatus != r.status || !bytes.Equal(d.Result, r.result) {
				v.Failf("C01/ibc-response-mismatch", "request %d (ask %d min %d, %d reports at resolution): response packet %+v; model client=%q ans=%d reqTime=%d resolveTime=%d status=%v result=%x",
					id, r.ask, r.min, r.ansCount, d, r.clientID, r.ansCount, r.reqTime, r.resolveTime, r.status, r.result)
				return
			}
			st, err := k.GetResult(ctx, oracletypes.RequestID(id))
			if err != nil {
				v.Failf("C01/missing-result", "request %d: response packet sent but no stored result: %v", id, err)
				return
			}
			if d.ClientID != st.ClientID || d.RequestID != st.RequestID || d.AnsCount != st.AnsCount || d.RequestTime != st.RequestTime ||
				d.ResolveTime != st.ResolveTime || d.ResolveStatus != st.ResolveStatus || !bytes.Equal(d.Result, st.Result) {
				v.Failf("C01/ibc-response-vs-result", "request %d: response packet %+v differs from the stored result %+v", id, d, st)
				return
			}
			if sp.pkt.SourceChannel != chanB || sp.pkt.DestinationPort != portA || sp.pkt.DestinationChannel != chanA {
				v.Failf("C01/ibc-response-channel", "request %d: response sent on %s/%s -> %s/%s, the request came in on %s/%s from %s/%s",
					id, sp.pkt.SourcePort, sp.pkt.SourceChannel, sp.pkt.DestinationPort, sp.pkt.DestinationChannel, portB, chanB, portA, chanA)
				return
			}
			com := app.GetIBCKeeper().ChannelKeeper.GetPacketCommitment(ctx, portB, chanB, sp.pkt.Sequence)
			if !bytes.Equal(com, channeltypes.CommitPacket(b.Codec, sp.pkt)) {
				v.Failf("C01/ibc-response-commitment", "request %d: the commitment stored for sequence %d is not the commitment of the packet in the send_packet event", id, sp.pkt.Sequence)
				return
			}
		}
		for id := uint64(1); id <= count; id++ {
			if r := reqs[id]; r != nil && r.hasResult && r.resolvedAt == height && r.responses == 0 {
				v.Failf("C01/ibc-response-missing", "request %d resolved (%v) at height %d but no response packet was sent in that block", id, r.status, height)
				return
			}
		}
		if next, found := app.GetIBCKeeper().ChannelKeeper.GetNextSequenceSend(ctx, portB, chanB); !found || next != uint64(responses)+1 {
			v.Failf("C01/ibc-response-count", "height %d: next send sequence of %s/%s is %d (found=%v) after %d observed responses", height, portB, chanB, next, found, responses)
			return
		}
		// 5. stored results against the model
		if got := k.GetRequestCount(ctx); got != count {
			v.Failf("C01/count", "request count %d, model %d", got, count)
			return
		}
		for id := uint64(1); id <= count; id++ {
			r := reqs[id]
			if r == nil {
				continue
			}
			st, rerr := k.GetResult(ctx, oracletypes.RequestID(id))
			if !r.hasResult {
				if rerr == nil {
					v.Failf("C01/early-result", "request %d has a result (status %v) but the model says unresolved at height %d", id, st.ResolveStatus, height)
				}
				continue
			}
			if rerr != nil {
				v.Failf("C01/missing-result", "request %d should have result status %v at height %d: %v", id, r.status, height, rerr)
				continue
			}
			if st.ResolveStatus != r.status || st.AnsCount != r.ansCount || st.AskCount != r.ask || st.MinCount != r.min || st.ClientID != r.clientID ||
				!bytes.Equal(st.Calldata, r.calldata) || st.RequestTime != r.reqTime || st.ResolveTime != r.resolveTime || uint64(st.RequestID) != id ||
				!bytes.Equal(st.Result, r.result) || uint64(st.OracleScriptID) != uint64(r.script+1) {
				v.Failf("C01/result-mismatch", "request %d result %+v; model status=%v ans=%d ask=%d min=%d client=%q reqTime=%d resolveTime=%d result=%x",
					id, st, r.status, r.ansCount, r.ask, r.min, r.clientID, r.reqTime, r.resolveTime, r.result)
			}
			bz := app.AppCodec().MustMarshal(&st)
			if r.snapshot != nil && !bytes.Equal(bz, r.snapshot) {
				v.Failf("C01/result-changed", "request %d result changed after it was published", id)
			}
			r.snapshot = bz
		}
		if got := uint64(k.GetRequestLastExpired(ctx)); got != lastExpired {
			v.Failf("C01/expiry-cursor", "last expired %d, model %d at height %d", got, lastExpired, height)
		}
	}

	// activate every validator of B with real transactions
	var block [][]byte
	valTx := func(oper string, msg sdk.Msg) bool {
		a := w.valsB[oper]
		if a == nil {
			v.Failf("harness", "no key for validator %s", oper)
			return false
		}
		tx, err := signTx(b, a.priv, a.num, a.seq, 5_000_000, msg)
		if err != nil {
			v.Failf("harness", "sign: %v", err)
			return false
		}
		a.seq++ // every tx we build passes the ante handler
		block = append(block, tx)
		return true
	}
	ownBlock := func(dt int) bool {
		w.coord.UpdateTimeForChain(b)
		txs := block
		block = nil
		res, height, now, err := w.deliver(b, txs)
		if err != nil {
			v.Failf("C01/finalize", "block %d of chain B failed: %v", height, err)
			return false
		}
		if len(res.TxResults) != len(txs) {
			v.Failf("harness", "%d tx results for %d txs", len(res.TxResults), len(txs))
			return false
		}
		if w.observing {
			w.afterBlock(res, height, now, len(txs))
		}
		if dt < 1 {
			dt = 1
		}
		w.coord.IncrementTimeBy(time.Duration(dt) * time.Second)
		return v.Violation == ""
	}
	for _, oper := range w.orderB {
		va, _ := sdk.ValAddressFromBech32(oper)
		if !valTx(oper, oracletypes.NewMsgActivate(va)) {
			return v
		}
	}
	if !ownBlock(5) {
		return v
	}
	for _, oper := range w.orderB {
		va, _ := sdk.ValAddressFromBech32(oper)
		if !k.GetValidatorStatus(b.GetContext(), va).IsActive {
			v.Failf("harness", "validator %s is not oracle-active after MsgActivate", oper)
			return v
		}
	}
	inSetup = false
	w.observing = true
	w.lastSeenB = b.App.LastBlockHeight()

	rejectedRequests, relayed := 0, 0
	seqA := uint64(0)
	timeout := clienttypes.NewHeight(clienttypes.ParseChainID(b.ChainID), 1_000_000)
	for _, o := range c.Ops {
		switch o.Kind {
		case "request":
			// reports queued so far go into a block of their own first
			if len(block) > 0 && !ownBlock(5) {
				return v
			}
			if o.Script < 0 || o.Script > 2 || o.Ask < 1 || o.Min < 1 || o.CallLen < 0 || o.CallLen > 256 {
				v.Count("inapplicable_ops", 1)
				continue
			}
			calldata := bytes.Repeat([]byte{7}, o.CallLen)
			data := oracletypes.NewOracleRequestPacketData(o.ClientID, oracletypes.OracleScriptID(o.Script+1), calldata, uint64(o.Ask), uint64(o.Min),
				0, sdk.NewCoins(sdk.NewInt64Coin("uband", 10_000_000)), 100_000, 1_000_000)
			seqA++
			packet := channeltypes.NewPacket(data.GetBytes(), seqA, portA, chanA, portB, chanB, timeout, 0)
			inRelayerBlock = true
			// A: send the packet, commit; B: MsgUpdateClient (a block of B, observed through the override)
			if got, err := path.EndpointA.SendPacket(timeout, 0, data.GetBytes()); err != nil || got != seqA {
				v.Failf("harness", "send packet on A: seq %d err %v", got, err)
				return v
			}
			if v.Violation != "" {
				return v
			}
			// validators that were deactivated for a missed report come back in front of the MsgRecvPacket
			for _, oper := range w.orderB {
				va, _ := sdk.ValAddressFromBech32(oper)
				if !k.GetValidatorStatus(b.GetContext(), va).IsActive {
					if !valTx(oper, oracletypes.NewMsgActivate(va)) {
						return v
					}
				}
			}
			w.extraB, block = block, nil
			// B: MsgRecvPacket (what Endpoint.RecvPacketWithResult does, minus the block it commits on B for A's client)
			proof, proofHeight := w.a.QueryProof(host.PacketCommitmentKey(portA, chanA, seqA))
			recv := channeltypes.NewMsgRecvPacket(packet, proof, proofHeight, b.SenderAccount.GetAddress().String())
			res, height, now, err := w.relayerBlock(b, recv)
			if err != nil {
				v.Failf("harness", "MsgRecvPacket on B: %v", err)
				return v
			}
			relayed++
			accepted := false
			for _, e := range res.TxResults[w.relayerIdx].Events {
				if e.Type != oracletypes.EventTypeRequest {
					continue
				}
				accepted = true
				count++
				r := &mReq{id: count, script: o.Script, ask: uint64(o.Ask), min: uint64(o.Min), calldata: calldata, clientID: o.ClientID,
					height: height, reqTime: now.Unix(), reports: map[string][]oracletypes.RawReport{}, chosen: attrs(e, oracletypes.AttributeKeyValidator)}
				if attr(e, oracletypes.AttributeKeyID) != fmt.Sprint(count) {
					v.Failf("C01/request-id", "request got id %s, expected %d", attr(e, oracletypes.AttributeKeyID), count)
				}
				seen := map[string]bool{}
				for _, x := range r.chosen {
					seen[x] = true
				}
				if len(r.chosen) != o.Ask || len(seen) != o.Ask {
					v.Failf("C01/chosen", "request %d: chosen %v for ask %d", count, r.chosen, o.Ask)
				}
				reqs[count] = r
				ids = append(ids, count)
			}
			if !accepted {
				rejectedRequests++
			}
			w.afterBlock(res, height, now, 0)
			inRelayerBlock = false
			if v.Violation != "" {
				return v
			}
		case "report":
			if len(ids) == 0 {
				v.Count("inapplicable_ops", 1)
				continue
			}
			id := ids[((o.Req%len(ids))+len(ids))%len(ids)]
			r := reqs[id]
			if r == nil || len(r.chosen) == 0 {
				v.Count("inapplicable_ops", 1)
				continue
			}
			oper := r.chosen[((o.Pos%len(r.chosen))+len(r.chosen))%len(r.chosen)]
			dl := o.DataLen
			if dl < 0 || dl > 8 {
				dl = 8
			}
			payload := bytes.Repeat([]byte{byte('a' + len(metas)%26)}, dl)
			var raw []oracletypes.RawReport
			for _, e := range scriptEids[r.script] {
				raw = append(raw, oracletypes.NewRawReport(oracletypes.ExternalID(e), 0, payload))
			}
			va, _ := sdk.ValAddressFromBech32(oper)
			if !valTx(oper, oracletypes.NewMsgReportData(oracletypes.RequestID(id), raw, va)) {
				return v
			}
			metas = append(metas, txMeta{kind: "report", id: id, val: oper, raw: raw})
		case "end":
			if !ownBlock(o.Dt) {
				return v
			}
		default:
			v.Count("inapplicable_ops", 1)
		}
	}
	// tail: run past the expiration window of every request, and a little beyond: no second response may appear
	for i := uint64(0); i <= c.Expiration+1; i++ {
		if !ownBlock(5) {
			return v
		}
	}

	differs, inflight := 0, 0
	for _, id := range ids {
		r := reqs[id]
		if !r.hasResult {
			v.Failf("C01/no-result", "request %d never obtained a result", id)
			continue
		}
		if r.responses != 1 {
			v.Failf("C01/ibc-response-missing", "request %d has %d response packets", id, r.responses)
		}
		if r.ansCount != r.min {
			differs++
		}
		switch r.status {
		case oracletypes.RESOLVE_STATUS_SUCCESS:
			v.Class("success")
		case oracletypes.RESOLVE_STATUS_FAILURE:
			v.Class("failure")
		case oracletypes.RESOLVE_STATUS_EXPIRED:
			switch {
			case r.ansCount == 0:
				v.Class("expired-no-report")
			default:
				v.Class("expired-0<reports<min")
			}
			if r.resolvedInRelayer {
				v.Class("expired-in-a-relayer-block")
			}
		}
		if r.status != oracletypes.RESOLVE_STATUS_EXPIRED && r.ansCount > r.min {
			v.Class("ans>min")
		}
		if r.status != oracletypes.RESOLVE_STATUS_EXPIRED && r.ansCount == r.min {
			v.Class("ans==min")
		}
		if r.lateReport {
			v.Class("report-after-resolve")
		}
		for _, id2 := range ids {
			if r2 := reqs[id2]; id2 > id && r2.height < r.resolvedAt {
				inflight++
			}
		}
	}
	if inflight > 0 {
		v.Class("several-requests-in-flight")
	}
	if rejectedRequests > 0 {
		v.Class("request-rejected-by-band")
	}
	if len(ids) == 0 {
		v.Class("no-request")
	}
	v.Count("requests", int64(len(ids)))
	v.Count("responses", int64(responses))
	v.Count("responses_ans_ne_min", int64(differs))
	v.Count("relayed", int64(relayed))
	lastTrace = fmt.Sprintf("A=%x@%d B=%x@%d responses=%d", w.a.App.LastCommitID().Hash, w.a.App.LastBlockHeight(), b.App.LastCommitID().Hash, b.App.LastBlockHeight(), responses)
	v.NonTrivial = differs >= 1
	return v
}

func TestC01IBC(t *testing.T) {
	curT = t
	pbt.Check(t, "C01", genIBC, runIBC)
}
