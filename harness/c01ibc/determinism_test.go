package c01ibc

import (
	"encoding/json"
	"fmt"
	"os"
	"testing"

	"pgregory.net/rapid"
)

// TestC01IBCDeterministic is a self-check of the harness (not a property stage): running the same case twice must
// end with the same app hashes on both chains and the same verdict, i.e. runIBC is a pure function of the case even
// though the ibc-go testing framework is built around random keys, wall-clock seeded memos and a shared clock.
func TestC01IBCDeterministic(t *testing.T) {
	curT = t
	rapid.Check(t, func(rt *rapid.T) {
		c := genIBC(rt)
		// a JSON round trip, as a replay would do
		bz, _ := json.Marshal(c)
		var c2 ibcCase
		if err := json.Unmarshal(bz, &c2); err != nil {
			rt.Fatalf("round trip: %v", err)
		}
		lastTrace = ""
		v1 := runIBC(c)
		t1 := lastTrace
		lastTrace = ""
		v2 := runIBC(c2)
		t2 := lastTrace
		if os.Getenv("VERIF_C01IBC_TRACE") != "" {
			fmt.Println("TRACE", t1)
		}
		j1, _ := json.Marshal(v1)
		j2, _ := json.Marshal(v2)
		if t1 == "" || t1 != t2 || string(j1) != string(j2) {
			rt.Fatalf("two runs of one case differ:\n%s\n%s\n%s\n%s", t1, t2, j1, j2)
		}
	})
}
