package c04

// C04 — DKG soundness: consistent keys or cheater caught; honest never blamed.
//
// A generated case is one complete history of a distributed key generation on the real app: group size and
// threshold, every member's polynomial kind, a submission order and block boundaries for each round, and a list of
// deviations (per member) plus injected out-of-round / non-member messages. Members that do not deviate are driven
// by the daemon's own code: round 1 tss.GenerateRound1Info, round 2 tss.ComputeEncryptedSecretShares on the
// one-time keys read through the chain's gRPC querier, round 3 cylinder/workers/group.getOwnPrivKey (verif hook)
// followed by MsgComplain / MsgConfirm exactly as cylinder/workers/group/round3.go.
//
// The oracle never re-runs keeper code. The harness knows every member's polynomial (the one used to deal shares and
// the one behind the published commitments), which scalar it put into every encrypted slot and which complaint
// proofs it built honestly; from these it derives with math/big + ref/tssverify.go which shares are inconsistent,
// which complaints must succeed, who may be marked malicious and what the key material of an ACTIVE group must be.
//
// Encoding malleability (c04Member.Alt): independently of the deviations, members may write the curve points of an
// otherwise unchanged message (round-1 one-time key, A0, higher commitments; complaint key-sym) in another accepted
// encoding of the same point. Such a member follows the protocol; the chain may refuse the message (no trace, the
// member then sends the canonical bytes) or accept it - the model follows the tx result - and everybody who later
// uses those points does so through the daemon's code on the bytes the chain serves, so a disagreement between what
// the chain hashes / decrypts with and what a daemon computes surfaces as an honest member blamed, a justified
// complaint failing or inconsistent keys of an ACTIVE group. The model itself keeps every point in canonical form.

import (
	"bytes"
	"crypto/sha256"
	"fmt"
	"github.com/decred/dcrd/dcrec/secp256k1/v4"
	"math/big"
	"os"
	"sort"
	"testing"
	"time"

	"pgregory.net/rapid"

	sdk "github.com/cosmos/cosmos-sdk/types"

	"github.com/bandprotocol/chain/v3/cylinder/client"
	"github.com/bandprotocol/chain/v3/cylinder/store"
	"github.com/bandprotocol/chain/v3/cylinder/workers/group"
	"github.com/bandprotocol/chain/v3/pkg/tss"
	tsskeeper "github.com/bandprotocol/chain/v3/x/tss/keeper"
	tsstypes "github.com/bandprotocol/chain/v3/x/tss/types"

	"verif/harness/gen"
	"verif/harness/pbt"
	"verif/harness/ref"
	"verif/harness/sim"
	"verif/harness/tssworld"
)

// ---- case --------------------------------------------------------------------------------------------------

type c04Member struct {
	Poly string `json:"poly"`           // lib | det | small | big | same | root (zero share for one other member)
	Seed uint32 `json:"seed,omitempty"` //
	R1   string `json:"r1,omitempty"`   // "" | stop | short | long | bada0 | badot | replay | wrongmid | mismatch | negate
	R2   string `json:"r2,omitempty"`   // "" | stop | flip | scalar | plusn | nonce | wrongkey | swap | short | long | wrongmid | badlen | outrange
	R3   string `json:"r3,omitempty"`   // "" | stop | false | mixed | badkeysym | badsig | nonmember | self | impersonate | badconfirm | forged
	Fix1 bool   `json:"fix1,omitempty"` // after a rejected round-k deviation submit what the daemon would (else the member is gone)
	Fix2 bool   `json:"fix2,omitempty"`
	Fix3 bool   `json:"fix3,omitempty"`
	To   int    `json:"to,omitempty"`  // late-bound target: index into the list of the other members
	To2  int    `json:"to2,omitempty"` // second target (swap, second corrupted recipient); <0: none
	Var  int    `json:"var,omitempty"` // sub-variant selector
	Dup1 bool   `json:"dup1,omitempty"`
	Dup2 bool   `json:"dup2,omitempty"`
	Dup3 bool   `json:"dup3,omitempty"`
	// Alt: the member sends otherwise unchanged messages with curve points in another accepted encoding of the SAME
	// point (pkg/tss accepts whatever secp256k1.ParsePubKey accepts: 33-byte compressed, 65-byte uncompressed 0x04,
	// 65-byte hybrid 0x06/0x07). Bit field: bits 0-1 encoding (1 uncompressed, 2 hybrid, 3 alternating), 4 one-time
	// public key, 8 A0, 16 higher coefficient commitments (subset: bits 8..), 32 the round-1 proofs are made over the
	// canonical bytes instead of the bytes sent, 64 complaint key-sym. Signatures (R | s) and complaint proofs
	// (A1 | A2 | z) have a fixed 33-byte slot per point, so R, A1, A2 cannot be re-encoded; MsgConfirm carries no point.
	Alt int `json:"alt,omitempty"`
	// Two: the member sends TWO round-3 messages (bit field): 1 on, 2 the second message is of the other kind than the
	// first (complain after confirm / confirm after complain; else a fresh message of the same kind), 4 block boundary
	// between the two, 8 the pair goes first and the members with a justified complaint speak last, in a later block,
	// 16 if the member has no deviation its first message is a complaint about a (normally correct) share.
	Two int `json:"two,omitempty"`
	// Restart (1..3, members without any deviation): in the block after its round-k message the member's daemon restarts
	// and does what cylinder/workers/group does on start: it asks the chain (Query/PendingGroups) which groups still wait
	// for it and redoes the current step of each - for round 1 with a FRESH polynomial and one-time key that replace
	// its local record. After a submission the query must not list the group, so this is a no-op and the member, which
	// follows the protocol, must never be blamed.
	Restart int `json:"restart,omitempty"`
}

const (
	twoOn         = 1
	twoOther      = 2
	twoCut        = 4
	twoVictimLate = 8
	twoComplain   = 16
)

const (
	altOneTime = 4
	altA0      = 8
	altCommits = 16
	altCanonPf = 32
	altKeySym  = 64
)

type c04Extra struct {
	Stage int    `json:"stage"` // 1..3 = while that round is being played, 4 = after the DKG ended
	Kind  string `json:"kind"`  // r1 | r2 | complain | confirm
	From  int    `json:"from"`  // sender: member index, or N = an account that is not in the group
	As    int    `json:"as"`    // claimed member (non-member sender) / complaint respondent
	Pos   int    `json:"pos"`   // late-bound position in the stage
}

type c04Case struct {
	N         int         `json:"n"`
	T         int         `json:"t"`
	Period    uint64      `json:"period"`
	Owner     string      `json:"owner"`
	Seed      uint32      `json:"seed"`
	Members   []c04Member `json:"members"`
	Order     [3][]int    `json:"order"` // sort keys: submission order inside each round
	Cuts      [3][]bool   `json:"cuts"`  // block boundary after the i-th submission of the round
	Gaps      [3]int      `json:"gaps"`  // empty blocks after each round
	Extras    []c04Extra  `json:"extras,omitempty"`
	SignOrder []int       `json:"sign_order"` // sort keys: the first T members sign after the group became ACTIVE
}

var (
	r1Devs = []string{"stop", "short", "long", "bada0", "badot", "replay", "wrongmid", "mismatch", "negate"}
	r1W    = []int{3, 4, 4, 5, 5, 6, 3, 8, 5}
	r2Devs = []string{"stop", "flip", "scalar", "plusn", "nonce", "wrongkey", "swap", "short", "long", "wrongmid", "badlen", "outrange"}
	r2W    = []int{3, 9, 9, 3, 5, 5, 7, 3, 3, 2, 10, 9}
	r3Devs = []string{"stop", "false", "mixed", "badkeysym", "badsig", "nonmember", "self", "impersonate", "badconfirm", "forged"}
	r3W    = []int{3, 11, 6, 12, 6, 4, 3, 3, 7, 16}
)

func genC04(rt *rapid.T) c04Case {
	n := rapid.IntRange(2, 6).Draw(rt, "n")
	if pbt.Tier() == "thorough" && gen.Chance(rt, "large", 1, 25) {
		n = gen.Range(rt, "nlarge", 7, 12)
	}
	t := gen.Range(rt, "t", 1, n)
	switch gen.Pick(rt, "tkind", 6, 1, 2, 1) {
	case 1:
		t = 1
	case 2:
		t = n
	case 3:
		t = (n + 2) / 2
	}
	c := c04Case{N: n, T: t, Period: uint64(gen.Range(rt, "period", 4, 12)), Owner: gen.OneOf(rt, "owner", "bandtss", "bandtss", ""),
		Seed: rapid.Uint32().Draw(rt, "seed")}
	for i := 0; i < n; i++ {
		c.Members = append(c.Members, c04Member{
			Poly: []string{"lib", "det", "small", "big", "same", "root"}[gen.Pick(rt, "poly", 8, 6, 2, 2, 2, 4)],
			Seed: rapid.Uint32Range(0, 999).Draw(rt, "mseed"), To2: -1,
		})
	}
	// deviations
	ndev := gen.Pick(rt, "ndev", 12, 42, 30, 16)
	if ndev > n {
		ndev = n
	}
	start := gen.Uniform(rt, "devstart", n)
	step := 1 + gen.Uniform(rt, "devstep", n-1)
	for d := 0; d < ndev; d++ {
		m := &c.Members[(start+d*step)%n]
		k := 1 + gen.Pick(rt, "ndevs", 7, 3)
		for j := 0; j < k; j++ {
			switch gen.Pick(rt, "round", 22, 30, 38, 10) {
			case 0:
				m.R1 = r1Devs[gen.Pick(rt, "r1", r1W...)]
				m.Fix1 = gen.Chance(rt, "fix1", 85, 100)
			case 1:
				m.R2 = r2Devs[gen.Pick(rt, "r2", r2W...)]
				m.Fix2 = gen.Chance(rt, "fix2", 85, 100)
				if gen.Chance(rt, "two", 1, 4) {
					m.To2 = gen.Uniform(rt, "to2", 16)
				}
				if m.R2 == "plusn" {
					m.Poly = "small" // f(r)+N only fits 32 bytes for tiny shares
				}
			case 2:
				m.R3 = r3Devs[gen.Pick(rt, "r3", r3W...)]
				m.Fix3 = gen.Chance(rt, "fix3", 85, 100)
			case 3:
				switch gen.Uniform(rt, "dup", 3) {
				case 0:
					m.Dup1 = true
				case 1:
					m.Dup2 = true
				default:
					m.Dup3 = true
				}
			}
		}
		m.To = gen.Uniform(rt, "to", 16)
		m.Var = gen.Uniform(rt, "var", 96)
	}
	// alternative point encodings (independent of the deviations: the member still follows the protocol)
	if gen.Chance(rt, "altcase", 9, 20) {
		k := 1 + gen.Pick(rt, "altn", 6, 3)
		if gen.Chance(rt, "altall", 1, 8) {
			k = n
		}
		first := gen.Uniform(rt, "altfirst", n)
		for j := 0; j < k && j < n; j++ {
			a := 1 + gen.Uniform(rt, "altenc", 3)
			switch gen.Pick(rt, "altwhat", 3, 3, 3, 3, 4) {
			case 0:
				a |= altOneTime
			case 1:
				a |= altA0
			case 2:
				a |= altCommits
			case 3:
				a |= altKeySym
			default:
				a |= gen.Uniform(rt, "altmask", 16) << 2 & (altOneTime | altA0 | altCommits)
				if gen.Chance(rt, "altks", 1, 2) {
					a |= altKeySym
				}
				if a&(altOneTime|altA0|altCommits|altKeySym) == 0 {
					a |= altOneTime | altA0 | altCommits | altKeySym
				}
			}
			if gen.Chance(rt, "altcanonpf", 1, 6) {
				a |= altCanonPf
			}
			a |= gen.Uniform(rt, "altsub", 256) << 8
			c.Members[(first+j)%n].Alt = a
		}
	}
	// a daemon restart of a member that does not deviate
	if gen.Chance(rt, "restartcase", 3, 10) {
		first := gen.Uniform(rt, "restartwho", n)
		for j := 0; j < n; j++ {
			m := &c.Members[(first+j)%n]
			if m.R1 == "" && m.R2 == "" && m.R3 == "" && !m.Dup1 && !m.Dup2 && !m.Dup3 && m.Alt == 0 {
				m.Restart = 1 + gen.Pick(rt, "restartstage", 6, 2, 2)
				break
			}
		}
	}
	// one member speaks twice in round 3
	if gen.Chance(rt, "twocase", 3, 10) {
		two := twoOn
		if gen.Chance(rt, "twoother", 7, 10) {
			two |= twoOther
		}
		if gen.Chance(rt, "twocut", 1, 2) {
			two |= twoCut
		}
		if gen.Chance(rt, "twolate", 3, 5) {
			two |= twoVictimLate
		}
		if gen.Chance(rt, "twocomplain", 1, 2) {
			two |= twoComplain
		}
		c.Members[gen.Uniform(rt, "twowho", n)].Two = two
	}
	cutDen := gen.OneOf(rt, "cutden", 0, 0, 8, 4, 2)
	for r := 0; r < 3; r++ {
		for i := 0; i < n; i++ {
			c.Order[r] = append(c.Order[r], gen.Uniform(rt, "ord", 1000))
		}
		for i := 0; i < 2*n+4; i++ {
			c.Cuts[r] = append(c.Cuts[r], cutDen > 0 && gen.Chance(rt, "cut", 1, cutDen))
		}
		c.Gaps[r] = gen.Pick(rt, "gap", 8, 2, 1)
	}
	nx := gen.Pick(rt, "nextra", 40, 30, 20, 10)
	for i := 0; i < nx; i++ {
		x := c04Extra{Stage: 1 + gen.Pick(rt, "xstage", 3, 3, 3, 2), Kind: gen.OneOf(rt, "xkind", "r1", "r2", "complain", "confirm"),
			From: gen.Uniform(rt, "xfrom", n), As: gen.Uniform(rt, "xas", n), Pos: gen.Uniform(rt, "xpos", 16)}
		if gen.Chance(rt, "outsider", 2, 5) {
			x.From = n
		}
		c.Extras = append(c.Extras, x)
	}
	for i := 0; i < n; i++ {
		c.SignOrder = append(c.SignOrder, gen.Uniform(rt, "sord", 1000))
	}
	return c
}

// ---- small helpers -----------------------------------------------------------------------------------------

func bigOf(b []byte) *big.Int { return new(big.Int).SetBytes(b) }

func scalarOf(x *big.Int) tss.Scalar { return tss.Scalar(ref.TSSScalarBytes(x)) }

func modN(x *big.Int) *big.Int { return new(big.Int).Mod(x, ref.TSSN) }

func clone(b []byte) []byte { return append([]byte(nil), b...) }

// negPoint negates a compressed point (02 <-> 03).
func negPoint(p tss.Point) tss.Point {
	q := canon(p)
	if len(q) == 33 {
		q[0] ^= 1
	}
	return q
}

// canon is the 33-byte compressed encoding of the point p is an encoding of (p itself if it is not a point).
func canon(p []byte) []byte {
	pk, err := secp256k1.ParsePubKey(p)
	if err != nil {
		return clone(p)
	}
	return pk.SerializeCompressed()
}

// altEncode re-encodes a point: kind 1 = 65-byte uncompressed (0x04 | X | Y), kind 2 = 65-byte hybrid (0x06 | parity of Y).
func altEncode(p tss.Point, kind int) tss.Point {
	pk, err := secp256k1.ParsePubKey(p)
	if err != nil {
		return p
	}
	b := pk.SerializeUncompressed()
	if kind == 2 {
		b[0] = 0x06 | (b[64] & 1)
	}
	return tss.Point(b)
}

// altKind: the encoding the Alt selector asks for at the i-th re-encoded point.
func altKind(alt, i int) int {
	switch alt & 3 {
	case 1:
		return 1
	case 2:
		return 2
	}
	return 1 + i%2
}

func permByKeys(keys []int, n int) []int {
	idx := make([]int, n)
	for i := range idx {
		idx[i] = i
	}
	key := func(i int) int {
		if i < len(keys) {
			return keys[i]
		}
		return 0
	}
	sort.SliceStable(idx, func(a, b int) bool { return key(idx[a]) < key(idx[b]) })
	return idx
}

// detNonce is a deterministic 16-byte nonce source for the ElGamal-style share encryption.
type detNonce struct {
	seed string
	ctr  *uint64
}

func (d detNonce) RandBytes16() ([]byte, error) {
	*d.ctr++
	h := sha256.Sum256([]byte(fmt.Sprintf("c04-nonce|%s|%d", d.seed, *d.ctr)))
	return h[:16], nil
}

// ---- world -------------------------------------------------------------------------------------------------

type reason struct {
	why      string
	asserted bool // the statement says this marking must happen
}

type mem struct {
	idx  int
	id   tss.MemberID
	acct *sim.Account
	spec c04Member
	// accepted round-1 material
	haveDKG   bool
	dkg       store.DKG  // what the daemon keeps: dealt polynomial + one-time private key
	dealt     []*big.Int // polynomial used to deal shares
	committed []*big.Int // polynomial behind the published commitments; nil = not known to anybody
	commits   tss.Points
	// accepted round-2 material
	slots []slotC // what is in every slot of the accepted list of encrypted shares
	// round 3
	priv     tss.Scalar // own key share as computed by the daemon hook
	attempts int
	inFlight [4]bool // a well-formed round-k submission was already produced
	lastMsg  [4]*item
	restarts int     // daemon restarts that redid a step
	forceR3  string  // first round-3 message of a member without deviation (Two&twoComplain)
	altOK    [4]bool // round k: a message with alternatively encoded points was accepted
	noAlt    [4]bool // round k: the alternative encoding was refused, the member now sends the canonical bytes
	strict   bool    // follows the protocol in every respect
	reasons  []reason
	devs     int
}

type cdesc struct {
	complainant, respondent tss.MemberID
	genuine                 bool // key-sym and proof were produced by tss.SignComplaint with the complainant's one-time key
	expectSuccess           bool
	label                   string
}

type r1Attempt struct {
	info      tsstypes.Round1Info
	coeffs    tss.Scalars
	otPriv    tss.Scalar
	dealt     []*big.Int
	committed []*big.Int
}

type r2Attempt struct {
	info  tsstypes.Round2Info
	slots []slotC
}

// slotC is what the harness knows about one encrypted share: the 32-byte value that was encrypted, the scalar x for
// which the encryption key is (dealer one-time private key)*x*G, and whether ciphertext/nonce were altered afterwards.
type slotC struct {
	plain   *big.Int
	keyX    *big.Int
	mangled bool
}

type item struct {
	kind       string // r1 | r2 | complain | confirm | other
	label      string
	m          *mem // acting member; nil = outsider
	sender     *sim.Account
	claimed    tss.MemberID
	wellFormed bool // content passes every content check if sent in-round, once, by the claimed member
	honest     bool // exactly what the daemon would send
	msg        sdk.Msg
	r1         *r1Attempt
	r2         *r2Attempt
	complaints []cdesc
	priv       tss.Scalar
	forged     []tss.MemberID // members other than the sender that are named as complainant inside the message
	// eitherOK: the content is what the protocol prescribes, in another encoding of the same curve points. The chain may
	// refuse the message as malformed (no trace) or accept it (then everything must go on as if the canonical bytes had
	// been sent); the model follows the tx result.
	eitherOK bool
	altKinds []string
	second   bool // the member's second round-3 message (Two)
}

type world struct {
	c       c04Case
	v       *pbt.Verdict
	ch      *sim.Chain
	qs      tsstypes.QueryServer
	gid     tss.GroupID
	n, t    int
	created int64
	dkgCtx  []byte
	mems    []*mem
	outside *sim.Account
	nonceC  uint64
	gr      *client.GroupResult

	// model
	status       tsstypes.GroupStatus
	set          [4]map[tss.MemberID]bool
	pendingT     bool
	cleaned      bool
	acc          [][]byte // expected accumulated commitments (reference arithmetic); nil entry = nothing yet
	accBroken    bool
	everActive   bool
	mustNotAct   string // non-empty: a cheating dealer was caught by a genuine complaint
	reached      [5]bool
	devApplied   int
	finalAtRound int
	daemonErr    string // the daemon failed on a non-canonical plaintext; reported at the end unless something else breaks first
	deferred     string // a second round-3 message of a member was accepted: reported at the end unless a downstream guarantee breaks first
	doubleAt     int64  // height of the (first) block that carried a second round-3 message

	pending []*item
	txs     [][]byte
}

func (w *world) fail(sig, format string, a ...any) { w.v.Failf(sig, format, a...) }
func (w *world) ok() bool                          { return w.v.Violation == "" }

func (w *world) others(m *mem) []*mem {
	var o []*mem
	for _, x := range w.mems {
		if x != m {
			o = append(o, x)
		}
	}
	return o
}

func (w *world) target(m *mem, k int) *mem {
	o := w.others(m)
	if k < 0 {
		k = -k
	}
	return o[k%len(o)]
}

// slotOf is the position of recipient r in dealer d's list of encrypted shares: the other members in ascending id
// order (module docs: "f_i(j) for j != i"). Written independently of types.FindMemberSlot.
func (w *world) slotOf(d, r *mem) int {
	s := 0
	for _, x := range w.mems {
		if x == d {
			continue
		}
		if x == r {
			return s
		}
		s++
	}
	return -1
}

func (w *world) refresh() {
	resp, err := w.qs.Group(w.ch.Ctx(), &tsstypes.QueryGroupRequest{GroupId: uint64(w.gid)})
	if err != nil {
		w.fail("harness", "group query: %v", err)
		return
	}
	w.gr = client.NewGroupResult(resp)
}

func (w *world) dev(m *mem, label string) {
	w.devApplied++
	if m != nil {
		m.devs++
	}
	w.v.Class("dev:" + label)
}

// bad: the share dealer j gave to recipient i is inconsistent with j's published commitments.
func (w *world) bad(j, i *mem) bool {
	sl := w.slotOf(j, i)
	if j.committed == nil || sl < 0 || sl >= len(j.slots) || !i.haveDKG {
		return true
	}
	s := j.slots[sl]
	if s.mangled || s.plain == nil || s.keyX == nil {
		return true // an altered ciphertext decrypts to an unrelated 32-byte value
	}
	// the recipient decrypts with (own one-time private key)*(dealer one-time public key)
	if modN(s.keyX).Cmp(modN(bigOf(i.dkg.OneTimePrivKey))) != 0 {
		return true
	}
	return modN(s.plain).Cmp(ref.TSSEvalPoly(j.committed, uint64(i.id))) != 0
}

// ---- key material ------------------------------------------------------------------------------------------

func (w *world) material(m *mem) (tss.Scalars, tss.Scalar) {
	m.attempts++
	var cs tss.Scalars
	var ot tss.Scalar
	sp := m.spec
	for k := 0; k < w.t; k++ {
		switch sp.Poly {
		case "small":
			cs = append(cs, scalarOf(big.NewInt(int64(1+(int(sp.Seed)+k+m.attempts)%5))))
		case "big":
			cs = append(cs, scalarOf(new(big.Int).Sub(ref.TSSN, big.NewInt(int64(1+(int(sp.Seed)+k+m.attempts)%4)))))
		case "same":
			cs = append(cs, tssworld.ScalarFrom("c04-shared", w.c.Seed, k))
		default:
			cs = append(cs, tssworld.ScalarFrom("c04", w.c.Seed, m.idx, sp.Seed, m.attempts, k))
		}
	}
	if sp.Poly == "root" && w.t >= 2 && w.n >= 2 {
		// An honest polynomial that happens to vanish at another member's id: a0 = -(sum_{k>=1} a_k i^k) mod N. The share
		// dealt to member i is 0, perfectly consistent with the commitments; the dealer follows the protocol.
		i := w.target(m, int(sp.Seed)).id
		rest := append([]*big.Int{new(big.Int)}, bigs(cs[1:])...)
		a0 := modN(new(big.Int).Sub(ref.TSSN, ref.TSSEvalPoly(rest, uint64(i))))
		if a0.Sign() != 0 {
			cs[0] = scalarOf(a0)
			w.v.Class("honest-dealer-with-zero-share")
			w.v.Count("honest_dealer_with_zero_share", 1)
		}
	}
	switch sp.Poly {
	case "small":
		ot = scalarOf(big.NewInt(int64(2 + sp.Seed%7)))
	case "same":
		ot = tssworld.ScalarFrom("c04-shared-ot", w.c.Seed)
	default:
		ot = tssworld.ScalarFrom("c04-ot", w.c.Seed, m.idx, sp.Seed, m.attempts)
	}
	return cs, ot
}

func bigs(cs tss.Scalars) []*big.Int {
	var out []*big.Int
	for _, c := range cs {
		out = append(out, bigOf(c))
	}
	return out
}

// honestR1 produces what the daemon's round-1 worker would: for "lib" literally tss.GenerateRound1Info, otherwise
// the same construction on harness-chosen coefficients.
func (w *world) honestR1(m *mem, mid tss.MemberID) (*r1Attempt, error) {
	ctx := w.dkgCtx
	if m.spec.Poly == "lib" {
		d, err := tss.GenerateRound1Info(mid, uint64(w.t), ctx)
		if err != nil {
			return nil, err
		}
		a := &r1Attempt{coeffs: d.Coefficients, otPriv: d.OneTimePrivKey, dealt: bigs(d.Coefficients)}
		a.committed = a.dealt
		a.info = tsstypes.Round1Info{MemberID: mid, CoefficientCommits: d.CoefficientCommits, OneTimePubKey: d.OneTimePubKey,
			A0Signature: d.A0Signature, OneTimeSignature: d.OneTimeSignature}
		return a, nil
	}
	cs, ot := w.material(m)
	a := &r1Attempt{coeffs: cs, otPriv: ot, dealt: bigs(cs)}
	a.committed = a.dealt
	var commits tss.Points
	for _, c := range cs {
		commits = append(commits, c.Point())
	}
	otSig, err := tss.SignOneTime(mid, ctx, ot.Point(), ot)
	if err != nil {
		return nil, err
	}
	a0Sig, err := tss.SignA0(mid, ctx, commits[0], cs[0])
	if err != nil {
		return nil, err
	}
	a.info = tsstypes.Round1Info{MemberID: mid, CoefficientCommits: commits, OneTimePubKey: ot.Point(), A0Signature: a0Sig, OneTimeSignature: otSig}
	return a, nil
}

func flipCtx(ctx []byte) []byte {
	c := clone(ctx)
	if len(c) > 0 {
		c[len(c)/2] ^= 0x10
	} else {
		c = []byte{1}
	}
	return c
}

// ---- building submissions ----------------------------------------------------------------------------------

func (w *world) push(it *item) {
	if it == nil || it.msg == nil {
		return
	}
	w.pending = append(w.pending, it)
	w.txs = append(w.txs, w.ch.SignTx(it.sender, it.msg))
}

func (w *world) chainStatus() tsstypes.GroupStatus {
	if w.gr == nil {
		return tsstypes.GROUP_STATUS_UNSPECIFIED
	}
	return w.gr.Group.Status
}

// buildR1 builds member m's round-1 submission; deviate=false gives the daemon's message.
func (w *world) buildR1(m *mem, deviate bool) *item {
	if w.chainStatus() != tsstypes.GROUP_STATUS_ROUND_1 {
		w.v.Count("skipped_not_in_round", 1)
		return nil
	}
	devk := ""
	if deviate {
		devk = m.spec.R1
	}
	a, err := w.honestR1(m, m.id)
	if err != nil {
		w.fail("harness", "round1 material: %v", err)
		return nil
	}
	it := &item{kind: "r1", label: "honest", m: m, sender: m.acct, claimed: m.id, wellFormed: true, honest: true, r1: a}
	t := w.t
	v := m.spec.Var
	switch devk {
	case "short":
		a.info.CoefficientCommits = a.info.CoefficientCommits[:t-1]
		it.wellFormed = false
	case "long":
		a.info.CoefficientCommits = append(append(tss.Points{}, a.info.CoefficientCommits...), tssworld.ScalarFrom("c04-extra", w.c.Seed, m.idx).Point())
		it.wellFormed = false
	case "bada0", "badot":
		mid, ctx := m.id, w.dkgCtx
		key0, keyOT := a.coeffs[0], a.otPriv
		switch v % 3 {
		case 0:
			mid = m.id%tss.MemberID(w.n) + 1 // proof made for another member id
		case 1:
			ctx = flipCtx(ctx) // proof made for another DKG context
		default:
			key0 = tssworld.ScalarFrom("c04-wrongkey", w.c.Seed, m.idx)
			keyOT = key0
		}
		var sig tss.Signature
		var e error
		if devk == "bada0" {
			sig, e = tss.SignA0(mid, ctx, a.info.CoefficientCommits[0], key0)
			a.info.A0Signature = sig
		} else {
			sig, e = tss.SignOneTime(mid, ctx, a.info.OneTimePubKey, keyOT)
			a.info.OneTimeSignature = sig
		}
		if e != nil {
			w.fail("harness", "sign: %v", e)
			return nil
		}
		it.wellFormed = false
	case "replay": // somebody else's accepted round-1 message under the own member id
		var cands []tsstypes.Round1Info
		for _, ri := range w.gr.Round1Infos {
			if ri.MemberID != m.id {
				cands = append(cands, ri)
			}
		}
		if len(cands) == 0 {
			w.v.Count("dev_inapplicable", 1)
			devk = ""
			break
		}
		src := cands[v%len(cands)]
		switch (v / 7) % 3 {
		case 0: // the whole message
			a.info = src
			a.info.MemberID = m.id
		case 1: // only the one-time key and its proof
			a.info.OneTimePubKey, a.info.OneTimeSignature = src.OneTimePubKey, src.OneTimeSignature
		default: // only the commitments and the proof for the constant term
			a.info.CoefficientCommits, a.info.A0Signature = src.CoefficientCommits, src.A0Signature
		}
		it.wellFormed = false
	case "wrongmid": // a message that is valid for another member id, sent from the own account
		o := w.target(m, m.spec.To)
		b, err := w.honestR1(m, o.id)
		if err != nil {
			w.fail("harness", "round1 material: %v", err)
			return nil
		}
		it.r1, it.claimed, it.wellFormed = b, o.id, true // content is fine; the sender is not that member
	case "mismatch": // commitments of another polynomial than the one shares are dealt from
		k := v % t
		q := append([]*big.Int(nil), a.dealt...)
		q[k] = modN(new(big.Int).Add(q[k], big.NewInt(int64(1+v%3))))
		if q[k].Sign() == 0 {
			q[k] = big.NewInt(1)
		}
		a.committed = q
		commits := append(tss.Points{}, a.info.CoefficientCommits...)
		commits[k] = scalarOf(q[k]).Point()
		a.info.CoefficientCommits = commits
		if k == 0 {
			sig, e := tss.SignA0(m.id, w.dkgCtx, commits[0], scalarOf(q[0]))
			if e != nil {
				w.fail("harness", "sign: %v", e)
				return nil
			}
			a.info.A0Signature = sig
		}
	case "negate": // a higher commitment is the negation of another member's one (needs no proof of possession)
		var src *tsstypes.Round1Info
		if len(w.gr.Round1Infos) > 0 {
			src = &w.gr.Round1Infos[v%len(w.gr.Round1Infos)]
		}
		if t < 2 || src == nil || len(src.CoefficientCommits) != t {
			w.v.Count("dev_inapplicable", 1)
			devk = ""
			break
		}
		k := 1 + v%(t-1)
		commits := append(tss.Points{}, a.info.CoefficientCommits...)
		commits[k] = negPoint(src.CoefficientCommits[k])
		a.info.CoefficientCommits = commits
		a.committed = nil // nobody knows the discrete log of the negated commitment ...
		if src.MemberID >= 1 && int(src.MemberID) <= w.n {
			if sm := w.mems[src.MemberID-1]; sm.committed != nil && len(sm.committed) == t {
				q := append([]*big.Int(nil), a.dealt...) // ... except the harness, which knows the source member's polynomial
				q[k] = modN(new(big.Int).Sub(ref.TSSN, sm.committed[k]))
				a.committed = q
			}
		}
	}
	if devk != "" {
		it.label, it.honest = devk, false
		w.dev(m, "r1:"+devk)
	}
	if alt := m.spec.Alt; alt&(altOneTime|altA0|altCommits) != 0 && !m.noAlt[1] && it.wellFormed && it.claimed == m.id && it.r1 == a {
		// the same group elements, written differently; the proofs of possession are made (like the daemon makes them)
		// over the bytes that are sent - or, altCanonPf, over the canonical bytes
		commits := append(tss.Points{}, a.info.CoefficientCommits...)
		np := 0
		if alt&altOneTime != 0 {
			a.info.OneTimePubKey = altEncode(a.info.OneTimePubKey, altKind(alt, np))
			np++
			it.altKinds = append(it.altKinds, "onetime")
		}
		if alt&altA0 != 0 && len(commits) > 0 {
			commits[0] = altEncode(commits[0], altKind(alt, np))
			np++
			it.altKinds = append(it.altKinds, "a0")
		}
		if alt&altCommits != 0 && len(commits) > 1 {
			sub := alt >> 8
			if sub&(1<<uint(len(commits)-1)-1) == 0 {
				sub = -1
			}
			for k := 1; k < len(commits); k++ {
				if sub>>uint(k-1)&1 == 1 {
					commits[k] = altEncode(commits[k], altKind(alt, np))
					np++
				}
			}
			it.altKinds = append(it.altKinds, "commit")
		}
		a.info.CoefficientCommits = commits
		if alt&altCanonPf == 0 {
			a0Key := a.coeffs[0]
			if a.committed != nil {
				a0Key = scalarOf(a.committed[0])
			}
			var e1, e2 error
			if alt&altA0 != 0 {
				a.info.A0Signature, e1 = tss.SignA0(m.id, w.dkgCtx, commits[0], a0Key)
			}
			if alt&altOneTime != 0 {
				a.info.OneTimeSignature, e2 = tss.SignOneTime(m.id, w.dkgCtx, a.info.OneTimePubKey, a.otPriv)
			}
			if e1 != nil || e2 != nil {
				w.fail("harness", "sign: %v %v", e1, e2)
				return nil
			}
		} else {
			w.v.Class("altenc-r1-proofs-over-canonical-bytes")
		}
		if np > 0 {
			it.eitherOK = true
			it.label += "+altenc"
			w.dev(m, "r1:altenc")
		}
	}
	it.msg = tsstypes.NewMsgSubmitDKGRound1(w.gid, it.r1.info, it.sender.Addr.String())
	if it.wellFormed && it.claimed == m.id && !it.eitherOK {
		m.inFlight[1] = true
	}
	m.lastMsg[1] = it
	return it
}

func (w *world) oneTimePubs() tss.Points {
	pubs := make(tss.Points, w.gr.Group.Size_)
	for _, d := range w.gr.Round1Infos {
		if d.MemberID >= 1 && int(d.MemberID) <= len(pubs) {
			pubs[d.MemberID-1] = d.OneTimePubKey
		}
	}
	return pubs
}

func (w *world) buildR2(m *mem, deviate bool) *item {
	if w.chainStatus() != tsstypes.GROUP_STATUS_ROUND_2 || !m.haveDKG {
		w.v.Count("skipped_not_in_round", 1)
		return nil
	}
	devk := ""
	if deviate {
		devk = m.spec.R2
	}
	pubs := w.oneTimePubs()
	ng := detNonce{seed: fmt.Sprint(w.c.Seed, m.idx), ctr: &w.nonceC}
	enc, err := tss.ComputeEncryptedSecretShares(m.dkg.MemberID, m.dkg.OneTimePrivKey, pubs, m.dkg.Coefficients, ng)
	if err != nil {
		w.fail("C04/daemon-error", "ComputeEncryptedSecretShares(member %d): %v", m.id, err)
		return nil
	}
	if len(enc) != w.n-1 {
		w.fail("C04/daemon-error", "ComputeEncryptedSecretShares(member %d) returned %d shares for %d members", m.id, len(enc), w.n)
		return nil
	}
	a := &r2Attempt{}
	for _, o := range w.others(m) { // what an honest dealer encrypts, and for whom
		a.slots = append(a.slots, slotC{plain: ref.TSSEvalPoly(m.dealt, uint64(o.id)), keyX: bigOf(o.dkg.OneTimePrivKey)})
	}
	slot := func(r *mem) *slotC { return &a.slots[w.slotOf(m, r)] }
	enc = enc.Clone()
	it := &item{kind: "r2", label: "honest", m: m, sender: m.acct, claimed: m.id, wellFormed: true, honest: true, r2: a}
	targets := []*mem{w.target(m, m.spec.To)}
	if m.spec.To2 >= 0 && w.n > 2 {
		if o := w.target(m, m.spec.To2); o != targets[0] {
			targets = append(targets, o)
		}
	}
	v := m.spec.Var
	reenc := func(r *mem, s *big.Int, raw []byte, key tss.Point) bool {
		val := tss.Scalar(raw)
		if raw == nil {
			val = scalarOf(s)
		}
		e, err := tss.Encrypt(val, key, ng)
		if err != nil {
			w.fail("harness", "encrypt: %v", err)
			return false
		}
		enc[w.slotOf(m, r)] = e
		return true
	}
	keyFor := func(r *mem) tss.Point {
		k, err := tss.ComputeSecretSym(m.dkg.OneTimePrivKey, pubs[r.id-1])
		if err != nil {
			w.fail("harness", "key sym: %v", err)
		}
		return k
	}
	switch devk {
	case "flip":
		for _, r := range targets {
			enc[w.slotOf(m, r)][v%32] ^= byte(1) << (v % 8)
			slot(r).mangled = true
		}
	case "nonce":
		for _, r := range targets {
			enc[w.slotOf(m, r)][32+v%16] ^= 0x01
			slot(r).mangled = true
		}
	case "scalar":
		for _, r := range targets {
			var s *big.Int
			switch v % 3 {
			case 0:
				s = modN(new(big.Int).Add(slot(r).plain, big.NewInt(1)))
			case 1:
				s = ref.TSSEvalPoly(m.dealt, uint64(r.id)+1) // evaluated at the wrong id
			default:
				s = modN(new(big.Int).Sub(ref.TSSN, slot(r).plain)) // -f(r)
			}
			if s.Sign() == 0 {
				s = big.NewInt(1)
			}
			if k := keyFor(r); k == nil || !reenc(r, s, nil, k) {
				return nil
			}
			slot(r).plain = s
		}
	case "plusn": // non-canonical encoding f(r)+N of the correct share (fits 32 bytes only for tiny shares)
		r := targets[0]
		raw := new(big.Int).Add(slot(r).plain, ref.TSSN)
		if raw.BitLen() > 256 {
			w.v.Count("dev_inapplicable", 1)
			devk = ""
			break
		}
		b := make([]byte, 32)
		raw.FillBytes(b)
		if k := keyFor(r); k == nil || !reenc(r, nil, b, k) {
			return nil
		}
		slot(r).plain = raw // congruent to the correct share: still consistent
	case "outrange":
		// a share whose 32-byte PLAINTEXT is not a canonical scalar (value in [N, 2^256)), correctly encrypted under the
		// pair's key and inconsistent with the commitments: a bad share like any other, the recipient's complaint must
		// succeed and the dealer - not the complainant - must be marked malicious
		max := new(big.Int).Sub(new(big.Int).Lsh(big.NewInt(1), 256), big.NewInt(1))
		for ti, r := range targets {
			var raw *big.Int
			kind := ""
			switch (v + ti) % 5 {
			case 0:
				raw, kind = new(big.Int).Set(max), "2^256-1"
			case 1:
				raw, kind = new(big.Int).Set(ref.TSSN), "N"
			case 2:
				raw, kind = new(big.Int).Add(ref.TSSN, big.NewInt(1)), "N+1"
			case 3:
				raw, kind = new(big.Int).Sub(max, big.NewInt(int64(1+v%7))), "near-2^256"
			default: // somewhere inside [N, 2^256)
				off := new(big.Int).Rsh(bigOf(tssworld.ScalarFrom("c04-outrange", w.c.Seed, m.idx, r.idx)), 130)
				raw, kind = new(big.Int).Add(ref.TSSN, off), "inside"
			}
			want := ref.TSSEvalPoly(m.dealt, uint64(r.id))
			if m.committed != nil {
				want = ref.TSSEvalPoly(m.committed, uint64(r.id))
			}
			if modN(raw).Cmp(want) == 0 { // by accident congruent to the right share
				raw.Add(raw, big.NewInt(1))
				if raw.Cmp(max) > 0 {
					raw.Sub(raw, big.NewInt(2))
				}
			}
			b := make([]byte, 32)
			raw.FillBytes(b)
			if k := keyFor(r); k == nil || !reenc(r, nil, b, k) {
				return nil
			}
			slot(r).plain = raw
			w.v.Class("r2-share-plaintext-out-of-range:" + kind)
			w.v.Count("r2_share_plaintext_out_of_range", 1)
		}
	case "wrongkey":
		for _, r := range targets {
			x := tssworld.ScalarFrom("c04-otherpub", w.c.Seed, m.idx, r.idx)
			k, err := tss.ComputeSecretSym(m.dkg.OneTimePrivKey, x.Point())
			if err != nil || !reenc(r, slot(r).plain, nil, k) {
				w.fail("harness", "wrongkey: %v", err)
				return nil
			}
			slot(r).keyX = bigOf(x)
		}
	case "swap":
		if w.n < 3 {
			enc[w.slotOf(m, targets[0])][v%32] ^= 0x80
			slot(targets[0]).mangled = true
			break
		}
		r1 := targets[0]
		r2 := w.target(m, m.spec.To+1)
		if len(targets) > 1 {
			r2 = targets[1]
		}
		s1, s2 := w.slotOf(m, r1), w.slotOf(m, r2)
		enc[s1], enc[s2] = enc[s2], enc[s1]
		a.slots[s1], a.slots[s2] = a.slots[s2], a.slots[s1]
	case "short":
		enc = enc[:len(enc)-1]
		it.wellFormed = false
	case "long":
		enc = append(enc, enc[len(enc)-1].Clone())
		it.wellFormed = false
	case "badlen": // the right number of shares, ONE of them not a 48-byte ciphertext: the message is malformed as a whole
		idx := 0
		switch v % 4 {
		case 2: // a middle slot (the first one if there is none)
			if len(enc) > 2 {
				idx = 1 + m.spec.To%(len(enc)-2)
			}
		case 3:
			idx = len(enc) - 1
		}
		switch (v / 4) % 4 {
		case 0:
			enc[idx] = enc[idx][:len(enc[idx])-1]
		case 1:
			enc[idx] = append(enc[idx], 0x00)
		case 2:
			enc[idx] = tss.EncSecretShare{}
		default:
			enc[idx] = enc[idx][:32] // the encrypted value without its nonce
		}
		a.slots[idx].mangled = true
		it.wellFormed = false
		switch {
		case idx == len(enc)-1:
			w.v.Class("r2-malformed-share-length:last")
		case idx == 0:
			w.v.Class("r2-malformed-share-length:first")
		default:
			w.v.Class("r2-malformed-share-length:middle")
		}
		w.v.Count("r2_malformed_share_length", 1)
	case "wrongmid":
		it.claimed = w.target(m, m.spec.To).id
	}
	if devk != "" {
		it.label, it.honest = devk, false
		w.dev(m, "r2:"+devk)
	}
	a.info = tsstypes.Round2Info{MemberID: it.claimed, EncryptedSecretShares: enc}
	it.msg = tsstypes.NewMsgSubmitDKGRound2(w.gid, a.info, it.sender.Addr.String())
	if it.wellFormed && it.claimed == m.id {
		m.inFlight[2] = true
	}
	m.lastMsg[2] = it
	return it
}

func (w *world) r1InfoOf(id tss.MemberID) *tsstypes.Round1Info {
	for i := range w.gr.Round1Infos {
		if w.gr.Round1Infos[i].MemberID == id {
			return &w.gr.Round1Infos[i]
		}
	}
	return nil
}

// forgeComplaintProof builds a complaint proof for an arbitrary claimed key-sym the way tss.SignComplaint builds it for
// the real one: nonce k, A1 = kG, A2 = k*PubJ, c = H(A1, A2, PubI, PubJ, claimed), z = k + c*privI.
func forgeComplaintProof(pubI, pubJ tss.Point, privI tss.Scalar, claimed tss.Point, salt ...any) (tss.ComplaintSignature, error) {
	for ctr := 0; ctr < 8; ctr++ {
		nonce := tssworld.ScalarFrom(append([]any{"c04-forge-nonce", ctr}, salt...)...)
		nonceSym, err := tss.ComputeSecretSym(nonce, pubJ)
		if err != nil {
			return nil, err
		}
		ch, err := tss.HashRound3Complain(nonce.Point(), nonceSym, pubI, pubJ, claimed)
		if err != nil {
			continue
		}
		sig, err := tss.Sign(privI, ch, nonce, nil)
		if err != nil {
			return nil, err
		}
		return tss.NewComplaintSignatureFromComponents(sig.R(), nonceSym, sig.S())
	}
	return nil, fmt.Errorf("no usable challenge")
}

// genuineComplaint is tss.SignComplaint with the complainant's real one-time key against respondent r.
func (w *world) genuineComplaint(m, r *mem) (*tsstypes.Complaint, bool) {
	ri, rr := w.r1InfoOf(m.id), w.r1InfoOf(r.id)
	if ri == nil || rr == nil {
		return nil, false
	}
	sig, keySym, err := tss.SignComplaint(ri.OneTimePubKey, rr.OneTimePubKey, m.dkg.OneTimePrivKey)
	if err != nil {
		w.fail("harness", "SignComplaint: %v", err)
		return nil, false
	}
	return &tsstypes.Complaint{Complainant: m.id, Respondent: r.id, KeySym: keySym, Signature: sig}, true
}

func (w *world) describe(m *mem, c tsstypes.Complaint, genuine bool, label string) cdesc {
	d := cdesc{complainant: c.Complainant, respondent: c.Respondent, genuine: genuine, label: label}
	if genuine && c.Respondent >= 1 && int(c.Respondent) <= w.n && c.Respondent != m.id {
		d.expectSuccess = w.bad(w.mems[c.Respondent-1], m)
	}
	return d
}

func (w *world) buildR3(m *mem, deviate bool) *item {
	if w.chainStatus() != tsstypes.GROUP_STATUS_ROUND_3 || !m.haveDKG {
		w.v.Count("skipped_not_in_round", 1)
		return nil
	}
	devk := ""
	if deviate {
		devk = m.spec.R3
	}
	if devk == "" && m.forceR3 != "" {
		devk = m.forceR3
	}
	// the daemon's share handling (hook) ...
	own, complaints, err := group.VerifGetOwnPrivKey(m.dkg, w.gr)
	if err != nil {
		// The daemon gave up. If a dealer sent this member a non-canonical plaintext the run goes on with the complaints
		// the protocol prescribes (tss.SignComplaint needs no decryption), so that the chain's side of the same
		// situation is judged too; the daemon's failure is reported at the end unless something else breaks first.
		outOfRange := false
		for _, j := range w.others(m) {
			if sl := w.slotOf(j, m); sl >= 0 && sl < len(j.slots) && j.slots[sl].plain != nil && j.slots[sl].plain.Cmp(ref.TSSN) >= 0 {
				outOfRange = true
			}
		}
		if !outOfRange {
			w.fail("C04/daemon-error", "getOwnPrivKey(member %d): %v", m.id, err)
			return nil
		}
		if w.daemonErr == "" {
			w.daemonErr = fmt.Sprintf("getOwnPrivKey(member %d) fails on a share with plaintext >= N instead of producing a complaint: %v", m.id, err)
		}
		w.v.Class("daemon-error-on-out-of-range-share")
		own, complaints = nil, nil
		for _, j := range w.others(m) {
			if w.bad(j, m) {
				if c, ok := w.genuineComplaint(m, j); ok {
					complaints = append(complaints, *c)
				}
			}
		}
	}
	// ... against what the harness knows about every share dealt to m
	want := map[tss.MemberID]bool{}
	sum := ref.TSSEvalPoly(m.dealt, uint64(m.id))
	for _, j := range w.others(m) {
		if w.bad(j, m) {
			want[j.id] = true
		} else {
			sum = modN(new(big.Int).Add(sum, j.slots[w.slotOf(j, m)].plain))
		}
	}
	got := map[tss.MemberID]bool{}
	for _, c := range complaints {
		got[c.Respondent] = true
		if c.Complainant != m.id {
			w.fail("C04/daemon-complaints", "daemon of member %d built a complaint with complainant %d", m.id, c.Complainant)
		}
	}
	for _, j := range w.others(m) {
		if want[j.id] != got[j.id] {
			w.fail("C04/daemon-complaints", "member %d about dealer %d: share inconsistent=%v but daemon complains=%v (n=%d t=%d)",
				m.id, j.id, want[j.id], got[j.id], w.n, w.t)
			return nil
		}
	}
	if len(complaints) == 0 {
		if own == nil || bigOf(own).Cmp(sum) != 0 {
			w.fail("C04/daemon-privkey", "member %d: daemon key share %x, reference sum of dealt shares %x", m.id, []byte(own), ref.TSSScalarBytes(sum))
			return nil
		}
		m.priv = own
	}
	it := &item{kind: "complain", label: "honest", m: m, sender: m.acct, claimed: m.id, wellFormed: true, honest: true}
	confirm := func(priv tss.Scalar, mid tss.MemberID, ctx []byte, wf bool) bool {
		sig, err := tss.SignOwnPubKey(mid, ctx, priv.Point(), priv)
		if err != nil {
			w.fail("harness", "SignOwnPubKey: %v", err)
			return false
		}
		it.kind, it.priv, it.wellFormed = "confirm", priv, wf
		it.msg = tsstypes.NewMsgConfirm(w.gid, m.id, sig, m.acct.Addr.String())
		return true
	}
	// the member's own share is consistent with its own commitments?
	ownOK := m.committed != nil && ref.TSSEvalPoly(m.dealt, uint64(m.id)).Cmp(ref.TSSEvalPoly(m.committed, uint64(m.id))) == 0
	daemon := func() bool {
		if len(complaints) > 0 {
			cs := append([]tsstypes.Complaint(nil), complaints...)
			if alt := m.spec.Alt; alt&altKeySym != 0 && !m.noAlt[3] {
				// the daemon's complaints with the key-sym written in another encoding of the same point and the proof made
				// over those bytes: still the true evidence against a really bad share
				sub := alt >> 8
				if sub&(1<<uint(len(cs))-1) == 0 {
					sub = -1
				}
				np := 0
				for i := range cs {
					ri, rr := w.r1InfoOf(m.id), w.r1InfoOf(cs[i].Respondent)
					if sub>>uint(i)&1 == 0 || ri == nil || rr == nil {
						continue
					}
					ks := altEncode(cs[i].KeySym, altKind(alt, i))
					sig, err := forgeComplaintProof(ri.OneTimePubKey, rr.OneTimePubKey, m.dkg.OneTimePrivKey, ks, w.c.Seed, m.idx, i)
					if err != nil {
						w.fail("harness", "forgeComplaintProof: %v", err)
						return false
					}
					cs[i].KeySym, cs[i].Signature = ks, sig
					np++
				}
				if np > 0 {
					it.eitherOK, it.altKinds, it.label = true, []string{"keysym"}, "honest+altenc"
					w.dev(m, "r3:altenc")
					w.v.Class("altenc-keysym-in-true-complaint")
				}
			}
			for _, c := range cs {
				it.complaints = append(it.complaints, w.describe(m, c, true, "daemon"))
			}
			it.msg = tsstypes.NewMsgComplain(w.gid, cs, m.acct.Addr.String())
			return true
		}
		return confirm(own, m.id, w.gr.DKGContext, ownOK)
	}
	r := w.target(m, m.spec.To)
	v := m.spec.Var
	switch devk {
	case "":
		if !daemon() {
			return nil
		}
	case "false", "mixed", "badkeysym", "badsig", "nonmember", "self", "impersonate":
		c, ok := w.genuineComplaint(m, r)
		if !ok {
			w.v.Count("dev_inapplicable", 1)
			return nil
		}
		genuine := true
		var all []tsstypes.Complaint
		switch devk {
		case "mixed": // what the daemon found, plus one more (possibly repeated) complaint
			for _, dc := range complaints {
				it.complaints = append(it.complaints, w.describe(m, dc, true, "daemon"))
				all = append(all, dc)
			}
			if v%2 == 1 {
				it.complaints = append(it.complaints, w.describe(m, *c, true, devk))
				all = append(all, *c)
			}
		case "false":
			if !m.noAlt[3] && (v%3 == 2 || m.spec.Alt&altKeySym != 0) {
				// the REAL key-sym in another encoding of the same curve point (65-byte uncompressed / hybrid form), with
				// the proof made over those bytes: still a complaint about whatever share was dealt, so it must succeed
				// exactly when the share is bad - the encoding of the evidence must not decide the outcome
				if pk, perr := secp256k1.ParsePubKey(c.KeySym); perr == nil {
					alt := pk.SerializeUncompressed()
					if (v/3)%2 == 1 { // hybrid form: 0x06 | (y & 1)
						alt[0] = 0x06 | (alt[64] & 1)
					}
					sig, err := forgeComplaintProof(w.r1InfoOf(m.id).OneTimePubKey, w.r1InfoOf(r.id).OneTimePubKey, m.dkg.OneTimePrivKey, tss.Point(alt), w.c.Seed, m.idx)
					if err != nil {
						w.fail("harness", "forgeComplaintProof: %v", err)
						return nil
					}
					c.KeySym, c.Signature = tss.Point(alt), sig
					it.eitherOK, it.altKinds = true, []string{"keysym"}
					w.v.Class("complain-keysym-in-uncompressed-encoding")
				}
			}
		case "badkeysym":
			switch v % 3 {
			case 0:
				c.KeySym = w.r1InfoOf(r.id).OneTimePubKey
			case 1:
				c.KeySym = negPoint(c.KeySym)
			default:
				c.KeySym = tssworld.ScalarFrom("c04-fakesym", w.c.Seed, m.idx).Point()
			}
			if (v/3)%2 == 1 {
				// the wrong key-sym with a proof RE-MADE for it: the Schnorr half under the complainant's one-time key is
				// valid (the challenge covers the claimed key-sym), only the second half of the equality proof
				// (z*PubJ == A2 + c*keySym) can tell that the key-sym is not the Diffie-Hellman key
				sig, err := forgeComplaintProof(w.r1InfoOf(m.id).OneTimePubKey, w.r1InfoOf(r.id).OneTimePubKey, m.dkg.OneTimePrivKey, c.KeySym, w.c.Seed, m.idx)
				if err != nil {
					w.fail("harness", "forgeComplaintProof: %v", err)
					return nil
				}
				c.Signature = sig
				w.v.Class("complain-wrong-keysym-with-consistent-proof")
			}
			genuine = false
		case "badsig":
			if v%2 == 0 {
				s := clone(c.Signature)
				s[len(s)-1] ^= 0x01
				c.Signature = s
			} else { // a proof made with another private key, for the real key-sym
				other := tssworld.ScalarFrom("c04-otherot", w.c.Seed, m.idx)
				sig, _, err := tss.SignComplaint(w.r1InfoOf(m.id).OneTimePubKey, w.r1InfoOf(r.id).OneTimePubKey, other)
				if err != nil {
					w.fail("harness", "SignComplaint: %v", err)
					return nil
				}
				c.Signature = sig
			}
			genuine = false
		case "nonmember":
			c.Respondent = tss.MemberID(w.n + 1 + v%3)
			genuine = false
		case "self":
			c.Respondent = m.id
			genuine = false
			it.wellFormed = false // fails ValidateBasic
		case "impersonate":
			c.Complainant = r.id
			c.Respondent = m.id
			it.claimed = r.id
			genuine = false
		}
		it.complaints = append(it.complaints, w.describe(m, *c, genuine, devk))
		all = append(all, *c)
		it.msg = tsstypes.NewMsgComplain(w.gid, all, m.acct.Addr.String())
	case "forged":
		// One MsgComplain whose first complaint(s) are the sender's own (so the sender check passes) and which carries,
		// at position 1 or later, a complaint in the name of ANOTHER member. A complaint message speaks for exactly one
		// member, its sender: the whole message must be refused and the named member - who sent nothing - must not be
		// blamed for the "false complaint".
		c, ok := w.genuineComplaint(m, r)
		if !ok {
			w.v.Count("dev_inapplicable", 1)
			return nil
		}
		var all []tsstypes.Complaint
		for _, dc := range complaints { // what the daemon found ...
			it.complaints = append(it.complaints, w.describe(m, dc, true, "daemon"))
			all = append(all, dc)
		}
		if len(all) == 0 { // ... or a complaint about a correct share
			it.complaints = append(it.complaints, w.describe(m, *c, true, devk))
			all = append(all, *c)
		}
		pos := 1
		if v%6 == 5 {
			pos = 2 + (v/6)%2
		}
		for len(all) < pos { // more own complaints in front of the forged one
			o := w.target(m, m.spec.To+len(all))
			oc, ok := w.genuineComplaint(m, o)
			if !ok {
				oc = c
			}
			it.complaints = append(it.complaints, w.describe(m, *oc, true, devk))
			all = append(all, *oc)
		}
		if pos > len(all) {
			pos = len(all)
		}
		victim := w.target(m, m.spec.To+1+v/48) // the member whose name is used
		resp := m                               // whom the forged complaint accuses: anybody but the victim
		if cands := w.others(victim); len(cands) > 0 {
			resp = cands[(v/6+m.spec.To)%len(cands)]
		}
		f := tsstypes.Complaint{Complainant: victim.id, Respondent: resp.id, KeySym: c.KeySym, Signature: c.Signature}
		kind := "own-proof"
		switch (v / 6) % 8 {
		case 0, 1, 2: // the sender's own (valid for the sender) key-sym and proof under the other member's name
		case 3, 4, 5: // a well-formed proof made with a key nobody in the group owns
			kind = "fresh-proof"
			fk := tssworld.ScalarFrom("c04-forged", w.c.Seed, m.idx, victim.idx)
			vi, ri := w.r1InfoOf(victim.id), w.r1InfoOf(resp.id)
			if vi == nil || ri == nil {
				break
			}
			sig, keySym, err := tss.SignComplaint(vi.OneTimePubKey, ri.OneTimePubKey, fk)
			if err != nil {
				w.fail("harness", "SignComplaint: %v", err)
				return nil
			}
			f.KeySym, f.Signature = keySym, sig
		case 6: // the victim's one-time public key as key-sym
			kind = "pubkey-as-keysym"
			if vi := w.r1InfoOf(victim.id); vi != nil {
				f.KeySym = vi.OneTimePubKey
			}
		default: // not even a point / a signature
			kind = "garbage"
			if v%2 == 0 {
				f.KeySym = tss.Point(clone(c.KeySym)[:len(c.KeySym)-1])
			} else {
				f.Signature = tss.ComplaintSignature(append(clone(c.Signature), 0x01))
			}
		}
		all = append(all[:pos], append([]tsstypes.Complaint{f}, all[pos:]...)...)
		fd := cdesc{complainant: f.Complainant, respondent: f.Respondent, label: devk}
		it.complaints = append(it.complaints[:pos], append([]cdesc{fd}, it.complaints[pos:]...)...)
		it.forged = []tss.MemberID{victim.id}
		it.wellFormed = false // must be refused as a whole
		it.msg = tsstypes.NewMsgComplain(w.gid, all, m.acct.Addr.String())
		w.v.Class("complain-mixed-complainants")
		if pos == 1 {
			w.v.Class("complain-mixed-complainants:pos=1")
		} else {
			w.v.Class("complain-mixed-complainants:pos>=2")
		}
		w.v.Class("complain-mixed-complainants:" + kind)
		if victim.strict {
			w.v.Class("complain-mixed-complainants:names-strict-member")
		}
		w.v.Count("complain_mixed_complainants", 1)
		if pos == 1 && kind != "garbage" {
			w.v.Count("complain_mixed_complainants_pos1_wellformed", 1)
		}
	case "badconfirm":
		priv, mid, ctx := own, m.id, w.gr.DKGContext
		if priv == nil {
			priv = tssworld.ScalarFrom("c04-nopriv", w.c.Seed, m.idx)
		}
		switch v % 3 {
		case 0:
			priv = scalarOf(modN(new(big.Int).Add(bigOf(priv), big.NewInt(1))))
			// own+1 must really be a wrong key: a member whose own share is off by one from its commitments (mismatch
			// in the constant term) would otherwise hit the key the chain derived from the commitments
			right := new(big.Int)
			for _, j := range w.mems {
				if j.committed == nil {
					right = nil
					break
				}
				right = modN(right.Add(right, ref.TSSEvalPoly(j.committed, uint64(m.id))))
			}
			if right != nil && bigOf(priv).Cmp(right) == 0 {
				priv = scalarOf(modN(new(big.Int).Add(bigOf(priv), big.NewInt(1))))
			}
			if bigOf(priv).Sign() == 0 {
				priv = scalarOf(big.NewInt(2))
			}
		case 1:
			mid = m.id%tss.MemberID(w.n) + 1
		default:
			ctx = flipCtx(ctx)
		}
		if !confirm(priv, mid, ctx, false) {
			return nil
		}
	}
	if devk != "" {
		it.label, it.honest = devk, false
		w.dev(m, "r3:"+devk)
	}
	if it.wellFormed && it.claimed == m.id && !it.eitherOK {
		m.inFlight[3] = true
	}
	m.lastMsg[3] = it
	return it
}

// buildSecond builds the SECOND round-3 message of member m (Two): a fresh, in itself well-formed confirm or complaint.
// Every member speaks once in round 3 (both handlers refuse a member that "already submit confirm / complaint
// message"): the second message must be refused and leave no trace - above all it must not count as another member
// having spoken, or the round ends before an honest member could complain.
func (w *world) buildSecond(m *mem) *item {
	first := m.lastMsg[3]
	if w.chainStatus() != tsstypes.GROUP_STATUS_ROUND_3 || !m.haveDKG || first == nil || first.msg == nil {
		w.v.Count("second_inapplicable", 1)
		return nil
	}
	kind := first.kind
	if m.spec.Two&twoOther != 0 {
		kind = map[string]string{"confirm": "complain", "complain": "confirm"}[first.kind]
	}
	it := &item{kind: kind, label: "second:" + first.kind + "-" + kind, m: m, sender: m.acct, claimed: m.id, wellFormed: true, second: true}
	switch kind {
	case "confirm":
		priv := m.priv
		ownOK := m.committed != nil && ref.TSSEvalPoly(m.dealt, uint64(m.id)).Cmp(ref.TSSEvalPoly(m.committed, uint64(m.id))) == 0
		if priv == nil { // the member was dealt a bad share: it has no key share to confirm with
			priv = tssworld.ScalarFrom("c04-second-nopriv", w.c.Seed, m.idx)
			ownOK = false
		}
		sig, err := tss.SignOwnPubKey(m.id, w.gr.DKGContext, priv.Point(), priv)
		if err != nil {
			w.fail("harness", "SignOwnPubKey: %v", err)
			return nil
		}
		it.priv, it.wellFormed = priv, ownOK
		it.msg = tsstypes.NewMsgConfirm(w.gid, m.id, sig, m.acct.Addr.String())
	case "complain":
		r := w.target(m, m.spec.To+1)
		c, ok := w.genuineComplaint(m, r)
		if !ok {
			w.v.Count("second_inapplicable", 1)
			return nil
		}
		it.complaints = []cdesc{w.describe(m, *c, true, "second")}
		it.msg = tsstypes.NewMsgComplain(w.gid, []tsstypes.Complaint{*c}, m.acct.Addr.String())
	default:
		return nil
	}
	w.dev(m, "r3:two-messages")
	w.v.Class("r3-two-messages:" + first.kind + "-" + kind)
	if first.label == "honest" || first.label == "honest+altenc" {
		w.v.Class("r3-two-messages:first-is-daemon-message")
	} else {
		w.v.Class("r3-two-messages:first-is-" + first.label)
	}
	same := false
	for _, p := range w.pending {
		same = same || p == first
	}
	if same {
		w.v.Class("r3-two-messages:same-block")
	} else {
		w.v.Class("r3-two-messages:later-block")
	}
	if it.wellFormed {
		m.inFlight[3] = true
	}
	return it
}

// buildExtra builds an injected message that must be rejected: sent out of its round, or by an account that is
// not the claimed member.
func (w *world) buildExtra(x c04Extra) *item {
	n := w.n
	as := w.mems[((x.As%n)+n)%n]
	var m *mem
	sender := w.outside
	if x.From%(n+1) != n {
		m = w.mems[x.From%(n+1)]
		sender = m.acct
		as = m
	}
	st := w.chainStatus()
	round := map[string]tsstypes.GroupStatus{"r1": tsstypes.GROUP_STATUS_ROUND_1, "r2": tsstypes.GROUP_STATUS_ROUND_2,
		"complain": tsstypes.GROUP_STATUS_ROUND_3, "confirm": tsstypes.GROUP_STATUS_ROUND_3}[x.Kind]
	if m != nil && st == round {
		w.v.Count("extra_inapplicable", 1) // would be an in-round message of a member
		return nil
	}
	it := &item{kind: x.Kind, m: m, sender: sender, claimed: as.id, wellFormed: true}
	if m == nil {
		it.label = "nonmember-sender"
	} else {
		it.label = "out-of-round"
	}
	fresh := tssworld.ScalarFrom("c04-extra-key", w.c.Seed, x.From, x.As, x.Pos)
	switch x.Kind {
	case "r1":
		src := as
		a, err := w.honestR1(src, as.id) // valid proofs for the claimed member id
		if err != nil {
			w.fail("harness", "round1 material: %v", err)
			return nil
		}
		it.r1 = a
		it.msg = tsstypes.NewMsgSubmitDKGRound1(w.gid, a.info, sender.Addr.String())
	case "r2":
		var enc tss.EncSecretShares
		if as.lastMsg[2] != nil && as.lastMsg[2].r2 != nil && as.lastMsg[2].wellFormed {
			enc = as.lastMsg[2].r2.info.EncryptedSecretShares.Clone()
		} else {
			ng := detNonce{seed: "extra", ctr: &w.nonceC}
			for i := 0; i < n-1; i++ {
				e, err := tss.Encrypt(tssworld.ScalarFrom("c04-extra-share", w.c.Seed, i), fresh.Point(), ng)
				if err != nil {
					w.fail("harness", "encrypt: %v", err)
					return nil
				}
				enc = append(enc, e)
			}
		}
		it.r2 = &r2Attempt{info: tsstypes.Round2Info{MemberID: as.id, EncryptedSecretShares: enc}}
		it.msg = tsstypes.NewMsgSubmitDKGRound2(w.gid, it.r2.info, sender.Addr.String())
	case "complain":
		resp := w.target(as, x.Pos)
		var c *tsstypes.Complaint
		if as.haveDKG && w.gr != nil {
			if g, ok := w.genuineComplaint(as, resp); ok {
				c = g
			}
		}
		if c == nil {
			sig, keySym, err := tss.SignComplaint(fresh.Point(), tssworld.ScalarFrom("c04-extra-key2", w.c.Seed).Point(), fresh)
			if err != nil {
				w.fail("harness", "SignComplaint: %v", err)
				return nil
			}
			c = &tsstypes.Complaint{Complainant: as.id, Respondent: resp.id, KeySym: keySym, Signature: sig}
		}
		it.complaints = []cdesc{w.describe(as, *c, false, it.label)}
		it.msg = tsstypes.NewMsgComplain(w.gid, []tsstypes.Complaint{*c}, sender.Addr.String())
	case "confirm":
		priv := fresh
		if as.priv != nil {
			priv = as.priv
		}
		sig, err := tss.SignOwnPubKey(as.id, w.dkgCtx, priv.Point(), priv)
		if err != nil {
			w.fail("harness", "SignOwnPubKey: %v", err)
			return nil
		}
		it.priv = priv
		it.msg = tsstypes.NewMsgConfirm(w.gid, as.id, sig, sender.Addr.String())
	default:
		return nil
	}
	w.dev(m, it.label+":"+x.Kind)
	return it
}

func shortLog(log string) string {
	for _, k := range []string{"one time signature", "A0 signature", "invalid coefficient commit", "invalid one-time public key", "invalid symmetric key", "invalid complaint",
		"already submit", "not round"} {
		if bytes.Contains([]byte(log), []byte(k)) {
			return k
		}
	}
	if len(log) > 48 {
		log = log[len(log)-48:]
	}
	return log
}

// pendingFor: does Query/PendingGroups list the group for the account (on the last committed state)?
func (w *world) pendingFor(a *sim.Account) (bool, error) {
	resp, err := w.qs.PendingGroups(w.ch.Ctx(), &tsstypes.QueryPendingGroupsRequest{Address: a.Addr.String()})
	if err != nil {
		return false, err
	}
	for _, g := range resp.PendingGroups {
		if g == uint64(w.gid) {
			return true, nil
		}
	}
	return false, nil
}

// restart: member m's daemon starts again (cylinder/workers/group Round1/2/3.Start -> handlePendingGroups -> handleGroup).
func (w *world) restart(m *mem) {
	listed, err := w.pendingFor(m.acct)
	if err != nil {
		w.fail("C04/pending-groups-query", "PendingGroups(member %d): %v", m.id, err)
		return
	}
	st := w.chainStatus()
	w.v.Class(fmt.Sprintf("daemon-restart:round%d", int(st)))
	if !listed {
		w.v.Class("daemon-restart:nothing-pending")
		return
	}
	w.v.Class("daemon-restart:redoes-step")
	var it *item
	switch st {
	case tsstypes.GROUP_STATUS_ROUND_1:
		// Round1.handleGroup: new round-1 data, written over the local record, then sent
		if it = w.buildR1(m, false); it != nil && it.r1 != nil {
			m.dkg = store.DKG{GroupID: w.gid, MemberID: m.id, Coefficients: it.r1.coeffs, OneTimePrivKey: it.r1.otPriv}
			m.dealt = it.r1.dealt
		}
	case tsstypes.GROUP_STATUS_ROUND_2:
		it = w.buildR2(m, false) // Round2.handleGroup: shares from the local record
	case tsstypes.GROUP_STATUS_ROUND_3:
		it = w.buildR3(m, false) // Round3.handleGroup
	}
	if it != nil {
		m.restarts++
		it.label += "+restart"
		w.push(it)
	}
}

// ---- model: what must happen to a submission ---------------------------------------------------------------

func roundOf(kind string) int {
	switch kind {
	case "r1":
		return 1
	case "r2":
		return 2
	case "complain", "confirm":
		return 3
	}
	return 0
}

var roundStatus = [4]tsstypes.GroupStatus{0, tsstypes.GROUP_STATUS_ROUND_1, tsstypes.GROUP_STATUS_ROUND_2, tsstypes.GROUP_STATUS_ROUND_3}

// expect returns (accept, certain, why).
func (w *world) expect(it *item) (bool, bool, string) {
	k := roundOf(it.kind)
	if w.status != roundStatus[k] {
		return false, true, "out of round"
	}
	if it.claimed < 1 || int(it.claimed) > w.n || w.mems[it.claimed-1].acct != it.sender {
		return false, true, "sender is not the claimed member"
	}
	if w.set[k][it.claimed] {
		return false, true, "already submitted"
	}
	if !it.wellFormed {
		return false, true, "malformed content (" + it.label + ")"
	}
	if w.accBroken && k <= 2 {
		return false, false, "accumulated commitment is the point at infinity"
	}
	if it.eitherOK {
		return true, false, "alternative encoding of the same points"
	}
	return true, true, ""
}

func (w *world) observe(res *sim.BlockResult) {
	defer func() { w.pending, w.txs = nil, nil }()
	if len(res.Resp.TxResults) != len(w.pending) {
		w.fail("harness", "tx results %d != submitted %d", len(res.Resp.TxResults), len(w.pending))
		return
	}
	for i, it := range w.pending {
		tr := res.Resp.TxResults[i]
		exp, certain, why := w.expect(it)
		got := tr.Code == 0
		if it.second && w.doubleAt == 0 {
			w.doubleAt = res.Height
		}
		if it.kind == "complain" && it.honest && it.m != nil && it.m.strict && w.doubleAt > 0 && res.Height > w.doubleAt {
			for _, d := range it.complaints {
				if d.genuine && d.expectSuccess {
					w.v.Class("honest-complaint-after-double-message")
					break
				}
			}
		}
		if certain && !exp && got && it.second && why == "already submitted" {
			// The member was heard twice. That alone breaks the one-message-per-member contract; it is reported at the end
			// of the run (C04/bad-accepted) unless one of the guarantees it endangers breaks first: the model goes on with
			// the member counted ONCE, so the round may not end before everybody else has spoken.
			if w.deferred == "" {
				w.deferred = fmt.Sprintf("%s of member %d (%s) at height %d was accepted although the member had already sent its round-3 message (n=%d t=%d)",
					it.kind, it.m.id, it.label, res.Height, w.n, w.t)
			}
			w.v.Class("r3-second-message-accepted")
			certain = false
		}
		if certain && exp != got {
			who := fmt.Sprint("outsider as member ", it.claimed)
			if it.m != nil {
				who = fmt.Sprint("member ", it.m.id, " as ", it.claimed)
			}
			if exp {
				sig := "C04/model-accept"
				if it.honest {
					sig = "C04/honest-rejected"
				}
				w.fail(sig, "%s %s (%s) at height %d rejected: code=%d log=%q (n=%d t=%d, model status %v)", it.kind, who, it.label, res.Height, tr.Code, tr.Log, w.n, w.t, w.status)
			} else {
				if len(it.forged) > 0 { // what did the message do to the members it merely names?
					mal := w.malicious()
					for _, id := range it.forged {
						if vm := w.mems[id-1]; mal[id] && len(vm.reasons) == 0 {
							sig := "C04/blamed-without-cause"
							if vm.strict {
								sig = "C04/honest-blamed"
							}
							w.fail(sig, "member %d is marked malicious at height %d: member %d sent one MsgComplain (accepted, code 0) in which a later complaint names member %d as complainant; member %d sent no complaint (n=%d t=%d)",
								id, res.Height, it.m.id, id, id, w.n, w.t)
						}
					}
				}
				w.fail("C04/bad-accepted", "%s %s (%s) at height %d was accepted although: %s (n=%d t=%d)", it.kind, who, it.label, res.Height, why, w.n, w.t)
			}
			return
		}
		if !certain {
			w.v.Count("uncertain_acceptance", 1)
		}
		if it.eitherOK && why == "alternative encoding of the same points" {
			for _, kd := range it.altKinds {
				if got {
					w.v.Class("altenc-" + kd + "-accepted")
				} else {
					w.v.Class("altenc-" + kd + "-refused")
				}
			}
			if !got {
				w.v.Count("altenc_refused:"+shortLog(tr.Log), 1)
			} else if it.m != nil {
				it.m.altOK[roundOf(it.kind)] = true
			}
		}
		if os.Getenv("VERIF_C04_DEBUG") != "" {
			fmt.Printf("h=%d %s %s claimed=%d code=%d expect=%v/%v log=%q\n", res.Height, it.kind, it.label, it.claimed, tr.Code, exp, certain, tr.Log)
		}
		if !got {
			w.v.Count("rejected_txs", 1)
			for _, e := range tr.Events {
				if e.Type == tsstypes.EventTypeComplainSuccess || e.Type == tsstypes.EventTypeComplainFailed {
					w.fail("C04/rejected-effects", "rejected %s (%s) emitted %s", it.kind, it.label, e.Type)
				}
			}
			continue
		}
		w.v.Count("accepted_txs", 1)
		k := roundOf(it.kind)
		w.set[k][it.claimed] = true
		if len(w.set[k]) == w.n {
			w.pendingT = true
		}
		m := w.mems[it.claimed-1]
		switch it.kind {
		case "r1":
			a := it.r1
			m.haveDKG = true
			m.dkg = store.DKG{GroupID: w.gid, MemberID: m.id, Coefficients: a.coeffs, OneTimePrivKey: a.otPriv}
			m.dealt, m.committed, m.commits = a.dealt, a.committed, nil
			for _, cm := range a.info.CoefficientCommits { // the model works with the group elements, whatever their encoding
				m.commits = append(m.commits, tss.Point(canon(cm)))
			}
			for idx, cm := range m.commits {
				if idx >= len(w.acc) {
					break
				}
				if w.acc[idx] == nil {
					w.acc[idx] = clone(cm)
					continue
				}
				s, err := ref.TSSAddPoints(w.acc[idx], cm)
				if err != nil || s == nil {
					if !w.accBroken {
						w.v.Class("acc-broken")
					}
					w.accBroken = true
					continue
				}
				w.acc[idx] = s
			}
		case "r2":
			m.slots = it.r2.slots
		case "confirm":
			// nothing: Member.PubKey is checked when the group is ACTIVE
		case "complain":
			var evs []string
			for _, e := range tr.Events {
				if e.Type == tsstypes.EventTypeComplainSuccess || e.Type == tsstypes.EventTypeComplainFailed {
					evs = append(evs, fmt.Sprintf("%s:%s>%s", e.Type, sim.Attr(e, tsstypes.AttributeKeyComplainantID), sim.Attr(e, tsstypes.AttributeKeyRespondentID)))
				}
			}
			if len(evs) != len(it.complaints) {
				w.fail("C04/complaint-events", "MsgComplain of member %d with %d complaints produced events %v", m.id, len(it.complaints), evs)
				return
			}
			for ci, d := range it.complaints {
				ord := "lt"
				if d.complainant > d.respondent {
					ord = "gt"
				}
				success := evs[ci] == fmt.Sprintf("%s:%d>%d", tsstypes.EventTypeComplainSuccess, d.complainant, d.respondent)
				failed := evs[ci] == fmt.Sprintf("%s:%d>%d", tsstypes.EventTypeComplainFailed, d.complainant, d.respondent)
				if !success && !failed {
					w.fail("C04/complaint-events", "complaint %d>%d produced event %s", d.complainant, d.respondent, evs[ci])
					return
				}
				switch {
				case d.genuine && d.expectSuccess:
					w.v.Class("complaint:true:" + ord)
					if int(d.respondent) >= 1 && int(d.respondent) <= w.n && w.mems[d.respondent-1].altOK[1] {
						w.v.Class("altenc-r1-dealer:true-complaint-against")
					}
					if m.altOK[1] {
						w.v.Class("altenc-r1-member:true-complaint-by")
					}
					if !success {
						w.fail("C04/cheater-not-caught", "member %d (%s) complained with a correct proof about the inconsistent share dealt by %d, but the complaint failed (n=%d t=%d)",
							d.complainant, d.label, d.respondent, w.n, w.t)
						return
					}
					w.mems[d.respondent-1].reasons = append(w.mems[d.respondent-1].reasons, reason{fmt.Sprintf("caught by %d", d.complainant), true})
					w.mustNotAct = fmt.Sprintf("dealer %d was caught by member %d", d.respondent, d.complainant)
				case d.genuine:
					w.v.Class("complaint:false:" + ord)
					if int(d.respondent) >= 1 && int(d.respondent) <= w.n && w.mems[d.respondent-1].altOK[1] {
						w.v.Class("altenc-r1-dealer:false-complaint-against")
					}
					if m.altOK[1] {
						w.v.Class("altenc-r1-member:false-complaint-by")
					}
					if !failed {
						w.fail("C04/false-complaint-succeeded", "member %d (%s) complained about the CORRECT share dealt by %d and the complaint succeeded (n=%d t=%d)",
							d.complainant, d.label, d.respondent, w.n, w.t)
						return
					}
					m.reasons = append(m.reasons, reason{fmt.Sprintf("false complaint against %d", d.respondent), true})
				default:
					w.v.Class("complaint:malformed:" + ord)
					if success {
						w.v.Count("converse_mismatch_malformed_complaint_succeeded", 1)
						if int(d.respondent) >= 1 && int(d.respondent) <= w.n {
							r := w.mems[d.respondent-1]
							if !w.bad(r, m) { // a malformed complaint may never convict a correct share
								w.fail("C04/malformed-complaint-succeeded", "malformed complaint (%s) of member %d about the correct share of %d succeeded", d.label, d.complainant, d.respondent)
								return
							}
							r.reasons = append(r.reasons, reason{"malformed complaint about a bad share", false})
						}
					} else {
						m.reasons = append(m.reasons, reason{"malformed complaint (" + d.label + ")", false})
					}
				}
			}
		}
	}
	w.endBlock(res)
}

func (w *world) malicious() map[tss.MemberID]bool {
	out := map[tss.MemberID]bool{}
	ms, err := w.ch.App.TSSKeeper.GetGroupMembers(w.ch.Ctx(), w.gid)
	if err != nil || len(ms) != w.n {
		w.fail("C04/members", "group has %d members, expected %d (%v)", len(ms), w.n, err)
		return out
	}
	for _, m := range ms {
		if m.IsMalicious {
			out[m.ID] = true
		}
	}
	return out
}

func (w *world) endBlock(res *sim.BlockResult) {
	w.refresh()
	if !w.ok() {
		return
	}
	mal := w.malicious()
	// blame
	for _, m := range w.mems {
		asserted := false
		for _, r := range m.reasons {
			asserted = asserted || r.asserted
		}
		switch {
		case mal[m.id] && m.strict:
			w.fail("C04/honest-blamed", "member %d followed the protocol and is marked malicious at height %d (n=%d t=%d, daemon restarts %d, complaints involving it: %v)",
				m.id, res.Height, w.n, w.t, m.restarts, m.reasons)
		case mal[m.id] && len(m.reasons) == 0:
			w.fail("C04/blamed-without-cause", "member %d is marked malicious at height %d although no complaint justifies it (n=%d t=%d)", m.id, res.Height, w.n, w.t)
		case !mal[m.id] && asserted:
			w.fail("C04/not-marked", "member %d is not marked malicious at height %d although: %v", m.id, res.Height, m.reasons)
		case !mal[m.id] && len(m.reasons) > 0:
			w.v.Count("converse_mismatch_unmarked", 1)
		}
	}
	if !w.ok() {
		return
	}
	// status machine
	if w.pendingT {
		switch w.status {
		case tsstypes.GROUP_STATUS_ROUND_1:
			w.status = tsstypes.GROUP_STATUS_ROUND_2
		case tsstypes.GROUP_STATUS_ROUND_2:
			w.status = tsstypes.GROUP_STATUS_ROUND_3
		case tsstypes.GROUP_STATUS_ROUND_3:
			anyReason := len(mal) > 0
			for _, m := range w.mems {
				for _, r := range m.reasons {
					anyReason = anyReason || r.asserted
				}
			}
			if anyReason {
				w.status = tsstypes.GROUP_STATUS_FALLEN
			} else {
				w.status = tsstypes.GROUP_STATUS_ACTIVE
			}
		}
		w.pendingT = false
	}
	if !w.cleaned && w.created+int64(w.c.Period) <= res.Height {
		if w.status != tsstypes.GROUP_STATUS_ACTIVE && w.status != tsstypes.GROUP_STATUS_FALLEN {
			w.finalAtRound = int(w.status)
			w.status = tsstypes.GROUP_STATUS_EXPIRED
		}
		w.cleaned = true
		for k := 1; k <= 3; k++ {
			w.set[k] = map[tss.MemberID]bool{}
		}
	}
	got := w.gr.Group.Status
	if os.Getenv("VERIF_C04_DEBUG") != "" {
		fmt.Printf("h=%d end: status=%v model=%v pubkey=%x malicious=%v accBroken=%v\n", res.Height, got, w.status, []byte(w.gr.Group.PubKey), mal, w.accBroken)
	}
	if got == tsstypes.GROUP_STATUS_ACTIVE {
		if w.mustNotAct != "" {
			w.fail("C04/active-despite-cheater", "group is ACTIVE although %s", w.mustNotAct)
			return
		}
		if len(mal) > 0 {
			w.fail("C04/active-with-malicious", "group is ACTIVE with malicious members %v", mal)
			return
		}
		if !w.everActive {
			w.everActive = true
			w.checkActive()
		}
	} else if w.everActive {
		w.fail("C04/active-left", "group left ACTIVE: %v", got)
		return
	}
	if !w.accBroken && w.status == tsstypes.GROUP_STATUS_ROUND_3 && len(w.set[3]) < w.n &&
		(got == tsstypes.GROUP_STATUS_ACTIVE || got == tsstypes.GROUP_STATUS_FALLEN) {
		var silent []tss.MemberID
		for _, m := range w.mems {
			if !w.set[3][m.id] {
				silent = append(silent, m.id)
			}
		}
		w.fail("C04/round3-ended-before-all-spoke", "height %d: group is %v although members %v have not sent their round-3 message and the creation period (created %d + %d) is not over; %s",
			res.Height, got, silent, w.created, w.c.Period, w.deferred)
		return
	}
	if !w.accBroken && got != w.status {
		w.fail("C04/status-model", "height %d: group status %v, model %v (n=%d t=%d created=%d period=%d, submitted r1=%d r2=%d r3=%d)", res.Height, got, w.status,
			w.n, w.t, w.created, w.c.Period, len(w.set[1]), len(w.set[2]), len(w.set[3]))
		return
	}
	if w.accBroken {
		w.status = got
		if got == tsstypes.GROUP_STATUS_ACTIVE {
			w.fail("C04/active-inconsistent", "group is ACTIVE although an accumulated commitment is the point at infinity")
		}
	}
	for k := 1; k <= 3; k++ {
		if got == roundStatus[k] {
			w.reached[k] = true
		}
	}
	// Query/PendingGroups ("all pending groups that waits the given address to submit a message"; the daemon asks it on
	// start to learn which DKG step it still owes): the group is listed for a member exactly while the group is in
	// round k and no round-k message of that member has been accepted
	for _, m := range w.mems {
		want := false
		for k := 1; k <= 3; k++ {
			if got == roundStatus[k] && !w.cleaned {
				want = !w.set[k][m.id]
			}
		}
		listed, err := w.pendingFor(m.acct)
		if err != nil {
			w.fail("C04/pending-groups-query", "PendingGroups(member %d): %v", m.id, err)
			return
		}
		if listed != want && os.Getenv("VERIF_C04_SKIP_PENDING_QUERY_CHECK") == "" { // switch: sensitivity experiments on the restart step alone
			w.fail("C04/pending-groups-query", "height %d: group status %v, member %d submitted its message of this round = %v, but PendingGroups lists the group = %v (n=%d t=%d)",
				res.Height, got, m.id, !want, listed, w.n, w.t)
			return
		}
		if listed {
			w.v.Count("pending_groups_listed", 1)
		} else {
			w.v.Count("pending_groups_not_listed", 1)
		}
	}
	if listed, err := w.pendingFor(w.outside); err != nil || listed {
		w.fail("C04/pending-groups-query", "height %d: PendingGroups lists the group for an account that is not a member (%v)", res.Height, err)
		return
	}
	// round counters = number of accepted submissions (rejected ones leave them unchanged)
	k, ctx := w.ch.App.TSSKeeper, w.ch.Ctx()
	c1, c2, c3 := k.GetRound1InfoCount(ctx, w.gid), k.GetRound2InfoCount(ctx, w.gid), k.GetConfirmComplainCount(ctx, w.gid)
	if w.deferred != "" { // a member was heard twice: the round-3 counter no longer means "members that have spoken"
		w.v.Count("round3_counter_not_compared", 1)
		return
	}
	if c1 != uint64(len(w.set[1])) || c2 != uint64(len(w.set[2])) || c3 != uint64(len(w.set[3])) {
		w.fail("C04/counters", "height %d: round counters (%d,%d,%d), accepted submissions (%d,%d,%d)", res.Height, c1, c2, c3, len(w.set[1]), len(w.set[2]), len(w.set[3]))
		return
	}
	if n1, n2 := len(w.gr.Round1Infos), len(w.gr.Round2Infos); n1 != len(w.set[1]) || n2 != len(w.set[2]) || len(w.gr.Confirms)+len(w.gr.ComplaintsWithStatus) != len(w.set[3]) {
		w.fail("C04/counters", "height %d: stored infos (%d,%d,%d+%d), accepted submissions (%d,%d,%d)", res.Height, n1, n2, len(w.gr.Confirms), len(w.gr.ComplaintsWithStatus),
			len(w.set[1]), len(w.set[2]), len(w.set[3]))
	}
}

func (w *world) flush() bool {
	if !w.ok() {
		return false
	}
	res, err := w.ch.Block(w.txs, 3*time.Second)
	if err != nil {
		w.fail("C04/finalize", "block failed: %v", err)
		return false
	}
	w.observe(res)
	return w.ok()
}

// ---- ACTIVE: the key material must be consistent -------------------------------------------------------------

func (w *world) checkActive() {
	g := w.gr.Group
	var a0s [][]byte
	secret := new(big.Int)
	for _, m := range w.mems {
		if m.committed == nil || len(m.commits) != w.t || m.priv == nil {
			w.fail("C04/active-inconsistent", "group ACTIVE but member %d has unknown commitments / no key share (complained or never confirmed)", m.id)
			return
		}
		a0s = append(a0s, m.commits[0])
		secret = modN(secret.Add(secret, m.committed[0]))
	}
	sumA0, err := ref.TSSAddPoints(a0s...)
	if err != nil || !bytes.Equal(sumA0, g.PubKey) {
		w.fail("C04/group-key", "Group.PubKey %x != sum of constant-term commitments %x (%v)", []byte(g.PubKey), sumA0, err)
		return
	}
	if !bytes.Equal(ref.TSSBaseMul(secret), g.PubKey) {
		w.fail("C04/group-key", "Group.PubKey %x != (sum a_j0)*G %x", []byte(g.PubKey), ref.TSSBaseMul(secret))
		return
	}
	shares := map[uint64]*big.Int{}
	var ids []uint64
	for _, m := range w.mems {
		x := new(big.Int)
		for _, j := range w.mems {
			x = modN(x.Add(x, ref.TSSEvalPoly(j.committed, uint64(m.id))))
		}
		var stored tsstypes.Member
		for _, sm := range w.gr.Members {
			if sm.ID == m.id {
				stored = sm
			}
		}
		if !bytes.Equal(ref.TSSBaseMul(x), stored.PubKey) {
			w.fail("C04/member-key", "Member %d PubKey %x != (sum_j f_j(%d))*G %x (n=%d t=%d)", m.id, []byte(stored.PubKey), m.id, ref.TSSBaseMul(x), w.n, w.t)
			return
		}
		if bigOf(m.priv).Cmp(x) != 0 {
			w.fail("C04/member-share", "member %d key share from the daemon != sum_j f_j(%d)", m.id, m.id)
			return
		}
		shares[uint64(m.id)] = bigOf(m.priv)
		ids = append(ids, uint64(m.id))
	}
	// every threshold subset interpolates to the secret, no (t-1)-subset does
	interp := func(sub []uint64) *big.Int {
		acc := new(big.Int)
		for _, i := range sub {
			l, err := ref.TSSLagrange(i, sub)
			if err != nil {
				w.fail("harness", "lagrange: %v", err)
				return nil
			}
			acc = modN(acc.Add(acc, new(big.Int).Mul(l, shares[i])))
		}
		return acc
	}
	count := 0
	var rec func(start int, sub []uint64, size int, want bool)
	rec = func(start int, sub []uint64, size int, want bool) {
		if !w.ok() || count > 400 {
			return
		}
		if len(sub) == size {
			count++
			v := interp(sub)
			if v == nil {
				return
			}
			if (v.Cmp(secret) == 0) != want {
				w.fail("C04/threshold", "subset %v of the key shares interpolates to the group secret = %v, want %v (t=%d)", sub, !want, want, w.t)
			}
			return
		}
		for i := start; i < len(ids); i++ {
			rec(i+1, append(append([]uint64{}, sub...), ids[i]), size, want)
		}
	}
	rec(0, nil, w.t, true)
	if w.t >= 2 {
		count = 0
		rec(0, nil, w.t-1, false)
	}
	w.v.Class("active-keys-checked")
	for _, m := range w.mems {
		if m.altOK[1] {
			w.v.Class("altenc-r1-member:active-keys-checked")
			break
		}
	}
}

// signing: the first T members of SignOrder register nonces, the chain assigns them, they sign with the key shares
// the DKG gave them, and the aggregated signature must verify under the independent reference verifier.
func (w *world) sign() {
	order := permByKeys(w.c.SignOrder, w.n)[:w.t]
	wallet := tssworld.NewWallet()
	tm := map[tss.MemberID]*tssworld.Member{}
	for _, i := range order {
		m := w.mems[i]
		addr := m.acct.Addr.String()
		tm[m.id] = &tssworld.Member{ID: m.id, Addr: addr, Priv: m.priv, Pub: m.priv.Point()}
		w.txs = append(w.txs, w.ch.SignTx(m.acct, tsstypes.NewMsgSubmitDEs(wallet.Fresh(addr, 1), addr)))
	}
	res, err := w.ch.Block(w.txs, 3*time.Second)
	w.txs = nil
	if err != nil {
		w.fail("C04/finalize", "block failed: %v", err)
		return
	}
	for i, tr := range res.Resp.TxResults {
		if tr.Code != 0 {
			w.fail("C04/signing", "MsgSubmitDEs %d rejected: %s", i, tr.Log)
			return
		}
	}
	org := tsstypes.NewDirectOriginator("bandchain", w.outside.Addr.String(), "c04")
	text := []byte(fmt.Sprintf("c04 signing %d", w.c.Seed))
	sid, err := w.ch.App.TSSKeeper.RequestSigning(w.ch.WriteCtx(), w.gid, &org, tsstypes.NewTextSignatureOrder(text))
	if err != nil {
		w.fail("C04/signing", "RequestSigning on the new group: %v", err)
		return
	}
	ctx := w.ch.Ctx()
	signing, err := w.ch.App.TSSKeeper.GetSigning(ctx, sid)
	if err != nil {
		w.fail("C04/signing", "GetSigning: %v", err)
		return
	}
	sa, err := w.ch.App.TSSKeeper.GetSigningAttempt(ctx, sid, signing.CurrentAttempt)
	if err != nil {
		w.fail("C04/signing", "GetSigningAttempt: %v", err)
		return
	}
	if !bytes.Equal(signing.GroupPubKey, w.gr.Group.PubKey) || len(sa.AssignedMembers) != w.t {
		w.fail("C04/signing", "signing uses key %x with %d assigned members; group key %x t=%d", []byte(signing.GroupPubKey), len(sa.AssignedMembers), []byte(w.gr.Group.PubKey), w.t)
		return
	}
	var ids []uint64
	for _, am := range sa.AssignedMembers {
		ids = append(ids, uint64(am.MemberID))
	}
	for _, am := range sa.AssignedMembers {
		m := tm[am.MemberID]
		if m == nil {
			w.fail("C04/signing", "member %d assigned although it has no nonce registered", am.MemberID)
			return
		}
		sig, err := tssworld.PartialSignature(m, wallet, signing, sa)
		if err != nil {
			w.fail("C04/signing", "partial signature of member %d: %v", am.MemberID, err)
			return
		}
		lam, err := ref.TSSLagrange(uint64(am.MemberID), ids)
		if err != nil {
			w.fail("harness", "lagrange: %v", err)
			return
		}
		if err := ref.TSSVerifyPartial(signing.GroupPubNonce, signing.GroupPubKey, signing.Message, lam, sig, am.PubKey); err != nil {
			w.fail("C04/signing", "share of member %d does not verify under its registered key: %v", am.MemberID, err)
			return
		}
		w.txs = append(w.txs, w.ch.SignTx(w.mems[am.MemberID-1].acct, tsstypes.NewMsgSubmitSignature(sid, am.MemberID, sig, m.Addr)))
	}
	res, err = w.ch.Block(w.txs, 3*time.Second)
	w.txs = nil
	if err != nil {
		w.fail("C04/finalize", "block failed: %v", err)
		return
	}
	for i, tr := range res.Resp.TxResults {
		if tr.Code != 0 {
			w.fail("C04/signing", "share %d of the DKG-produced keys rejected: %s", i, tr.Log)
			return
		}
	}
	signing, err = w.ch.App.TSSKeeper.GetSigning(w.ch.Ctx(), sid)
	if err != nil || signing.Status != tsstypes.SIGNING_STATUS_SUCCESS {
		w.fail("C04/signing", "signing by a threshold committee did not succeed: status %v err %v", signing.Status, err)
		return
	}
	if err := ref.TSSVerifyGroupSignature(w.gr.Group.PubKey, signing.Message, signing.Signature); err != nil {
		w.fail("C04/signing", "group signature does not verify under Group.PubKey: %v", err)
		return
	}
	w.v.Class("signing-ok")
	w.refresh()
}

// ---- run ---------------------------------------------------------------------------------------------------

type action struct {
	what string // main | dup | fix | extra
	mi   int
	x    c04Extra
}

var rejectedDevs = map[string]bool{"short": true, "long": true, "badlen": true, "bada0": true, "badot": true, "replay": true, "wrongmid": true,
	"self": true, "impersonate": true, "badconfirm": true, "forged": true}

func (w *world) stageActions(stage int) []action {
	var acts []action
	if stage > 3 {
		for _, x := range w.c.Extras {
			if x.Stage >= 4 {
				acts = append(acts, action{what: "extra", x: x})
			}
		}
		return acts
	}
	order := permByKeys(w.c.Order[stage-1], w.n)
	if stage == 1 { // members that copy from somebody else's round-1 message go last, in a later block
		needs := func(mi int) bool { r := w.mems[mi].spec.R1; return r == "replay" || r == "negate" }
		sort.SliceStable(order, func(a, b int) bool { return !needs(order[a]) && needs(order[b]) })
	}
	for _, mi := range order { // a member whose daemon restarts in this round speaks first, the restart comes a block later
		if w.mems[mi].spec.Restart == stage && w.mems[mi].strict {
			sort.SliceStable(order, func(a, b int) bool { return order[a] == mi && order[b] != mi })
			break
		}
	}
	firstVictim := -1
	if stage == 3 {
		// Two&twoVictimLate: the member that speaks twice goes first, the protocol-following members with a justified
		// complaint go last, after a block boundary
		for di, d := range w.mems {
			if d.spec.Two&twoOn == 0 || d.spec.Two&twoVictimLate == 0 || d.spec.R3 == "stop" {
				continue
			}
			victim := func(mi int) bool {
				v := w.mems[mi]
				if mi == di || !v.strict {
					return false
				}
				for _, j := range w.others(v) {
					if w.bad(j, v) {
						return true
					}
				}
				return false
			}
			rank := func(mi int) int {
				switch {
				case mi == di:
					return 0
				case victim(mi):
					return 2
				}
				return 1
			}
			sort.SliceStable(order, func(a, b int) bool { return rank(order[a]) < rank(order[b]) })
			for _, mi := range order {
				if victim(mi) {
					firstVictim = mi
					break
				}
			}
			break
		}
	}
	for _, mi := range order {
		sp := w.mems[mi].spec
		if stage == 1 && (sp.R1 == "replay" || sp.R1 == "negate") {
			acts = append(acts, action{what: "cut"})
		}
		if mi == firstVictim {
			acts = append(acts, action{what: "cut"})
		}
		acts = append(acts, action{what: "main", mi: mi})
		if []bool{false, sp.Dup1, sp.Dup2, sp.Dup3}[stage] {
			acts = append(acts, action{what: "dup", mi: mi})
		}
		if sp.Restart == stage && w.mems[mi].strict {
			acts = append(acts, action{what: "cut"}, action{what: "restart", mi: mi})
		}
		if stage == 3 && sp.Two&twoOn != 0 && sp.R3 != "stop" {
			if sp.Two&twoCut != 0 {
				acts = append(acts, action{what: "cut"})
			}
			acts = append(acts, action{what: "second", mi: mi})
		}
	}
	for _, x := range w.c.Extras {
		if x.Stage == stage {
			p := x.Pos % (len(acts) + 1)
			acts = append(acts[:p], append([]action{{what: "extra", x: x}}, acts[p:]...)...)
		}
	}
	for mi, m := range w.mems {
		sp := m.spec
		dev := []string{"", sp.R1, sp.R2, sp.R3}[stage]
		fix := []bool{false, sp.Fix1, sp.Fix2, sp.Fix3}[stage]
		altStage := (stage == 1 && sp.Alt&(altOneTime|altA0|altCommits) != 0) || (stage == 3 && sp.Alt&altKeySym != 0)
		altFix := altStage && dev != "stop" && (!rejectedDevs[dev] || fix)
		if (rejectedDevs[dev] && fix) || altFix {
			acts = append(acts, action{what: "fix", mi: mi})
		}
		if altFix { // a member whose alternative encoding is refused sends the canonical bytes
			acts = append(acts, action{what: "fix", mi: mi})
		}
	}
	return acts
}

func (w *world) enqueue(stage int, a action) {
	switch a.what {
	case "cut":
		if len(w.txs) > 0 {
			w.flush()
		}
		return
	case "extra":
		w.push(w.buildExtra(a.x))
		return
	case "dup":
		m := w.mems[a.mi]
		if prev := m.lastMsg[stage]; prev != nil {
			d := *prev
			d.label, d.honest = "dup:"+prev.label, false
			w.dev(m, fmt.Sprintf("dup:r%d", stage))
			w.push(&d)
		}
		return
	}
	m := w.mems[a.mi]
	if a.what == "second" {
		w.push(w.buildSecond(m))
		return
	}
	if a.what == "restart" {
		w.restart(m)
		return
	}
	dev := []string{"", m.spec.R1, m.spec.R2, m.spec.R3}[stage]
	deviate := a.what == "main" && dev != ""
	if stage == 3 && a.what == "main" && dev == "" && m.spec.Two&twoOn != 0 && m.spec.Two&twoComplain != 0 {
		m.forceR3 = "false"
	}
	if a.what == "fix" && m.inFlight[stage] {
		return
	}
	if prev := m.lastMsg[stage]; a.what == "fix" && prev != nil && prev.eitherOK {
		for _, p := range w.pending { // wait for the verdict on the alternative encoding
			if p == prev {
				if !w.flush() {
					return
				}
				break
			}
		}
		if w.set[stage][m.id] {
			return // accepted
		}
		m.noAlt[stage] = true
		if rd := []string{"", m.spec.R1, m.spec.R2, m.spec.R3}[stage]; !rejectedDevs[rd] {
			// the same message in the canonical encoding (the deviation it may carry is one the chain accepts)
			deviate = rd != ""
		}
	}
	if deviate && dev == "stop" {
		w.dev(m, fmt.Sprintf("r%d:stop", stage))
		return
	}
	switch stage {
	case 1:
		w.push(w.buildR1(m, deviate))
	case 2:
		w.push(w.buildR2(m, deviate))
	case 3:
		w.push(w.buildR3(m, deviate))
	}
}

func runC04(c c04Case) *pbt.Verdict {
	v := &pbt.Verdict{}
	n, t := c.N, c.T
	if n < 2 || t < 1 || t > n || len(c.Members) != n {
		v.Failf("harness", "bad case n=%d t=%d members=%d", n, t, len(c.Members))
		return v
	}
	p := tsstypes.DefaultParams()
	p.CreationPeriod = c.Period
	ch, err := sim.New(sim.Config{NumAccounts: n + 1, Validators: []sim.ValSpec{{Tokens: 30_000_000}}, TSS: &p}, 0)
	if err != nil {
		v.Failf("harness", "sim.New: %v", err)
		return v
	}
	defer ch.Close()
	w := &world{c: c, v: v, ch: ch, qs: tsskeeper.NewQueryServer(ch.App.TSSKeeper), n: n, t: t, outside: ch.Users[n], status: tsstypes.GROUP_STATUS_ROUND_1}
	for k := range w.set {
		w.set[k] = map[tss.MemberID]bool{}
	}
	w.acc = make([][]byte, t)
	var addrs []sdk.AccAddress
	extraBy := map[int]bool{}
	for _, x := range c.Extras {
		if x.From%(n+1) != n {
			extraBy[x.From%(n+1)] = true
		}
	}
	for i := 0; i < n; i++ {
		sp := c.Members[i]
		m := &mem{idx: i, id: tss.MemberID(i + 1), acct: ch.Users[i], spec: sp}
		m.strict = sp.R1 == "" && sp.R2 == "" && sp.R3 == "" && !sp.Dup1 && !sp.Dup2 && !sp.Dup3 && !extraBy[i] && sp.Two&twoOn == 0
		w.mems = append(w.mems, m)
		addrs = append(addrs, m.acct.Addr)
	}
	if _, err := ch.Block(nil, 3*time.Second); err != nil {
		v.Failf("C04/finalize", "block failed: %v", err)
		return v
	}
	gid, err := ch.App.TSSKeeper.CreateGroup(ch.WriteCtx(), addrs, uint64(t), c.Owner)
	if err != nil {
		v.Failf("harness", "CreateGroup: %v", err)
		return v
	}
	w.gid, w.created = gid, ch.Height
	w.refresh()
	if !w.ok() {
		return v
	}
	w.dkgCtx = clone(w.gr.DKGContext)
	if w.gr.Group.Status != tsstypes.GROUP_STATUS_ROUND_1 || len(w.gr.Members) != n || len(w.dkgCtx) == 0 {
		v.Failf("harness", "new group: status %v members %d ctx %x", w.gr.Group.Status, len(w.gr.Members), w.dkgCtx)
		return v
	}
	w.reached[1] = true

	for stage := 1; stage <= 3 && w.ok(); stage++ {
		if w.chainStatus() != roundStatus[stage] {
			break
		}
		acts := w.stageActions(stage)
		for i, a := range acts {
			w.enqueue(stage, a)
			if !w.ok() {
				return w.finish()
			}
			if i < len(c.Cuts[stage-1]) && c.Cuts[stage-1][i] && len(w.txs) > 0 {
				if !w.flush() {
					return w.finish()
				}
			}
		}
		if !w.flush() {
			return w.finish()
		}
		for g := 0; g < c.Gaps[stage-1]; g++ {
			if !w.flush() {
				return w.finish()
			}
		}
	}
	// tail: run past the creation period
	for w.ok() && (w.ch.Height <= w.created+int64(c.Period) || !w.cleaned) {
		if !w.flush() {
			return w.finish()
		}
	}
	for _, a := range w.stageActions(4) {
		if a.what == "extra" {
			w.enqueue(4, a)
		}
	}
	if !w.flush() {
		return w.finish()
	}
	if w.everActive && w.ok() {
		w.sign()
	}
	return w.finish()
}

func (w *world) finish() *pbt.Verdict {
	v := w.v
	if w.ok() && w.deferred != "" {
		w.fail("C04/bad-accepted", "%s", w.deferred)
	}
	if w.ok() && w.daemonErr != "" {
		w.fail("C04/daemon-error", "%s", w.daemonErr)
	}
	if w.ok() && w.gr != nil {
		st := w.gr.Group.Status
		switch st {
		case tsstypes.GROUP_STATUS_ACTIVE, tsstypes.GROUP_STATUS_FALLEN:
			v.Class("final:" + st.String())
		case tsstypes.GROUP_STATUS_EXPIRED:
			v.Class(fmt.Sprintf("final:EXPIRED@round%d", w.finalAtRound))
		default:
			w.fail("C04/not-final", "after the creation period the group is still %v", st)
		}
		if w.mustNotAct != "" && st != tsstypes.GROUP_STATUS_FALLEN && st != tsstypes.GROUP_STATUS_EXPIRED {
			w.fail("C04/cheater-group-status", "%s but the group ended %v", w.mustNotAct, st)
		}
	}
	v.Class(fmt.Sprintf("n=%d", w.n))
	switch {
	case w.t == 1:
		v.Class("t=1")
	case w.t == w.n:
		v.Class("t=n")
	default:
		v.Class("1<t<n")
	}
	strict := 0
	for _, m := range w.mems {
		if m.strict {
			strict++
		}
	}
	if strict == w.n {
		v.Class("all-honest")
	}
	v.Count("strict_honest_members", int64(strict))
	v.Count("deviations_applied", int64(w.devApplied))
	v.NonTrivial = w.devApplied >= 1 && w.reached[1] && w.reached[2] && w.reached[3]
	if w.reached[3] {
		v.Class("reached-round3")
	}
	return v
}

func TestC04(t *testing.T) { pbt.Check(t, "C04", genC04, runC04) }
