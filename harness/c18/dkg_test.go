package c18

// Honest DKG driver: the incoming group's key generation is driven with the messages the cylinder daemon
// sends (cylinder/workers/group/round{1,2,3}.go), built by the same pkg/tss calls in the same order and, for
// round 3, by the daemon's own share handling (group.VerifGetOwnPrivKey). The group information the daemon
// would query over gRPC comes from the chain's own querier on the last committed state.
//
// pkg/tss draws key material and nonces from crypto/rand. To keep `run` a pure function of the case the
// global crypto/rand.Reader is swapped for a hash-counter stream (seeded from the case) for the duration of
// each daemon call and restored afterwards.

import (
	"crypto/rand"
	"crypto/sha256"
	"encoding/binary"
	"fmt"
	"io"

	sdk "github.com/cosmos/cosmos-sdk/types"

	"github.com/bandprotocol/chain/v3/cylinder/client"
	"github.com/bandprotocol/chain/v3/cylinder/store"
	"github.com/bandprotocol/chain/v3/cylinder/workers/group"
	"github.com/bandprotocol/chain/v3/pkg/tss"
	tsskeeper "github.com/bandprotocol/chain/v3/x/tss/keeper"
	tsstypes "github.com/bandprotocol/chain/v3/x/tss/types"

	"verif/harness/sim"
)

type detReader struct {
	seed []byte
	ctr  uint64
	buf  []byte
}

func (d *detReader) Read(p []byte) (int, error) {
	n := 0
	for n < len(p) {
		if len(d.buf) == 0 {
			h := sha256.New()
			h.Write(d.seed)
			var c [8]byte
			binary.BigEndian.PutUint64(c[:], d.ctr)
			h.Write(c[:])
			d.ctr++
			d.buf = h.Sum(nil)
		}
		k := copy(p[n:], d.buf)
		d.buf = d.buf[k:]
		n += k
	}
	return n, nil
}

// withDetRand runs f with crypto/rand.Reader replaced by a deterministic stream derived from seed.
func withDetRand(seed string, f func()) {
	var old io.Reader = rand.Reader
	rand.Reader = &detReader{seed: []byte("c18-rand|" + seed)}
	defer func() { rand.Reader = old }()
	f()
}

// dkgMember is what one daemon keeps on disk for a group in creation.
type dkgMember struct {
	dkg     *store.DKG // after round 1
	priv    tss.Scalar // after round 3 (own key share)
	stopped bool       // the member stopped participating
}

// queryGroup is the daemon's QueryGroup, answered by the chain's own querier.
func queryGroup(ch *sim.Chain, gid tss.GroupID) (*client.GroupResult, error) {
	qs := tsskeeper.NewQueryServer(ch.App.TSSKeeper)
	resp, err := qs.Group(ch.Ctx(), &tsstypes.QueryGroupRequest{GroupId: uint64(gid)})
	if err != nil {
		return nil, err
	}
	return client.NewGroupResult(resp), nil
}

// dkgRound1 = Round1.handleGroup
// (the daemon looks its member id up by address; here the driver names the member id, so that an account holding
// several member ids of one group can act for each of them)
func dkgRound1(seed string, gr *client.GroupResult, gid tss.GroupID, addr string, mid tss.MemberID) (m *dkgMember, msg sdk.Msg, err error) {
	if int(mid) < 1 || int(mid) > len(gr.Members) || gr.Members[mid-1].Address != addr {
		return nil, nil, fmt.Errorf("%s does not hold member id %d", addr, mid)
	}
	var data *tss.Round1Info
	withDetRand(seed, func() { data, err = tss.GenerateRound1Info(mid, gr.Group.Threshold, gr.DKGContext) })
	if err != nil {
		return nil, nil, err
	}
	d := &store.DKG{GroupID: gid, MemberID: mid, Coefficients: data.Coefficients, OneTimePrivKey: data.OneTimePrivKey}
	msg = tsstypes.NewMsgSubmitDKGRound1(gid, tsstypes.Round1Info{
		MemberID:           mid,
		CoefficientCommits: data.CoefficientCommits,
		OneTimePubKey:      data.OneTimePubKey,
		A0Signature:        data.A0Signature,
		OneTimeSignature:   data.OneTimeSignature,
	}, addr)
	return &dkgMember{dkg: d}, msg, nil
}

// dkgRound2 = Round2.handleGroup
func dkgRound2(seed string, gr *client.GroupResult, gid tss.GroupID, addr string, m *dkgMember) (msg sdk.Msg, err error) {
	if m == nil || m.dkg == nil {
		return nil, fmt.Errorf("no round-1 data")
	}
	oneTimePubKeys := make(tss.Points, gr.Group.Size_)
	for _, data := range gr.Round1Infos {
		if int(data.MemberID) < 1 || int(data.MemberID) > len(oneTimePubKeys) {
			return nil, fmt.Errorf("bad member id in round1 infos")
		}
		oneTimePubKeys[data.MemberID-1] = data.OneTimePubKey
	}
	var enc tss.EncSecretShares
	withDetRand(seed, func() {
		enc, err = tss.ComputeEncryptedSecretShares(m.dkg.MemberID, m.dkg.OneTimePrivKey, oneTimePubKeys, m.dkg.Coefficients, tss.DefaultNonce16Generator{})
	})
	if err != nil {
		return nil, err
	}
	return tsstypes.NewMsgSubmitDKGRound2(gid, tsstypes.Round2Info{MemberID: m.dkg.MemberID, EncryptedSecretShares: enc}, addr), nil
}

// dkgRound3 = Round3.handleGroup (confirm path; the daemon's complaint path is returned as a MsgComplain)
func dkgRound3(seed string, gr *client.GroupResult, gid tss.GroupID, addr string, m *dkgMember) (msg sdk.Msg, err error) {
	if m == nil || m.dkg == nil {
		return nil, fmt.Errorf("no round-1 data")
	}
	var priv tss.Scalar
	var complaints []tsstypes.Complaint
	withDetRand(seed+"/own", func() { priv, complaints, err = group.VerifGetOwnPrivKey(*m.dkg, gr) })
	if err != nil {
		return nil, err
	}
	if len(complaints) > 0 {
		return tsstypes.NewMsgComplain(gid, complaints, addr), nil
	}
	m.priv = priv
	var sig tss.Signature
	withDetRand(seed+"/sig", func() { sig, err = tss.SignOwnPubKey(m.dkg.MemberID, gr.DKGContext, priv.Point(), priv) })
	if err != nil {
		return nil, err
	}
	return tsstypes.NewMsgConfirm(gid, m.dkg.MemberID, sig, addr), nil
}

// dkgFalseComplaint: a malicious member files a well-formed complaint against a member whose share was valid.
// The chain verifies the complaint, finds the share valid and marks the complainant malicious.
func dkgFalseComplaint(seed string, gr *client.GroupResult, gid tss.GroupID, addr string, m *dkgMember, respondent tss.MemberID) (msg sdk.Msg, err error) {
	if m == nil || m.dkg == nil {
		return nil, fmt.Errorf("no round-1 data")
	}
	r1c, err := gr.GetRound1Info(m.dkg.MemberID)
	if err != nil {
		return nil, err
	}
	r1r, err := gr.GetRound1Info(respondent)
	if err != nil {
		return nil, err
	}
	var sig tss.ComplaintSignature
	var keySym tss.Point
	withDetRand(seed, func() {
		sig, keySym, err = tss.SignComplaint(r1c.OneTimePubKey, r1r.OneTimePubKey, m.dkg.OneTimePrivKey)
	})
	if err != nil {
		return nil, err
	}
	c := tsstypes.Complaint{Complainant: m.dkg.MemberID, Respondent: respondent, KeySym: keySym, Signature: sig}
	return tsstypes.NewMsgComplain(gid, []tsstypes.Complaint{c}, addr), nil
}
