// Package c18 checks property C18: "Signing group changes only through a completed, scheduled transition".
//
// Stateful test on the real application: governance proposals (MsgTransitionGroup / MsgForceTransitionGroup)
// go through real gov proposals, the incoming group's key generation is driven with the daemon's real DKG
// messages, hand-over and user signings with real partial signatures. The oracle is the reference state machine
// in model_test.go; world_test.go feeds it with the facts of every block and compares state and events.
package c18

import (
	"fmt"
	"sort"
	"strings"
	"testing"

	"pgregory.net/rapid"

	"verif/harness/gen"
	"verif/harness/pbt"
)

type op struct {
	K    string `json:"k"` // propT propF rogue dkg stop complain sign des desall act actall req | end endx endv
	A    int    `json:"a,omitempty"`
	B    int    `json:"b,omitempty"`
	Mask uint32 `json:"m,omitempty"`
	Ms   int    `json:"ms,omitempty"` // milliseconds added to: the exec-time offset B (propT/propF), the step A (end), the landing offset A (endx/endv; may be negative)
	D    int    `json:"d,omitempty"`  // propT: one account named twice: 1/2 identical string (last/first), 3/4 upper-case spelling (last/first)
}

type c18Case struct {
	Seed       int   `json:"seed"`
	HasCur     bool  `json:"has_cur"`
	CurN       int   `json:"cur_n"`
	CurT       int   `json:"cur_t"`
	Extra      bool  `json:"extra"` // a second ACTIVE tss group exists at genesis (target for forced transitions)
	ExtraN     int   `json:"extra_n"`
	ExtraT     int   `json:"extra_t"`
	Min        int   `json:"min_s"` // MinTransitionDuration
	Max        int   `json:"max_s"` // MaxTransitionDuration
	Creation   int   `json:"creation_period"`
	SignPeriod int   `json:"signing_period"`
	MaxAttempt int   `json:"max_attempt"`
	Fee        int64 `json:"fee"`
	Penalty    int   `json:"penalty_s"`
	InitDE     int   `json:"init_de"`
	GovV       int   `json:"gov_voting_s"`
	Ops        []op  `json:"ops"`
}

func TestC18(t *testing.T) { pbt.Check(t, "C18", genC18, runC18) }

// TestC13Transition re-uses the group-transition histories for property C13: signing requests made while a transition is
// pending create a signing of the current group AND one of the incoming group; only the money checks count - a request pays
// fee_per_signer x current threshold (within its limit), only the assignees of the current group's completed signing are
// paid, the incoming group's signature is never paid - also when it completes after the transition record is gone.
func TestC13Transition(t *testing.T) {
	pbt.Check(t, "C13", genC18, func(c c18Case) *pbt.Verdict {
		v := runC18(c)
		money := map[string]bool{"C18/balance": true, "C18/incoming-paid": true, "C18/fee-over-limit": true, "C18/fee-amount": true}
		if v.Violation != "" && v.Signature != "harness" {
			if money[v.Signature] {
				v.Signature = "C13/transition-" + strings.TrimPrefix(v.Signature, "C18/")
			} else {
				v.Count("donor_findings_ignored", 1)
				v.Violation, v.Signature = "", ""
			}
		}
		nt := false
		for _, cl := range v.Classes {
			if cl == "incoming-signing-completed" && c.Fee > 0 {
				nt = true
			}
		}
		v.NonTrivial = nt
		return v
	})
}

// ---- generator ----------------------------------------------------------------------------------------

type opw struct {
	rt       *rapid.T
	c        *c18Case
	ops      []op
	focused  bool // inside a constructed transition: prefer execution times that leave room for the protocol
	starve   bool // this segment registers nonce pairs only for the genesis current group's members
	segStart int  // index of the first op of the current segment
}

// nonce pairs for everybody, or only for the members of the genesis current group (then members that exist
// only in the incoming group cannot be assigned)
func (g *opw) desall(n int) op {
	o := op{K: "desall", B: n}
	if g.starve || gen.Chance(g.rt, "desCurOnly", 1, 6) {
		o.Mask = 1<<uint(g.c.CurN) - 1
	}
	return o
}

func (g *opw) emit(o ...op) {
	for i := range o {
		// an offset at the upper end of the window plus a sub-second part is outside the window: keep only the
		// boundary case "1 ms beyond the maximum"
		if (o[i].K == "propT" || o[i].K == "propF") && o[i].B >= g.c.Max && o[i].Ms > 1 {
			o[i].Ms = 0
		}
	}
	g.ops = append(g.ops, o...)
}

func (g *opw) memberMask() uint32 {
	rt := g.rt
	n := gen.Range(rt, "inN", 2, 4)
	if gen.Chance(rt, "in1", 1, 10) {
		n = 1
	}
	start := gen.Uniform(rt, "inStart", poolSize)
	var m uint32
	for i := 0; i < n; i++ {
		m |= 1 << uint((start+i)%poolSize)
	}
	return m
}

// offset of ExecTime relative to the end of the voting period
func (g *opw) execOffset(need int) int {
	rt, c := g.rt, g.c
	wTarget := 4
	if g.focused {
		wTarget = 20
	}
	switch gen.Pick(rt, "offmode", wTarget, 3, 2) {
	case 0: // room for `need` one-second blocks, clipped into the window
		off := need + gen.Range(rt, "slack", 0, 3)
		if off > c.Max {
			off = c.Max
		}
		if off < c.Min {
			off = c.Min
		}
		return off
	case 1: // window boundaries and the block time itself
		return gen.OneOf(rt, "offb", c.Min-1, c.Min, c.Min+1, c.Max-1, c.Max, c.Max+1, 0, -c.GovV)
	}
	return gen.Range(rt, "offr", c.Min, c.Max)
}

func (g *opw) noiseOp() {
	rt := g.rt
	switch gen.Pick(rt, "noise", 5, 2, 2, 1, 1, 3, 2, 1, 1, 1, 2) {
	case 10:
		g.rogue(gen.Pick(rt, "rkind", 4, 1, 1))
	case 0:
		g.emit(op{K: "req", A: gen.Uniform(rt, "u", nReq), B: gen.Pick(rt, "feev", 5, 2, 1)})
	case 1:
		g.emit(op{K: "des", A: gen.Uniform(rt, "m", poolSize), B: gen.Uniform(rt, "nde", 4)})
	case 2:
		g.emit(op{K: "desall", B: gen.Uniform(rt, "nde", 3)})
	case 3:
		g.emit(op{K: "act", A: gen.Uniform(rt, "m", poolSize), B: gen.Uniform(rt, "which", 2)})
	case 4:
		g.emit(op{K: "actall"})
	case 5:
		g.emit(op{K: "sign", A: gen.Uniform(rt, "s", 4), Mask: gen.OneOf[uint32](rt, "mask", 0xff, 0xff, 0xff, 0x01, 0x02, 0x0e)})
	case 6:
		g.emit(op{K: "end", A: gen.OneOf(rt, "dt", 1, 1, 1, 2, 3)})
	case 7:
		g.emit(op{K: "propT", Ms: g.execMs(), D: g.dupD(1, 6), Mask: g.memberMask(), A: gen.Uniform(rt, "thr", 4), B: g.execOffset(5)})
	case 8:
		g.emit(op{K: "propF", Ms: g.execMs(), A: gen.OneOf(rt, "fsel", 0, 1, 2, 100, 101, selDKG, selFallen, selExpired, selGhost), B: g.execOffset(2)})
	case 9:
		g.emit(op{K: "dkg", A: gen.Uniform(rt, "g", 2), Mask: 0xff})
	}
}

func (g *opw) noise(num, den int) {
	for i := 0; i < 2; i++ {
		if gen.Chance(g.rt, "noise?", num, den) {
			g.noiseOp()
		}
	}
}

// block end: either a plain step or a jump onto ExecTime + {-1,0,+1}
func (g *opw) end(onExec bool) {
	if onExec {
		g.endx(gen.OneOf(g.rt, "xn", -1, 0, 0, 0, 1))
		return
	}
	g.emit(op{K: "end", A: gen.OneOf(g.rt, "dt", 1, 1, 1, 1, 2), Ms: gen.OneOf(g.rt, "dtms", 0, 0, 0, 0, 0, 0, 0, 0, 0, 0, 0, 0, 0, 0, 0, 0, 0, 1, 500, 900)})
}

// endx lands a block on ExecTime + a seconds; when a == 0 the landing is placed within the same second: just before
// ExecTime (then a second block lands on it or right behind it), exactly on it, or just after it.
func (g *opw) endx(a int) {
	rt := g.rt
	if a != 0 {
		g.emit(op{K: "endx", A: a})
		return
	}
	switch gen.Pick(rt, "xms", 5, 3, 2) {
	case 0:
		g.emit(op{K: "endx"})
	case 1:
		before := op{K: "endx", Ms: gen.OneOf(rt, "xbefore", -900, -100, -100, -1, -1)}
		then := op{K: "endx", Ms: gen.OneOf(rt, "xthen", 0, 0, 1, 100)}
		// the landing just before ExecTime takes the place of the preceding ordinary block end of this segment (same
		// number of blocks, only that block's time moves); without one it is an extra block
		if i := g.lastPlainEnd(); i >= 0 && gen.Chance(rt, "xreplace", 4, 5) {
			g.ops[i] = before
			g.emit(then)
		} else {
			g.emit(before, then)
		}
	default:
		g.emit(op{K: "endx", Ms: gen.OneOf(rt, "xafter", 1, 100)})
	}
}

// lastPlainEnd: index of the last block-ending op if it is an ordinary step emitted by the current segment, else -1
func (g *opw) lastPlainEnd() int {
	for i := len(g.ops) - 1; i >= g.segStart; i-- {
		if isEnd(g.ops[i].K) {
			if g.ops[i].K == "end" {
				return i
			}
			return -1
		}
	}
	return -1
}

// endv lands a block on the end of the voting period (+ a seconds), sometimes preceded by a block just before it.
func (g *opw) endv(a int) {
	if a == 0 && gen.Chance(g.rt, "vbefore", 1, 10) {
		g.emit(op{K: "endv", Ms: gen.OneOf(g.rt, "vms", -1, -100)})
	}
	g.emit(op{K: "endv", A: a})
}

// execMs: the sub-second part of an execution time (0 = whole second)
func (g *opw) execMs() int {
	if gen.Chance(g.rt, "execwhole", 2, 5) {
		return 0
	}
	return gen.OneOf(g.rt, "execms", 1, 100, 500, 900, 900, 999)
}

// transition through a new group: proposal, three DKG rounds, hand-over signing, waiting, execution
func (g *opw) transitionSegment() {
	rt := g.rt
	if gen.Chance(rt, "preact", 3, 4) {
		g.emit(op{K: "actall"})
	}
	if gen.Chance(rt, "predes", 3, 4) {
		g.emit(g.desall(gen.Range(rt, "nde", 1, 3)), op{K: "end", A: 1})
	}
	g.focused = true
	defer func() { g.focused = false }()
	// which milestone falls onto the execution time: 0 none, 1..3 DKG round, 4 hand-over signing, 5 proposal
	target := gen.Pick(rt, "target", 3, 1, 1, 5, 5, 1)
	need := []int{7, 2, 3, 4, 5, 1}[target]
	if target == 5 {
		g.emit(op{K: "propT", Ms: g.execMs(), D: g.dupD(1, 10), Mask: g.memberMask(), A: gen.Uniform(rt, "thr", 4), B: g.c.Min + gen.OneOf(rt, "p5", 0, 0, 1)})
	} else {
		g.emit(op{K: "propT", Ms: g.execMs(), D: g.dupD(1, 10), Mask: g.memberMask(), A: gen.Uniform(rt, "thr", 4), B: g.execOffset(need)})
	}
	g.noise(1, 8)
	g.emit(op{K: "end", A: 1})
	if gen.Chance(rt, "second", 1, 6) { // a second proposal while the first is pending
		if gen.Chance(rt, "secondF", 1, 2) {
			g.emit(op{K: "propF", Ms: g.execMs(), A: gen.OneOf(rt, "fsel", 0, 1, 100), B: g.execOffset(3)})
		} else {
			g.emit(op{K: "propT", Ms: g.execMs(), D: g.dupD(1, 6), Mask: g.memberMask(), A: gen.Uniform(rt, "thr", 4), B: g.execOffset(6)})
		}
		if gen.Chance(rt, "second-sameblock", 1, 2) {
			g.emit(op{K: "end", A: 1})
		}
	}
	g.endv(gen.OneOf(rt, "vn", 0, 0, 0, 1))
	for r := 1; r <= 3; r++ {
		g.noise(1, 10)
		switch gen.Pick(rt, "dkgv", 16, 2, 1, 1, 1) {
		case 0:
			g.emit(op{K: "dkg", Mask: 0xff})
		case 1: // one member first, the others a block later
			g.emit(op{K: "dkg", Mask: 0x01}, op{K: "end", A: 1}, op{K: "dkg", Mask: 0xff})
		case 2: // a member stops: the group expires
			g.emit(op{K: "stop", B: gen.Uniform(rt, "who", 4)}, op{K: "dkg", Mask: 0xff})
		case 3: // a malicious complaint in round 3 makes the group fall
			if r == 3 {
				g.emit(op{K: "complain", B: gen.Uniform(rt, "who", 4)})
			}
			g.emit(op{K: "dkg", Mask: 0xff})
		case 4: // an idle block first
			g.emit(op{K: "end", A: 1}, op{K: "dkg", Mask: 0xff})
		}
		// (target 5: the proposal itself is the milestone; the block after it lands on the execution time, which may
		// have a sub-second part)
		g.end(target == r || (target == 5 && r == 1))
	}
	if gen.Chance(rt, "postdes", 2, 3) { // nonce pairs for the new members, so that the incoming group can sign
		g.emit(g.desall(gen.Range(rt, "nde", 0, 2)))
	}
	g.noise(1, 10)
	if gen.Chance(rt, "reqWS", 1, 2) { // a request while the hand-over is being signed (same block, before the shares)
		g.emit(op{K: "req", A: gen.Uniform(rt, "u", nReq)})
	}
	switch gen.Pick(rt, "signv", 12, 2, 2, 2) {
	case 0:
		g.emit(op{K: "sign", Mask: 0xff})
	case 1: // some of the assignees only: time-out, retry
		g.emit(op{K: "sign", Mask: 0x01}, op{K: "end", A: 1}, op{K: "sign", Mask: 0xff})
	case 2: // nobody signs
	case 3: // late
		g.emit(op{K: "end", A: 1}, op{K: "sign", Mask: 0xff})
	}
	g.end(target == 4)
	for i, n := 0, gen.Range(rt, "waitn", 0, 2); i < n; i++ {
		g.noise(1, 3)
		g.emit(op{K: "req", A: gen.Uniform(rt, "u", nReq), B: gen.Pick(rt, "feev", 5, 2, 1)})
		if gen.Chance(rt, "wsign", 2, 3) {
			// the request's signings exist from the next block on: newest first (the incoming group's, if any)
			g.emit(op{K: "end", A: 1}, op{K: "sign", A: 0, Mask: 0xff})
			if gen.Chance(rt, "wsign2", 2, 3) {
				g.emit(op{K: "sign", A: gen.Range(rt, "s", 1, 3), Mask: 0xff})
			}
		}
		g.emit(op{K: "end", A: 1})
	}
	g.emit(op{K: "req", A: gen.Uniform(rt, "u", nReq), B: gen.Pick(rt, "feevL", 8, 2, 1)})
	g.end(true)
	if gen.Chance(rt, "signAfterEnd", 1, 2) {
		// the last request's signings are still open when the transition record is gone (executed or dropped): both are
		// signed only now, newest first (the incoming group's, if any)
		g.emit(op{K: "end", A: 1}, op{K: "sign", A: 0, Mask: 0xff}, op{K: "sign", A: 1, Mask: 0xff}, op{K: "end", A: 1})
	}
	g.after()
}

func (g *opw) forceSegment() {
	rt := g.rt
	if gen.Chance(rt, "predes", 2, 3) {
		g.emit(g.desall(gen.Range(rt, "nde", 1, 3)), op{K: "end", A: 1})
	}
	off := g.execOffset(gen.Range(rt, "fneed", 1, 4))
	if gen.Chance(rt, "fmin", 1, 2) {
		off = g.c.Min + gen.OneOf(rt, "f5", 0, 0, 1)
	}
	g.emit(op{K: "propF", Ms: g.execMs(), A: gen.OneOf(rt, "fsel", 0, 0, 0, 0, 0, 1, 2, 100, 101, selDKG, selGhost), B: off})
	g.noise(1, 8)
	g.emit(op{K: "end", A: 1})
	if gen.Chance(rt, "second", 1, 6) {
		g.emit(op{K: "propT", Ms: g.execMs(), D: g.dupD(1, 6), Mask: g.memberMask(), A: gen.Uniform(rt, "thr", 4), B: g.execOffset(6)}, op{K: "end", A: 1})
	}
	g.endv(gen.OneOf(rt, "vn", 0, 0, 0, 1))
	for i, n := 0, gen.Range(rt, "waitn", 0, 2); i < n; i++ {
		g.noise(1, 3)
		g.emit(op{K: "req", A: gen.Uniform(rt, "u", nReq), B: gen.Pick(rt, "feev", 5, 2, 1)})
		if gen.Chance(rt, "wsign", 2, 3) {
			// the request's signings exist from the next block on: newest first (the incoming group's, if any)
			g.emit(op{K: "end", A: 1}, op{K: "sign", A: 0, Mask: 0xff})
			if gen.Chance(rt, "wsign2", 2, 3) {
				g.emit(op{K: "sign", A: gen.Range(rt, "s", 1, 3), Mask: 0xff})
			}
		}
		g.emit(op{K: "end", A: 1})
	}
	g.end(true)
	g.after()
}

// dupD: with probability num/den the member list of a MsgTransitionGroup names one account twice (see op.D)
func (g *opw) dupD(num, den int) int {
	if !gen.Chance(g.rt, "dupmember", num, den) {
		return 0
	}
	return gen.OneOf(g.rt, "dupkind", 1, 2, 3, 3, 3, 4, 4, 4)
}

// dupMemberSegment: a MsgTransitionGroup whose member list names one account twice - mostly as the lower-case and the
// ALL-UPPER-CASE bech32 spelling of one address, which the message's own validation (it compares strings) lets
// through - with nothing else wrong, followed by everything a transition needs: all member ids (the doubled
// account acts for each of its ids) run the three key-generation rounds, the current group signs the hand-over, the
// chain reaches ExecTime. A group with one account under two member ids must never come into existence.
func (g *opw) dupMemberSegment() {
	rt, c := g.rt, g.c
	if c.Max < c.Min+8 {
		c.Max = c.Min + 8
	}
	if c.Creation < 6 {
		c.Creation = 6
	}
	g.emit(op{K: "actall"}, op{K: "desall", B: 2}, op{K: "end", A: 1})
	d := gen.OneOf(rt, "dupkind", 1, 2, 3, 3, 3, 3, 4, 4, 4, 4)
	g.emit(op{K: "propT", Ms: g.execMs(), D: d, Mask: g.memberMask(), A: gen.Uniform(rt, "thr", 4), B: gen.Range(rt, "offd", 6, 8)}, op{K: "end", A: 1}, op{K: "endv"})
	for r := 0; r < 3; r++ {
		g.emit(op{K: "dkg", Mask: 0xff}, op{K: "end", A: 1})
	}
	if gen.Chance(rt, "reqWS", 1, 3) {
		g.emit(op{K: "req", A: gen.Uniform(rt, "u", nReq)})
	}
	g.emit(op{K: "sign", Mask: 0xff}, op{K: "end", A: 1})
	g.endx(gen.OneOf(rt, "xn", 0, 0, 1))
	g.after()
}

// inactiveCarrySegment: a member of the current group idles on a signing, the attempt times out and the member is
// deactivated (and stays so: nobody re-activates it); then a transition to a new group that contains the same account
// runs its full course (key generation, hand-over signed by the remaining members -> WAITING_EXECUTION, where the incoming
// members are registered -> execution). The activity flags of bandtss and x/tss must keep agreeing group by group.
func (g *opw) inactiveCarrySegment() {
	rt, c := g.rt, g.c
	c.HasCur, c.CurN = true, 3
	if c.CurT > 2 {
		c.CurT = 2 // the two remaining members can still sign the hand-over
	}
	if c.SignPeriod > 3 {
		c.SignPeriod = gen.Range(rt, "signps", 1, 3)
	}
	if c.Max < c.Min+9 {
		c.Max = c.Min + 9
	}
	if c.Creation < 6 {
		c.Creation = 6
	}
	g.emit(op{K: "actall"}, op{K: "desall", B: 3}, op{K: "end", A: 1})
	g.emit(op{K: "req", A: gen.Uniform(rt, "u", nReq)}, op{K: "end", A: 1})
	// every assignee but the first submits its share: the attempt cannot complete and the first assignee is idle
	g.emit(op{K: "sign", Mask: 0x0e})
	for i := 0; i <= c.SignPeriod; i++ {
		g.emit(op{K: "end", A: 1})
	}
	// a retried attempt (MaxSigningAttempt > 1) is signed by everybody, so that nobody else is deactivated
	g.emit(op{K: "sign", Mask: 0xff}, op{K: "end", A: 1})
	// the new group: the accounts of the current group plus one more
	g.emit(op{K: "propT", Ms: g.execMs(), Mask: 0x0f, A: gen.Uniform(rt, "thr", 4), B: gen.Range(rt, "offi", 7, 9)}, op{K: "end", A: 1}, op{K: "endv"})
	for r := 0; r < 3; r++ {
		g.emit(op{K: "dkg", Mask: 0xff}, op{K: "end", A: 1})
	}
	g.emit(op{K: "sign", Mask: 0xff}, op{K: "end", A: 1})
	if gen.Chance(rt, "reqWE", 1, 2) {
		g.emit(op{K: "req", A: gen.Uniform(rt, "u", nReq)}, op{K: "end", A: 1})
	}
	g.endx(gen.OneOf(rt, "xn", 0, 0, 1))
	g.after()
}

// rogue: an authority-only bandtss message in a plain transaction of an ordinary account (see blockBuilder.build).
// The exec-time offset counts from the block itself (a transaction takes effect at once) and is mostly inside the window.
func (g *opw) rogue(kind int) {
	rt, c := g.rt, g.c
	off := c.Min + gen.OneOf(rt, "roff", 0, 0, 1, 1, 2)
	if off > c.Max {
		off = c.Max
	}
	if gen.Chance(rt, "roffbad", 1, 8) {
		off = gen.OneOf(rt, "roffb", c.Min-1, c.Max+1, 0)
	}
	ms := 0
	if off < c.Max && gen.Chance(rt, "rms", 1, 3) {
		ms = gen.OneOf(rt, "rmsv", 1, 500, 900)
	}
	g.emit(op{K: "rogue", A: kind, B: off, Ms: ms, D: gen.Pick(rt, "rauth", 4, 1),
		Mask: uint32(gen.Uniform(rt, "rsender", 8))<<8 | uint32(gen.Range(rt, "rsel", 1, 31))})
}

// Selectors of MsgForceTransitionGroup targets that are NOT groups with a finished key generation (late-bound in
// blockBuilder.build; when no such group exists the selector falls back to "any group").
const (
	selDKG     = 200 // + i: a group whose key generation is still running (ROUND_1/2/3), newest first
	selFallen  = 300 // + i: a group whose key generation failed
	selExpired = 400 // + i: a group whose key generation expired
	selGhost   = 500 // + i: an id that does not exist (group count + 1 + i)
)

// forceNonActiveSegment: governance names, in MsgForceTransitionGroup, a group that never finished key generation:
//
//	0 the left-over incoming group of a normal transition that was dropped at its ExecTime while still creating,
//	1 the same with a member that stopped taking part (the key generation is stalled in some round),
//	2 the incoming group of the transition that is still in progress (and, afterwards, once more when it is over),
//	3 a group that fell (false complaint), 4 a group that expired, 5 an id that does not exist;
//
// then the chain is taken to the forced ExecTime. The statement allows the signing group to change only to a group
// that finished key generation, so every one of these proposals has to fail and to change nothing.
func (g *opw) forceNonActiveSegment() {
	rt, c := g.rt, g.c
	if gen.Chance(rt, "preact", 1, 2) {
		g.emit(op{K: "actall"})
	}
	if gen.Chance(rt, "predes", 1, 2) {
		g.emit(g.desall(gen.Range(rt, "nde", 1, 3)), op{K: "end", A: 1})
	}
	clip := func(off int) int {
		if off > c.Max {
			off = c.Max
		}
		if off < c.Min {
			off = c.Min
		}
		return off
	}
	propT := func(off int) {
		g.emit(op{K: "propT", Ms: g.execMs(), Mask: g.memberMask(), A: gen.Uniform(rt, "thr", 4), B: off}, op{K: "end", A: 1}, op{K: "endv"})
	}
	round := func() { g.emit(op{K: "dkg", Mask: 0xff}, op{K: "end", A: 1}) }
	force := func(sel int) {
		// an execution time inside the window, so that the group is the only thing wrong with the proposal
		off := c.Min + gen.OneOf(rt, "f5", 0, 0, 1)
		if gen.Chance(rt, "foff", 1, 4) {
			off = g.execOffset(2)
		}
		g.emit(op{K: "propF", Ms: g.execMs(), A: sel + gen.OneOf(rt, "seli", 0, 0, 0, 1), B: clipOr(off, c, gen.Chance(rt, "fclip", 7, 8))})
		if gen.Chance(rt, "freq", 1, 3) {
			g.emit(op{K: "req", A: gen.Uniform(rt, "u", nReq)})
		}
		g.emit(op{K: "end", A: 1}, op{K: "endv", A: gen.OneOf(rt, "vn", 0, 0, 0, 1)})
	}
	finish := func() {
		for i, n := 0, gen.Range(rt, "waitn", 0, 1); i < n; i++ {
			g.emit(op{K: "req", A: gen.Uniform(rt, "u", nReq), B: gen.Pick(rt, "feev", 5, 2, 1)}, op{K: "end", A: 1})
		}
		g.end(true)
		g.after()
	}
	switch variant := gen.Pick(rt, "fnav", 6, 3, 3, 2, 2, 1); variant {
	case 0, 1:
		// room for the proposals before the left-over group expires (CreationPeriod is counted in blocks)
		if c.Creation < 8 {
			c.Creation = gen.Range(rt, "creationl", 8, 10)
		}
		rounds := gen.Uniform(rt, "rounds", 3) // completed rounds before the drop: the group is left in ROUND_1..3
		propT(clip(rounds + gen.OneOf(rt, "slackd", 0, 1, 1)))
		for r := 0; r < rounds; r++ {
			round()
		}
		if variant == 1 {
			g.emit(op{K: "stop", B: gen.Uniform(rt, "who", 4)}, op{K: "dkg", Mask: 0xff})
		}
		g.endx(gen.OneOf(rt, "xn", 0, 0, 1)) // still CREATING_GROUP at ExecTime: dropped
		if gen.Chance(rt, "idle", 1, 4) {
			g.emit(op{K: "end", A: 1})
		}
		force(selDKG)
		if variant == 1 && gen.Chance(rt, "again", 1, 3) {
			g.emit(op{K: "dkg", Mask: 0xff})
		}
		finish()
	case 2:
		propT(g.execOffset(8))
		for r, n := 0, gen.Uniform(rt, "rounds", 3); r < n; r++ {
			round()
		}
		force(selDKG) // second proposal, and naming a group that is still creating
		for r := 0; r < 3; r++ {
			round()
		}
		g.emit(op{K: "sign", Mask: 0xff})
		finish()
	case 3:
		if c.Creation < 6 {
			c.Creation = 6
		}
		propT(g.execOffset(5))
		round()
		round()
		g.emit(op{K: "complain", B: gen.Uniform(rt, "who", 4)}, op{K: "dkg", Mask: 0xff}, op{K: "end", A: 1})
		if gen.Chance(rt, "toexec", 1, 2) {
			g.endx(gen.OneOf(rt, "xn", 0, 1))
		}
		force(selFallen)
		finish()
	case 4:
		propT(clip(gen.Range(rt, "offe", 1, 3)))
		if gen.Chance(rt, "r1", 1, 2) {
			g.emit(op{K: "stop", B: gen.Uniform(rt, "who", 4)})
			round()
		}
		for i := 0; i < c.Creation; i++ {
			g.emit(op{K: "end", A: 1})
		}
		force(selExpired)
		finish()
	default:
		force(selGhost)
		finish()
	}
}

func clipOr(off int, c *c18Case, clip bool) int {
	if clip {
		if off > c.Max {
			off = c.Max
		}
		if off < c.Min {
			off = c.Min
		}
	}
	return off
}

// transition A is dropped at its execution time while its hand-over signing S1 is still open in x/tss; transition B
// reaches WAITING_SIGN with its own hand-over signing S2; the current group then completes the STALE S1 (not S2).
// B's hand-over message was never signed, so at B's execution time the group must not change.
func (g *opw) staleHandoverSegment() {
	rt, c := g.rt, g.c
	// the scenario needs a current group, signings that stay open for many blocks and a window with room for B
	c.HasCur = true
	if c.SignPeriod < 30 {
		c.SignPeriod = gen.Range(rt, "signpl", 30, 60)
	}
	if c.Max < c.Min+8 {
		c.Max = c.Min + 8
	}
	if c.Creation < 5 {
		c.Creation = 5
	}
	g.emit(op{K: "actall"}, op{K: "desall", B: 2}, op{K: "end", A: gen.OneOf(rt, "dt0", 1, 1, 5)})
	dkg := func() {
		for r := 0; r < 3; r++ {
			g.emit(op{K: "dkg", Mask: 0xff}, op{K: "end", A: 1})
		}
	}
	// A: accepted at the voting end Te, key generation done at Te+3 (=> WAITING_SIGN, S1), ExecTime = Te+4
	g.emit(op{K: "propT", Ms: g.execMs(), Mask: g.memberMask(), A: gen.Uniform(rt, "thr", 4), B: 4}, op{K: "end", A: 1}, op{K: "endv"})
	dkg()
	if gen.Chance(rt, "reqA", 1, 3) {
		g.emit(op{K: "req", A: gen.Uniform(rt, "u", nReq)})
	}
	g.endx(gen.OneOf(rt, "xa", 0, 0, 1)) // nobody signs S1: A is dropped
	if gen.Chance(rt, "idle", 1, 3) {
		g.emit(op{K: "end", A: 1})
	}
	// B: room for three DKG blocks and the block in which the stale S1 completes, before its ExecTime
	offB := gen.Range(rt, "offB", 6, 8)
	g.emit(op{K: "propT", Ms: g.execMs(), Mask: g.memberMask(), A: gen.Uniform(rt, "thr", 4), B: offB}, op{K: "end", A: 1}, op{K: "endv"})
	dkg()
	g.emit(op{K: "sign", A: -1, Mask: 0xff}, op{K: "end", A: 1})
	switch gen.Pick(rt, "staleThen", 5, 2, 1) {
	case 1: // afterwards B's own hand-over is signed as well: B may execute
		g.emit(op{K: "sign", A: 0, Mask: 0xff})
	case 2:
		g.emit(op{K: "req", A: gen.Uniform(rt, "u", nReq)})
	}
	g.endx(gen.OneOf(rt, "xb", 0, 0, 1, -1))
	g.after()
}

// after the execution time: requests and signing with whatever group is current now
func (g *opw) after() {
	rt := g.rt
	g.emit(op{K: "end", A: 1})
	if gen.Chance(rt, "rogueafter", 1, 2) {
		// the transition is over (executed: the replaced group is still ACTIVE in x/tss; dropped after key generation: so is
		// the incoming one): an ordinary account tries what only governance may do
		g.rogue(gen.Pick(rt, "rkind", 6, 1, 1))
		g.emit(op{K: "end", A: 1})
	}
	for i, n := 0, gen.Range(rt, "aftern", 0, 2); i < n; i++ {
		g.emit(op{K: "req", A: gen.Uniform(rt, "u", nReq)}, op{K: "end", A: 1}, op{K: "sign", A: gen.Uniform(rt, "s", 3), Mask: 0xff}, op{K: "end", A: 1})
		g.noise(1, 4)
	}
}

func genC18(rt *rapid.T) c18Case {
	c := c18Case{}
	c.Seed = gen.Uniform(rt, "seed", 1<<16)
	c.HasCur = gen.Chance(rt, "hascur", 5, 6)
	c.CurN = gen.Range(rt, "curn", 2, 3)
	c.CurT = gen.Range(rt, "curt", 1, c.CurN)
	c.Extra = gen.Chance(rt, "extra", 2, 3)
	c.ExtraN = gen.Range(rt, "extran", 2, 3)
	c.ExtraT = gen.Range(rt, "extrat", 1, c.ExtraN)
	c.Min = gen.OneOf(rt, "min", 1, 1, 2, 3)
	c.Max = c.Min + gen.OneOf(rt, "maxd", 0, 5, 8, 8, 10, 12, 12)
	c.Creation = gen.Range(rt, "creation", 4, 9)
	c.SignPeriod = gen.Range(rt, "signp", 1, 3)
	if gen.Chance(rt, "signlong", 1, 3) { // signings that outlive a whole transition
		c.SignPeriod = gen.Range(rt, "signpl", 30, 60)
	}
	c.MaxAttempt = gen.OneOf(rt, "maxatt", 1, 2, 3)
	c.Fee = int64(gen.OneOf(rt, "fee", 0, 5, 10, 10))
	c.Penalty = gen.OneOf(rt, "penalty", 1, 1, 2, 5)
	c.InitDE = gen.OneOf(rt, "initde", 0, 1, 3, 3, 4)
	c.GovV = gen.OneOf(rt, "govv", 2, 2, 3)
	g := &opw{rt: rt, c: &c}
	nseg := rapid.IntRange(1, 3).Draw(rt, "nseg")
	for i := 0; i < nseg; i++ {
		g.starve = gen.Chance(rt, "starve", 1, 4)
		g.segStart = len(g.ops)
		if gen.Chance(rt, "roguefirst", 1, 4) {
			g.rogue(0)
			g.emit(op{K: "end", A: 1})
		}
		switch gen.Pick(rt, "seg", 6, 3, 1, 1, 4, 4, 2) {
		case 6:
			g.inactiveCarrySegment()
		case 5:
			g.dupMemberSegment()
		case 4:
			g.forceNonActiveSegment()
		case 3:
			g.staleHandoverSegment()
		case 0:
			g.transitionSegment()
		case 1:
			g.forceSegment()
		case 2:
			for j, n := 0, rapid.IntRange(3, 15).Draw(rt, "nnoise"); j < n; j++ {
				g.noiseOp()
			}
			g.emit(op{K: "end", A: 1})
		}
	}
	c.Ops = g.ops
	return c
}

// ---- run ------------------------------------------------------------------------------------------------

func isEnd(k string) bool { return k == "end" || k == "endx" || k == "endv" }

func runC18(c c18Case) *pbt.Verdict {
	v := &pbt.Verdict{}
	if c.CurN < 1 || c.CurT < 1 || c.CurT > c.CurN || c.CurN > poolSize || c.ExtraN < 1 || c.ExtraT < 1 || c.ExtraT > c.ExtraN || c.ExtraN > poolSize ||
		c.Min < 1 || c.Max < c.Min || c.Creation < 1 || c.SignPeriod < 1 || c.GovV < 1 || c.Penalty < 1 || c.InitDE < 0 || c.InitDE > maxDESize || c.Fee < 0 {
		v.Failf("harness", "malformed case")
		return v
	}
	w := newWorld(c, v)
	if w == nil {
		return v
	}
	defer w.ch.Close()
	for _, o := range c.Ops {
		if isEnd(o.K) {
			if !w.flush(o) {
				break
			}
			continue
		}
		w.pending = append(w.pending, o)
	}
	if v.Violation == "" && !w.stopped {
		// let everything that is due happen: open proposals, the open transition, pending time-outs
		tail := []op{{K: "endv"}, {K: "endv"}, {K: "end", A: 1}, {K: "endx"}, {K: "end", A: 1}, {K: "end", A: 1}}
		for i := 0; i < len(tail) && v.Violation == "" && !w.stopped; i++ {
			w.flush(tail[i])
		}
	}
	w.finish()
	return v
}

func (w *world) finish() {
	v := w.v
	type sample struct {
		Case    string      `json:"case"`
		Records []*trRecord `json:"transitions"`
	}
	near := func(a, b int64) bool { return a != 0 && b != 0 && a-b <= 1 && b-a <= 1 }
	for _, r := range w.m.records {
		v.Count("transitions", 1)
		if r.ReachedWS {
			v.Class("reached-WAITING_SIGN")
		}
		if r.ReachedWE {
			v.Class("reached-WAITING_EXECUTION")
		}
		if r.Forced {
			v.Class("forced")
		}
		if r.NoCurrent {
			v.Class("no-current-group")
		}
		v.Class("outcome:" + r.Outcome)
		if r.Forced && r.Outcome == "executed" {
			v.Class("executed-forced")
		}
		if !r.Forced && r.Outcome == "executed" {
			v.Class("executed-after-handover")
		}
		ms := false
		if near(r.PropH, r.ExecH) {
			v.Class("milestone-near-exec:proposal")
			ms = true
		}
		if near(r.DkgH, r.ExecH) {
			v.Class("milestone-near-exec:keygen")
			ms = true
			if r.DkgH == r.ExecH {
				v.Class("keygen-completes-in-exec-block")
			}
		}
		if near(r.SignH, r.ExecH) {
			v.Class("milestone-near-exec:handover-signed")
			ms = true
			if r.SignH == r.ExecH {
				v.Class("handover-signed-in-exec-block")
			}
		}
		if (r.ReachedWS || r.ReachedWE) && ms {
			v.NonTrivial = true
		}
		if r.ReqWE > 0 {
			v.Class("requests-while-WAITING_EXECUTION")
		}
	}
	var ks []string
	for k := range w.classes {
		ks = append(ks, k)
	}
	sort.Strings(ks)
	for _, k := range ks {
		v.Class(k)
	}
	if v.NonTrivial {
		v.Class("nontrivial")
	}
	v.Sample = sample{Case: fmt.Sprintf("cur=%v(%d/%d) extra=%v min=%d max=%d creation=%d signp=%d att=%d fee=%d ops=%d", w.c.HasCur, w.c.CurT, w.c.CurN, w.c.Extra, w.c.Min, w.c.Max, w.c.Creation, w.c.SignPeriod, w.c.MaxAttempt, w.c.Fee, len(w.c.Ops)), Records: w.m.records}
}
