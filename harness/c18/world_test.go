package c18

// The harness side of C18: builds the chain, turns late-bound operations into really signed transactions,
// extracts the facts (gov / x/tss events and tx results) of every block in order, feeds them to the reference
// state machine (model_test.go) and compares the bandtss state after every block.

import (
	"bytes"
	"encoding/hex"
	"fmt"
	"os"
	"sort"
	"strings"
	"time"

	abci "github.com/cometbft/cometbft/abci/types"

	"cosmossdk.io/math"

	sdk "github.com/cosmos/cosmos-sdk/types"
	govv1 "github.com/cosmos/cosmos-sdk/x/gov/types/v1"

	"github.com/bandprotocol/chain/v3/pkg/tss"
	bandtsstypes "github.com/bandprotocol/chain/v3/x/bandtss/types"
	tsstypes "github.com/bandprotocol/chain/v3/x/tss/types"

	"verif/harness/pbt"
	"verif/harness/sim"
	"verif/harness/tssworld"
)

const (
	poolSize   = 5
	nReq       = 2
	maxDESize  = 10
	handoverTy = "GroupTransitionSignatureOrder"
	// tss.Hash([]byte("Transition"))[:4], documented prefix of the hand-over message
	handoverPrefix = "\x61\xb9\xb7\x41"
)

type grp struct {
	id           uint64
	threshold    uint64
	members      []string
	keys         *tssworld.Group // key shares (genesis groups: known; created groups: after round 3)
	dkg          []*dkgMember
	createdH     int64
	round        int  // completed key-generation rounds (x/tss events)
	everIncoming bool // was created as the incoming group of a MsgTransitionGroup
}

type sigInfo struct {
	id, group   uint64
	attempt     uint64
	assigned    []string
	open        bool
	kind        string    // handover | cur | inc | ?
	paid        sdk.Coins // fee per signer owed to the assignees on completion (nil: unpaid)
	msgHex      string
	contentType string
}

type propInfo struct {
	pid       uint64
	kind      string // trans | force
	execTime  time.Time
	target    uint64
	votingEnd time.Time
	done      bool
	dup       string // MsgTransitionGroup naming one account twice: "" | same-string | upper-case
}

type createdSig struct{ sid, gid uint64 }

type txMeta struct {
	kind     string
	sender   string
	prop     *propInfo
	nDE      int
	feeLimit sdk.Coins
	what     string
	// collected from the tx events
	created      []createdSig
	reqEv        *abci.Event
	createFailed int
}

type world struct {
	c         c18Case
	v         *pbt.Verdict
	ch        *sim.Chain
	wallet    *tssworld.Wallet
	pool      []*sim.Account
	reqs      []*sim.Account
	outsider  *sim.Account
	fee       sdk.Coins
	moduleAcc string

	grps     map[uint64]*grp
	sigs     map[uint64]*sigInfo
	props    []*propInfo
	nextPID  uint64
	reqCount int

	// tss-level bookkeeping used to predict whether a group can sign
	active map[string]bool // "gid/addr"
	de     map[string]int  // addr -> queued nonce pairs
	bal    map[string]sdk.Coins

	m *model

	// per block
	pending         []op
	pendingOut      []outEv
	pendingGroup    uint64
	pendingHandover uint64
	incPaidCheck    map[string]bool // assignees of incoming-group signings completed in this block
	classes         map[string]bool
	wasCurrent      map[uint64]int
	lastCur         uint64
	stopped         bool
}

func (w *world) class(s string) {
	if s != "" {
		w.classes[s] = true
	}
}

func poolAddr(i int) string { return sim.NewAccount(fmt.Sprintf("user%d", i)).Addr.String() }

func newWorld(c c18Case, v *pbt.Verdict) *world {
	w := &world{c: c, v: v, grps: map[uint64]*grp{}, sigs: map[uint64]*sigInfo{}, nextPID: 1,
		active: map[string]bool{}, de: map[string]int{}, bal: map[string]sdk.Coins{}, classes: map[string]bool{}, wasCurrent: map[uint64]int{}}
	w.fee = sdk.NewCoins()
	if c.Fee > 0 {
		w.fee = sdk.NewCoins(sdk.NewInt64Coin("uband", c.Fee))
	}
	w.m = &model{groups: map[uint64]*mGroup{}, members: map[string]bool{},
		fail:  func(sig, format string, a ...any) { v.Failf(sig, format, a...) },
		count: func(k string) { v.Count(k, 1) }}

	cfg := sim.Config{NumAccounts: poolSize + nReq + 1, MintOff: true,
		Balance:    sdk.NewCoins(sdk.NewInt64Coin("uband", 1_000_000_000)),
		Validators: []sim.ValSpec{{Tokens: 10_000_000}},
		GovVoting:  time.Duration(c.GovV) * time.Second,
	}
	tp := tsstypes.DefaultParams()
	tp.MaxDESize = maxDESize
	tp.CreationPeriod = uint64(c.Creation)
	tp.SigningPeriod = uint64(c.SignPeriod)
	tp.MaxSigningAttempt = uint64(c.MaxAttempt)
	cfg.TSS = &tp
	bp := bandtsstypes.DefaultParams()
	bp.FeePerSigner = w.fee
	bp.InactivePenaltyDuration = time.Duration(c.Penalty) * time.Second
	bp.MinTransitionDuration = time.Duration(c.Min) * time.Second
	bp.MaxTransitionDuration = time.Duration(c.Max) * time.Second
	cfg.Bandtss = &bp

	w.wallet = tssworld.NewWallet()
	var groups []*tssworld.Group
	cur := -1
	if c.HasCur {
		var addrs []string
		for i := 0; i < c.CurN; i++ {
			addrs = append(addrs, poolAddr(i))
		}
		groups = append(groups, tssworld.NewGroup(tss.GroupID(len(groups)+1), uint64(c.CurT), addrs, fmt.Sprintf("c18-cur-%d", c.Seed)))
		cur = 0
	}
	if c.Extra {
		var addrs []string
		for i := 0; i < c.ExtraN; i++ {
			addrs = append(addrs, poolAddr((2+i)%poolSize))
		}
		groups = append(groups, tssworld.NewGroup(tss.GroupID(len(groups)+1), uint64(c.ExtraT), addrs, fmt.Sprintf("c18-extra-%d", c.Seed)))
	}
	tssworld.GenesisFor(&cfg, groups, cur, w.wallet, c.InitDE)
	for _, d := range cfg.TSSGenesis.DEs {
		w.de[d.Address]++
	}
	for _, g := range groups {
		gi := &grp{id: uint64(g.ID), threshold: g.Threshold, keys: g, createdH: 1}
		mg := &mGroup{id: uint64(g.ID), threshold: g.Threshold, status: "active"}
		for _, mem := range g.Members {
			gi.members = append(gi.members, mem.Addr)
			mg.members = append(mg.members, mem.Addr)
			w.active[mkey(gi.id, mem.Addr)] = true
		}
		w.grps[gi.id] = gi
		w.m.groups[gi.id] = mg
	}
	if cur >= 0 {
		w.m.cur = uint64(groups[cur].ID)
		w.m.addMembers(w.m.cur)
	}
	ch, err := sim.New(cfg, 0)
	if err != nil {
		v.Failf("harness", "sim.New: %v", err)
		return nil
	}
	w.ch = ch
	w.pool = ch.Users[:poolSize]
	w.reqs = ch.Users[poolSize : poolSize+nReq]
	w.outsider = ch.Users[poolSize+nReq] // an account that is in no group and sends nothing but authority-only messages
	w.moduleAcc = ch.App.AccountKeeper.GetModuleAddress(bandtsstypes.ModuleName).String()
	ctx := ch.Ctx()
	for _, a := range w.tracked() {
		w.bal[a] = ch.App.BankKeeper.GetAllBalances(ctx, sdk.MustAccAddressFromBech32(a))
	}
	return w
}

func (w *world) tracked() []string {
	var out []string
	for _, a := range w.pool {
		out = append(out, a.Addr.String())
	}
	for _, a := range w.reqs {
		out = append(out, a.Addr.String())
	}
	return append(out, w.moduleAcc)
}

func (w *world) move(from, to string, amt sdk.Coins) {
	w.bal[from] = w.bal[from].Sub(amt...)
	w.bal[to] = w.bal[to].Add(amt...)
}

// available signers of a group as x/tss defines them: active members with at least one queued nonce pair.
func (w *world) canSign(gid uint64) bool {
	g := w.m.groups[gid]
	if g == nil || g.status != "active" {
		return false
	}
	n := uint64(0)
	for _, a := range g.members {
		if w.active[mkey(gid, a)] && w.de[a] > 0 {
			n++
		}
	}
	return n >= g.threshold
}

func (w *world) totalFee() sdk.Coins {
	if w.m.cur == 0 {
		return sdk.NewCoins()
	}
	g := w.m.groups[w.m.cur]
	if g == nil {
		return sdk.NewCoins()
	}
	return w.fee.MulInt(math.NewIntFromUint64(g.threshold))
}

// ---- selectors (late binding) --------------------------------------------------------------------------

func (w *world) groupIDs() []uint64 {
	var ids []uint64
	for id := range w.grps {
		ids = append(ids, id)
	}
	sort.Slice(ids, func(i, j int) bool { return ids[i] < ids[j] })
	return ids
}

// groups whose key generation is running on chain, newest first
func (w *world) inProgress() []uint64 {
	ctx := w.ch.Ctx()
	var out []uint64
	ids := w.groupIDs()
	for i := len(ids) - 1; i >= 0; i-- {
		g, err := w.ch.App.TSSKeeper.GetGroup(ctx, tss.GroupID(ids[i]))
		if err != nil {
			continue
		}
		switch g.Status {
		case tsstypes.GROUP_STATUS_ROUND_1, tsstypes.GROUP_STATUS_ROUND_2, tsstypes.GROUP_STATUS_ROUND_3:
			out = append(out, ids[i])
		}
	}
	return out
}

// groups whose key generation ended with the given outcome (facts reported by x/tss events), newest first
func (w *world) groupsWithStatus(st string) []uint64 {
	var out []uint64
	ids := w.groupIDs()
	for i := len(ids) - 1; i >= 0; i-- {
		if g := w.m.groups[ids[i]]; g != nil && g.status == st {
			out = append(out, ids[i])
		}
	}
	return out
}

func (w *world) openSignings() []uint64 {
	var ids []uint64
	for id, s := range w.sigs {
		if s.open {
			ids = append(ids, id)
		}
	}
	sort.Slice(ids, func(i, j int) bool { return ids[i] < ids[j] })
	return ids
}

func pick[T any](xs []T, i int) T {
	if i < 0 {
		i = -i
	}
	return xs[i%len(xs)]
}

// ---- building transactions ----------------------------------------------------------------------------

type blockBuilder struct {
	w     *world
	T     time.Time
	txs   [][]byte
	metas []*txMeta
	seen  map[string]bool
}

func (b *blockBuilder) add(signer *sim.Account, meta *txMeta, msgs ...sdk.Msg) {
	meta.sender = signer.Addr.String()
	b.txs = append(b.txs, b.w.ch.SignTx(signer, msgs...))
	b.metas = append(b.metas, meta)
}

func (b *blockBuilder) inapplicable(k string) { b.w.v.Count("inapplicable_"+k, 1) }

func (b *blockBuilder) propose(kind string, msg sdk.Msg, execTime time.Time, target uint64) *propInfo {
	w := b.w
	val := w.ch.Vals[0]
	sp, err := govv1.NewMsgSubmitProposal([]sdk.Msg{msg}, sdk.NewCoins(sdk.NewInt64Coin("uband", 10)), val.Addr.String(), "", "t", "s", false)
	if err != nil {
		w.v.Failf("harness", "NewMsgSubmitProposal: %v", err)
		return nil
	}
	p := &propInfo{pid: w.nextPID, kind: kind, execTime: execTime, target: target, votingEnd: b.T.Add(time.Duration(w.c.GovV) * time.Second)}
	w.nextPID++
	w.props = append(w.props, p)
	b.add(val, &txMeta{kind: "prop", prop: p}, sp)
	b.add(val, &txMeta{kind: "vote", prop: p}, govv1.NewMsgVote(val.Addr, p.pid, govv1.OptionYes, ""))
	return p
}

// proposeMalformed submits a proposal whose message does not pass its own stateless validation: governance refuses the
// submission, no proposal id is used up and there is nothing to vote on.
func (b *blockBuilder) proposeMalformed(msg sdk.Msg, what string) {
	w := b.w
	val := w.ch.Vals[0]
	sp, err := govv1.NewMsgSubmitProposal([]sdk.Msg{msg}, sdk.NewCoins(sdk.NewInt64Coin("uband", 10)), val.Addr.String(), "", "t", "s", false)
	if err != nil {
		w.v.Failf("harness", "NewMsgSubmitProposal: %v", err)
		return
	}
	b.add(val, &txMeta{kind: "prop-malformed", what: what}, sp)
}

func (b *blockBuilder) build(o op) {
	w := b.w
	ctx := w.ch.Ctx()
	k := w.ch.App.TSSKeeper
	switch o.K {
	case "propT":
		var addrs []string
		for i := 0; i < poolSize && len(addrs) < 4; i++ {
			if o.Mask&(1<<uint(i)) != 0 {
				addrs = append(addrs, w.pool[i].Addr.String())
			}
		}
		if len(addrs) == 0 {
			addrs = []string{w.pool[0].Addr.String(), w.pool[1].Addr.String()}
		}
		a := o.A
		if a < 0 {
			a = -a
		}
		// one account named twice: D 1/2 the identical string (last / first), D 3/4 the ALL-UPPER-CASE bech32 spelling of
		// the same address (a different string, the same account)
		dup := ""
		switch o.D {
		case 1:
			addrs, dup = append(addrs, addrs[0]), "same-string"
		case 2:
			addrs, dup = append([]string{addrs[len(addrs)-1]}, addrs...), "same-string"
		case 3:
			addrs, dup = append(addrs, strings.ToUpper(addrs[0])), "upper-case"
		case 4:
			addrs, dup = append([]string{strings.ToUpper(addrs[len(addrs)-1])}, addrs...), "upper-case"
		}
		thr := uint64(1 + a%len(addrs))
		execTime := b.T.Add(time.Duration(w.c.GovV+o.B)*time.Second + time.Duration(o.Ms)*time.Millisecond)
		msg := bandtsstypes.NewMsgTransitionGroup(addrs, thr, execTime, sim.GovAuthority())
		if dup == "same-string" {
			b.proposeMalformed(msg, "propT-duplicate-member:same-string")
			return
		}
		if p := b.propose("trans", msg, execTime, 0); p != nil {
			p.dup = dup
		}
	case "propF":
		ids := w.groupIDs()
		// prefer ACTIVE groups other than the current one; selector values >= 100 pick any group (negative cases)
		var good []uint64
		for _, id := range ids {
			if g := w.m.groups[id]; g != nil && g.status == "active" && id != w.m.cur {
				good = append(good, id)
			}
		}
		var target uint64
		// selectors of groups without a finished key generation (see selDKG...): late-bound, "any group" when there is none
		var special []uint64
		sel := o.A
		switch {
		case o.A >= selGhost:
			target = w.ch.App.TSSKeeper.GetGroupCount(ctx) + 1 + uint64(o.A-selGhost)
		case o.A >= selExpired:
			special, sel = w.groupsWithStatus("expired"), o.A-selExpired
		case o.A >= selFallen:
			special, sel = w.groupsWithStatus("fallen"), o.A-selFallen
		case o.A >= selDKG:
			special, sel = w.inProgress(), o.A-selDKG
		}
		if o.A >= selDKG && o.A < selGhost && len(special) == 0 {
			b.inapplicable("propF_selector")
		}
		switch {
		case target != 0:
		case len(special) > 0:
			target = pick(special, sel)
		case o.A >= 100 && len(ids) > 0:
			target = pick(ids, o.A)
		case len(good) > 0:
			target = pick(good, o.A)
		case len(ids) > 0:
			target = pick(ids, o.A)
		default:
			target = 1
		}
		execTime := b.T.Add(time.Duration(w.c.GovV+o.B)*time.Second + time.Duration(o.Ms)*time.Millisecond)
		b.propose("force", bandtsstypes.NewMsgForceTransitionGroup(tss.GroupID(target), execTime, sim.GovAuthority()), execTime, target)
	case "rogue":
		// an authority-only bandtss message sent directly in a transaction by an ordinary account. D 0: the sender names
		// itself as authority; D 1: it names the governance account (the transaction is then signed by somebody who is not
		// the message's signer). A: 0 MsgForceTransitionGroup, 1 MsgTransitionGroup, 2 MsgUpdateParams.
		senders := append(append([]*sim.Account{w.outsider}, w.reqs...), w.pool...)
		sender := pick(senders, int(o.Mask>>8))
		authority := sender.Addr.String()
		if o.D == 1 {
			sender, authority = w.outsider, sim.GovAuthority()
			if b.seen["rogue-gov"] {
				b.inapplicable("rogue")
				return
			}
			b.seen["rogue-gov"] = true
		}
		execTime := b.T.Add(time.Duration(o.B)*time.Second + time.Duration(o.Ms)*time.Millisecond)
		inWindow := !execTime.Before(b.T.Add(time.Duration(w.c.Min)*time.Second)) && !execTime.After(b.T.Add(time.Duration(w.c.Max)*time.Second))
		meta := &txMeta{kind: "rogue"}
		var msg sdk.Msg
		switch abs(o.A) % 3 {
		case 0:
			var good []uint64
			for _, id := range w.groupIDs() {
				if g := w.m.groups[id]; g != nil && g.status == "active" && id != w.m.cur {
					good = append(good, id)
				}
			}
			target := uint64(1)
			if len(good) > 0 {
				target = pick(good, int(o.Mask&0xff))
			}
			msg = bandtsstypes.NewMsgForceTransitionGroup(tss.GroupID(target), execTime, authority)
			meta.what = "force"
			// would governance's own message be accepted at this moment? (no transition pending - this block's proposals
			// execute after its transactions -, execution time inside the window, another group with a finished key generation)
			if len(good) > 0 && inWindow && w.m.tr == nil {
				meta.what = "force-acceptable"
			}
		case 1:
			var addrs []string
			for i := 0; i < poolSize && len(addrs) < 4; i++ {
				if o.Mask&(1<<uint(i)) != 0 {
					addrs = append(addrs, w.pool[i].Addr.String())
				}
			}
			if len(addrs) == 0 {
				addrs = []string{w.pool[0].Addr.String(), w.pool[1].Addr.String()}
			}
			msg = bandtsstypes.NewMsgTransitionGroup(addrs, 1, execTime, authority)
			meta.what = "transition"
			if inWindow && w.m.tr == nil {
				meta.what = "transition-acceptable"
			}
		default:
			p := w.ch.App.BandtssKeeper.GetParams(ctx)
			p.MaxTransitionDuration += time.Hour
			p.MinTransitionDuration = time.Second
			msg = bandtsstypes.NewMsgUpdateParams(authority, p)
			meta.what = "params"
		}
		if o.D == 1 {
			meta.what += "/authority=gov-signed-by-sender"
			seq := sender.Seq
			b.add(sender, meta, msg)
			sender.Seq = seq // the ante handler refuses the signature: the account's sequence does not move
		} else {
			meta.what += "/authority=self"
			b.add(sender, meta, msg)
		}
	case "dkg", "complain", "stop":
		prog := w.inProgress()
		if len(prog) == 0 {
			b.inapplicable(o.K)
			return
		}
		gid := pick(prog, o.A)
		g := w.grps[gid]
		if g == nil {
			b.inapplicable(o.K)
			return
		}
		if o.K == "stop" {
			mi := pick(g.dkg, o.B)
			mi.stopped = true
			return
		}
		cg, err := k.GetGroup(ctx, tss.GroupID(gid))
		if err != nil {
			b.inapplicable(o.K)
			return
		}
		gr, err := queryGroup(w.ch, tss.GroupID(gid))
		if err != nil {
			w.v.Failf("harness", "query group %d: %v", gid, err)
			return
		}
		if o.K == "complain" {
			if cg.Status != tsstypes.GROUP_STATUS_ROUND_3 || len(g.members) < 2 {
				b.inapplicable(o.K)
				return
			}
			a := o.B
			if a < 0 {
				a = -a
			}
			i := a % len(g.members)
			mid := tss.MemberID(i + 1)
			key := fmt.Sprintf("dkg/%d/3/%d", gid, i)
			if g.dkg[i].dkg == nil || b.seen[key] || k.HasConfirm(ctx, tss.GroupID(gid), mid) || k.HasComplaintsWithStatus(ctx, tss.GroupID(gid), mid) {
				b.inapplicable(o.K)
				return
			}
			resp := tss.MemberID((i+1)%len(g.members) + 1)
			msg, err := dkgFalseComplaint(fmt.Sprintf("%d/%d/%d/c", w.c.Seed, gid, i), gr, tss.GroupID(gid), g.members[i], g.dkg[i], resp)
			if err != nil {
				w.v.Failf("harness", "false complaint: %v", err)
				return
			}
			b.seen[key] = true
			b.add(w.ch.Account(g.members[i]), &txMeta{kind: "complain", what: fmt.Sprintf("group %d member %d", gid, mid)}, msg)
			return
		}
		round := 0
		switch cg.Status {
		case tsstypes.GROUP_STATUS_ROUND_1:
			round = 1
		case tsstypes.GROUP_STATUS_ROUND_2:
			round = 2
		case tsstypes.GROUP_STATUS_ROUND_3:
			round = 3
		}
		n := 0
		for i, addr := range g.members {
			if o.Mask&(1<<uint(i)) == 0 || g.dkg[i].stopped {
				continue
			}
			mid := tss.MemberID(i + 1)
			key := fmt.Sprintf("dkg/%d/%d/%d", gid, round, i)
			if b.seen[key] {
				continue
			}
			seed := fmt.Sprintf("%d/%d/%d/r%d", w.c.Seed, gid, i, round)
			var msg sdk.Msg
			switch round {
			case 1:
				if k.HasRound1Info(ctx, tss.GroupID(gid), mid) {
					continue
				}
				var dm *dkgMember
				dm, msg, err = dkgRound1(seed, gr, tss.GroupID(gid), addr, mid)
				if err == nil {
					dm.stopped = g.dkg[i].stopped
					g.dkg[i] = dm
				}
			case 2:
				if k.HasRound2Info(ctx, tss.GroupID(gid), mid) || g.dkg[i].dkg == nil {
					continue
				}
				msg, err = dkgRound2(seed, gr, tss.GroupID(gid), addr, g.dkg[i])
			case 3:
				if k.HasConfirm(ctx, tss.GroupID(gid), mid) || k.HasComplaintsWithStatus(ctx, tss.GroupID(gid), mid) || g.dkg[i].dkg == nil {
					continue
				}
				msg, err = dkgRound3(seed, gr, tss.GroupID(gid), addr, g.dkg[i])
			}
			if err != nil {
				w.v.Failf("harness", "dkg round %d group %d member %d: %v", round, gid, mid, err)
				return
			}
			b.seen[key] = true
			b.add(w.ch.Account(addr), &txMeta{kind: "dkg", what: fmt.Sprintf("group %d round %d member %d", gid, round, mid)}, msg)
			n++
		}
		if n == 0 {
			b.inapplicable(o.K)
		}
	case "sign":
		open := w.openSignings()
		if len(open) == 0 {
			b.inapplicable(o.K)
			return
		}
		var sid uint64
		if o.A < 0 {
			// the oldest open hand-over signing that does not belong to the open transition (left over from an
			// earlier transition that was dropped while its hand-over was still being signed)
			for _, id := range open {
				if s := w.sigs[id]; s.kind == "handover" && (w.m.tr == nil || w.m.tr.signingID != id) {
					sid = id
					break
				}
			}
			if sid == 0 {
				b.inapplicable("sign_stale")
				return
			}
		} else if o.A == 0 {
			sid = open[len(open)-1]
			if t := w.m.tr; t != nil && t.status == stWaitingSign && w.sigs[t.signingID] != nil && w.sigs[t.signingID].open {
				sid = t.signingID
			}
		} else {
			sid = pick(open, o.A-1)
		}
		s := w.sigs[sid]
		g := w.grps[s.group]
		if g == nil || g.keys == nil {
			b.inapplicable("sign_nokeys")
			return
		}
		signing, err := k.GetSigning(ctx, tss.SigningID(sid))
		if err != nil {
			b.inapplicable(o.K)
			return
		}
		sa, err := k.GetSigningAttempt(ctx, tss.SigningID(sid), signing.CurrentAttempt)
		if err != nil {
			b.inapplicable(o.K)
			return
		}
		n := 0
		for i, am := range sa.AssignedMembers {
			if o.Mask&(1<<uint(i)) == 0 {
				continue
			}
			key := fmt.Sprintf("sig/%d/%d/%d", sid, sa.Attempt, am.MemberID)
			if b.seen[key] || k.HasPartialSignature(ctx, tss.SigningID(sid), sa.Attempt, am.MemberID) {
				continue
			}
			mem := g.keys.ByAddr(am.Address)
			if mem == nil {
				continue
			}
			ps, err := tssworld.PartialSignature(mem, w.wallet, signing, sa)
			if err != nil {
				w.v.Count("partial_signature_unbuildable", 1)
				continue
			}
			b.seen[key] = true
			b.add(w.ch.Account(am.Address), &txMeta{kind: "sign", what: fmt.Sprintf("signing %d member %d", sid, am.MemberID)},
				tsstypes.NewMsgSubmitSignature(tss.SigningID(sid), am.MemberID, ps, am.Address))
			n++
		}
		if n == 0 {
			b.inapplicable(o.K)
		}
	case "des":
		a := pick(w.pool, o.A)
		n := 1 + abs(o.B)%4
		b.add(a, &txMeta{kind: "des", nDE: n}, tsstypes.NewMsgSubmitDEs(w.wallet.Fresh(a.Addr.String(), n), a.Addr.String()))
	case "desall":
		n := 1 + abs(o.B)%4
		for i, a := range w.pool {
			if o.Mask != 0 && o.Mask&(1<<uint(i)) == 0 {
				continue
			}
			b.add(a, &txMeta{kind: "des", nDE: n}, tsstypes.NewMsgSubmitDEs(w.wallet.Fresh(a.Addr.String(), n), a.Addr.String()))
		}
	case "act":
		a := pick(w.pool, o.A)
		gid := w.m.cur
		if o.B != 0 && w.m.tr != nil {
			gid = w.m.tr.incoming
		}
		if gid == 0 {
			b.inapplicable(o.K)
			return
		}
		b.add(a, &txMeta{kind: "act"}, bandtsstypes.NewMsgActivate(a.Addr.String(), tss.GroupID(gid)))
	case "actall":
		n := 0
		for _, mem := range w.ch.App.BandtssKeeper.GetMembers(ctx) {
			if !mem.IsActive {
				if acc := w.ch.Account(mem.Address); acc != nil {
					b.add(acc, &txMeta{kind: "act"}, bandtsstypes.NewMsgActivate(mem.Address, mem.GroupID))
					n++
				}
			}
		}
		if n == 0 {
			b.inapplicable(o.K)
		}
	case "req":
		u := pick(w.reqs, o.A)
		total := w.totalFee()
		var fl sdk.Coins
		switch abs(o.B) % 3 {
		case 0:
			fl = total.Add(sdk.NewInt64Coin("uband", 1000))
		case 1:
			fl = total
		default:
			fl = total
			if !total.IsZero() {
				fl = total.Sub(sdk.NewInt64Coin("uband", 1))
			}
		}
		if fl.IsZero() {
			// MsgRequestSignature.ValidateBasic refuses an empty fee limit: callers always name a positive one
			fl = sdk.NewCoins(sdk.NewInt64Coin("uband", 1))
		}
		w.reqCount++
		text := []byte(fmt.Sprintf("c18 request %d", w.reqCount))
		b.add(u, &txMeta{kind: "req", feeLimit: fl}, tssworld.TextRequest(u.Addr, text, fl))
	}
}

func abs(x int) int {
	if x < 0 {
		return -x
	}
	return x
}

// dtFor resolves the block-ending operations to a time step.
func (w *world) dtFor(o op) time.Duration {
	off := time.Duration(o.A)*time.Second + time.Duration(o.Ms)*time.Millisecond
	switch o.K {
	case "endx": // land on ExecTime + A of the open transition
		if w.m.tr != nil {
			target := w.m.tr.execTime.Add(off)
			if target.After(w.ch.Time) {
				return target.Sub(w.ch.Time)
			}
		}
		w.v.Count("inapplicable_endx", 1)
		return time.Second
	case "endv": // land on the voting end + A of the oldest open proposal
		for _, p := range w.props {
			if !p.done {
				target := p.votingEnd.Add(off)
				if target.After(w.ch.Time) {
					return target.Sub(w.ch.Time)
				}
				break
			}
		}
		w.v.Count("inapplicable_endv", 1)
		return time.Second
	}
	if off < time.Millisecond {
		return time.Second
	}
	return off
}

// flush executes the buffered operations in one block ending with `end`.
func (w *world) flush(end op) bool {
	dt := w.dtFor(end)
	b := &blockBuilder{w: w, T: w.ch.Time.Add(dt), seen: map[string]bool{}}
	for _, o := range w.pending {
		b.build(o)
		if w.v.Violation != "" {
			return false
		}
	}
	w.pending = nil
	res, err := w.ch.Block(b.txs, dt)
	if err != nil {
		w.v.Failf("C18/finalize", "FinalizeBlock failed at height %d (time %s, model transition: %s): %v", w.ch.Height+1, b.T.Format(time.RFC3339Nano), w.m.describe(), err)
		w.stopped = true
		return false
	}
	w.v.Count("blocks", 1)
	w.v.Count("txs", int64(len(b.txs)))
	w.observe(b.metas, res)
	return w.v.Violation == ""
}

// ---- observing a block ----------------------------------------------------------------------------------

func parseU(s string) uint64 {
	var x uint64
	fmt.Sscan(s, &x)
	return x
}

// scan processes events in order. meta != nil: events of a successful transaction; nil: begin/end-block events.
func (w *world) scan(evs []abci.Event, meta *txMeta, T time.Time, h int64) {
	for i := range evs {
		e := evs[i]
		switch e.Type {
		// ---- x/tss facts
		case "create_group":
			gid := parseU(sim.Attr(e, "group_id"))
			g := &grp{id: gid, threshold: parseU(sim.Attr(e, "threshold")), members: sim.Attrs(e, "address"), createdH: h}
			mg := &mGroup{id: gid, threshold: g.threshold, members: append([]string{}, g.members...), status: "creating"}
			for _, a := range g.members {
				g.dkg = append(g.dkg, &dkgMember{})
				w.active[mkey(gid, a)] = true
			}
			w.grps[gid] = g
			w.m.groups[gid] = mg
			w.pendingGroup = gid
		case "create_signing_request":
			s := &sigInfo{id: parseU(sim.Attr(e, "signing_id")), group: parseU(sim.Attr(e, "group_id")), open: true, kind: "?",
				msgHex: sim.Attr(e, "message"), contentType: sim.Attr(e, "content_type")}
			w.sigs[s.id] = s
			if strings.Contains(s.contentType, handoverTy) {
				if meta != nil {
					w.v.Failf("C18/unexpected-handover-signing", "hand-over signing %d created inside a transaction", s.id)
				}
				if w.pendingHandover != 0 {
					w.v.Failf("C18/unexpected-handover-signing", "two hand-over signings (%d, %d) created in one step", w.pendingHandover, s.id)
				}
				s.kind = "handover"
				w.pendingHandover = s.id
			} else if meta != nil {
				meta.created = append(meta.created, createdSig{s.id, s.group})
			} else {
				w.v.Count("signing_created_in_endblock", 1)
			}
		case "request_signature":
			sid := parseU(sim.Attr(e, "signing_id"))
			if s := w.sigs[sid]; s != nil {
				s.attempt = parseU(sim.Attr(e, "attempt"))
				s.assigned = sim.Attrs(e, "address")
				for _, a := range s.assigned {
					w.de[a]--
				}
			}
		case "round1_success", "round2_success":
			if g := w.grps[parseU(sim.Attr(e, "group_id"))]; g != nil {
				g.round++
			}
		case "round3_success":
			gid := parseU(sim.Attr(e, "group_id"))
			w.onDKGDone(gid, T, h)
		case "round3_failed":
			w.class(w.m.dkgEnded(parseU(sim.Attr(e, "group_id")), "fallen", w.takeOut()))
		case "expired_group":
			w.class(w.m.dkgEnded(parseU(sim.Attr(e, "group_id")), "expired", w.takeOut()))
		case "signing_success":
			sid := parseU(sim.Attr(e, "signing_id"))
			if s := w.sigs[sid]; s != nil {
				s.open = false
				if s.paid != nil {
					for _, a := range s.assigned {
						w.move(w.moduleAcc, a, s.paid)
					}
				}
				if s.kind == "handover" && (w.m.tr == nil || w.m.tr.signingID != sid) {
					w.class("stale-handover-signed")
					if t := w.m.tr; t != nil && t.status == stWaitingSign {
						w.class("stale-handover-signed-while-WAITING_SIGN")
					}
				}
				if s.kind == "inc" {
					w.class("incoming-signing-completed")
					if w.m.tr == nil {
						w.class("incoming-signing-completed-after-the-transition-ended")
					}
					for _, a := range s.assigned {
						w.incPaidCheck[a] = true
					}
				}
			}
			w.class(w.m.signingCompleted(sid, h, w.takeOut()))
		case "signing_failed":
			sid := parseU(sim.Attr(e, "signing_id"))
			if s := w.sigs[sid]; s != nil {
				s.open = false
			}
			w.class(w.m.signingFailed(sid, w.takeOut()))
		// ---- gov fact
		case "active_proposal":
			w.onProposal(parseU(sim.Attr(e, "proposal_id")), sim.Attr(e, "proposal_result"), T, h)
		// ---- bandtss outputs
		case "group_transition", "group_transition_success", "group_transition_failed":
			o := outEv{typ: e.Type, incoming: parseU(sim.Attr(e, "incoming_group_id"))}
			if e.Type == "group_transition" {
				o.status = sim.Attr(e, "transition_status")
			}
			if meta != nil {
				w.v.Failf("C18/events", "transition event %s emitted by a user transaction (%s)", o, meta.kind)
			}
			w.pendingOut = append(w.pendingOut, o)
		case "create_signing_failed":
			if meta != nil {
				meta.createFailed++
			} else {
				w.pendingOut = append(w.pendingOut, outEv{typ: e.Type, incoming: parseU(sim.Attr(e, "group_id"))})
			}
		case "inactive_status":
			if gid := sim.Attr(e, "group_id"); gid != "" {
				w.active[mkey(parseU(gid), sim.Attr(e, "address"))] = false
				w.class("member-deactivated")
			}
		case "activate":
			if gid := sim.Attr(e, "group_id"); gid != "" && sim.Attr(e, "address") != "" {
				w.active[mkey(parseU(gid), sim.Attr(e, "address"))] = true
				w.class("member-reactivated")
			}
		case "bandtss_signing_request_created":
			if meta != nil {
				meta.reqEv = &evs[i]
			}
		}
	}
}

func (w *world) takeOut() []outEv {
	o := w.pendingOut
	w.pendingOut = nil
	return o
}

func (w *world) onProposal(pid uint64, result string, T time.Time, h int64) {
	var p *propInfo
	for _, q := range w.props {
		if q.pid == pid {
			p = q
		}
	}
	if p == nil || p.done {
		return
	}
	p.done = true
	passed := result == "proposal_passed"
	if !passed && result != "proposal_failed" {
		w.v.Failf("harness", "proposal %d ended with %s", pid, result)
		return
	}
	minExec := T.Add(time.Duration(w.c.Min) * time.Second)
	maxExec := T.Add(time.Duration(w.c.Max) * time.Second)
	newGroup := w.pendingGroup
	w.pendingGroup = 0
	if g := w.grps[newGroup]; g != nil && p.kind == "trans" {
		g.everIncoming = true
	}
	var cls string
	if p.kind == "trans" {
		if p.dup != "" {
			w.class("propT-duplicate-member:" + p.dup)
			w.v.Count("propT_duplicate_member_"+strings.ReplaceAll(p.dup, "-", "_"), 1)
			if w.m.tr == nil && !p.execTime.Before(minExec) && !p.execTime.After(maxExec) {
				w.class("propT-duplicate-member:" + p.dup + ":decisive") // nothing else is wrong with the proposal
			}
			w.class(fmt.Sprintf("propT-duplicate-member:current-group=%v", w.m.cur != 0))
		}
		// bandtss members are keyed by address: a group in which one account holds two member ids cannot be represented in
		// the member list the statement talks about (and its threshold counts one party twice)
		if g := w.grps[newGroup]; passed && g != nil {
			seen := map[string]int{}
			for i, a := range g.members {
				if j, dupl := seen[a]; dupl {
					w.class("duplicate-member-group-created")
					w.v.Count("duplicate_member_groups", 1)
					if pbt.As("C18") == "C18" {
						w.v.Failf("C18/duplicate-member-group", "MsgTransitionGroup accepted at height %d created incoming group %d in which %s holds member ids %d and %d (members %v)", h, newGroup, a, j+1, i+1, g.members)
						return
					}
					// donor for another property's engine-level check: keep driving the history
					break
				}
				seen[a] = i
			}
		}
		cls = w.m.proposalTransition(passed, newGroup, p.dup != "", p.execTime, minExec, maxExec, h, w.takeOut())
	} else {
		// what kind of group does the forced transition name, at the moment governance executes it
		kind := "nonexistent"
		if g := w.m.groups[p.target]; g != nil {
			kind = map[string]string{"creating": "dkg", "active": "active", "fallen": "fallen", "expired": "expired"}[g.status]
		}
		if kind != "active" {
			inWindow := !p.execTime.Before(minExec) && !p.execTime.After(maxExec)
			w.class("force-to-" + kind + "-group")
			w.v.Count("force_to_"+kind+"_group", 1)
			if w.m.tr != nil {
				w.class("force-to-" + kind + "-group:transition-in-progress")
			} else if inWindow {
				// nothing else is wrong with the proposal: the group alone decides
				w.class("force-to-" + kind + "-group:decisive")
				w.v.Count("force_to_"+kind+"_group_decisive", 1)
			}
			if kind == "dkg" {
				if g := w.grps[p.target]; g != nil {
					w.class(fmt.Sprintf("force-to-dkg-group:ROUND_%d", g.round+1))
					if w.m.tr == nil && g.everIncoming {
						w.class("force-to-dkg-group:left-over-of-dropped-transition")
					}
				}
			}
		}
		cls = w.m.proposalForce(passed, p.target, p.execTime, minExec, maxExec, h, w.takeOut())
	}
	w.class(cls)
	if passed && p.execTime.Nanosecond() != 0 {
		w.class("exec-time-subsecond")
		w.v.Count("exec_times_subsecond", 1)
	}
	if passed {
		switch {
		case p.execTime.Equal(minExec):
			w.class("exec-time-at-min-boundary")
		case p.execTime.Equal(maxExec):
			w.class("exec-time-at-max-boundary")
		}
	} else if cls == "window-rejected" {
		switch {
		case p.execTime.Equal(minExec.Add(-time.Second)), p.execTime.Equal(maxExec.Add(time.Second)):
			w.class("exec-time-just-outside-window")
		case !p.execTime.After(T):
			w.class("exec-time-not-after-block-time")
		}
	}
}

func (w *world) onDKGDone(gid uint64, T time.Time, h int64) {
	// key shares of the new group: every member that confirmed knows its own
	if g := w.grps[gid]; g != nil {
		cg, err := w.ch.App.TSSKeeper.GetGroup(w.ch.Ctx(), tss.GroupID(gid))
		if err == nil {
			tg := &tssworld.Group{ID: tss.GroupID(gid), Threshold: g.threshold, PubKey: cg.PubKey}
			for i, a := range g.members {
				if i < len(g.dkg) && g.dkg[i].priv != nil {
					tg.Members = append(tg.Members, tssworld.Member{ID: tss.MemberID(i + 1), Addr: a, Priv: g.dkg[i].priv, Pub: g.dkg[i].priv.Point()})
				}
			}
			g.keys = tg
		}
	}
	ho := w.pendingHandover
	w.pendingHandover = 0
	var hoGroup uint64
	if s := w.sigs[ho]; s != nil {
		hoGroup = s.group
		// the message the current group is asked to sign must name the incoming group's key and the execution time
		if t := w.m.tr; t != nil && t.incoming == gid {
			cg, err := w.ch.App.TSSKeeper.GetGroup(w.ch.Ctx(), tss.GroupID(gid))
			if err == nil {
				var tm [8]byte
				u := uint64(t.execTime.Unix())
				for i := 0; i < 8; i++ {
					tm[7-i] = byte(u >> (8 * uint(i)))
				}
				want := hex.EncodeToString(bytes.Join([][]byte{[]byte(handoverPrefix), cg.PubKey, tm[:]}, nil))
				// (x/tss prepends a 4-byte selector of the originating route)
				if !strings.HasSuffix(s.msgHex, want) || len(s.msgHex) != len(want)+8 {
					w.v.Failf("C18/handover-message", "hand-over signing %d asks the current group to sign %s, expected selector|prefix|incoming group key|ExecTime = ....%s", ho, s.msgHex, want)
				}
			}
		}
	}
	w.class(w.m.dkgCompleted(gid, T, h, ho, hoGroup, w.takeOut()))
}

func coinsGTE(limit, need sdk.Coins) bool {
	for _, c := range need {
		if c.Amount.GT(limit.AmountOf(c.Denom)) {
			return false
		}
	}
	return true
}

func (w *world) onRequestTx(meta *txMeta, tr *abci.ExecTxResult) {
	ok := tr.Code == 0
	cur := w.m.cur
	inc := w.m.incomingForRequests()
	total := w.totalFee()
	stage := "no-transition"
	if w.m.tr != nil {
		stage = strings.TrimPrefix(w.m.tr.status.String(), "TRANSITION_STATUS_")
	}
	if !ok {
		w.class("req-rejected@" + stage)
		feeOK := coinsGTE(meta.feeLimit, total)
		balOK := w.bal[meta.sender].IsAllGTE(total)
		if cur != 0 && feeOK && balOK && w.canSign(cur) {
			if inc != 0 {
				w.v.Failf("C18/request-blocked-in-transition", "request rejected (code %d, %s) while the transition awaits execution although the current group %d can sign and the fee limit %s covers %s: the incoming group must not affect the current group's signing", tr.Code, tr.Log, cur, meta.feeLimit, total)
			} else {
				w.v.Count("converse_request_rejected_unexplained", 1)
				if os.Getenv("C18_DEBUG") != "" {
					fmt.Printf("C18_DEBUG unexplained rejection: code=%d log=%s limit=%s total=%s cur=%d\n", tr.Code, tr.Log, meta.feeLimit, total, cur)
				}
			}
		}
		return
	}
	w.class("req-accepted@" + stage)
	var curSig, incSig uint64
	for _, c := range meta.created {
		switch {
		case cur != 0 && c.gid == cur && curSig == 0:
			curSig = c.sid
		case inc != 0 && c.gid == inc && incSig == 0:
			incSig = c.sid
		default:
			if t := w.m.tr; t != nil && c.gid == t.incoming {
				w.v.Failf("C18/incoming-signing-early", "request created signing %d for incoming group %d while the transition is %s (only WAITING_EXECUTION puts requests to the incoming group)", c.sid, c.gid, t.status)
			} else {
				w.v.Failf("C18/request-foreign-group", "request created signing %d for group %d (current %d, incoming for requests %d)", c.sid, c.gid, cur, inc)
			}
			return
		}
	}
	if cur != 0 && curSig == 0 {
		w.v.Failf("C18/request-no-current-signing", "request accepted but no signing was created for the current group %d", cur)
		return
	}
	if curSig == 0 && incSig == 0 {
		w.v.Failf("C18/request-no-signing", "request accepted without any signing (current %d, incoming %d)", cur, inc)
		return
	}
	if s := w.sigs[curSig]; s != nil {
		s.kind = "cur"
		if !total.IsZero() {
			s.paid = w.fee
		}
	}
	if s := w.sigs[incSig]; s != nil {
		s.kind = "inc" // unpaid
	}
	w.move(meta.sender, w.moduleAcc, total)
	if !coinsGTE(meta.feeLimit, total) {
		w.v.Failf("C18/fee-over-limit", "request accepted with fee limit %s below fee_per_signer x threshold = %s", meta.feeLimit, total)
	}
	if inc != 0 {
		w.m.tr.rec.ReqWE++
		if incSig != 0 {
			w.class("req-in-WE-both-groups")
		} else {
			w.class("req-in-WE-incoming-not-created")
			if meta.createFailed == 0 {
				w.v.Count("incoming_skipped_without_event", 1)
			}
			if w.canSign(inc) {
				// "best effort": not a violation, but worth knowing if it ever happens
				w.v.Count("converse_incoming_not_created_though_able", 1)
			}
		}
		if cur == 0 {
			w.class("req-in-WE-no-current-group")
		}
	}
	// second opinion: the module's own event
	if e := meta.reqEv; e != nil {
		if parseU(sim.Attr(*e, "current_group_id")) != cur || parseU(sim.Attr(*e, "current_group_signing_id")) != curSig ||
			parseU(sim.Attr(*e, "incoming_group_id")) != inc || parseU(sim.Attr(*e, "incoming_group_signing_id")) != incSig {
			w.v.Failf("C18/request-event", "bandtss_signing_request_created says current %s/%s incoming %s/%s; facts: current %d/%d incoming %d/%d",
				sim.Attr(*e, "current_group_id"), sim.Attr(*e, "current_group_signing_id"), sim.Attr(*e, "incoming_group_id"), sim.Attr(*e, "incoming_group_signing_id"), cur, curSig, inc, incSig)
		}
		if got := sim.Attr(*e, "total_fee"); got != total.String() {
			w.v.Failf("C18/fee-amount", "request charged %q, expected fee_per_signer x current threshold = %q", got, total.String())
		}
	} else {
		w.v.Failf("C18/request-event", "request accepted without bandtss_signing_request_created event")
	}
}

func (w *world) observe(metas []*txMeta, res *sim.BlockResult) {
	T, h := res.Time, res.Height
	w.m.executed = false
	w.incPaidCheck = map[string]bool{}
	w.pendingOut, w.pendingGroup, w.pendingHandover = nil, 0, 0
	curBefore := w.m.cur
	for i, meta := range metas {
		if i >= len(res.Resp.TxResults) {
			break
		}
		tr := res.Resp.TxResults[i]
		ok := tr.Code == 0
		if meta.kind == "rogue" {
			// the signing group changes only through governance-scheduled transitions: a message of an ordinary account
			// schedules nothing (the reference model is not advanced; the state comparison below checks "changes nothing")
			kind := strings.SplitN(meta.what, "/", 2)[0]
			w.v.Count("rogue_"+strings.ReplaceAll(kind, "-", "_"), 1)
			w.class("non-governance-" + meta.what)
			if strings.HasPrefix(kind, "force-acceptable") {
				w.class("force-by-non-governance-account-when-otherwise-acceptable")
				w.v.Count("force_by_non_governance_account_when_otherwise_acceptable", 1)
			}
			if ok {
				sig := map[string]string{"force": "C18/forced-by-non-governance", "transition": "C18/transition-by-non-governance", "params": "C18/params-by-non-governance"}[strings.SplitN(kind, "-", 2)[0]]
				w.v.Failf(sig, "height %d: %s sent directly by %s (%s) was accepted: only governance may do that (%s)", h, kind, meta.sender, meta.what, w.m.describe())
				return
			}
			continue
		}
		if ok {
			w.scan(tr.Events, meta, T, h)
		}
		switch meta.kind {
		case "prop", "vote":
			if !ok {
				w.v.Failf("harness", "gov %s tx failed: %s", meta.kind, tr.Log)
			}
		case "prop-malformed":
			// (the bookkeeping of proposal ids relies on the refusal)
			if ok {
				w.v.Failf("harness", "governance accepted the submission of a proposal whose message fails its stateless validation (%s)", meta.what)
			}
			w.class(meta.what)
			w.v.Count(strings.ReplaceAll(strings.ReplaceAll(meta.what, "-", "_"), ":", "_"), 1)
		case "dkg", "complain":
			if !ok {
				w.v.Count("dkg_tx_rejected", 1)
				w.v.Failf("harness", "honest DKG tx rejected (%s): %s", meta.what, tr.Log)
			}
		case "sign":
			if !ok {
				w.v.Count("sign_tx_rejected", 1)
			}
		case "des":
			if ok {
				w.de[meta.sender] += meta.nDE
			}
		case "req":
			w.onRequestTx(meta, tr)
		}
		if w.v.Violation != "" {
			return
		}
	}
	// begin/end-block events in order: gov -> (oracle) -> tss -> bandtss
	w.scan(res.Resp.Events, nil, T, h)
	if w.v.Violation != "" {
		return
	}
	if w.pendingHandover != 0 {
		w.v.Failf("C18/unexpected-handover-signing", "hand-over signing %d was created at height %d without a completed key generation awaiting it (%s)", w.pendingHandover, h, w.m.describe())
		return
	}
	if t := w.m.tr; t != nil {
		switch {
		case T.Equal(t.execTime):
			w.class("block-exactly-at-exec-time")
		case T.Before(t.execTime) && T.Unix() == t.execTime.Unix():
			w.class("block-in-same-second-before-exec-time")
			w.v.Count("blocks_in_same_second_before_exec_time", 1)
			if t.status == stWaitingExec {
				w.class("block-in-same-second-before-exec-time:WAITING_EXECUTION")
			}
		case T.After(t.execTime) && T.Unix() == t.execTime.Unix():
			w.class("block-in-same-second-after-exec-time")
		}
	}
	w.class(w.m.endBlock(T, h, w.takeOut()))
	if w.v.Violation != "" {
		return
	}
	w.compare(h, T, curBefore)
}

func (w *world) compare(h int64, T time.Time, curBefore uint64) {
	ctx := w.ch.Ctx()
	bk := w.ch.App.BandtssKeeper
	m := w.m
	// scenario statistics: the incoming group is registered (WAITING_EXECUTION) / has become current while one of its
	// accounts is a deactivated member of the (previous) current group
	if t := m.tr; t != nil && t.status == stWaitingExec && t.current != 0 {
		if gi := m.groups[t.incoming]; gi != nil {
			for _, a := range gi.members {
				if v, known := w.active[mkey(t.current, a)]; known && !v {
					w.class("incoming-registered-while-account-inactive-in-current-group")
				}
			}
		}
	}
	if m.executed && curBefore != 0 {
		if gi := m.groups[m.cur]; gi != nil {
			for _, a := range gi.members {
				if v, known := w.active[mkey(curBefore, a)]; known && !v {
					w.class("executed-while-account-inactive-in-previous-group")
				}
			}
		}
	}
	if m.cur != 0 && (w.lastCur != m.cur) {
		w.wasCurrent[m.cur]++ // number of times the group became the current group
		w.lastCur = m.cur
	}
	// current group
	cg := bk.GetCurrentGroup(ctx)
	if uint64(cg.GroupID) != m.cur {
		sig := "C18/current-group"
		if uint64(cg.GroupID) != curBefore && m.cur == curBefore {
			sig = "C18/unscheduled-change"
		}
		w.v.Failf(sig, "height %d: bandtss current group is %d, reference state machine says %d (before the block: %d)", h, cg.GroupID, m.cur, curBefore)
		return
	}
	// the single transition
	gt, found := bk.GetGroupTransition(ctx)
	switch {
	case found && m.tr == nil:
		w.v.Failf("C18/phantom-transition", "height %d: a transition (%s incoming %d exec %s) is stored although none is in progress", h, gt.Status, gt.IncomingGroupID, gt.ExecTime.Format(time.RFC3339Nano))
		return
	case !found && m.tr != nil:
		w.v.Failf("C18/transition-lost", "height %d (time %s): the transition disappeared before ExecTime without a cause: %s", h, T.Format(time.RFC3339Nano), m.describe())
		return
	case found:
		t := m.tr
		if gt.Status.String() != t.status.String() || uint64(gt.IncomingGroupID) != t.incoming || uint64(gt.CurrentGroupID) != t.current ||
			!gt.ExecTime.Equal(t.execTime) || gt.IsForceTransition != t.forced || (t.status != stCreating && !t.forced && t.current != 0 && uint64(gt.SigningID) != t.signingID) {
			w.v.Failf("C18/transition-state", "height %d: stored transition {%s incoming=%d current=%d exec=%s force=%v signing=%d}, reference: %s", h,
				gt.Status, gt.IncomingGroupID, gt.CurrentGroupID, gt.ExecTime.Format(time.RFC3339Nano), gt.IsForceTransition, gt.SigningID, m.describe())
			return
		}
		if !T.Before(t.execTime) {
			w.v.Failf("C18/transition-overdue", "height %d: block time %s >= ExecTime %s but the transition is still stored", h, T.Format(time.RFC3339Nano), t.execTime.Format(time.RFC3339Nano))
			return
		}
		if t.status == stWaitingExec {
			ig, err := w.ch.App.TSSKeeper.GetGroup(ctx, tss.GroupID(t.incoming))
			if err != nil || ig.Status != tsstypes.GROUP_STATUS_ACTIVE {
				w.v.Failf("C18/waiting-execution-inactive-group", "height %d: transition awaits execution but incoming group %d is not ACTIVE (%v %v)", h, t.incoming, ig.Status, err)
				return
			}
		}
	}
	// the group that signs for the chain is a group that finished key generation
	if cg.GroupID != 0 {
		tg, err := w.ch.App.TSSKeeper.GetGroup(ctx, cg.GroupID)
		if err != nil || tg.Status != tsstypes.GROUP_STATUS_ACTIVE {
			w.v.Failf("C18/current-group-not-active", "height %d: the current signing group %d never finished key generation: x/tss status %v (%v)", h, cg.GroupID, tg.Status, err)
			return
		}
		if mg := m.groups[uint64(cg.GroupID)]; mg == nil || mg.status != "active" {
			w.v.Failf("C18/current-group-not-active", "height %d: the current signing group %d never reported a completed key generation (reference status %v)", h, cg.GroupID, mg)
			return
		}
	}
	// members
	var chainM []string
	for _, mem := range bk.GetMembers(ctx) {
		chainM = append(chainM, mkey(uint64(mem.GroupID), mem.Address))
		// every listed member belongs to the current group or to the incoming group of the open transition
		if uint64(mem.GroupID) != m.cur && (m.tr == nil || uint64(mem.GroupID) != m.tr.incoming) {
			w.v.Failf("C18/member-of-foreign-group", "height %d: bandtss lists %s as member of group %d, which is neither the current group %d nor an incoming group (%s)", h, mem.Address, mem.GroupID, m.cur, m.describe())
			return
		}
	}
	sort.Strings(chainM)
	want := m.memberList()
	if strings.Join(chainM, ",") != strings.Join(want, ",") {
		if m.tr == nil {
			sig := "C18/members"
			if m.executed {
				sig = "C18/members-after-execution"
			}
			w.v.Failf(sig, "height %d: bandtss members %v, expected exactly the members of current group %d: %v", h, chainM, m.cur, want)
			return
		}
		w.v.Count("converse_members_differ_during_transition", 1)
	}
	// activity flags: a bandtss member and the tss member record of the same account in the SAME group say the same
	for _, mem := range bk.GetMembers(ctx) {
		tm, err := w.ch.App.TSSKeeper.GetMemberByAddress(ctx, mem.GroupID, mem.Address)
		if err != nil {
			w.v.Failf("C18/member-of-foreign-group", "height %d: bandtss lists %s in group %d but x/tss has no such member: %v", h, mem.Address, mem.GroupID, err)
			return
		}
		if tm.IsActive != mem.IsActive {
			where := "current"
			if uint64(mem.GroupID) != m.cur {
				where = "incoming"
			}
			if w.wasCurrent[uint64(mem.GroupID)] > 1 || (w.wasCurrent[uint64(mem.GroupID)] == 1 && uint64(mem.GroupID) != m.cur) {
				where += "-group-that-was-current-before"
			}
			if !strings.Contains(where, "was-current-before") {
				w.v.Failf("C18/activity-flags-disagree", "height %d: %s is a member of the %s group %d with IsActive=%v in bandtss but IsActive=%v in the x/tss member record of the same group (%s)", h, mem.Address, where, mem.GroupID, mem.IsActive, tm.IsActive, m.describe())
				return
			}
			// Not asserted: on the unchanged tree a group that returns as current/incoming group (forced transition back to
			// an earlier current group) keeps the x/tss flags of its previous term while bandtss registers everybody active.
			w.v.Count("activity_flags_disagree@"+where, 1)
			w.class("activity-flags-disagree@" + where)
			if os.Getenv("C18_DEBUG") != "" {
				fmt.Printf("C18_DEBUG flags disagree h=%d %s group %d bandtss=%v tss=%v (%s) %s\n", h, mem.Address, mem.GroupID, mem.IsActive, tm.IsActive, where, m.describe())
			}
		}
	}
	// balances: requests are paid to the module, completed current-group signings pay their assignees, nothing else moves
	for _, a := range w.tracked() {
		got := w.ch.App.BankKeeper.GetAllBalances(ctx, sdk.MustAccAddressFromBech32(a))
		if !got.Equal(w.bal[a]) {
			sig := "C18/balance"
			if w.incPaidCheck[a] && got.IsAllGTE(w.bal[a]) {
				sig = "C18/incoming-paid"
			}
			w.v.Failf(sig, "height %d: balance of %s is %s, fee model expects %s (requests pay fee_per_signer x current threshold; only assignees of the current group's signing are paid)", h, a, got, w.bal[a])
			return
		}
	}
	// keep the tss-level bookkeeping honest (not part of the property)
	for _, a := range w.pool {
		q := w.ch.App.TSSKeeper.GetDEQueue(ctx, a.Addr)
		if n := int(q.Tail - q.Head); n != w.de[a.Addr.String()] {
			w.v.Count("de_resync", 1)
			w.de[a.Addr.String()] = n
		}
	}
	for gid, g := range m.groups {
		for _, a := range g.members {
			mem, err := w.ch.App.TSSKeeper.GetMemberByAddress(ctx, tss.GroupID(gid), a)
			if err == nil && mem.IsActive != w.active[mkey(gid, a)] {
				w.v.Count("active_resync", 1)
				w.active[mkey(gid, a)] = mem.IsActive
			}
		}
	}
	for sid, s := range w.sigs {
		if s.open {
			sg, err := w.ch.App.TSSKeeper.GetSigning(ctx, tss.SigningID(sid))
			if err == nil && sg.Status != tsstypes.SIGNING_STATUS_WAITING {
				w.v.Count("signing_resync", 1)
				s.open = false
			}
		}
	}
}
