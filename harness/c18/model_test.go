package c18

// Reference state machine for C18, written from the property statement and the x/bandtss README ("Transition").
//
// Inputs are facts that happen OUTSIDE the module under test, in the order in which they occur inside a block:
//   - governance executed a proposal carrying MsgTransitionGroup / MsgForceTransitionGroup (passed | failed);
//   - x/tss finished / failed / expired a key generation, created a signing, completed / failed a signing;
//   - the block ended at time T.
// Outputs are the bandtss state (current group, the single transition, member list) and the bandtss transition
// events that each fact must cause. Where the statement is one-directional the model accepts both outcomes and
// only counts the converse.

import (
	"fmt"
	"sort"
	"strings"
	"time"
)

type trStatus int

const (
	stCreating    trStatus = 1
	stWaitingSign trStatus = 2
	stWaitingExec trStatus = 3
)

func (s trStatus) String() string {
	switch s {
	case stCreating:
		return "TRANSITION_STATUS_CREATING_GROUP"
	case stWaitingSign:
		return "TRANSITION_STATUS_WAITING_SIGN"
	case stWaitingExec:
		return "TRANSITION_STATUS_WAITING_EXECUTION"
	}
	return "TRANSITION_STATUS_UNSPECIFIED"
}

// outEv is one bandtss transition event.
type outEv struct {
	typ      string // group_transition | group_transition_success | group_transition_failed | create_signing_failed
	status   string // only group_transition
	incoming uint64
}

func (o outEv) String() string {
	if o.typ == "group_transition" {
		return fmt.Sprintf("%s(%s,incoming=%d)", o.typ, strings.TrimPrefix(o.status, "TRANSITION_STATUS_"), o.incoming)
	}
	return fmt.Sprintf("%s(incoming=%d)", o.typ, o.incoming)
}

func outList(o []outEv) string {
	var s []string
	for _, e := range o {
		s = append(s, e.String())
	}
	return "[" + strings.Join(s, " ") + "]"
}

func sameOut(a, b []outEv) bool {
	if len(a) != len(b) {
		return false
	}
	for i := range a {
		if a[i] != b[i] {
			return false
		}
	}
	return true
}

// trRecord keeps what happened to one transition (non-triviality rule and class histogram).
type trRecord struct {
	Incoming             uint64
	Forced               bool
	NoCurrent            bool
	ExecTime             time.Time
	PropH, DkgH, SignH   int64 // heights of the milestones (0 = did not happen)
	ExecH                int64 // first block with time >= ExecTime
	ReachedWS, ReachedWE bool
	Outcome              string // executed | dropped-at-exec:<status> | dropped-early:<why> | open
	ReqWE                int    // user requests accepted while WAITING_EXECUTION
}

type mTransition struct {
	status    trStatus
	incoming  uint64
	current   uint64
	execTime  time.Time
	forced    bool
	signingID uint64
	doomed    string // non-empty: can never become ready (why); the module may drop it now or at ExecTime
	rec       *trRecord
}

type mGroup struct {
	id        uint64
	threshold uint64
	members   []string // by member id
	status    string   // creating | active | fallen | expired
}

type model struct {
	cur      uint64
	tr       *mTransition
	groups   map[uint64]*mGroup
	members  map[string]bool // "gid/addr": members the module must list (strict when no transition is open)
	records  []*trRecord
	executed bool // the current group changed in this block
	fail     func(sig, format string, a ...any)
	count    func(k string)
}

func mkey(gid uint64, addr string) string { return fmt.Sprintf("%d/%s", gid, addr) }

func (m *model) addMembers(gid uint64) {
	if g := m.groups[gid]; g != nil {
		for _, a := range g.members {
			m.members[mkey(gid, a)] = true
		}
	}
}

func (m *model) delMembers(gid uint64) {
	if g := m.groups[gid]; g != nil {
		for _, a := range g.members {
			delete(m.members, mkey(gid, a))
		}
	}
}

func (m *model) memberList() []string {
	var out []string
	for k := range m.members {
		out = append(out, k)
	}
	sort.Strings(out)
	return out
}

func (m *model) waitingExec() bool { return m.tr != nil && m.tr.status == stWaitingExec }

func (m *model) incomingForRequests() uint64 {
	if m.waitingExec() {
		return m.tr.incoming
	}
	return 0
}

// check compares the transition events a fact caused with the expectation.
func (m *model) check(fact string, got, want []outEv) {
	if sameOut(got, want) {
		return
	}
	sig := "C18/events"
	for _, g := range got {
		if g.typ == "group_transition_success" {
			sig = "C18/executed-not-ready"
		}
	}
	m.fail(sig, "%s: bandtss emitted %s, reference state machine expects %s (model transition: %s)", fact, outList(got), outList(want), m.describe())
}

func (m *model) describe() string {
	if m.tr == nil {
		return fmt.Sprintf("none, current group %d", m.cur)
	}
	return fmt.Sprintf("%s incoming=%d current=%d exec=%s forced=%v signing=%d doomed=%q", m.tr.status, m.tr.incoming, m.tr.current,
		m.tr.execTime.Format(time.RFC3339Nano), m.tr.forced, m.tr.signingID, m.tr.doomed)
}

// dropDoomed handles a fact after which the transition can never become ready: the module may end it right
// away (one failed event) or keep it until ExecTime.
func (m *model) dropDoomed(fact, why string, got []outEv, allowCreateFailed bool) {
	t := m.tr
	t.doomed = why
	failed := outEv{typ: "group_transition_failed", incoming: t.incoming}
	switch {
	case len(got) == 0:
		m.count("doomed_kept_until_exec")
	case sameOut(got, []outEv{failed}), allowCreateFailed && sameOut(got, []outEv{{typ: "create_signing_failed", incoming: t.incoming}, failed}):
		t.rec.Outcome = "dropped-early:" + why
		m.tr = nil
	default:
		m.check(fact, got, []outEv{failed})
	}
}

// ---- facts ---------------------------------------------------------------------------------------------

// proposalTransition: governance executed MsgTransitionGroup. newGroup is the tss group x/tss created for it
// (0 if none was created).
// dupMember: the member list names one account twice (x/tss refuses to create such a group).
func (m *model) proposalTransition(passed bool, newGroup uint64, dupMember bool, execTime time.Time, minExec, maxExec time.Time, h int64, got []outEv) string {
	inWindow := !execTime.Before(minExec) && !execTime.After(maxExec)
	if !passed {
		m.check("MsgTransitionGroup rejected", got, nil)
		switch {
		case m.tr != nil:
			return "second-proposal-rejected"
		case !inWindow:
			return "window-rejected"
		case dupMember:
			return "duplicate-member-rejected"
		}
		m.count("converse_proposal_rejected_unexplained")
		return "proposal-rejected-other"
	}
	if m.tr != nil {
		m.fail("C18/second-transition-accepted", "MsgTransitionGroup accepted at height %d while a transition is in progress (%s)", h, m.describe())
		return ""
	}
	if !inWindow {
		m.count("converse_exec_time_outside_window_accepted")
	}
	if newGroup == 0 {
		m.fail("C18/no-incoming-group", "MsgTransitionGroup accepted at height %d but x/tss created no group", h)
		return ""
	}
	rec := &trRecord{Incoming: newGroup, ExecTime: execTime, PropH: h, NoCurrent: m.cur == 0, Outcome: "open"}
	m.records = append(m.records, rec)
	m.tr = &mTransition{status: stCreating, incoming: newGroup, current: m.cur, execTime: execTime, rec: rec}
	m.check("MsgTransitionGroup accepted", got, []outEv{{typ: "group_transition", status: stCreating.String(), incoming: newGroup}})
	return "proposal-accepted"
}

// proposalForce: governance executed MsgForceTransitionGroup.
func (m *model) proposalForce(passed bool, incoming uint64, execTime time.Time, minExec, maxExec time.Time, h int64, got []outEv) string {
	inWindow := !execTime.Before(minExec) && !execTime.After(maxExec)
	g := m.groups[incoming]
	if !passed {
		m.check("MsgForceTransitionGroup rejected", got, nil)
		switch {
		case m.tr != nil:
			return "second-proposal-rejected"
		case !inWindow:
			return "window-rejected"
		case incoming == m.cur:
			return "force-same-group-rejected"
		case g == nil || g.status != "active":
			return "force-inactive-group-rejected"
		}
		m.count("converse_proposal_rejected_unexplained")
		return "proposal-rejected-other"
	}
	if m.tr != nil {
		m.fail("C18/second-transition-accepted", "MsgForceTransitionGroup accepted at height %d while a transition is in progress (%s)", h, m.describe())
		return ""
	}
	if !inWindow {
		m.count("converse_exec_time_outside_window_accepted")
	}
	if g == nil || g.status != "active" {
		// a forced transition skips the hand-over signature, not the key generation: the statement lets the signing group
		// change only to a group that finished key generation
		st := "non-existent"
		if g != nil {
			st = g.status
		}
		m.fail("C18/forced-to-unfinished-group", "MsgForceTransitionGroup accepted at height %d although incoming group %d did not finish key generation (status: %s)", h, incoming, st)
		return ""
	}
	rec := &trRecord{Incoming: incoming, Forced: true, ExecTime: execTime, PropH: h, NoCurrent: m.cur == 0, ReachedWE: true, Outcome: "open"}
	m.records = append(m.records, rec)
	m.tr = &mTransition{status: stWaitingExec, incoming: incoming, current: m.cur, execTime: execTime, forced: true, rec: rec}
	m.addMembers(incoming)
	m.check("MsgForceTransitionGroup accepted", got, []outEv{{typ: "group_transition", status: stWaitingExec.String(), incoming: incoming}})
	return "force-accepted"
}

// dkgCompleted: x/tss made group gid ACTIVE in a block with time T. handover is the tss signing that was created
// for the hand-over message in the same step (0 = none), handoverGroup the group that has to sign it.
func (m *model) dkgCompleted(gid uint64, T time.Time, h int64, handover, handoverGroup uint64, got []outEv) string {
	if g := m.groups[gid]; g != nil {
		g.status = "active"
	}
	t := m.tr
	if t == nil || t.incoming != gid || t.status != stCreating || t.doomed != "" {
		if handover != 0 {
			m.fail("C18/unexpected-handover-signing", "key generation of group %d completed at height %d and a hand-over signing %d was created although no transition was waiting for that group (%s)", gid, h, handover, m.describe())
		}
		m.check(fmt.Sprintf("key generation of group %d completed (not awaited)", gid), got, nil)
		return "dkg-done-unrelated"
	}
	if T.After(t.execTime) {
		// finished after the deadline: too late, the transition is dropped at the end of this block
		if handover != 0 {
			m.fail("C18/unexpected-handover-signing", "key generation of group %d completed at %s, after ExecTime %s, but hand-over signing %d was created", gid, T.Format(time.RFC3339Nano), t.execTime.Format(time.RFC3339Nano), handover)
		}
		m.check("key generation completed after ExecTime", got, nil)
		return "dkg-done-after-exec"
	}
	t.rec.DkgH = h
	if t.current == 0 {
		// nobody to hand over from
		t.status = stWaitingExec
		t.rec.ReachedWE = true
		m.addMembers(gid)
		m.check("key generation completed (no current group)", got, []outEv{{typ: "group_transition", status: stWaitingExec.String(), incoming: gid}})
		return "dkg-done-no-current"
	}
	if handover == 0 {
		// the current group cannot be asked to sign (no available signers): the hand-over can never be signed
		m.dropDoomed("key generation completed, hand-over signing could not be created", "handover-not-created", got, true)
		return "handover-create-failed"
	}
	if handoverGroup != t.current {
		m.fail("C18/handover-wrong-group", "hand-over signing %d was put to group %d, current group is %d", handover, handoverGroup, t.current)
	}
	t.status = stWaitingSign
	t.signingID = handover
	t.rec.ReachedWS = true
	m.check("key generation completed", got, []outEv{{typ: "group_transition", status: stWaitingSign.String(), incoming: gid}})
	return "dkg-done-waiting-sign"
}

// dkgEnded: key generation of gid failed (malicious member) or expired.
func (m *model) dkgEnded(gid uint64, how string, got []outEv) string {
	if g := m.groups[gid]; g != nil {
		g.status = how
	}
	t := m.tr
	if t == nil || t.incoming != gid || t.status != stCreating {
		m.check(fmt.Sprintf("key generation of group %d %s (not awaited)", gid, how), got, nil)
		return ""
	}
	if t.doomed != "" {
		m.check(fmt.Sprintf("key generation of group %d %s (transition already doomed)", gid, how), got, nil)
		return ""
	}
	m.dropDoomed(fmt.Sprintf("key generation of group %d %s", gid, how), "dkg-"+how, got, false)
	return "dkg-" + how + "-drop"
}

// signingCompleted: x/tss aggregated a valid group signature for signing sid.
func (m *model) signingCompleted(sid uint64, h int64, got []outEv) string {
	t := m.tr
	if t == nil || t.status != stWaitingSign || t.signingID != sid || t.doomed != "" {
		// completing any other signing (a user request's, or the stale hand-over signing of an earlier, already
		// dropped transition) says nothing about THIS transition's hand-over message: no effect on the transition
		if t != nil && t.status == stWaitingSign && t.signingID != sid && len(got) > 0 {
			m.fail("C18/foreign-signing-advanced-transition", "signing %d completed at height %d; it is not the hand-over signing %d of the open transition, yet bandtss emitted %s (%s): the current group never signed this transition's hand-over message", sid, h, t.signingID, outList(got), m.describe())
			return ""
		}
		m.check(fmt.Sprintf("signing %d completed (not the awaited hand-over)", sid), got, nil)
		return ""
	}
	t.status = stWaitingExec
	t.rec.ReachedWE = true
	t.rec.SignH = h
	m.addMembers(t.incoming)
	m.check("hand-over signing completed", got, []outEv{{typ: "group_transition", status: stWaitingExec.String(), incoming: t.incoming}})
	return "handover-signed"
}

// signingFailed: x/tss gave up on signing sid.
func (m *model) signingFailed(sid uint64, got []outEv) string {
	t := m.tr
	if t == nil || t.status != stWaitingSign || t.signingID != sid || t.doomed != "" {
		m.check(fmt.Sprintf("signing %d failed (not the awaited hand-over)", sid), got, nil)
		return ""
	}
	m.dropDoomed("hand-over signing failed", "handover-failed", got, false)
	return "handover-failed-drop"
}

// endBlock: the block with time T ends (bandtss runs after gov and tss).
func (m *model) endBlock(T time.Time, h int64, got []outEv) string {
	for _, r := range m.records {
		if r.ExecH == 0 && !T.Before(r.ExecTime) {
			r.ExecH = h
		}
	}
	t := m.tr
	if t == nil || T.Before(t.execTime) {
		for _, g := range got {
			if g.typ == "group_transition_success" {
				if t != nil {
					m.fail("C18/executed-early", "transition executed at height %d, block time %s is before ExecTime %s (%s)", h, T.Format(time.RFC3339Nano), t.execTime.Format(time.RFC3339Nano), m.describe())
				} else {
					m.fail("C18/executed-not-ready", "a transition was executed at height %d although none is in progress", h)
				}
				return ""
			}
		}
		if t != nil && sameOut(got, []outEv{{typ: "group_transition_failed", incoming: t.incoming}}) {
			m.fail("C18/dropped-before-exec-time", "transition dropped at height %d, block time %s is before ExecTime %s and nothing made it hopeless (%s)", h, T.Format(time.RFC3339Nano), t.execTime.Format(time.RFC3339Nano), m.describe())
			return ""
		}
		m.check("end of block (nothing due)", got, nil)
		return ""
	}
	g := m.groups[t.incoming]
	ready := t.status == stWaitingExec && g != nil && g.status == "active" && t.doomed == ""
	succ := []outEv{{typ: "group_transition_success", incoming: t.incoming}}
	fail := []outEv{{typ: "group_transition_failed", incoming: t.incoming}}
	if !ready {
		t.rec.Outcome = "dropped-at-exec:" + strings.TrimPrefix(t.status.String(), "TRANSITION_STATUS_")
		if sameOut(got, succ) {
			m.fail("C18/executed-not-ready", "transition executed at height %d but it was not ready: %s; incoming group status %v", h, m.describe(), g)
		} else {
			m.check("end of block at/after ExecTime, transition not ready", got, fail)
		}
		m.tr = nil
		return t.rec.Outcome
	}
	if sameOut(got, fail) {
		// one-directional statement: readiness is necessary for execution, the converse is only counted
		m.count("converse_ready_but_dropped")
		t.rec.Outcome = "dropped-at-exec:ready"
		m.tr = nil
		return t.rec.Outcome
	}
	m.check("end of block at/after ExecTime, transition ready", got, succ)
	if t.current != 0 {
		m.delMembers(t.current)
	}
	m.addMembers(t.incoming)
	m.cur = t.incoming
	m.executed = true
	t.rec.Outcome = "executed"
	m.tr = nil
	return "executed"
}
