package props

import (
	"bytes"
	"encoding/binary"
	"fmt"
	"testing"
	"time"

	"pgregory.net/rapid"

	sdk "github.com/cosmos/cosmos-sdk/types"

	oracletypes "github.com/bandprotocol/chain/v3/x/oracle/types"

	"verif/harness/gen"
	"verif/harness/pbt"
	"verif/harness/sim"
)

// ---- case --------------------------------------------------------------------------------------------

type c01Op struct {
	Kind     string `json:"k"` // request | report | end | activate
	Script   int    `json:"script,omitempty"`
	Ask      int    `json:"ask,omitempty"`
	Min      int    `json:"min,omitempty"`
	CallLen  int    `json:"calllen,omitempty"`
	ClientID string `json:"client,omitempty"`
	Req      int    `json:"req,omitempty"`     // late-bound: request id = 1 + Req mod (issued+1)
	Val      int    `json:"val,omitempty"`     // validator index (mod n); n means a non-validator account
	Variant  string `json:"variant,omitempty"` // exact|missing|extra|wrong|oversize|exit|empty|dupadj|dupfar|reorder
	DataLen  int    `json:"datalen,omitempty"`
	Dt       int    `json:"dt,omitempty"`
}

type c01Case struct {
	NVals       int     `json:"nvals"`
	Tokens      []int64 `json:"tokens"`
	Active      []bool  `json:"active"`
	Expiration  uint64  `json:"expiration"`
	MaxReportSz uint64  `json:"max_report_size"`
	Probe       string  `json:"probe"` // what the 4th script probes: last|ask|ask+1|neg1
	Ops         []c01Op `json:"ops"`
}

// genDataLen: mostly short blobs, sometimes lengths around the calldata limit (256) and the report data limit: the execution
// environment's buffer must take the LARGER of the two limits.
func genDataLen(rt *rapid.T, maxReport uint64) int {
	if gen.Chance(rt, "bigdata", 1, 5) {
		return gen.OneOf(rt, "bigdatalen", 255, 256, 257, 300, int(maxReport)-1, int(maxReport), int(maxReport))
	}
	return rapid.IntRange(0, 16).Draw(rt, "datalen")
}

func genC01(rt *rapid.T) c01Case {
	n := rapid.IntRange(3, 7).Draw(rt, "nvals")
	c := c01Case{NVals: n}
	for i := 0; i < n; i++ {
		c.Tokens = append(c.Tokens, rapid.Int64Range(1, 50).Draw(rt, "tok")*1_000_000)
		c.Active = append(c.Active, gen.Chance(rt, "act", 8, 10))
	}
	c.Active[0] = true
	c.Expiration = gen.OneOf[uint64](rt, "exp", 1, 2, 2, 3, 3, 4, 5, 6, 20)
	c.MaxReportSz = rapid.SampledFrom([]uint64{16, 512}).Draw(rt, "maxrep")
	c.Probe = gen.OneOf(rt, "probe", "last", "ask", "ask", "ask+1", "neg1")
	nops := rapid.IntRange(15, 60).Draw(rt, "nops")
	issued := 0
	for i := 0; i < nops; i++ {
		w := gen.Uniform(rt, "opw", 100)
		if i == 0 {
			w = 0 // every history starts with a request
		}
		switch {
		case w < 12:
			ask := gen.Range(rt, "ask", 1, n)
			min := gen.Range(rt, "min", 1, ask)
			if gen.Chance(rt, "badcombo", 1, 20) {
				ask = n + 1 // more than can ever be active
			}
			c.Ops = append(c.Ops, c01Op{Kind: "request", Script: gen.Uniform(rt, "script", 5), Ask: ask, Min: min,
				CallLen: rapid.IntRange(0, 12).Draw(rt, "calllen"), ClientID: rapid.StringMatching(`[a-z]{0,6}`).Draw(rt, "client")})
			issued++
		case w < 30:
			// burst: several distinct validators report correctly to one (recent) request
			k := rapid.IntRange(1, n).Draw(rt, "burst")
			req := issued - 1 - rapid.IntRange(0, 1).Draw(rt, "recent")
			if req < 0 {
				req = 0
			}
			start := rapid.IntRange(0, n-1).Draw(rt, "start")
			for j := 0; j < k; j++ {
				c.Ops = append(c.Ops, c01Op{Kind: "report", Req: req, Val: (start + j) % n, Variant: "exact", DataLen: genDataLen(rt, c.MaxReportSz)})
			}
		case w < 70:
			v := gen.OneOf(rt, "variant", "exact", "exact", "exact", "exact", "exact", "exact", "missing", "extra", "wrong", "oversize", "exit", "empty", "dupadj", "dupfar", "reorder")
			req := rapid.IntRange(0, issued+1).Draw(rt, "req")
			if issued > 0 && gen.Chance(rt, "recentreq", 6, 10) {
				req = issued - 1 - rapid.IntRange(0, 1).Draw(rt, "back")
				if req < 0 {
					req = 0
				}
			}
			c.Ops = append(c.Ops, c01Op{Kind: "report", Req: req, Val: gen.Uniform(rt, "val", n+1),
				Variant: v, DataLen: genDataLen(rt, c.MaxReportSz)})
		case w < 94:
			c.Ops = append(c.Ops, c01Op{Kind: "end", Dt: gen.OneOf(rt, "dt", 0, 1, 1, 3, 6, 60)})
		case w < 97:
			// the owner (or somebody else) edits an oracle script / data source without changing what it computes:
			// pending and later requests must behave exactly as if nothing had happened
			c.Ops = append(c.Ops, c01Op{Kind: "edit", Script: gen.Uniform(rt, "escript", 5),
				Variant: gen.OneOf(rt, "evariant", "os-keep", "os-keep", "os-same", "ds-keep", "ds-new", "os-foreign")})
		default:
			c.Ops = append(c.Ops, c01Op{Kind: "activate", Val: rapid.IntRange(0, n-1).Draw(rt, "val")})
		}
	}
	return c
}

// ---- model -------------------------------------------------------------------------------------------

type c01Req struct {
	id                  uint64
	script              int
	ask, min            uint64
	calldata            []byte
	clientID            string
	height              int64
	reqTime             int64
	chosen              []string
	eids                []uint64
	reports             map[string][]oracletypes.RawReport
	reportOrder         []string
	hasResult           bool
	status              oracletypes.ResolveStatus
	ansCount            uint64
	resolveTime         int64
	result              []byte
	expired             bool
	resolveEvents       int
	resultSnapshot      []byte
	resolvedByReports   bool
	lateReportAccepted  bool
	reportInExpiryBlock bool
}

var c01ScriptEids = [][]uint64{{3, 1, 2}, {1}, {1}, {1}, {1}} // script 0 asks its external ids out of ascending order

func c01EchoResult(r *c01Req, execTime int64) []byte {
	var b bytes.Buffer
	w := func(x int64) { binary.Write(&b, binary.LittleEndian, x) }
	w(int64(len(r.reports)))
	w(int64(r.min))
	w(int64(r.ask))
	w(execTime)
	for _, v := range r.chosen {
		rep, ok := r.reports[v]
		if !ok {
			w(-1)
			continue
		}
		w(int64(rep[0].ExitCode))
		w(int64(len(rep[0].Data)))
		b.Write(rep[0].Data)
	}
	return b.Bytes()
}

func runC01(c c01Case) *pbt.Verdict {
	v := &pbt.Verdict{}
	vals := make([]sim.ValSpec, c.NVals)
	for i := range vals {
		vals[i] = sim.ValSpec{Tokens: c.Tokens[i]}
	}
	op := oracletypes.DefaultParams()
	op.ExpirationBlockCount = c.Expiration
	op.MaxReportDataSize = c.MaxReportSz
	scripts := [][]byte{sim.ScriptAskEIDs([]int{1, 2, 1}, []int{3, 1, 2}, "ok"), sim.ScriptEcho(1), sim.ScriptAsk([]int{2}, ""),
		sim.ScriptProbe(1, map[string]int{"last": -1, "ask": 0, "ask+1": 1, "neg1": 0}[c.Probe], c.Probe == "neg1"),
		sim.ScriptReturnEmpty([]int{2})}
	ch, err := sim.New(sim.Config{
		NumAccounts: 2, Validators: vals, Oracle: &op,
		DataSources: []sim.DSSpec{{Exec: []byte("ds-one-executable-bytes-0123456789abcdef"), Treasury: 1}, {Exec: []byte("ds-two-executable-bytes-0123456789abcdef"), Treasury: 1}},
		Scripts:     scripts,
	}, 0)
	if err != nil {
		v.Failf("harness", "sim.New: %v", err)
		return v
	}
	defer ch.Close()
	var txs [][]byte
	for i, a := range c.Active {
		if a {
			txs = append(txs, ch.SignTx(ch.Vals[i], oracletypes.NewMsgActivate(ch.Vals[i].Val)))
		}
	}
	if _, err := ch.Block(txs, time.Second); err != nil {
		v.Failf("C01/finalize", "activation block failed: %v", err)
		return v
	}

	reqs := map[uint64]*c01Req{}
	var count, lastExpired uint64
	issued := 0
	type pendingTx struct {
		op  c01Op
		msg sdk.Msg
		id  uint64 // for reports
		val string
		raw []oracletypes.RawReport
	}
	var block []pendingTx
	var blockTxs [][]byte
	twoResolvedOneBlock, rejected, edits := false, 0, 0

	flush := func(dt int) bool {
		res, err := ch.Block(blockTxs, time.Duration(dt)*time.Second)
		if err != nil {
			v.Failf("C01/finalize", "block failed: %v", err)
			return false
		}
		height, now := res.Height, res.Time.Unix()
		var pending []uint64
		for i, p := range block {
			tr := res.Resp.TxResults[i]
			switch p.op.Kind {
			case "activate":
			case "edit":
				if want := p.op.Variant != "os-foreign"; (tr.Code == 0) != want {
					v.Failf("C01/edit", "edit %s of script/data source %d: code=%d log=%q, expected accepted=%v", p.op.Variant, p.op.Script, tr.Code, tr.Log, want)
					return false
				}
				edits++
			case "request":
				if tr.Code != 0 {
					continue
				}
				count++
				r := &c01Req{id: count, script: p.op.Script, ask: uint64(p.op.Ask), min: uint64(p.op.Min), calldata: bytes.Repeat([]byte{7}, p.op.CallLen),
					clientID: p.op.ClientID, height: height, reqTime: now, eids: c01ScriptEids[p.op.Script], reports: map[string][]oracletypes.RawReport{}}
				for _, e := range tr.Events {
					if e.Type == "request" {
						if sim.Attr(e, "id") != fmt.Sprint(count) {
							v.Failf("C01/request-id", "request got id %s, expected %d", sim.Attr(e, "id"), count)
						}
						r.chosen = sim.Attrs(e, "validator")
					}
				}
				seen := map[string]bool{}
				for _, x := range r.chosen {
					seen[x] = true
				}
				if len(r.chosen) != p.op.Ask || len(seen) != p.op.Ask {
					v.Failf("C01/chosen", "request %d: chosen %v for ask %d", count, r.chosen, p.op.Ask)
				}
				reqs[count] = r
			case "report":
				r := reqs[p.id]
				accept := true
				why := ""
				switch {
				case len(p.raw) == 0:
					accept, why = false, "empty"
				case r == nil:
					accept, why = false, "no such request"
				case p.id <= lastExpired:
					accept, why = false, "expired"
				default:
					inChosen := false
					for _, x := range r.chosen {
						if x == p.val {
							inChosen = true
						}
					}
					_, dup := r.reports[p.val]
					eidOK := len(p.raw) == len(r.eids)
					seenE := map[uint64]bool{}
					for _, rr := range p.raw {
						found := false
						for _, e := range r.eids {
							if e == uint64(rr.ExternalID) {
								found = true
							}
						}
						if !found || seenE[uint64(rr.ExternalID)] {
							eidOK = false
						}
						seenE[uint64(rr.ExternalID)] = true
						if uint64(len(rr.Data)) > c.MaxReportSz {
							accept, why = false, "oversize"
						}
					}
					if !inChosen {
						accept, why = false, "not chosen"
					} else if dup {
						accept, why = false, "duplicate"
					} else if !eidOK {
						accept, why = false, "external ids"
					}
				}
				if (tr.Code == 0) != accept {
					v.Failf("C01/report-accept", "report(req=%d val=%s variant=%s) code=%d log=%q but model accept=%v (%s)", p.id, p.val, p.op.Variant, tr.Code, tr.Log, accept, why)
					return false
				}
				if !accept {
					rejected++
					if why == "external ids" && p.op.Variant == "dupfar" && len(p.raw) >= 3 {
						v.Class("report-nonadjacent-duplicate-id-rejected")
					}
					continue
				}
				if p.op.Variant == "reorder" && len(p.raw) >= 2 {
					v.Class("report-ids-reordered-accepted")
				}
				r.reports[p.val] = p.raw
				if r.hasResult {
					r.lateReportAccepted = true
				}
				if r.height+int64(c.Expiration) <= height {
					r.reportInExpiryBlock = true
				}
				if !r.hasResult && uint64(len(r.reports)) == r.min {
					pending = append(pending, r.id)
				}
			}
		}
		// end block: resolve pending, then expire
		for _, id := range pending {
			r := reqs[id]
			r.hasResult, r.ansCount, r.resolveTime, r.resolvedByReports = true, uint64(len(r.reports)), now, true
			switch r.script {
			case 0:
				r.status, r.result = oracletypes.RESOLVE_STATUS_SUCCESS, []byte("ok")
			case 1:
				r.status, r.result = oracletypes.RESOLVE_STATUS_SUCCESS, c01EchoResult(r, now)
				if span := max(c.MaxReportSz, op.MaxCalldataSize); uint64(len(r.result)) > span {
					// the script cannot return more than the VM's span size (the larger of the two data limits)
					r.status, r.result = oracletypes.RESOLVE_STATUS_FAILURE, []byte{}
					v.Class("echo-result-larger-than-span")
				}
				for _, rep := range r.reports {
					if uint64(len(rep[0].Data)) > op.MaxCalldataSize {
						v.Class("script-reads-report-longer-than-max-calldata")
					}
				}
			case 2:
				r.status, r.result = oracletypes.RESOLVE_STATUS_FAILURE, []byte{}
			case 4:
				// the script ran without error and set a zero-length return value: SUCCESS with an empty result
				r.status, r.result = oracletypes.RESOLVE_STATUS_SUCCESS, []byte{}
			case 3:
				// a script probing a validator index outside 0..ask_count-1 fails; a valid index is harmless
				if c.Probe == "last" {
					r.status, r.result = oracletypes.RESOLVE_STATUS_SUCCESS, []byte("test")
				} else {
					r.status, r.result = oracletypes.RESOLVE_STATUS_FAILURE, []byte{}
				}
			}
		}
		if len(pending) >= 2 {
			twoResolvedOneBlock = true
		}
		for id := lastExpired + 1; id <= count; id++ {
			r := reqs[id]
			if r.height+int64(c.Expiration) > height {
				break
			}
			if !r.hasResult {
				r.hasResult, r.status, r.result, r.ansCount, r.resolveTime = true, oracletypes.RESOLVE_STATUS_EXPIRED, []byte{}, uint64(len(r.reports)), now
			}
			r.expired = true
			lastExpired = id
		}
		// observe resolve events
		for _, e := range sim.Events(res.Resp, "resolve") {
			var id uint64
			fmt.Sscan(sim.Attr(e, "id"), &id)
			if r := reqs[id]; r != nil {
				r.resolveEvents++
			} else {
				v.Failf("C01/resolve-unknown", "resolve event for unknown request %d", id)
			}
		}
		// compare chain state with the model
		ctx := ch.Ctx()
		k := ch.App.OracleKeeper
		if got := k.GetRequestCount(ctx); got != count {
			v.Failf("C01/count", "request count %d, model %d", got, count)
		}
		for id := uint64(1); id <= count; id++ {
			r := reqs[id]
			res, rerr := k.GetResult(ctx, oracletypes.RequestID(id))
			if !r.hasResult {
				if rerr == nil {
					v.Failf("C01/early-result", "request %d has a result (status %v) but the model says unresolved at height %d", id, res.ResolveStatus, height)
				}
				if r.resolveEvents != 0 {
					v.Failf("C01/resolve-count", "request %d unresolved but has %d resolve events", id, r.resolveEvents)
				}
			} else {
				if rerr != nil {
					v.Failf("C01/missing-result", "request %d should have result status %v at height %d: %v", id, r.status, height, rerr)
					continue
				}
				if res.ResolveStatus != r.status || res.AnsCount != r.ansCount || res.AskCount != r.ask || res.MinCount != r.min ||
					res.ClientID != r.clientID || !bytes.Equal(res.Calldata, r.calldata) || res.RequestTime != r.reqTime ||
					res.ResolveTime != r.resolveTime || uint64(res.RequestID) != id || !bytes.Equal(res.Result, r.result) ||
					uint64(res.OracleScriptID) != uint64(r.script+1) {
					v.Failf("C01/result-mismatch", "request %d result %+v; model status=%v ans=%d ask=%d min=%d client=%q reqTime=%d resolveTime=%d result=%x",
						id, res, r.status, r.ansCount, r.ask, r.min, r.clientID, r.reqTime, r.resolveTime, r.result)
				}
				bz := ch.App.AppCodec().MustMarshal(&res)
				if r.resultSnapshot != nil && !bytes.Equal(bz, r.resultSnapshot) {
					v.Failf("C01/result-changed", "request %d result changed after it was published", id)
				}
				r.resultSnapshot = bz
				if r.resolveEvents != 1 {
					v.Failf("C01/resolve-count", "request %d has %d resolve events, want exactly 1", id, r.resolveEvents)
				}
			}
			// stored reports
			if !r.expired {
				got := k.GetReports(ctx, oracletypes.RequestID(id))
				if len(got) != len(r.reports) {
					v.Failf("C01/reports", "request %d stores %d reports, model %d", id, len(got), len(r.reports))
				}
				for _, g := range got {
					want, ok := r.reports[g.Validator]
					if !ok || len(want) != len(g.RawReports) {
						v.Failf("C01/reports", "request %d stores unexpected report of %s", id, g.Validator)
						continue
					}
					for i := range want {
						if want[i].ExternalID != g.RawReports[i].ExternalID || want[i].ExitCode != g.RawReports[i].ExitCode || !bytes.Equal(want[i].Data, g.RawReports[i].Data) {
							v.Failf("C01/reports", "request %d report of %s differs", id, g.Validator)
						}
					}
				}
			}
		}
		if got := uint64(k.GetRequestLastExpired(ctx)); got != lastExpired {
			v.Failf("C01/expiry-cursor", "last expired %d, model %d at height %d", got, lastExpired, height)
		}
		block, blockTxs = nil, nil
		return v.Violation == ""
	}

	for _, o := range c.Ops {
		switch o.Kind {
		case "activate":
			a := ch.Vals[o.Val%c.NVals]
			block = append(block, pendingTx{op: o})
			blockTxs = append(blockTxs, ch.SignTx(a, oracletypes.NewMsgActivate(a.Val)))
		case "edit":
			owner, sender := ch.Users[0], ch.Users[0]
			var msg sdk.Msg
			switch o.Variant {
			case "os-foreign":
				sender = ch.Users[1]
				fallthrough
			case "os-keep":
				msg = oracletypes.NewMsgEditOracleScript(oracletypes.OracleScriptID(o.Script%5+1), fmt.Sprintf("edited%d", len(block)), oracletypes.DoNotModify, oracletypes.DoNotModify,
					oracletypes.DoNotModify, oracletypes.DoNotModifyBytes, owner.Addr, sender.Addr)
			case "os-same":
				msg = oracletypes.NewMsgEditOracleScript(oracletypes.OracleScriptID(o.Script%5+1), oracletypes.DoNotModify, "same code again", oracletypes.DoNotModify,
					oracletypes.DoNotModify, scripts[o.Script%5], owner.Addr, sender.Addr)
			case "ds-keep":
				msg = oracletypes.NewMsgEditDataSource(oracletypes.DataSourceID(o.Script%2+1), "renamed", oracletypes.DoNotModify, oracletypes.DoNotModifyBytes,
					sdk.NewCoins(), ch.Users[1].Addr, owner.Addr, sender.Addr)
			default: // ds-new
				msg = oracletypes.NewMsgEditDataSource(oracletypes.DataSourceID(o.Script%2+1), oracletypes.DoNotModify, oracletypes.DoNotModify, []byte(fmt.Sprintf("new-executable-%d", len(block))),
					sdk.NewCoins(), ch.Users[1].Addr, owner.Addr, sender.Addr)
			}
			block = append(block, pendingTx{op: o})
			blockTxs = append(blockTxs, ch.SignTx(sender, msg))
		case "request":
			msg := oracletypes.NewMsgRequestData(oracletypes.OracleScriptID(o.Script+1), bytes.Repeat([]byte{7}, o.CallLen), uint64(o.Ask), uint64(o.Min),
				o.ClientID, sdk.NewCoins(sdk.NewInt64Coin("uband", 1_000_000)), 100_000, 1_000_000, ch.Users[0].Addr, oracletypes.ENCODER_UNSPECIFIED)
			block = append(block, pendingTx{op: o})
			blockTxs = append(blockTxs, ch.SignTx(ch.Users[0], msg))
			issued++
		case "report":
			id := uint64(1 + o.Req%(issued+1))
			var signer *sim.Account
			if o.Val%(c.NVals+1) == c.NVals {
				signer = ch.Users[1] // not a validator at all
			} else {
				signer = ch.Vals[o.Val%(c.NVals+1)]
			}
			eids := c01ScriptEids[0]
			if r := reqs[id]; r != nil {
				eids = r.eids
			}
			data := bytes.Repeat([]byte{byte(0x30 + o.Val)}, o.DataLen)
			var raw []oracletypes.RawReport
			for _, e := range eids {
				raw = append(raw, oracletypes.NewRawReport(oracletypes.ExternalID(e), 0, data))
			}
			switch o.Variant {
			case "missing":
				raw = raw[:len(raw)-1]
			case "extra":
				raw = append(raw, oracletypes.NewRawReport(99, 0, data))
			case "wrong":
				raw[0].ExternalID = 77
			case "dupadj": // the right number of reports, one external id twice in a row
				if len(raw) >= 2 {
					raw[1].ExternalID = raw[0].ExternalID
				}
			case "dupfar": // ... twice, but not next to each other
				if len(raw) >= 3 {
					raw[len(raw)-1].ExternalID = raw[0].ExternalID
				}
			case "reorder": // exactly the requested ids in another order
				for i, j := 0, len(raw)-1; i < j; i, j = i+1, j-1 {
					raw[i], raw[j] = raw[j], raw[i]
				}
			case "oversize":
				raw[0].Data = bytes.Repeat([]byte{1}, int(c.MaxReportSz)+1)
			case "exit":
				// the field is an unchecked uint32; the script sees it as a 64-bit status, where -1 means "did not report"
				raw[0].ExitCode = []uint32{3, 255, 1<<31 - 1, 1 << 31, 1<<32 - 1}[(int(id)+len(block))%5]
			case "empty":
				raw = nil
			}
			block = append(block, pendingTx{op: o, id: id, val: signer.Val.String(), raw: raw})
			blockTxs = append(blockTxs, ch.SignTx(signer, oracletypes.NewMsgReportData(oracletypes.RequestID(id), raw, signer.Val)))
		case "end":
			if !flush(o.Dt) {
				return v
			}
		}
	}
	if !flush(1) {
		return v
	}
	// tail: run past expiration so every accepted request must have obtained exactly one result
	for i := uint64(0); i <= c.Expiration; i++ {
		if !flush(1) {
			return v
		}
	}
	resolvedByReports, interesting := 0, false
	for _, r := range reqs {
		if !r.hasResult {
			v.Failf("C01/no-result", "request %d never obtained a result", r.id)
		}
		if r.resolvedByReports {
			resolvedByReports++
		}
		if r.lateReportAccepted {
			v.Class("report-after-resolve")
			interesting = true
		}
		if r.reportInExpiryBlock {
			v.Class("report-in-expiry-block")
			interesting = true
		}
		if r.status == oracletypes.RESOLVE_STATUS_EXPIRED {
			v.Class("expired")
			interesting = true
		}
		if r.status == oracletypes.RESOLVE_STATUS_FAILURE {
			v.Class("failure")
		}
	}
	if edits > 0 {
		v.Class("script-or-datasource-edited")
	}
	if rejected > 0 {
		interesting = true
		v.Class("rejected-report")
	}
	if twoResolvedOneBlock {
		interesting = true
		v.Class("two-resolved-one-block")
	}
	if len(reqs) == 0 {
		v.Class("no-request")
	}
	v.Count("requests", int64(len(reqs)))
	v.Count("resolved_by_reports", int64(resolvedByReports))
	v.NonTrivial = resolvedByReports >= 1 && interesting
	return v
}

func TestC01(t *testing.T) { pbt.Check(t, "C01", genC01, runC01) }
