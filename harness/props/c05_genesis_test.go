package props

// C05 across a genesis export/import: the queues of registered nonce pairs survive a state export followed by an
// import into a new application instance in the order registered, and the signings requested afterwards take each
// member's oldest pair (never one that was assigned before the export).
//
// Oracle: a FIFO model per member written from the statement (append on an accepted MsgSubmitDEs, pop the head on
// assignment). After every block and after every import the on-chain queue of every member is read entry by entry
// and compared with the model, and every assignment of a new signing is compared with the model's heads.

import (
	"encoding/json"
	"fmt"
	"strings"
	"testing"
	"time"

	"pgregory.net/rapid"

	sdk "github.com/cosmos/cosmos-sdk/types"

	"github.com/bandprotocol/chain/v3/pkg/tss"
	bandtsstypes "github.com/bandprotocol/chain/v3/x/bandtss/types"
	tsstypes "github.com/bandprotocol/chain/v3/x/tss/types"

	"verif/harness/gen"
	"verif/harness/pbt"
	"verif/harness/sim"
	"verif/harness/tssworld"
)

type c05gOp struct {
	K  string `json:"k"` // submit | sign | reimport | badimport | end
	M  int    `json:"m,omitempty"`
	N  int    `json:"n,omitempty"`
	Dt int    `json:"dt,omitempty"`
}

type c05gCase struct {
	N      int      `json:"n"`
	T      int      `json:"t"`
	MaxDE  uint64   `json:"max_de"`
	InitDE int      `json:"init_de"`
	Ops    []c05gOp `json:"ops"`
}

func genC05Genesis(rt *rapid.T) c05gCase {
	c := c05gCase{N: gen.Range(rt, "n", 2, 6)}
	c.T = gen.Range(rt, "t", 1, c.N)
	c.MaxDE = uint64(gen.OneOf(rt, "maxde", 3, 5, 8, 13, 20, 40))
	c.InitDE = gen.Range(rt, "initde", 0, int(min(c.MaxDE, 14)))
	nops := gen.Range(rt, "nops", 6, 30)
	for i := 0; i < nops; i++ {
		switch gen.Pick(rt, "op", 32, 32, 18, 8, 10) {
		case 0:
			n := gen.Range(rt, "cnt", 1, int(c.MaxDE))
			if gen.Chance(rt, "fill", 1, 3) {
				n = int(c.MaxDE)
			}
			c.Ops = append(c.Ops, c05gOp{K: "submit", M: gen.Uniform(rt, "m", c.N), N: n})
		case 1:
			c.Ops = append(c.Ops, c05gOp{K: "sign"})
		case 2:
			c.Ops = append(c.Ops, c05gOp{K: "reimport", Dt: gen.OneOf(rt, "dt", 1, 1, 5, 60)})
		case 3:
			// N: how far below the longest exported queue the configured maximum of the edited document is (0 = exactly at it)
			c.Ops = append(c.Ops, c05gOp{K: "badimport", N: gen.OneOf(rt, "below", 0, 1, 1, 2)})
		default:
			c.Ops = append(c.Ops, c05gOp{K: "end", Dt: gen.OneOf(rt, "dt", 1, 1, 5)})
		}
	}
	return c
}

func runC05Genesis(c c05gCase) *pbt.Verdict {
	v := &pbt.Verdict{}
	if c.N < 2 || c.T < 1 || c.T > c.N || c.MaxDE == 0 {
		v.Failf("harness", "malformed case")
		return v
	}
	cfg := sim.Config{NumAccounts: c.N + 1, MintOff: true,
		Balance:    sdk.NewCoins(sdk.NewInt64Coin("uband", 1_000_000_000)),
		Validators: []sim.ValSpec{{Tokens: 10_000_000}}}
	tp := tsstypes.DefaultParams()
	tp.MaxDESize, tp.SigningPeriod = c.MaxDE, 100000 // no attempt times out in this world
	cfg.TSS = &tp
	bp := bandtsstypes.DefaultParams()
	cfg.Bandtss = &bp
	var addrs []string
	for i := 0; i < c.N; i++ {
		addrs = append(addrs, sim.NewAccount(fmt.Sprintf("user%d", i)).Addr.String())
	}
	grp := tssworld.NewGroup(1, uint64(c.T), addrs, "c05genesis")
	wallet := tssworld.NewWallet()
	tssworld.GenesisFor(&cfg, []*tssworld.Group{grp}, 0, wallet, c.InitDE)
	queue := map[string][]string{}
	assigned := map[string]bool{}
	for _, d := range cfg.TSSGenesis.DEs {
		queue[d.Address] = append(queue[d.Address], tssworld.DEKey(d.DE))
	}
	ch, err := sim.New(cfg, 0)
	if err != nil {
		v.Failf("harness", "sim.New: %v", err)
		return v
	}
	defer ch.Close()
	members, requester := ch.Users[:c.N], ch.Users[c.N]

	compare := func(where string) bool {
		ctx, k := ch.Ctx(), ch.App.TSSKeeper
		for _, m := range grp.Members {
			acc := sdk.MustAccAddressFromBech32(m.Addr)
			q := k.GetDEQueue(ctx, acc)
			var chain []string
			for i := q.Head; i < q.Tail; i++ {
				de, err := k.GetDE(ctx, acc, i)
				if err != nil {
					v.Failf("C05/queue-hole", "%s: queue of member %d has no entry at index %d (head %d tail %d)", where, m.ID, i, q.Head, q.Tail)
					return false
				}
				chain = append(chain, tssworld.DEKey(de))
			}
			model := queue[m.Addr]
			if len(chain) != len(model) {
				v.Failf("C05/genesis-queue", "%s: member %d has %d queued pairs on chain, %d registered and not yet assigned", where, m.ID, len(chain), len(model))
				return false
			}
			for i := range chain {
				if assigned[chain[i]] {
					v.Failf("C05/assigned-still-queued", "%s: queue of member %d contains a pair that was already assigned", where, m.ID)
					return false
				}
				if chain[i] != model[i] {
					v.Failf("C05/genesis-order", "%s: position %d of member %d's queue is not the pair registered in that position (queue of %d pairs)", where, i, m.ID, len(model))
					return false
				}
			}
		}
		return true
	}

	reimports, signsAfterImport, signs, bigExport := 0, 0, 0, false
	cls := map[string]bool{}
	for i, op := range c.Ops {
		where := fmt.Sprintf("op %d %s", i, op.K)
		switch op.K {
		case "submit":
			m := members[op.M%c.N]
			addr := m.Addr.String()
			des := wallet.Fresh(addr, max(op.N, 1))
			res, err := ch.Block([][]byte{ch.SignTx(m, tsstypes.NewMsgSubmitDEs(des, addr))}, time.Second)
			if err != nil {
				v.Failf("C05/finalize", "%s: %v", where, err)
				return v
			}
			ok := res.Resp.TxResults[0].Code == 0
			over := uint64(len(queue[addr])+len(des)) > c.MaxDE
			if ok && over {
				v.Failf("C05/over-max", "%s: %d pairs accepted on top of %d queued, maximum %d", where, len(des), len(queue[addr]), c.MaxDE)
				return v
			}
			if ok {
				for _, d := range des {
					queue[addr] = append(queue[addr], tssworld.DEKey(d))
				}
				v.Count("submit_ok", 1)
			} else {
				if !over {
					v.Count("converse_submit_refused", 1)
				}
				v.Count("submit_refused", 1)
			}
		case "sign":
			before := ch.App.TSSKeeper.GetSigningCount(ch.Ctx())
			msg := tssworld.TextRequest(requester.Addr, []byte(fmt.Sprintf("text %d", i)), sdk.NewCoins(sdk.NewInt64Coin("uband", 10_000_000)))
			res, err := ch.Block([][]byte{ch.SignTx(requester, msg)}, time.Second)
			if err != nil {
				v.Failf("C05/finalize", "%s: %v", where, err)
				return v
			}
			if res.Resp.TxResults[0].Code != 0 {
				v.Count("sign_refused", 1)
				break
			}
			ctx, k := ch.Ctx(), ch.App.TSSKeeper
			after := k.GetSigningCount(ctx)
			if after != before+1 {
				v.Failf("harness", "%s: signing count %d -> %d", where, before, after)
				return v
			}
			sg, err := k.GetSigning(ctx, tss.SigningID(after))
			if err != nil {
				v.Failf("harness", "%s: %v", where, err)
				return v
			}
			sa, err := k.GetSigningAttempt(ctx, tss.SigningID(after), sg.CurrentAttempt)
			if err != nil {
				v.Failf("harness", "%s: %v", where, err)
				return v
			}
			for _, am := range sa.AssignedMembers {
				key := tssworld.DEKey(tsstypes.DE{PubD: am.PubD, PubE: am.PubE})
				q := queue[am.Address]
				switch {
				case assigned[key]:
					v.Failf("C05/reuse", "%s: member %d is assigned a pair that was assigned before", where, am.MemberID)
					return v
				case len(q) == 0:
					v.Failf("C05/empty-queue-member-selected", "%s: member %d has no queued pair but is on the committee", where, am.MemberID)
					return v
				case q[0] != key:
					v.Failf("C05/order", "%s: member %d is assigned a pair that is not its oldest queued one (%d queued, %d imports so far)", where, am.MemberID, len(q), reimports)
					return v
				}
				assigned[key] = true
				queue[am.Address] = q[1:]
			}
			signs++
			if reimports > 0 {
				signsAfterImport++
			}
		case "reimport":
			total, maxq := 0, 0
			for _, q := range queue {
				total += len(q)
				maxq = max(maxq, len(q))
			}
			if _, err := ch.Reimport(time.Duration(max(op.Dt, 1)) * time.Second); err != nil {
				v.Failf("C05/reimport", "%s: the exported state (%d queued pairs) cannot be imported: %v", where, total, err)
				return v
			}
			reimports++
			if total > 12 {
				bigExport = true
				cls["export-with-more-than-12-queued-pairs"] = true
			}
			if maxq > 12 {
				cls["export-with-more-than-12-pairs-of-one-member"] = true
			}
			if len(assigned) > 0 {
				cls["export-after-assignments"] = true
			}
		case "badimport":
			// the exported document with the configured maximum queue length edited (a migration that tightens max_de_size):
			// a document in which some member has more queued pairs than the configured maximum must be refused, one in which
			// the longest queue is exactly at the maximum must be accepted. The chain itself is not touched.
			maxq := 0
			for _, q := range queue {
				maxq = max(maxq, len(q))
			}
			newMax := maxq - op.N
			if newMax < 1 {
				break
			}
			ierr := ch.TryImportMutated(func(state map[string]json.RawMessage) error {
				var g, pr map[string]json.RawMessage
				if err := json.Unmarshal(state["tss"], &g); err != nil {
					return err
				}
				if err := json.Unmarshal(g["params"], &pr); err != nil {
					return err
				}
				if _, ok := pr["max_de_size"]; !ok {
					return fmt.Errorf("no max_de_size in the exported tss params")
				}
				pr["max_de_size"] = json.RawMessage(fmt.Sprintf("%q", fmt.Sprint(newMax)))
				g["params"], _ = json.Marshal(pr)
				state["tss"], _ = json.Marshal(g)
				return nil
			})
			switch {
			case ierr != nil && strings.HasPrefix(ierr.Error(), "harness:"):
				v.Failf("C05/harness", "%s: %v", where, ierr)
				return v
			case op.N > 0 && ierr == nil:
				v.Failf("C05/genesis-queue-above-maximum-accepted", "%s: a genesis with max_de_size %d and a member with %d queued pairs was imported", where, newMax, maxq)
				return v
			case op.N == 0 && ierr != nil:
				v.Failf("C05/genesis-queue-at-maximum-refused", "%s: a genesis with max_de_size %d and a longest queue of %d was refused: %v", where, newMax, maxq, ierr)
				return v
			}
			if op.N > 0 {
				cls["import-with-queue-above-maximum-refused"] = true
			}
		default:
			if _, err := ch.Block(nil, time.Duration(max(op.Dt, 1))*time.Second); err != nil {
				v.Failf("C05/finalize", "%s: %v", where, err)
				return v
			}
		}
		if !compare(where) {
			return v
		}
	}
	v.Count("reimports", int64(reimports))
	v.Count("signings", int64(signs))
	v.Count("signings_after_import", int64(signsAfterImport))
	if signsAfterImport > 0 {
		cls["signing-after-import"] = true
	}
	for _, k := range []string{"import-with-queue-above-maximum-refused", "export-with-more-than-12-queued-pairs", "export-with-more-than-12-pairs-of-one-member", "export-after-assignments", "signing-after-import"} {
		if cls[k] {
			v.Class(k)
		}
	}
	v.NonTrivial = bigExport && signsAfterImport > 0
	return v
}

func TestC05Genesis(t *testing.T) { pbt.Check(t, "C05", genC05Genesis, runC05Genesis) }
