package props

import (
	"testing"

	"cosmossdk.io/math"
	"pgregory.net/rapid"

	sdk "github.com/cosmos/cosmos-sdk/types"
	banktypes "github.com/cosmos/cosmos-sdk/x/bank/types"

	"verif/harness/pbt"
)

func sdkInt(x int64) math.Int { return math.NewInt(x) }

func banktypesMsgSend(from, to sdk.AccAddress, amt sdk.Coins) sdk.Msg {
	return banktypes.NewMsgSend(from, to, amt)
}

func runTSS(c tssCase, obs tssObs, nt func(w *tssWorld) bool) *pbt.Verdict {
	v := &pbt.Verdict{}
	w := newTSSWorld(c, obs, v)
	if w == nil {
		return v
	}
	w.run()
	v.NonTrivial = nt(w)
	return v
}

// C05: nonce pairs used at most once.
func TestC05(t *testing.T) {
	prof := tssProfile{wDes: 14, wReset: 5, wReq: 22, wSig: 8, wSigAll: 14, wEnd: 26, wAct: 5, wOracle: 6, gov: true}
	pbt.Check(t, "C05", func(rt *rapid.T) tssCase { return genTSSCase(rt, prof) }, func(c tssCase) *pbt.Verdict {
		return runTSS(c, tssObs{c05: true}, func(w *tssWorld) bool { return w.retryAfterTO && w.failedCreate && w.resetPending })
	})
}

// C10: every signing terminates; idle members penalised.
func TestC10(t *testing.T) {
	prof := tssProfile{wDes: 12, wReset: 2, wReq: 18, wSig: 14, wSigAll: 16, wEnd: 28, wAct: 8, wOracle: 2, gov: true}
	pbt.Check(t, "C10", func(rt *rapid.T) tssCase { return genTSSCase(rt, prof) }, func(c tssCase) *pbt.Verdict {
		return runTSS(c, tssObs{c10: true}, func(w *tssWorld) bool {
			partialTO := false
			for _, s := range w.signings {
				for _, a := range s.attempts {
					if len(a.submitted) > 0 && len(a.submitted) < len(a.assigned) && s.timeouts > 0 {
						partialTO = true
					}
				}
			}
			return partialTO && w.successRetry
		})
	})
}

// C13 (signing fees): exact escrow and payout.
func TestC13Signing(t *testing.T) {
	prof := tssProfile{wDes: 12, wReset: 1, wReq: 26, wSig: 6, wSigAll: 22, wEnd: 26, wAct: 4, wOracle: 3, gov: true}
	pbt.Check(t, "C13", func(rt *rapid.T) tssCase { return genTSSCase(rt, prof) }, func(c tssCase) *pbt.Verdict {
		return runTSS(c, tssObs{c13: true}, func(w *tssWorld) bool { return w.boundaryReq || w.payoutRetry })
	})
}

// C03 (on-chain layer): shares accepted exactly when correct; published signature verifies.
func TestC03Chain(t *testing.T) {
	prof := tssProfile{wDes: 10, wReset: 0, wReq: 20, wSig: 34, wSigAll: 10, wEnd: 24, wAct: 2, wOracle: 0, corrupt: true}
	pbt.Check(t, "C03", func(rt *rapid.T) tssCase { return genTSSCase(rt, prof) }, func(c tssCase) *pbt.Verdict {
		return runTSS(c, tssObs{c03: true}, func(w *tssWorld) bool { return c.T >= 2 && w.corruptTried >= 1 })
	})
}

// C09 (signers): the members assigned to every signing attempt equal the sampling specification.
func TestC09Signers(t *testing.T) {
	prof := tssProfile{wDes: 14, wReset: 3, wReq: 26, wSig: 6, wSigAll: 12, wEnd: 28, wAct: 8, wOracle: 3}
	pbt.Check(t, "C09", func(rt *rapid.T) tssCase { return genTSSCase(rt, prof) }, func(c tssCase) *pbt.Verdict {
		return runTSS(c, tssObs{c09: true}, func(w *tssWorld) bool { return w.c09Choice && w.c.N >= 4 })
	})
}

// C11 (on chain): Signing.Message parses back to the request and the on-chain data; internal kinds are refused.
func TestC11Chain(t *testing.T) {
	prof := tssProfile{wDes: 12, wReset: 1, wReq: 26, wSig: 2, wSigAll: 8, wEnd: 28, wAct: 5, wOracle: 18, internal: true}
	pbt.Check(t, "C11", func(rt *rapid.T) tssCase { return genTSSCase(rt, prof) }, func(c tssCase) *pbt.Verdict {
		v := runTSS(c, tssObs{c11: true}, func(w *tssWorld) bool { return w.c11Checked >= 2 && (w.c11Oracle >= 1 || w.internalTried >= 1) })
		return v
	})
}
