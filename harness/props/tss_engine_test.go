package props

// Shared TSS history engine: one operation vocabulary and interpreter on the real application, several
// independent observers (C03 on-chain layer, C05, C10, C13 signing-fee part). A test enables the observers
// of its own property only, so a failure is always attributed to the property being run.

import (
	"bytes"
	"encoding/hex"
	"fmt"
	"math/big"
	"os"
	"sort"
	"strings"
	"time"

	abci "github.com/cometbft/cometbft/abci/types"
	"pgregory.net/rapid"

	sdk "github.com/cosmos/cosmos-sdk/types"
	govv1 "github.com/cosmos/cosmos-sdk/x/gov/types/v1"

	"github.com/bandprotocol/chain/v3/pkg/tss"
	bandtsstypes "github.com/bandprotocol/chain/v3/x/bandtss/types"
	feedstypes "github.com/bandprotocol/chain/v3/x/feeds/types"
	oracletypes "github.com/bandprotocol/chain/v3/x/oracle/types"
	tsstypes "github.com/bandprotocol/chain/v3/x/tss/types"
	tunneltypes "github.com/bandprotocol/chain/v3/x/tunnel/types"

	"verif/harness/gen"
	"verif/harness/pbt"
	"verif/harness/ref"
	"verif/harness/sim"
	"verif/harness/tssworld"
)

type tssOp struct {
	K       string `json:"k"` // des|reset|req|sig|sigall|end|act|oreq|orep
	M       int    `json:"m,omitempty"`
	N       int    `json:"n,omitempty"`
	S       int    `json:"s,omitempty"`
	Variant string `json:"v,omitempty"`
	Mask    uint32 `json:"mask,omitempty"`
}

type tssCase struct {
	N          int     `json:"n"`
	T          int     `json:"t"`
	MaxDE      uint64  `json:"max_de"`
	Period     uint64  `json:"period"`
	MaxAttempt uint64  `json:"max_attempt"`
	Fee        []int64 `json:"fee"` // fee per signer: [uband, uatom]
	InitDE     int     `json:"init_de"`
	Penalty    int     `json:"penalty_s"`
	PoorUser   int64   `json:"poor_user_uband"`
	Ops        []tssOp `json:"ops"`
}

type tssProfile struct {
	wDes, wReset, wReq, wSig, wSigAll, wEnd, wAct, wOracle int
	corrupt                                                bool
	internal                                               bool
	gov                                                    bool // governance parameter changes (MaxDESize, FeePerSigner) during the history
}

func genTSSCase(rt *rapid.T, p tssProfile) tssCase {
	n := gen.Range(rt, "n", 2, 6)
	c := tssCase{N: n, T: gen.Range(rt, "t", 1, n)}
	if n > 2 && gen.Chance(rt, "tlt", 2, 3) {
		c.T = gen.Range(rt, "t2", 1, (n+1)/2) // threshold well below size so committees vary and retries can find members
	}
	if p.corrupt && gen.Chance(rt, "largegroup", 1, 16) {
		// a group larger than the default MaxGroupSize (20): member ids beyond the precomputed Lagrange table and
		// beyond any bound tied to the default parameter; threshold close to the size so that those ids sign
		n = gen.OneOf(rt, "bign", 21, 22, 24)
		c.N, c.T = n, n-gen.OneOf(rt, "bigt", 1, 2, 3)
	}
	c.MaxDE = uint64(gen.Range(rt, "maxde", 3, 8))
	c.Period = uint64(gen.Range(rt, "period", 1, 4))
	longPeriod := p.gov && gen.Chance(rt, "longperiod", 1, 5)
	if longPeriod {
		c.Period = uint64(gen.Range(rt, "lperiod", 12, 20)) // long enough for a later, shorter-lived signing to expire first
	}
	c.MaxAttempt = uint64(gen.OneOf(rt, "maxatt", 1, 2, 3, 3, 4))
	c.Fee = gen.OneOf(rt, "fee", []int64{0, 0}, []int64{10, 0}, []int64{7, 0}, []int64{3, 2})
	c.InitDE = gen.Range(rt, "initde", 1, int(c.MaxDE))
	if gen.Chance(rt, "noinit", 1, 8) {
		c.InitDE = 0
	}
	c.Penalty = gen.OneOf(rt, "penalty", 1, 1, 1, 2, 10)
	c.PoorUser = int64(gen.OneOf(rt, "poor", 0, 5, 20, 1000))
	if gen.Chance(rt, "bigqueue", 1, 12) {
		// long nonce queues: the default MaxDESize is 300; one or two members fill their queue beyond 256 entries
		// (queue indexes and store keys wider than one byte), then signings consume from the head
		c.MaxDE = 300
		c.InitDE = gen.Range(rt, "biginit", 0, 8)
		for _, m := range []int{0, gen.Uniform(rt, "bigm", n)} {
			for j := 0; j < 3; j++ {
				c.Ops = append(c.Ops, tssOp{K: "des", M: m, N: gen.OneOf(rt, "bign", 100, 100, 97, 99)})
			}
			c.Ops = append(c.Ops, tssOp{K: "end", N: 1})
		}
		c.Ops = append(c.Ops, tssOp{K: "desall", N: 2}, tssOp{K: "actall"}, tssOp{K: "end", N: 1},
			tssOp{K: "req", M: 0, N: 4, Variant: "enough"}, tssOp{K: "end", N: 1}, tssOp{K: "sigall", S: 7, Mask: 0xff}, tssOp{K: "end", N: 1})
	}
	nops := rapid.IntRange(10, 60).Draw(rt, "nops")
	for i := 0; i < nops; i++ {
		if gen.Chance(rt, "scenario", 1, 8) {
			// constructed sequence: request, partial signing, time-out, retry, full signing
			c.Ops = append(c.Ops, tssOp{K: "desall", N: 2}, tssOp{K: "actall"}, tssOp{K: "end", N: 2},
				tssOp{K: "req", M: 0, N: 5, Variant: "enough"}, tssOp{K: "end", N: 1},
				tssOp{K: "sigall", S: 7, Mask: uint32(gen.OneOf(rt, "pmask", 0xfe, 0xfd, 0x01, 0x00, 0xff))})
			for j := uint64(0); j < c.Period; j++ {
				c.Ops = append(c.Ops, tssOp{K: "end", N: 1})
			}
			c.Ops = append(c.Ops, tssOp{K: "sigall", S: 7, Mask: 0xff}, tssOp{K: "end", N: 1})
			continue
		}
		if p.gov && gen.Chance(rt, "govscn", 1, 12) {
			// constructed sequence: a signing is left to time out k times (one assignee idle each time, the others
			// re-activated and re-stocked), then governance sets MaxSigningAttempt below / at / above the current
			// attempt number, and the history runs on across further time-outs
			k := gen.Range(rt, "govk", 1, 3)
			c.Ops = append(c.Ops, tssOp{K: "desall", N: 3}, tssOp{K: "actall"}, tssOp{K: "end", N: 2},
				tssOp{K: "req", M: 0, N: 6, Variant: "enough"}, tssOp{K: "end", N: 1})
			for a := 0; a < k; a++ {
				c.Ops = append(c.Ops, tssOp{K: "sigall", S: 7, Mask: uint32(gen.OneOf(rt, "gmask", 0xfe, 0xfd, 0x00))})
				for j := uint64(0); j < c.Period; j++ {
					c.Ops = append(c.Ops, tssOp{K: "end", N: 1})
				}
				c.Ops = append(c.Ops, tssOp{K: "actall"}, tssOp{K: "desall", N: 2})
			}
			c.Ops = append(c.Ops, tssOp{K: "gov", Variant: "maxattempt", N: gen.OneOf(rt, "govattn", 1, 1, 2, k, k+1, k+2)})
			for j := uint64(0); j < 2*c.Period+5; j++ {
				c.Ops = append(c.Ops, tssOp{K: "end", N: 1})
				if j%2 == 1 {
					c.Ops = append(c.Ops, tssOp{K: "actall"}, tssOp{K: "desall", N: 1})
				}
			}
			continue
		}
		if p.gov && gen.Chance(rt, "gov", 1, 14) {
			if gk := gen.Uniform(rt, "govkind", 3); gk == 0 {
				c.Ops = append(c.Ops, tssOp{K: "gov", Variant: "maxde", N: gen.OneOf(rt, "govde", 1, 2, 3, int(c.MaxDE)-1, int(c.MaxDE)+2)})
			} else if gk == 1 && longPeriod {
				// the signing period changes while signings are in flight: a signing opened under the long period, the period
				// lowered, another signing opened (it expires earlier but is queued behind the first), nobody signs
				c.Ops = append(c.Ops, tssOp{K: "desall", N: 3}, tssOp{K: "actall"}, tssOp{K: "end", N: 1},
					tssOp{K: "req", M: 0, N: 7, Variant: "enough"}, tssOp{K: "end", N: 1},
					tssOp{K: "gov", Variant: "period", N: gen.OneOf(rt, "govper", 1, 1, 2, 3, 6, 9)})
				for j := 0; j < 4; j++ {
					c.Ops = append(c.Ops, tssOp{K: "end", N: 1})
				}
				c.Ops = append(c.Ops, tssOp{K: "req", M: 0, N: 8, Variant: "enough"})
				for j := uint64(0); j < c.Period+4; j++ {
					c.Ops = append(c.Ops, tssOp{K: "end", N: 1})
					if j%3 == 2 {
						c.Ops = append(c.Ops, tssOp{K: "actall"}, tssOp{K: "desall", N: 1})
					}
				}
			} else if gk == 1 {
				c.Ops = append(c.Ops, tssOp{K: "gov", Variant: "maxattempt", N: gen.OneOf(rt, "govatt", 1, 1, 2, 3, 5)})
			} else {
				c.Ops = append(c.Ops, tssOp{K: "gov", Variant: "fee", N: gen.Uniform(rt, "govfee", 4)})
			}
			continue
		}
		if gen.Chance(rt, "sameblock-completions", 1, 25) {
			// two or three signings in flight whose last missing shares all arrive in ONE block, in a drawn order of the
			// signings (ascending, descending, mixed): every one of them is complete at the end of that block
			n := gen.Range(rt, "sbn", 2, 3)
			for i := 0; i < n; i++ {
				c.Ops = append(c.Ops, tssOp{K: "req", M: 0, N: 3 + i, Variant: "enough"})
				if gen.Chance(rt, "sbsplit", 1, 2) {
					c.Ops = append(c.Ops, tssOp{K: "end", N: 1})
				}
			}
			c.Ops = append(c.Ops, tssOp{K: "end", N: 1})
			order := [][]int{{1, 0, 2}, {2, 1, 0}, {0, 1, 2}, {2, 0, 1}}[gen.Uniform(rt, "sborder", 4)]
			for _, si := range order {
				c.Ops = append(c.Ops, tssOp{K: "sigall", S: si, Mask: 0xff})
			}
			c.Ops = append(c.Ops, tssOp{K: "end", N: 1}, tssOp{K: "end", N: 1})
			continue
		}
		if gen.Chance(rt, "skipids", 1, 40) {
			// other users of x/tss (tunnels, oracle results, transitions) advance the signing counter: jump it so that
			// ids of signings in flight differ by multiples of 256 / cross 2^16 (key widths, id arithmetic)
			c.Ops = append(c.Ops, tssOp{K: "req", M: 0, N: 3, Variant: "enough"}, tssOp{K: "end", N: 1},
				tssOp{K: "skipids", N: gen.OneOf(rt, "skipn", 255, 255, 254, 256, 65535-256, 1<<32)},
				tssOp{K: "req", M: 0, N: 4, Variant: "enough"}, tssOp{K: "end", N: 1}, tssOp{K: "sigall", S: 0, Mask: 0xff}, tssOp{K: "sigall", S: 1, Mask: 0xff}, tssOp{K: "end", N: 1})
			continue
		}
		if p.internal && gen.Chance(rt, "internal", 1, 15) {
			if gen.Chance(rt, "igov", 1, 3) {
				// the same message executed from a governance proposal (sender = the module authority)
				c.Ops = append(c.Ops, tssOp{K: "gov", Variant: "internal-" + gen.OneOf(rt, "ikind", "tunnel", "transition")},
					tssOp{K: "end", N: 1}, tssOp{K: "end", N: 1}, tssOp{K: "end", N: 1}, tssOp{K: "end", N: 1})
				continue
			}
			c.Ops = append(c.Ops, tssOp{K: "reqinternal", Variant: gen.OneOf(rt, "ikind", "tunnel", "transition")})
			continue
		}
		k := gen.Pick(rt, "op", p.wDes, p.wReset, p.wReq, p.wSig, p.wSigAll, p.wEnd, p.wAct, p.wOracle)
		switch k {
		case 0:
			if gen.Chance(rt, "desall", 1, 2) {
				c.Ops = append(c.Ops, tssOp{K: "desall", N: gen.OneOf(rt, "nde", 1, 2, 3)})
			} else {
				c.Ops = append(c.Ops, tssOp{K: "des", M: gen.Uniform(rt, "m", n), N: gen.OneOf(rt, "nde", 1, 1, 2, 3, int(c.MaxDE), int(c.MaxDE)+1)})
			}
		case 1:
			c.Ops = append(c.Ops, tssOp{K: "reset", M: gen.Uniform(rt, "m", n)})
		case 2:
			c.Ops = append(c.Ops, tssOp{K: "req", M: gen.OneOf(rt, "u", 0, 0, 1, 1, 1, 2), N: gen.Range(rt, "len", 1, 40),
				Variant: gen.OneOf(rt, "feev", "enough", "enough", "enough", "enough", "enough", "exact", "exact", "oneless", "zero", "onedenom")})
		case 3:
			v := "good"
			if p.corrupt {
				v = gen.OneOf(rt, "sigv", "good", "good", "badz", "badr", "otherz", "wrongid", "wrongsigner", "othermsg", "flip", "shift", "mirror", "mirror", "negnonce", "negnonce", "nonassigned", "dup")
			} else if gen.Chance(rt, "fewbad", 1, 6) {
				// also outside the C03 profile: a few shares that a lax check would accept and that can then never aggregate
				v = gen.OneOf(rt, "sigvfew", "negnonce", "mirror", "badz")
			}
			c.Ops = append(c.Ops, tssOp{K: "sig", S: gen.Uniform(rt, "s", 8), M: gen.Uniform(rt, "m", 8), Variant: v})
		case 4:
			c.Ops = append(c.Ops, tssOp{K: "sigall", S: gen.Uniform(rt, "s", 8), Mask: uint32(gen.OneOf(rt, "mask", 0xff, 0xff, 0xff, 0xff, 0xff, 0x55, 0x0f, 0x01, 0xfe))})
		case 5:
			c.Ops = append(c.Ops, tssOp{K: "end", N: gen.OneOf(rt, "dt", 1, 1, 3, 12)})
		case 6:
			if gen.Chance(rt, "actall", 1, 2) {
				c.Ops = append(c.Ops, tssOp{K: "actall"})
			} else {
				c.Ops = append(c.Ops, tssOp{K: "act", M: gen.Uniform(rt, "m", n)})
			}
		case 7:
			if gen.Chance(rt, "oreq", 1, 2) {
				c.Ops = append(c.Ops, tssOp{K: "oreq", N: gen.OneOf(rt, "oask", 1, 2, 2), Variant: gen.OneOf(rt, "ofee", "enough", "enough", "low")})
			} else {
				c.Ops = append(c.Ops, tssOp{K: "orep", S: gen.Uniform(rt, "r", 4), M: gen.Uniform(rt, "orv", 2), Variant: gen.OneOf(rt, "orall", "", "all", "all")})
			}
		}
	}
	return c
}

// ---- model ---------------------------------------------------------------------------------------------

type mAttempt struct {
	assigned  []string // addresses in assignment order
	memberIDs []tss.MemberID
	created   int64
	expiry    int64
	submitted map[string]bool
}

type mSigning struct {
	id        uint64
	group     tss.GroupID
	status    tsstypes.SigningStatus
	attempt   uint64
	attempts  map[uint64]*mAttempt
	success   int
	failed    int
	paid      bool      // user paid for it (current-group signing of a paying requester)
	fee       sdk.Coins // fee per signer recorded at request time
	retries   int
	timeouts  int
	sameBlock bool // aggregated in the block of its expiry height
}

type c11Want struct {
	requester string
	text      []byte // nil => oracle result content
	time      int64
}

type tssObs struct{ c03, c05, c09, c10, c11, c13 bool }

type tssWorld struct {
	c       tssCase
	obs     tssObs
	v       *pbt.Verdict
	ch      *sim.Chain
	grp     *tssworld.Group
	wallet  *tssworld.Wallet
	members []*sim.Account
	users   []*sim.Account // requesters: rich, rich, poor
	fee     sdk.Coins

	// C05 model
	queue      map[string][]string
	registered map[string]string
	assigned   map[string]bool
	tssActive  map[string]bool
	// C10 model
	signings map[uint64]*mSigning
	sigCount uint64
	// C13 model
	escrow          sdk.Coins
	expected        map[string]sdk.Coins // expected balances of tracked accounts
	maxDE           uint64               // current tss MaxDESize (changes through governance)
	maxAttempt      uint64               // current tss MaxSigningAttempt (changes through governance)
	period          uint64               // current tss SigningPeriod (changes through governance)
	maxPeriod       uint64               // largest SigningPeriod seen
	periodChanged   bool                 // from then on an attempt may time out LATER than its own expiry (never earlier)
	lateTimeouts    int
	draining        bool // the last idle block of the tail: everything must have been cleaned up by now
	proposals       uint64
	paramChanges    int
	attemptAboveMax bool   // governance lowered MaxSigningAttempt below the attempt number of a waiting signing
	seed            []byte // rolling seed of the block being observed
	// C11: what each signing was requested for
	sigWant       map[uint64]c11Want
	msgSeen       map[string]uint64
	c11Checked    int
	c11Oracle     int
	internalTried int
	idsSkipped    bool // the tss signing counter was advanced as other modules' signings would
	tooFewSeen    bool // a request was refused because fewer than threshold members were eligible
	internalGov   int  // ... of which executed from a governance proposal
	c09Checked    int
	c09Choice     bool
	// oracle source
	oracleReqs   []uint64
	oracleSeen   map[uint64]bool   // signing ids already attributed to an oracle request
	oracleSigned map[uint64]uint64 // oracle request id -> number of signings created for its result
	oracleCount  uint64
	stats        map[string]int64
	resetPending bool
	failedCreate bool
	retryAfterTO bool
	successRetry bool
	corruptTried int
	corruptKinds map[string]bool
	boundaryReq  bool
	payoutRetry  bool
}

func (w *tssWorld) fail(prop bool, sig, format string, a ...any) {
	if prop {
		w.v.Failf(sig, format, a...)
	}
}

func coinsOf(f []int64) sdk.Coins {
	cs := sdk.NewCoins()
	if f[0] > 0 {
		cs = cs.Add(sdk.NewInt64Coin("uband", f[0]))
	}
	if f[1] > 0 {
		cs = cs.Add(sdk.NewInt64Coin("uatom", f[1]))
	}
	return cs
}

func newTSSWorld(c tssCase, obs tssObs, v *pbt.Verdict) *tssWorld {
	w := &tssWorld{c: c, obs: obs, v: v, queue: map[string][]string{}, registered: map[string]string{}, assigned: map[string]bool{},
		tssActive: map[string]bool{}, signings: map[uint64]*mSigning{}, expected: map[string]sdk.Coins{}, stats: map[string]int64{}, corruptKinds: map[string]bool{},
		sigWant: map[uint64]c11Want{}, msgSeen: map[string]uint64{}, oracleSeen: map[uint64]bool{}, oracleSigned: map[uint64]uint64{}}
	w.fee = coinsOf(c.Fee)
	w.maxDE = c.MaxDE
	w.maxAttempt = c.MaxAttempt
	w.period, w.maxPeriod = c.Period, c.Period
	w.escrow = sdk.NewCoins()
	cfg := sim.Config{NumAccounts: c.N + 3, MintOff: true, GovVoting: 3 * time.Second,
		Balance:     sdk.NewCoins(sdk.NewInt64Coin("uband", 1_000_000_000), sdk.NewInt64Coin("uatom", 1_000_000_000)),
		Validators:  []sim.ValSpec{{Tokens: 10_000_000}, {Tokens: 5_000_000}},
		DataSources: []sim.DSSpec{{Exec: []byte("ds-one-executable-bytes-0123456789abcdef"), Treasury: 0}},
		Scripts:     [][]byte{sim.ScriptAsk([]int{1}, "oracle-result")},
	}
	tp := tsstypes.DefaultParams()
	tp.MaxDESize, tp.SigningPeriod, tp.MaxSigningAttempt = c.MaxDE, c.Period, c.MaxAttempt
	if uint64(c.N) > tp.MaxGroupSize {
		tp.MaxGroupSize = uint64(c.N) + 1 // governance raised the limit before the group was created
	}
	cfg.TSS = &tp
	bp := bandtsstypes.DefaultParams()
	bp.FeePerSigner = w.fee
	bp.InactivePenaltyDuration = time.Duration(c.Penalty) * time.Second
	cfg.Bandtss = &bp
	var addrs []string
	for i := 0; i < c.N; i++ {
		addrs = append(addrs, sim.NewAccount(fmt.Sprintf("user%d", i)).Addr.String())
	}
	w.grp = tssworld.NewGroup(1, uint64(c.T), addrs, "tsshist")
	w.wallet = tssworld.NewWallet()
	tssworld.GenesisFor(&cfg, []*tssworld.Group{w.grp}, 0, w.wallet, c.InitDE)
	for _, d := range cfg.TSSGenesis.DEs {
		k := tssworld.DEKey(d.DE)
		w.queue[d.Address] = append(w.queue[d.Address], k)
		w.registered[k] = d.Address
	}
	for _, a := range addrs {
		w.tssActive[a] = true
	}
	ch, err := sim.New(cfg, 0)
	if err != nil {
		v.Failf("harness", "sim.New: %v", err)
		return nil
	}
	w.ch = ch
	w.members = ch.Users[:c.N]
	w.users = ch.Users[c.N:]
	// make the third requester poor: send away everything but PoorUser uband (and all uatom)
	poor := w.users[2]
	bal := ch.App.BankKeeper.GetAllBalances(ch.Ctx(), poor.Addr)
	keep := sdk.NewCoins(sdk.NewInt64Coin("uband", c.PoorUser))
	send := bal.Sub(keep...)
	txs := [][]byte{ch.SignTx(poor, banktypesMsgSend(poor.Addr, w.users[0].Addr, send))}
	for _, vv := range ch.Vals {
		txs = append(txs, ch.SignTx(vv, oracletypes.NewMsgActivate(vv.Val)))
	}
	if _, err := ch.Block(txs, time.Second); err != nil {
		v.Failf("harness", "setup block: %v", err)
		ch.Close()
		return nil
	}
	w.snapshotBalances()
	return w
}

func (w *tssWorld) tracked() []sdk.AccAddress {
	var out []sdk.AccAddress
	for _, m := range w.members {
		out = append(out, m.Addr)
	}
	for _, u := range w.users {
		out = append(out, u.Addr)
	}
	out = append(out, w.ch.App.AccountKeeper.GetModuleAddress(bandtsstypes.ModuleName))
	return out
}

func (w *tssWorld) snapshotBalances() {
	ctx := w.ch.Ctx()
	for _, a := range w.tracked() {
		w.expected[a.String()] = w.ch.App.BankKeeper.GetAllBalances(ctx, a)
	}
}

func (w *tssWorld) move(from, to string, amt sdk.Coins) {
	w.expected[from] = w.expected[from].Sub(amt...)
	w.expected[to] = w.expected[to].Add(amt...)
}

type builtTx struct {
	op     tssOp
	bz     []byte
	sender string
	// sig
	sid      uint64
	member   string
	expectOK bool
	why      string
	known    bool // the model can predict acceptance
	// des
	des []tsstypes.DE
	// req
	feeLimit sdk.Coins
	oracleID uint64
	text     []byte
}

func (w *tssWorld) openSignings() []uint64 {
	var ids []uint64
	for id, s := range w.signings {
		if s.status == tsstypes.SIGNING_STATUS_WAITING {
			ids = append(ids, id)
		}
	}
	sort.Slice(ids, func(i, j int) bool { return ids[i] < ids[j] })
	return ids
}

func (w *tssWorld) moduleAddr() string {
	return w.ch.App.AccountKeeper.GetModuleAddress(bandtsstypes.ModuleName).String()
}

// buildSig builds a MsgSubmitSignature for member index mi of signing sid with the given corruption.
func (w *tssWorld) buildSig(sid uint64, mi int, variant string, inBlock map[string]bool) *builtTx {
	s := w.signings[sid]
	att := s.attempts[s.attempt]
	ctx := w.ch.Ctx()
	signing, err := w.ch.App.TSSKeeper.GetSigning(ctx, tss.SigningID(sid))
	if err != nil {
		return nil
	}
	sa, err := w.ch.App.TSSKeeper.GetSigningAttempt(ctx, tss.SigningID(sid), s.attempt)
	if err != nil {
		return nil
	}
	addr := att.assigned[mi%len(att.assigned)]
	if variant == "nonassigned" {
		addr = ""
		for _, m := range w.grp.Members {
			found := false
			for _, a := range att.assigned {
				if a == m.Addr {
					found = true
				}
			}
			if !found {
				addr = m.Addr
			}
		}
		if addr == "" {
			variant, addr = "good", att.assigned[mi%len(att.assigned)]
		}
	}
	mem := w.grp.ByAddr(addr)
	signer := w.ch.Account(addr)
	bt := &builtTx{sid: sid, member: addr, known: true, expectOK: true}
	var sig tss.Signature
	if variant == "nonassigned" {
		// a share computed as if assigned cannot exist; send some other member's share under own id
		other := w.grp.ByAddr(att.assigned[0])
		sig, err = tssworld.PartialSignature(other, w.wallet, signing, sa)
		bt.expectOK, bt.why = false, "member not assigned"
	} else {
		sig, err = tssworld.PartialSignature(mem, w.wallet, signing, sa)
	}
	if err != nil {
		return nil
	}
	memberID := mem.ID
	key := fmt.Sprintf("%d/%d/%s", sid, s.attempt, addr)
	if variant != "nonassigned" && (att.submitted[addr] || inBlock[key]) {
		bt.expectOK, bt.why = false, "already submitted"
	}
	n := new(big.Int)
	n.SetString("FFFFFFFFFFFFFFFFFFFFFFFFFFFFFFFEBAAEDCE6AF48A03BBFD25E8CD0364141", 16)
	switch variant {
	case "badz":
		z := new(big.Int).SetBytes(sig.S())
		z.Add(z, big.NewInt(1)).Mod(z, n)
		zs, _ := tss.NewScalar(leftPad(z.Bytes(), 32))
		sig, _ = tss.NewSignatureFromComponents(sig.R(), zs)
		bt.expectOK, bt.why = false, "z+1"
	case "badr":
		r := tssworld.ScalarFrom("badr", sid, addr).Point()
		sig, _ = tss.NewSignatureFromComponents(r, sig.S())
		bt.expectOK, bt.why = false, "foreign R"
	case "otherz":
		if len(att.assigned) > 1 {
			o := w.grp.ByAddr(att.assigned[(mi+1)%len(att.assigned)])
			if o.Addr != addr {
				osig, e2 := tssworld.PartialSignature(o, w.wallet, signing, sa)
				if e2 == nil {
					sig, _ = tss.NewSignatureFromComponents(sig.R(), osig.S())
					bt.expectOK, bt.why = false, "z of another member"
				}
			}
		}
	case "wrongid":
		if len(att.assigned) > 1 {
			o := w.grp.ByAddr(att.assigned[(mi+1)%len(att.assigned)])
			if o.Addr != addr {
				memberID = o.ID // own share under another assigned member's id, signed by self
				bt.expectOK, bt.why = false, "member id of another assignee"
			}
		}
	case "wrongsigner":
		// correct share and member id, but sent from another account
		var o *sim.Account
		for _, m := range w.members {
			if m.Addr.String() != addr {
				o = m
			}
		}
		if o != nil {
			signer = o
			bt.expectOK, bt.why = false, "signer is not the member"
		}
	case "othermsg":
		s2 := signing
		s2.Message = append(append([]byte{}, signing.Message...), 0x01)
		if o, e2 := tssworld.PartialSignature(mem, w.wallet, s2, sa); e2 == nil {
			sig = o
			bt.expectOK, bt.why = false, "share for another message"
		}
	case "shift":
		// self-consistent forgery: (R + dG, z + d) satisfies the share equation but not the assigned nonce
		d := big.NewInt(7)
		rp, e1 := ref.TSSAddPoints(sig.R(), ref.TSSBaseMul(d))
		z := new(big.Int).SetBytes(sig.S())
		z.Add(z, d).Mod(z, n)
		zs, e2 := tss.NewScalar(leftPad(z.Bytes(), 32))
		if e1 == nil && e2 == nil {
			if s2, e3 := tss.NewSignatureFromComponents(rp, zs); e3 == nil {
				sig = s2
				bt.expectOK, bt.why = false, "shifted nonce (R+dG, z+d)"
			}
		}
	case "mirror":
		// the assigned public nonce with the mirrored scalar z' = c*lambda*d - k = z - 2k: the share equation then
		// yields -R (same x coordinate, opposite y), which a verifier comparing only x would accept
		if am, okm := tsstypes.AssignedMembers(sa.AssignedMembers).FindAssignedMember(mem.ID); okm {
			if de, okd := w.wallet.Lookup(tsstypes.DE{PubD: am.PubD, PubE: am.PubE}); okd {
				if k, e1 := tss.ComputeOwnPrivNonce(de.PrivD, de.PrivE, am.BindingFactor); e1 == nil {
					z := new(big.Int).SetBytes(sig.S())
					kk := new(big.Int).SetBytes(k)
					z.Sub(z, kk).Sub(z, kk).Mod(z, n)
					if zs, e2 := tss.NewScalar(leftPad(z.Bytes(), 32)); e2 == nil {
						if s2, e3 := tss.NewSignatureFromComponents(sig.R(), zs); e3 == nil {
							sig = s2
							bt.expectOK, bt.why = false, "mirrored scalar (share equation gives -R)"
						}
					}
				}
			}
		}
	case "negnonce":
		// a share made with the NEGATED private nonce: R' = -R_assigned (same x coordinate, other parity prefix) and
		// z' = -k + c*lambda*d = z - 2k. It is a valid share for -R', but not for the nonce the chain assigned.
		if am, okm := tsstypes.AssignedMembers(sa.AssignedMembers).FindAssignedMember(mem.ID); okm {
			if de, okd := w.wallet.Lookup(tsstypes.DE{PubD: am.PubD, PubE: am.PubE}); okd {
				if k, e1 := tss.ComputeOwnPrivNonce(de.PrivD, de.PrivE, am.BindingFactor); e1 == nil {
					z := new(big.Int).SetBytes(sig.S())
					kk := new(big.Int).SetBytes(k)
					z.Sub(z, kk).Sub(z, kk).Mod(z, n)
					r := append([]byte{}, sig.R()...)
					if len(r) == 33 {
						r[0] ^= 0x01 // 02 <-> 03
					}
					if zs, e2 := tss.NewScalar(leftPad(z.Bytes(), 32)); e2 == nil {
						if s2, e3 := tss.NewSignatureFromComponents(tss.Point(r), zs); e3 == nil {
							sig = s2
							bt.expectOK, bt.why = false, "negated nonce (-R, z-2k)"
						}
					}
				}
			}
		}
	case "flip":
		b := append([]byte{}, sig...)
		b[len(b)-1] ^= 0x01
		if s2, e2 := tss.NewSignature(b); e2 == nil {
			sig = s2
			bt.expectOK, bt.why = false, "bit flip"
		}
	}
	if variant != "good" && variant != "dup" {
		w.corruptTried++
		w.corruptKinds[variant] = true
	}
	msg := tsstypes.NewMsgSubmitSignature(tss.SigningID(sid), memberID, sig, signer.Addr.String())
	if bt.expectOK {
		inBlock[key] = true
	}
	bt.bz = w.ch.SignTx(signer, msg)
	bt.sender = signer.Addr.String()
	return bt
}

func leftPad(b []byte, n int) []byte {
	if len(b) >= n {
		return b
	}
	return append(make([]byte, n-len(b)), b...)
}

func (w *tssWorld) feeLimitFor(variant string) sdk.Coins {
	total := w.fee.MulInt(sdkInt(int64(w.c.T)))
	switch variant {
	case "exact":
		w.boundaryReq = true
		return total
	case "oneless":
		w.boundaryReq = true
		if total.IsZero() {
			return total
		}
		c0 := total[len(total)-1]
		return total.Sub(sdk.NewCoin(c0.Denom, sdkInt(1)))
	case "zero":
		return sdk.NewCoins()
	case "onedenom":
		if len(total) > 1 {
			w.boundaryReq = true
			return sdk.NewCoins(sdk.NewCoin(total[0].Denom, total[0].Amount.MulRaw(5)))
		}
		return total
	}
	return total.Add(sdk.NewCoins(sdk.NewInt64Coin("uband", 1000), sdk.NewInt64Coin("uatom", 1000))...)
}

// run executes the whole case; returns false if a violation/harness failure stopped it.
func (w *tssWorld) run() {
	defer w.ch.Close()
	var block []*builtTx
	inBlock := map[string]bool{}
	flush := func(dt int) bool {
		var txs [][]byte
		for _, b := range block {
			txs = append(txs, b.bz)
		}
		res, err := w.ch.Block(txs, time.Duration(dt)*time.Second)
		if err != nil {
			w.v.Failf("finalize", "FinalizeBlock failed at height %d: %v", w.ch.Height+1, err)
			return false
		}
		ok := w.observe(block, res)
		block, inBlock = nil, map[string]bool{}
		return ok && w.v.Violation == ""
	}
	for _, op := range w.c.Ops {
		switch op.K {
		case "des":
			m := w.members[op.M%len(w.members)]
			des := w.wallet.Fresh(m.Addr.String(), op.N)
			block = append(block, &builtTx{op: op, sender: m.Addr.String(), des: des, bz: w.ch.SignTx(m, tsstypes.NewMsgSubmitDEs(des, m.Addr.String()))})
		case "desall":
			for _, m := range w.members {
				des := w.wallet.Fresh(m.Addr.String(), op.N)
				o2 := op
				o2.K = "des"
				block = append(block, &builtTx{op: o2, sender: m.Addr.String(), des: des, bz: w.ch.SignTx(m, tsstypes.NewMsgSubmitDEs(des, m.Addr.String()))})
			}
		case "actall":
			for _, m := range w.members {
				if !w.tssActive[m.Addr.String()] {
					o2 := op
					o2.K = "act"
					block = append(block, &builtTx{op: o2, sender: m.Addr.String(), bz: w.ch.SignTx(m, bandtsstypes.NewMsgActivate(m.Addr.String(), w.grp.ID))})
				}
			}
		case "skipids":
			if sim.Replicas > 1 || len(block) > 0 {
				continue // a direct store write would make the replicas incomparable; only between blocks
			}
			wctx := w.ch.WriteCtx()
			w.ch.App.TSSKeeper.SetSigningCount(wctx, w.ch.App.TSSKeeper.GetSigningCount(wctx)+uint64(op.N))
			w.sigCount += uint64(op.N)
			w.idsSkipped = true
		case "reset":
			m := w.members[op.M%len(w.members)]
			block = append(block, &builtTx{op: op, sender: m.Addr.String(), bz: w.ch.SignTx(m, tsstypes.NewMsgResetDE(m.Addr.String()))})
		case "act":
			m := w.members[op.M%len(w.members)]
			block = append(block, &builtTx{op: op, sender: m.Addr.String(), bz: w.ch.SignTx(m, bandtsstypes.NewMsgActivate(m.Addr.String(), w.grp.ID))})
		case "gov":
			// a real governance proposal changing one parameter: submit + both validators vote yes in one block;
			// gov's end blocker executes it in the first block at/after the end of the 3 s voting period
			ctx := w.ch.Ctx()
			var pmsg sdk.Msg
			if op.Variant == "maxde" || op.Variant == "maxattempt" || op.Variant == "period" {
				tp := w.ch.App.TSSKeeper.GetParams(ctx)
				if op.N < 1 {
					op.N = 1
				}
				if op.Variant == "period" {
					tp.SigningPeriod = uint64(op.N)
				} else if op.Variant == "maxde" {
					tp.MaxDESize = uint64(op.N)
				} else {
					tp.MaxSigningAttempt = uint64(op.N)
				}
				pmsg = &tsstypes.MsgUpdateParams{Authority: sim.GovAuthority(), Params: tp}
			} else if strings.HasPrefix(op.Variant, "internal-") {
				var content tsstypes.Content
				if op.Variant == "internal-tunnel" {
					content = tunneltypes.NewTunnelSignatureOrder(1, []feedstypes.Price{{Status: feedstypes.PRICE_STATUS_AVAILABLE, SignalID: "S1", Price: 5, Timestamp: 1}}, 1, feedstypes.ENCODER_FIXED_POINT_ABI)
				} else {
					content = bandtsstypes.NewGroupTransitionSignatureOrder(w.grp.PubKey, w.ch.Time.Add(time.Hour))
				}
				m, merr := bandtsstypes.NewMsgRequestSignature(content, w.feeLimitFor("enough"), sim.GovAuthority())
				if merr != nil {
					continue
				}
				pmsg = m
				w.internalTried++
				w.internalGov++
			} else {
				bp := w.ch.App.BandtssKeeper.GetParams(ctx)
				bp.FeePerSigner = coinsOf([][]int64{{0, 0}, {4, 0}, {25, 0}, {3, 2}}[op.N%4])
				pmsg = &bandtsstypes.MsgUpdateParams{Authority: sim.GovAuthority(), Params: bp}
			}
			prop, perr := govv1.NewMsgSubmitProposal([]sdk.Msg{pmsg}, sdk.NewCoins(sdk.NewInt64Coin("uband", 10)), w.ch.Vals[0].Addr.String(), "", "t", "s", false)
			if perr != nil {
				continue
			}
			pid := w.proposals + 1
			dup := false
			for _, b := range block {
				if b.op.K == "gov" {
					dup = true // one proposal per block keeps the id prediction trivial
				}
			}
			if dup {
				continue
			}
			block = append(block, &builtTx{op: op, sender: w.ch.Vals[0].Addr.String(), bz: w.ch.SignTx(w.ch.Vals[0], prop)})
			for _, vv := range w.ch.Vals {
				o2 := op
				o2.K = "govvote"
				block = append(block, &builtTx{op: o2, sender: vv.Addr.String(), bz: w.ch.SignTx(vv, govv1.NewMsgVote(vv.Addr, pid, govv1.OptionYes, ""))})
			}
		case "req":
			u := w.users[op.M%len(w.users)]
			fl := w.feeLimitFor(op.Variant)
			text := bytes.Repeat([]byte{byte('a' + op.N%26)}, op.N)
			block = append(block, &builtTx{op: op, sender: u.Addr.String(), feeLimit: fl, text: text, bz: w.ch.SignTx(u, tssworld.TextRequest(u.Addr, text, fl))})
		case "reqinternal":
			u := w.users[0]
			fl := w.feeLimitFor("enough")
			var content tsstypes.Content
			if op.Variant == "tunnel" {
				content = tunneltypes.NewTunnelSignatureOrder(1, []feedstypes.Price{{Status: feedstypes.PRICE_STATUS_AVAILABLE, SignalID: "S1", Price: 5, Timestamp: 1}}, 1, feedstypes.ENCODER_FIXED_POINT_ABI)
			} else {
				content = bandtsstypes.NewGroupTransitionSignatureOrder(w.grp.PubKey, w.ch.Time.Add(time.Hour))
			}
			m, merr := bandtsstypes.NewMsgRequestSignature(content, fl, u.Addr.String())
			if merr == nil {
				w.internalTried++
				block = append(block, &builtTx{op: op, sender: u.Addr.String(), feeLimit: fl, bz: w.ch.SignTx(u, m)})
			}
		case "oreq":
			u := w.users[0]
			fl := w.fee.MulInt(sdkInt(int64(w.c.T))).Add(sdk.NewInt64Coin("uband", 10))
			if op.Variant == "low" {
				fl = sdk.NewCoins()
			}
			ask := uint64(1)
			if op.N == 2 { // both validators are asked, the first report resolves the request
				ask = 2
			}
			msg := oracletypes.NewMsgRequestData(1, []byte("cd"), ask, 1, "c", fl, 100_000, 1_000_000, u.Addr, oracletypes.ENCODER_PROTO)
			block = append(block, &builtTx{op: op, sender: u.Addr.String(), feeLimit: fl, bz: w.ch.SignTx(u, msg)})
		case "orep":
			if len(w.oracleReqs) == 0 {
				w.stats["noop"]++
				continue
			}
			id := w.oracleReqs[op.S%len(w.oracleReqs)]
			reporters := []*sim.Account{w.ch.Vals[op.M%len(w.ch.Vals)]}
			if op.Variant == "all" { // every validator reports in this block (reports after the min_count-th one in the same block)
				reporters = w.ch.Vals
			}
			for _, val := range reporters {
				msg := oracletypes.NewMsgReportData(oracletypes.RequestID(id), []oracletypes.RawReport{oracletypes.NewRawReport(1, 0, []byte("x"))}, val.Val)
				block = append(block, &builtTx{op: op, sender: val.Addr.String(), oracleID: id, bz: w.ch.SignTx(val, msg)})
			}
		case "sig", "sigall":
			open := w.openSignings()
			if len(open) == 0 {
				w.stats["noop"]++
				continue
			}
			sid := open[op.S%len(open)]
			s := w.signings[sid]
			att := s.attempts[s.attempt]
			if op.K == "sig" {
				if bt := w.buildSig(sid, op.M, op.Variant, inBlock); bt != nil {
					bt.op = op
					block = append(block, bt)
				}
			} else {
				for i := range att.assigned {
					if op.Mask != 0xff && op.Mask&(1<<uint(i)) == 0 { // 0xff = every assigned member (committees can exceed 8)
						continue
					}
					// a member that already submitted sends its share again (refused as a duplicate); the tx has been
					// signed with the member's next sequence number, so it must be part of the block either way
					if bt := w.buildSig(sid, i, "good", inBlock); bt != nil {
						bt.op = op
						block = append(block, bt)
					}
				}
			}
		case "end":
			if !flush(op.N) {
				return
			}
		}
	}
	if !flush(1) {
		return
	}
	// tail: every signing must terminate within the parameter-implied bound
	maxAtt := w.c.MaxAttempt
	if maxAtt < 5 {
		maxAtt = 5 // governance may raise the maximum up to 5 during a history
	}
	tail := int(maxAtt*(w.c.Period+1) + 2)
	if w.periodChanged {
		// expirations are handled in queue order: after a change of the period an attempt can wait for the ones queued before it
		tail = int(2*maxAtt*(w.maxPeriod+1) + 6)
	}
	for i := 0; i < tail; i++ {
		w.draining = i == tail-1
		if !flush(1) {
			return
		}
	}
	for id, s := range w.signings {
		if s.status == tsstypes.SIGNING_STATUS_WAITING {
			w.fail(w.obs.c10, "C10/not-terminated", "signing %d still WAITING (attempt %d) after %d idle blocks", id, s.attempt, tail)
		}
	}
	w.finish()
}

func parseU(s string) uint64 { var x uint64; fmt.Sscan(s, &x); return x }

// observe processes one executed block: tx results in order, then end-block events, then state comparison.
func (w *tssWorld) observe(block []*builtTx, res *sim.BlockResult) bool {
	h := res.Height
	w.seed = w.ch.App.RollingseedKeeper.GetRollingSeed(w.ch.Ctx())
	deactivated := map[string]bool{}
	var endFailed []uint64
	retriedInEnd := map[uint64]bool{}
	succeededInEnd := map[uint64]bool{}

	var curText []byte
	handle := func(evs []abci.Event, inEnd bool, paidBy string, feeLimit sdk.Coins) {
		for _, e := range evs {
			switch e.Type {
			case "inactive_status":
				a := sim.Attr(e, "address")
				w.tssActive[a] = false
				deactivated[a] = true
			case "activate":
				if a := sim.Attr(e, "address"); a != "" && sim.Attr(e, "group_id") != "" {
					w.tssActive[a] = true
				}
			case "request_signature":
				sid, attempt := parseU(sim.Attr(e, "signing_id")), parseU(sim.Attr(e, "attempt"))
				addrs, pds, pes, mids := sim.Attrs(e, "address"), sim.Attrs(e, "pub_d"), sim.Attrs(e, "pub_e"), sim.Attrs(e, "member_id")
				att := &mAttempt{created: h, expiry: h + int64(w.period), submitted: map[string]bool{}}
				if w.obs.c09 {
					// reference committee: partial Fisher-Yates over the members that are active and hold a queued nonce,
					// in member-id order, driven by DRBG(rolling seed, signing id || attempt, chain id); result sorted by id
					var avail []string
					for _, m := range w.grp.Members {
						if w.tssActive[m.Addr] && len(w.queue[m.Addr]) > 0 {
							avail = append(avail, m.Addr)
						}
					}
					nonce := append(sdk.Uint64ToBigEndian(sid), sdk.Uint64ToBigEndian(attempt)...)
					if d, derr := ref.NewDrbg(w.seed, nonce, []byte(w.ch.Cfg.ChainID)); derr == nil && len(avail) >= w.c.T {
						var want []string
						for _, i := range ref.PartialFisherYatesRef(d, len(avail), w.c.T) {
							want = append(want, avail[i])
						}
						if fmt.Sprint(want) != fmt.Sprint(addrs) {
							w.fail(true, "C09/signers", "signing %d attempt %d: chain assigned %v, sampling specification over available members %v gives %v", sid, attempt, addrs, avail, want)
						}
						w.c09Checked++
						if len(avail) > w.c.T {
							w.c09Choice = true
						}
					} else if len(avail) < w.c.T {
						w.fail(true, "C09/too-few-signers", "signing %d attempt %d assigned %d members although only %d are available", sid, attempt, len(addrs), len(avail))
					}
				}
				seen := map[string]bool{}
				for i, a := range addrs {
					d, _ := hex.DecodeString(pds[i])
					ee, _ := hex.DecodeString(pes[i])
					key := string(d) + "|" + string(ee)
					att.assigned = append(att.assigned, a)
					att.memberIDs = append(att.memberIDs, tss.MemberID(parseU(mids[i])))
					if seen[a] {
						w.fail(w.obs.c05 || w.obs.c10, "C05/duplicate-assignee", "signing %d attempt %d assigns %s twice", sid, attempt, a)
					}
					seen[a] = true
					// C05: nonce used at most once, oldest first, leaves the queue
					if w.assigned[key] {
						w.fail(w.obs.c05, "C05/nonce-reuse", "signing %d attempt %d: nonce pair of %s assigned a second time", sid, attempt, a)
					}
					if w.registered[key] != a {
						w.fail(w.obs.c05, "C05/foreign-nonce", "signing %d: pair assigned to %s was registered by %q", sid, a, w.registered[key])
					}
					q := w.queue[a]
					if len(q) == 0 {
						w.fail(w.obs.c05, "C05/empty-queue-assigned", "signing %d attempt %d: %s assigned with an empty queue", sid, attempt, a)
					} else {
						if q[0] != key {
							w.fail(w.obs.c05, "C05/not-oldest", "signing %d attempt %d: %s was assigned a pair that is not its oldest queued one", sid, attempt, a)
						}
						// remove the assigned key wherever it is
						for j := range q {
							if q[j] == key {
								w.queue[a] = append(append([]string{}, q[:j]...), q[j+1:]...)
								break
							}
						}
					}
					w.assigned[key] = true
					if !w.tssActive[a] {
						w.fail(w.obs.c05 || w.obs.c10, "C05/inactive-assigned", "signing %d attempt %d assigns inactive member %s", sid, attempt, a)
					}
				}
				if uint64(len(addrs)) != uint64(w.c.T) {
					w.fail(w.obs.c10, "C10/committee-size", "signing %d attempt %d has %d assignees, threshold %d", sid, attempt, len(addrs), w.c.T)
				}
				s := w.signings[sid]
				if attempt == 1 {
					if s != nil {
						w.fail(w.obs.c10, "C10/attempt-reset", "signing %d got attempt 1 again", sid)
						continue
					}
					w.sigCount++
					if sid != w.sigCount {
						w.fail(w.obs.c10, "C10/signing-id", "new signing id %d, expected %d", sid, w.sigCount)
					}
					s = &mSigning{id: sid, group: w.grp.ID, status: tsstypes.SIGNING_STATUS_WAITING, attempt: 1, attempts: map[uint64]*mAttempt{1: att}}
					w.signings[sid] = s
					w.sigWant[sid] = c11Want{requester: paidBy, text: curText, time: res.Time.Unix()}
				} else {
					if s == nil || s.status != tsstypes.SIGNING_STATUS_WAITING || attempt != s.attempt+1 || !inEnd {
						w.fail(w.obs.c10, "C10/unexpected-retry", "retry event signing %d attempt %d (model: %+v)", sid, attempt, s)
						continue
					}
					cur := s.attempts[s.attempt]
					if cur.expiry > h {
						w.fail(w.obs.c10, "C10/early-timeout", "signing %d attempt %d retried at height %d before its expiry %d", sid, s.attempt, h, cur.expiry)
					}
					if attempt > w.maxAttempt {
						w.fail(w.obs.c10, "C10/too-many-attempts", "signing %d attempt %d exceeds the configured maximum %d", sid, attempt, w.maxAttempt)
					}
					s.attempt = attempt
					s.attempts[attempt] = att
					s.retries++
					retriedInEnd[sid] = true
					w.retryAfterTO = true
				}
			case "signing_success":
				sid := parseU(sim.Attr(e, "signing_id"))
				if s := w.signings[sid]; s != nil {
					s.success++
					succeededInEnd[sid] = true
				}
			case "signing_failed":
				sid := parseU(sim.Attr(e, "signing_id"))
				if s := w.signings[sid]; s != nil {
					s.failed++
					endFailed = append(endFailed, sid)
				}
			case "bandtss_signing_request_created":
				cur := parseU(sim.Attr(e, "current_group_signing_id"))
				if s := w.signings[cur]; s != nil && paidBy != "" {
					total := w.fee.MulInt(sdkInt(int64(w.c.T)))
					s.paid, s.fee = !total.IsZero(), w.fee
					w.move(paidBy, w.moduleAddr(), total)
					w.escrow = w.escrow.Add(total...)
					for _, fc := range total {
						if feeLimit != nil && fc.Amount.GT(feeLimit.AmountOf(fc.Denom)) {
							w.fail(w.obs.c13, "C13/over-limit", "signing request charged %s above the caller's limit %s", total, feeLimit)
						}
					}
					if sim.Attr(e, "total_fee") != total.String() {
						w.fail(w.obs.c13, "C13/fee-amount", "signing request fee %q, expected fee_per_signer x threshold = %q", sim.Attr(e, "total_fee"), total.String())
					}
				}
			}
		}
	}

	for i, b := range block {
		tr := res.Resp.TxResults[i]
		ok := tr.Code == 0
		if os.Getenv("VERIF_TSS_DEBUG") != "" {
			fmt.Printf("DEBUG height %d tx %d op %+v sender %s code %d/%s %s\n", h, i, b.op, b.sender, tr.Code, tr.Codespace, tr.Log)
		}
		if tr.Codespace == "sdk" && tr.Code == 32 {
			// the harness's own bookkeeping of account sequences went wrong (an earlier tx of this signer was refused
			// in the ante handler for a reason the harness did not foresee): nothing can be concluded from this case
			w.fail(true, "harness", "height %d tx %d (%s by %s): %s", h, i, b.op.K, b.sender, tr.Log)
		}
		switch b.op.K {
		case "des":
			fits := uint64(len(w.queue[b.sender])+len(b.des)) <= w.maxDE
			if ok {
				if !fits {
					w.fail(w.obs.c05, "C05/limit", "submission of %d pairs accepted although queue has %d and max is %d", len(b.des), len(w.queue[b.sender]), w.maxDE)
				}
				for _, d := range b.des {
					k := tssworld.DEKey(d)
					w.queue[b.sender] = append(w.queue[b.sender], k)
					w.registered[k] = b.sender
				}
			} else if fits {
				w.stats["converse_des_rejected"]++
			}
		case "reset":
			if ok {
				w.queue[b.sender] = nil
				for _, s := range w.signings {
					if s.status == tsstypes.SIGNING_STATUS_WAITING {
						w.resetPending = true
					}
				}
			}
		case "sig", "sigall":
			s := w.signings[b.sid]
			exp := b.expectOK
			why := b.why
			if s == nil || s.status != tsstypes.SIGNING_STATUS_WAITING {
				exp, why = false, "signing not waiting"
			}
			if b.known && exp && !ok && w.obs.c10 && !w.obs.c03 {
				w.fail(true, "C10/good-share-refused", "signing %d: the correct share of assigned member %s was refused (code=%d log=%q): the attempt cannot complete and the member will be penalised as idle", b.sid, b.member, tr.Code, tr.Log)
			}
			if b.known && ok != exp {
				w.fail(w.obs.c03, "C03/share-accept", "MsgSubmitSignature(signing %d, %s, variant %s) code=%d log=%q, reference expects accept=%v (%s)", b.sid, b.member, b.op.Variant, tr.Code, tr.Log, exp, why)
			}
			if ok && s != nil {
				s.attempts[s.attempt].submitted[b.member] = true
			}
		case "gov":
			if ok {
				w.proposals++
			}
		case "req", "oreq":
			if !ok {
				w.stats["req_rejected"]++
			}
			if b.op.K == "oreq" && ok {
				w.oracleCount++
				w.oracleReqs = append(w.oracleReqs, w.oracleCount)
			}
		}
		if b.op.K == "reqinternal" && ok {
			w.fail(w.obs.c11, "C11/internal-content-accepted", "MsgRequestSignature with module-internal content (%s) was accepted", b.op.Variant)
		}
		if ok {
			payer := ""
			curText = nil
			if b.op.K == "req" {
				payer = b.sender
				curText = b.text
			}
			handle(tr.Events, false, payer, b.feeLimit)
			curText = nil
		}
		if b.op.K == "req" && !ok {
			// a rejected request must not have moved anything (checked by the balance comparison below)
			total := w.fee.MulInt(sdkInt(int64(w.c.T)))
			within := true
			for _, fc := range total {
				if fc.Amount.GT(b.feeLimit.AmountOf(fc.Denom)) {
					within = false
				}
			}
			if within && w.expected[b.sender].IsAllGTE(total) {
				w.stats["req_rejected_other"]++
			}
			w.failedCreate = true
			// why it was refused: a creation can never fail on a missing nonce of a selected member (only members with a
			// queued nonce are eligible), and "too few signers" is an error only when fewer than threshold members are eligible
			eligible := 0
			for _, m := range w.grp.Members {
				if w.tssActive[m.Addr] && len(w.queue[m.Addr]) > 0 {
					eligible++
				}
			}
			if tr.Codespace == tsstypes.ModuleName && tr.Code == tsstypes.ErrDENotFound.ABCICode() {
				w.fail(w.obs.c05 || w.obs.c09, "C05/nonce-less-member-selected", "signing request refused with %q: a member without a queued nonce was put on the committee (%d eligible members, threshold %d)", tr.Log, eligible, w.c.T)
			}
			if tr.Codespace == tsstypes.ModuleName && tr.Code == tsstypes.ErrInsufficientSigners.ABCICode() {
				if eligible >= w.c.T {
					w.fail(w.obs.c09, "C09/error-with-enough-eligible", "signing request refused with %q although %d members are active with a queued nonce (threshold %d)", tr.Log, eligible, w.c.T)
				} else {
					w.tooFewSeen = true
				}
			}
		}
	}

	// governance's end blocker runs before every other module's: parameters changed by a proposal that
	// passed in this block already apply to this block's end-block work and to everything after it
	w.refreshParams()
	// expectations for the end block (before looking at its events)
	type exp struct {
		success, timeout bool
		idle             []string
	}
	expect := map[uint64]*exp{}
	for id, s := range w.signings {
		if s.status != tsstypes.SIGNING_STATUS_WAITING {
			continue
		}
		cur := s.attempts[s.attempt]
		all := true
		var idle []string
		for _, a := range cur.assigned {
			if !cur.submitted[a] {
				all = false
				idle = append(idle, a)
			}
		}
		if all {
			expect[id] = &exp{success: true}
			if cur.expiry == h {
				s.sameBlock = true
			}
		} else if cur.expiry <= h {
			expect[id] = &exp{timeout: true, idle: idle}
		}
	}
	// members active in bandtss before the end block (for the penalty rule)
	activeBefore := map[string]bool{}
	for a, x := range w.tssActive {
		activeBefore[a] = x
	}
	deactivated = map[string]bool{}
	// the oracle end blocker may create signings for resolved requests: payer = requester (users[0])
	handle(res.Resp.Events, true, w.users[0].Addr.String(), nil)

	wantDeact := map[string]bool{}
	for id, e := range expect {
		s := w.signings[id]
		if e.success {
			if !succeededInEnd[id] {
				w.fail(w.obs.c10, "C10/no-success", "signing %d: all assignees of attempt %d submitted by height %d but no success", id, s.attempt, h)
			}
			s.status = tsstypes.SIGNING_STATUS_SUCCESS
			if s.retries > 0 {
				w.successRetry = true
			}
			if s.paid {
				cur := s.attempts[s.attempt]
				for _, a := range cur.assigned {
					w.move(w.moduleAddr(), a, s.fee)
					w.escrow = w.escrow.Sub(s.fee...)
				}
				if s.retries > 0 {
					w.payoutRetry = true
				}
			}
			continue
		}
		failedNow := false
		for _, f := range endFailed {
			if f == id {
				failedNow = true
			}
		}
		if w.periodChanged && !failedNow && !retriedInEnd[id] {
			// after a change of the signing period the time-out may come later than the attempt's own expiry (the statement
			// requires "exactly then" only while the parameter is unchanged); termination is still checked at the end
			w.lateTimeouts++
			continue
		}
		s.timeouts++
		for _, a := range e.idle {
			if activeBefore[a] {
				wantDeact[a] = true
			}
		}
		switch {
		case failedNow && retriedInEnd[id]:
			w.fail(w.obs.c10, "C10/retry-and-fail", "signing %d both retried and failed at height %d", id, h)
		case failedNow:
			s.status = tsstypes.SIGNING_STATUS_FALLEN
		case retriedInEnd[id]:
		default:
			w.fail(w.obs.c10, "C10/timeout-missed", "signing %d attempt %d expired at height %d (now %d) with idle members %v but was neither retried nor failed", id, s.attempt, s.attempts[s.attempt].expiry, h, e.idle)
		}
	}
	for id := range succeededInEnd {
		if e := expect[id]; e == nil || !e.success {
			w.fail(w.obs.c10, "C10/unexpected-success", "signing %d reported success at height %d without all assignees having submitted", id, h)
		}
	}
	for _, id := range endFailed {
		if e := expect[id]; e == nil || !e.timeout {
			w.fail(w.obs.c10, "C10/unexpected-failure", "signing %d failed at height %d without a due time-out", id, h)
		}
	}
	for id := range retriedInEnd {
		if e := expect[id]; e == nil || !e.timeout {
			w.fail(w.obs.c10, "C10/unexpected-retry", "signing %d retried at height %d without a due time-out", id, h)
		}
	}
	// penalty: exactly the idle, previously active assignees are deactivated, nobody else
	for a := range wantDeact {
		if !deactivated[a] {
			w.fail(w.obs.c10, "C10/idle-not-penalised", "member %s was idle in a timed-out attempt at height %d but stays active", a, h)
		}
	}
	for a := range deactivated {
		if !wantDeact[a] {
			w.fail(w.obs.c10, "C10/wrongly-penalised", "member %s deactivated at height %d without being idle in a timed-out attempt", a, h)
		}
	}
	if w.v.Violation != "" {
		return false
	}
	w.compareState(h)
	return w.v.Violation == ""
}

func (w *tssWorld) compareState(h int64) {
	ctx := w.ch.Ctx()
	k := w.ch.App.TSSKeeper
	// C05: on-chain queues only contain registered, unassigned, not-reset pairs in registration order
	for _, m := range w.grp.Members {
		acc := sdk.MustAccAddressFromBech32(m.Addr)
		q := k.GetDEQueue(ctx, acc)
		var chain []string
		for i := q.Head; i < q.Tail; i++ {
			de, err := k.GetDE(ctx, acc, i)
			if err != nil {
				w.fail(w.obs.c05, "C05/queue-hole", "queue of %s has no entry at index %d (head %d tail %d)", m.Addr, i, q.Head, q.Tail)
				continue
			}
			chain = append(chain, tssworld.DEKey(de))
		}
		// (a queue may legitimately be longer than a maximum that governance lowered afterwards; the bound is
		// enforced per submission above)
		model := w.queue[m.Addr]
		j := 0
		for _, ck := range chain {
			if w.assigned[ck] {
				w.fail(w.obs.c05, "C05/assigned-still-queued", "queue of %s still contains a pair that was already assigned", m.Addr)
			}
			for j < len(model) && model[j] != ck {
				j++
			}
			if j == len(model) {
				w.fail(w.obs.c05, "C05/queue-mismatch", "queue of %s contains a pair that is not queued in the model (reset, reordered or resurrected)", m.Addr)
				break
			}
			j++
		}
		if len(chain) < len(model) {
			w.stats["lost_unassigned"] += int64(len(model) - len(chain))
			w.queue[m.Addr] = chain
		}
		// tss member activity mirrors the events
		mem, err := k.GetMemberByAddress(ctx, w.grp.ID, m.Addr)
		if err == nil && mem.IsActive != w.tssActive[m.Addr] {
			w.fail(w.obs.c10, "C10/activity-mismatch", "member %s active=%v on chain, model %v", m.Addr, mem.IsActive, w.tssActive[m.Addr])
		}
	}
	// C10: status / attempt / interim data ; C03: published signature
	if got := k.GetSigningCount(ctx); got != w.sigCount {
		w.fail(w.obs.c10, "C10/signing-count", "signing count %d, model %d", got, w.sigCount)
	}
	for id, s := range w.signings {
		sg, err := k.GetSigning(ctx, tss.SigningID(id))
		if err != nil {
			w.fail(w.obs.c10, "C10/missing", "signing %d missing: %v", id, err)
			continue
		}
		if sg.Status != s.status || sg.CurrentAttempt != s.attempt {
			w.fail(w.obs.c10, "C10/status-mismatch", "signing %d chain status=%v attempt=%d, model status=%v attempt=%d (height %d)", id, sg.Status, sg.CurrentAttempt, s.status, s.attempt, h)
		}
		for an, att := range s.attempts {
			// after a change of the signing period expirations are handled in queue order, possibly later than an attempt's
			// own expiry: interim data is then only required to be gone once the history has run out (w.draining)
			if att.expiry <= h && (!w.periodChanged || w.draining) {
				if _, err := k.GetSigningAttempt(ctx, tss.SigningID(id), an); err == nil {
					w.fail(w.obs.c10, "C10/interim-left", "signing %d attempt %d (expiry %d) still has its SigningAttempt at height %d", id, an, att.expiry, h)
				}
				if n := k.GetPartialSignatureCount(ctx, tss.SigningID(id), an); n != 0 || len(k.GetPartialSignatures(ctx, tss.SigningID(id), an)) != 0 {
					w.fail(w.obs.c10, "C10/interim-left", "signing %d attempt %d still has partial signature data at height %d", id, an, h)
				}
			}
		}
		if s.status != tsstypes.SIGNING_STATUS_WAITING {
			if s.success+s.failed != 1 {
				w.fail(w.obs.c10, "C10/outcome-events", "signing %d finished with %d success and %d failed events", id, s.success, s.failed)
			}
			if mp := w.ch.App.BandtssKeeper.GetSigningIDMapping(ctx, tss.SigningID(id)); mp != 0 {
				w.fail(w.obs.c10, "C10/owner-not-notified", "signing %d finished but the owner's mapping is still present", id)
			}
		}
		if !w.oracleSeen[id] {
			w.oracleSeen[id] = true
			if p0, e0 := ref.ParseSigningMessage(sg.Message); e0 == nil {
				if r0, k0, body, e1 := ref.SplitContent(p0.Content); e1 == nil && r0 == ref.RouteOracle && k0 == ref.KindProto {
					if dec, e2 := ref.DecodeOracleProto(body); e2 == nil {
						w.oracleSigned[dec.RequestID]++
						if w.oracleSigned[dec.RequestID] > 1 {
							w.fail(w.obs.c13 || w.obs.c11 || w.obs.c10, "C13/oracle-request-signed-twice", "signing %d is the %d. signing created (and charged) for the result of oracle request %d", id, w.oracleSigned[dec.RequestID], dec.RequestID)
						}
					}
				}
			}
		}
		if want, okw := w.sigWant[id]; okw && w.obs.c11 {
			delete(w.sigWant, id)
			w.checkSignedMessage(id, sg, want)
		}
		if s.status == tsstypes.SIGNING_STATUS_SUCCESS && w.obs.c03 {
			if err := refVerifyGroupSig(w.grp.PubKey, sg.Message, sg.Signature); err != nil {
				w.fail(true, "C03/published-invalid", "signing %d published signature does not verify under the group key: %v", id, err)
			}
		}
	}
	// C13: balances follow the fee model exactly
	if w.obs.c13 {
		for _, a := range w.tracked() {
			got := w.ch.App.BankKeeper.GetAllBalances(ctx, a)
			if !got.Equal(w.expected[a.String()]) {
				w.fail(true, "C13/balance", "balance of %s is %s, fee model expects %s (height %d)", a, got, w.expected[a.String()], h)
			}
		}
		mod := w.ch.App.BankKeeper.GetAllBalances(ctx, sdk.MustAccAddressFromBech32(w.moduleAddr()))
		if !mod.IsAllGTE(w.escrow) {
			w.fail(true, "C13/escrow", "escrow %s below outstanding obligations %s", mod, w.escrow)
		}
	} else {
		w.snapshotBalances()
	}
}

func (w *tssWorld) finish() {
	v := w.v
	var timeouts, successes, fallen int
	for _, s := range w.signings {
		timeouts += s.timeouts
		if s.status == tsstypes.SIGNING_STATUS_SUCCESS {
			successes++
		}
		if s.status == tsstypes.SIGNING_STATUS_FALLEN {
			fallen++
		}
		if s.sameBlock {
			v.Class("aggregate-at-expiry-height")
		}
	}
	v.Count("signings", int64(len(w.signings)))
	v.Count("successes", int64(successes))
	v.Count("fallen", int64(fallen))
	v.Count("timeouts", int64(timeouts))
	v.Count("corrupt_tried", int64(w.corruptTried))
	for k, n := range w.stats {
		v.Count(k, n)
	}
	if w.tooFewSeen {
		v.Class("request-refused-too-few-eligible")
	}
	if w.internalGov > 0 {
		v.Class("internal-content-via-governance")
	}
	if w.periodChanged {
		v.Class("signing-period-changed")
	}
	if w.lateTimeouts > 0 {
		v.Class("time-out-later-than-own-expiry")
	}
	if w.idsSkipped {
		v.Class("signing-ids-jumped")
	}
	if w.c.N > 20 {
		v.Class("group-larger-than-20")
	}
	if w.c.MaxDE >= 256 {
		v.Class("nonce-queue-beyond-256")
	}
	if w.attemptAboveMax {
		v.Class("max-attempt-lowered-below-current-attempt")
	}
	if w.retryAfterTO {
		v.Class("retry-after-timeout")
	}
	if w.successRetry {
		v.Class("success-after-retry")
	}
	if w.failedCreate {
		v.Class("failed-creation")
	}
	if w.resetPending {
		v.Class("reset-while-pending")
	}
	if fallen > 0 {
		v.Class("fallen")
	}
	if w.payoutRetry {
		v.Class("payout-after-retry")
	}
	if w.boundaryReq {
		v.Class("fee-limit-boundary")
	}
	if w.paramChanges > 0 {
		v.Class("param-changed-by-governance")
	}
}

// refVerifyGroupSig is the independent verifier (math/big + decred group operations, written from the statement).
func refVerifyGroupSig(pub tss.Point, msg []byte, sig tss.Signature) error {
	return ref.TSSVerifyGroupSignature(pub, msg, sig)
}

// checkSignedMessage parses Signing.Message back (reference layout from the statement) and compares it with the
// request and the on-chain data it was made for.
func (w *tssWorld) checkSignedMessage(id uint64, sg tsstypes.Signing, want c11Want) {
	w.c11Checked++
	if prev, dup := w.msgSeen[string(sg.Message)]; dup {
		w.fail(true, "C11/shared-message", "signings %d and %d share the signed message %x", prev, id, sg.Message)
	}
	w.msgSeen[string(sg.Message)] = id
	ps, err := ref.ParseSigningMessage(sg.Message)
	if err != nil {
		w.fail(true, "C11/message-layout", "signing %d: %v", id, err)
		return
	}
	if r0, k0, _, e0 := ref.SplitContent(ps.Content); e0 == nil && (r0 == ref.RouteTunnel || r0 == ref.RouteBandtss) {
		// this world has no tunnel and no group transition: nothing but a user's (or a proposal's) MsgRequestSignature can have asked for it
		w.fail(true, "C11/internal-content-signed", "signing %d was created over module-internal content %s/%s although no module asked for it", id, r0, k0)
		return
	}
	orig := ref.EncodeDirectOriginator(w.ch.Cfg.ChainID, want.requester, "")
	if !bytes.Equal(ps.OriginatorHash, ref.EncKeccak256(orig)) {
		w.fail(true, "C11/originator", "signing %d: message is not bound to the direct originator (chain %q, requester %s, empty memo)", id, w.ch.Cfg.ChainID, want.requester)
	}
	if ps.Time != uint64(want.time) || ps.SigningID != id {
		w.fail(true, "C11/header", "signing %d: header carries time %d id %d, request was made at %d with id %d", id, ps.Time, ps.SigningID, want.time, id)
	}
	route, kind, body, err := ref.SplitContent(ps.Content)
	if err != nil {
		w.fail(true, "C11/content-tag", "signing %d: %v", id, err)
		return
	}
	if want.text != nil {
		if route != ref.RouteTSS || kind != ref.KindText || !bytes.Equal(body, want.text) {
			w.fail(true, "C11/text-content", "signing %d: content %s/%s %x, requested text %x", id, route, kind, body, want.text)
		}
		return
	}
	// oracle result content (proto encoder): must decode to the stored result of that request
	if route != ref.RouteOracle || kind != ref.KindProto {
		w.fail(true, "C11/oracle-content", "signing %d: oracle result content tagged %s/%s", id, route, kind)
		return
	}
	dec, err := ref.DecodeOracleProto(body)
	if err != nil {
		w.fail(true, "C11/oracle-content", "signing %d: %v", id, err)
		return
	}
	res, err := w.ch.App.OracleKeeper.GetResult(w.ch.Ctx(), oracletypes.RequestID(dec.RequestID))
	if err != nil {
		w.fail(true, "C11/oracle-content", "signing %d encodes a result of request %d that the chain does not have", id, dec.RequestID)
		return
	}
	onchain := ref.OracleResult{ClientID: res.ClientID, OracleScriptID: uint64(res.OracleScriptID), Calldata: res.Calldata, AskCount: res.AskCount, MinCount: res.MinCount,
		RequestID: uint64(res.RequestID), AnsCount: res.AnsCount, RequestTime: res.RequestTime, ResolveTime: res.ResolveTime, ResolveStatus: int32(res.ResolveStatus), Result: res.Result}
	if !dec.Equal(onchain) {
		w.fail(true, "C11/oracle-content", "signing %d: signed oracle result %+v differs from the stored result %+v", id, dec, onchain)
	}
	w.c11Oracle++
}

// refreshParams reads the governance-controlled parameters the model depends on (configuration, not behaviour).
func (w *tssWorld) refreshParams() {
	ctx := w.ch.Ctx()
	if m := w.ch.App.TSSKeeper.GetParams(ctx).MaxDESize; m != w.maxDE {
		w.maxDE = m
		w.paramChanges++
	}
	if m := w.ch.App.TSSKeeper.GetParams(ctx).SigningPeriod; m != w.period {
		w.period, w.periodChanged = m, true
		if m > w.maxPeriod {
			w.maxPeriod = m
		}
		w.paramChanges++
	}
	if m := w.ch.App.TSSKeeper.GetParams(ctx).MaxSigningAttempt; m != w.maxAttempt {
		for _, s := range w.signings {
			if s.status == tsstypes.SIGNING_STATUS_WAITING && s.attempt > m {
				w.attemptAboveMax = true
			}
		}
		w.maxAttempt = m
		w.paramChanges++
	}
	if f := w.ch.App.BandtssKeeper.GetParams(ctx).FeePerSigner; !f.Equal(w.fee) {
		w.fee = f
		w.paramChanges++
	}
}
