package props

// C08 — Tunnel packets: produced exactly when due, gap-free sequence, atomic fee.

import (
	"bytes"
	"encoding/hex"
	"fmt"
	"math/big"
	"sort"
	"strings"
	"testing"
	"time"

	abci "github.com/cometbft/cometbft/abci/types"
	"pgregory.net/rapid"

	sdk "github.com/cosmos/cosmos-sdk/types"
	banktypes "github.com/cosmos/cosmos-sdk/x/bank/types"
	govv1 "github.com/cosmos/cosmos-sdk/x/gov/types/v1"

	"github.com/bandprotocol/chain/v3/pkg/tss"

	bandtsstypes "github.com/bandprotocol/chain/v3/x/bandtss/types"
	feedstypes "github.com/bandprotocol/chain/v3/x/feeds/types"
	oracletypes "github.com/bandprotocol/chain/v3/x/oracle/types"
	tsstypes "github.com/bandprotocol/chain/v3/x/tss/types"
	tunneltypes "github.com/bandprotocol/chain/v3/x/tunnel/types"

	"verif/harness/gen"
	"verif/harness/pbt"
	"verif/harness/ref"
	"verif/harness/sim"
	"verif/harness/tssworld"
)

var c08Signals = []string{"S1", "S2", "S3", "S4", "SX"} // SX is never a current feed

type c08Sig struct {
	ID   int    `json:"id"` // index into c08Signals
	Soft uint64 `json:"soft"`
	Hard uint64 `json:"hard"`
}

type c08Op struct {
	K        string   `json:"k"` // create|fund|price|trigger|activate|deactivate|desall|drain|end|transition|deposit|withdraw
	Route    string   `json:"route,omitempty"`
	Enc      string   `json:"enc,omitempty"` // tss route: "tick" | "fixed" | "" (every second tunnel signs tick-encoded packets)
	Signals  []c08Sig `json:"signals,omitempty"`
	Interval uint64   `json:"interval,omitempty"`
	T        int      `json:"t,omitempty"` // tunnel ref (mod count; negative: the newest tunnel)
	Fund     string   `json:"fund,omitempty"`
	N        int      `json:"n,omitempty"`
	Sig      int      `json:"sig,omitempty"`
	PKind    string   `json:"pkind,omitempty"`
	PVal     uint64   `json:"pval,omitempty"`
	By       int      `json:"by,omitempty"`
}

// c08G2 is a second ACTIVE tss group present at genesis: the target of a governance MsgForceTransitionGroup (op
// "transition"; N = seconds between the end of the voting period and the execution time). While that transition waits
// for its execution time every signing request is made to the current AND to the incoming group.
type c08G2 struct {
	Members string `json:"members"` // same | overlap | disjoint : accounts shared with the first group
	Thr     int    `json:"thr"`
}

type c08Case struct {
	G2        *c08G2  `json:"g2,omitempty"`
	HasGroup  bool    `json:"has_group"`
	InitDE    int     `json:"init_de"`
	FeeSigner int64   `json:"fee_per_signer"`
	BaseFee   []int64 `json:"base_fee"` // [uband, uatom]
	Period    uint64  `json:"signing_period"`
	Ops       []c08Op `json:"ops"`
}

func genC08(rt *rapid.T) c08Case {
	c := c08Case{HasGroup: gen.Chance(rt, "group", 9, 10), InitDE: gen.OneOf(rt, "initde", 0, 1, 2, 4, 8, 12, 12),
		FeeSigner: int64(gen.OneOf(rt, "feesigner", 0, 5, 5, 11)), BaseFee: gen.OneOf(rt, "basefee", []int64{0, 0}, []int64{3, 0}, []int64{3, 0}, []int64{2, 1}),
		Period: uint64(gen.OneOf(rt, "period", 3, 50, 200, 200))}
	nops := rapid.IntRange(12, 50).Draw(rt, "nops")
	genSignals := func() []c08Sig {
		k := gen.Range(rt, "nsig", 1, 3)
		perm := []int{0, 1, 2, 3, 4}
		start := gen.Uniform(rt, "sigstart", 5)
		var out []c08Sig
		for i := 0; i < k; i++ {
			soft := uint64(gen.OneOf(rt, "soft", 10, 50, 100, 500))
			hard := soft * uint64(gen.OneOf(rt, "hardmul", 1, 2, 5))
			out = append(out, c08Sig{ID: perm[(start+i)%5], Soft: soft, Hard: hard})
		}
		return out
	}
	addCreate := func() {
		c.Ops = append(c.Ops, c08Op{K: "create", Route: gen.OneOf(rt, "route", "tss", "tss", "tss", "tss", "tss", "ibc"), Signals: genSignals(),
			Interval: uint64(gen.OneOf(rt, "interval", 3, 10, 30, 100, 1000)), Fund: gen.OneOf(rt, "fund0", "many", "many", "k", "k-1", "none")})
	}
	// a forced group transition: the proposal is submitted and voted on in one block, passes two seconds later and then
	// waits N more seconds for its execution time. Usually a tick-encoding TSS tunnel is opened right inside that window.
	transAt := -1
	if gen.Chance(rt, "g2", 7, 10) {
		c.G2 = &c08G2{Members: gen.OneOf(rt, "g2members", "same", "overlap", "overlap", "disjoint"), Thr: gen.OneOf(rt, "g2thr", 1, 2, 2, 3)}
		transAt = gen.Range(rt, "trans_at", 0, nops/3)
	}
	addTransition := func() {
		if gen.Chance(rt, "trans_des", 3, 4) {
			c.Ops = append(c.Ops, c08Op{K: "desall", N: gen.OneOf(rt, "nde", 1, 2, 4)})
		}
		c.Ops = append(c.Ops, c08Op{K: "transition", N: gen.OneOf(rt, "trans_wait", 1, 3, 3, 5, 8, 8, 15, 40)},
			c08Op{K: "end", N: 1}, c08Op{K: "end", N: gen.OneOf(rt, "trans_pass", 2, 2, 2, 3)})
		if gen.Chance(rt, "trans_tick", 5, 6) {
			c.Ops = append(c.Ops, c08Op{K: "create", Route: "tss", Enc: gen.OneOf(rt, "enc", "tick", "tick", "tick", "fixed"), Signals: genSignals(),
				Interval: uint64(gen.OneOf(rt, "interval", 3, 3, 10, 30)), Fund: "many"}, c08Op{K: "end", N: 1})
		}
	}
	// a withdrawal that takes the total deposit of an ACTIVE, funded tunnel below the minimum deposit (10uband), followed by
	// enough time for its interval to elapse: the tunnel is deactivated by the withdrawal and must stay silent. Deposits of
	// a second account make the crossing withdrawal a partial one / one by somebody who is not the creator.
	wdAt := -1
	if gen.Chance(rt, "wd", 4, 10) {
		wdAt = gen.Range(rt, "wd_at", 0, nops-1)
	}
	addWithdrawal := func() {
		iv := gen.OneOf(rt, "wd_interval", 3, 3, 10, 30)
		c.Ops = append(c.Ops, c08Op{K: "create", Route: gen.OneOf(rt, "wd_route", "tss", "tss", "tss", "ibc"), Signals: genSignals(), Interval: uint64(iv), Fund: "many"},
			c08Op{K: "end", N: 1})
		by := 0
		if gen.Chance(rt, "wd_second", 1, 2) {
			c.Ops = append(c.Ops, c08Op{K: "deposit", T: -1, By: 1, N: gen.OneOf(rt, "wd_dep", 1, 5, 9, 10, 25)})
			if gen.Chance(rt, "wd_end", 1, 2) {
				c.Ops = append(c.Ops, c08Op{K: "end", N: 1})
			}
			by = gen.OneOf(rt, "wd_by", 0, 0, 1)
		}
		c.Ops = append(c.Ops, c08Op{K: "withdraw", T: -1, By: by, Fund: gen.OneOf(rt, "wd_kind", "cross", "cross", "cross", "all", "to-min")})
		if gen.Chance(rt, "wd_trigger", 1, 4) {
			c.Ops = append(c.Ops, c08Op{K: "trigger", T: -1})
		}
		c.Ops = append(c.Ops, c08Op{K: "end", N: 1}, c08Op{K: "end", N: gen.OneOf(rt, "wd_wait", iv-1, iv, iv, 30)}, c08Op{K: "end", N: gen.OneOf(rt, "wd_wait2", 1, 5, 30)})
	}
	addCreate()
	for i := 0; i < nops; i++ {
		if i == transAt {
			addTransition()
		}
		if i == wdAt {
			addWithdrawal()
		}
		switch gen.Pick(rt, "op", 5, 8, 34, 5, 4, 3, 7, 2, 32, 1, 2, 3) {
		case 0:
			addCreate()
		case 1:
			c.Ops = append(c.Ops, c08Op{K: "fund", T: gen.Uniform(rt, "t", 4), Fund: gen.OneOf(rt, "fund", "many", "k", "k-1", "k+1", "one")})
		case 2:
			c.Ops = append(c.Ops, c08Op{K: "price", Sig: gen.Uniform(rt, "sig", 4), T: gen.Uniform(rt, "t", 4),
				PKind: gen.OneOf(rt, "pkind", "hard", "hard-1", "hard+1", "soft", "soft-1", "down-hard", "down-hard+1", "same", "random", "zero", "unsupported", "unavailable", "big"),
				PVal:  rapid.Uint64Range(1, 1_000_000_000_000).Draw(rt, "pval")})
		case 3:
			c.Ops = append(c.Ops, c08Op{K: "trigger", T: gen.Uniform(rt, "t", 4), By: gen.OneOf(rt, "by", 0, 0, 0, 1)})
		case 4:
			c.Ops = append(c.Ops, c08Op{K: "activate", T: gen.Uniform(rt, "t", 4)})
		case 5:
			c.Ops = append(c.Ops, c08Op{K: "deactivate", T: gen.Uniform(rt, "t", 4)})
		case 6:
			c.Ops = append(c.Ops, c08Op{K: "desall", N: gen.OneOf(rt, "nde", 1, 2, 4)})
		case 7:
			c.Ops = append(c.Ops, c08Op{K: "drain", T: gen.Uniform(rt, "m", 6)})
		case 8:
			c.Ops = append(c.Ops, c08Op{K: "end", N: gen.OneOf(rt, "dt", 0, 1, 1, 1, 2, 2, 5, 30)})
		case 9: // a (second) transition proposal at an arbitrary point: refused while one is in progress, late ones may miss their window
			c.Ops = append(c.Ops, c08Op{K: "transition", N: gen.OneOf(rt, "trans_wait2", 1, 3, 8, 40)})
		case 10:
			c.Ops = append(c.Ops, c08Op{K: "deposit", T: gen.Uniform(rt, "t", 4), By: gen.OneOf(rt, "dby", 0, 1, 1), N: gen.OneOf(rt, "dep", 1, 5, 9, 10, 25)})
		case 11:
			c.Ops = append(c.Ops, c08Op{K: "withdraw", T: gen.Uniform(rt, "t", 4), By: gen.OneOf(rt, "wby", 0, 0, 1), Fund: gen.OneOf(rt, "wkind", "cross", "cross", "all", "to-min", "one")})
		}
	}
	return c
}

// ---- reference ------------------------------------------------------------------------------------------

type c08Tunnel struct {
	id                        uint64
	route                     string
	signals                   []c08Sig
	interval                  int64
	creator                   string
	feePayer                  string
	active                    bool
	seq                       uint64
	latest                    map[string]feedstypes.Price
	order                     []string // order of latest prices list
	lastIntvl                 int64
	devPacket, intervalPacket bool
	tick                      bool             // ENCODER_TICK_ABI
	lastBase, lastRoute       sdk.Coins        // fees of the latest packet (the route fee follows the current group's threshold)
	lastWindow                bool             // the latest packet was produced while a group transition waited for execution
	lastNSig                  int              // signings (request_signature events) created for the latest packet
	classedSeq                uint64           // latest packet whose signings have been counted for the class histogram
	dep                       map[string]int64 // uband deposited per depositor
	totalDep                  int64
	byWithdraw                bool // inactive because a withdrawal took the total deposit below the minimum
}

const c08MinDeposit = 10 // uband

// c08Prop is a governance proposal carrying MsgForceTransitionGroup(second group, execTime).
type c08Prop struct {
	pid       uint64
	votingEnd time.Time
	execTime  time.Time
	state     string // voting | waiting | executed | rejected
}

// refDeviationBPS: |new-old|*10000/old ; 0 when equal ; "infinite" when old == 0 and new != 0.
func refDeviation(old, cur uint64) (*big.Int, bool) {
	if old == cur {
		return big.NewInt(0), false
	}
	if old == 0 {
		return nil, true
	}
	d := new(big.Int).Sub(new(big.Int).SetUint64(cur), new(big.Int).SetUint64(old))
	d.Abs(d).Mul(d, big.NewInt(10000)).Quo(d, new(big.Int).SetUint64(old))
	return d, false
}

func refGE(dev *big.Int, inf bool, thr uint64) bool {
	return inf || dev.Cmp(new(big.Int).SetUint64(thr)) >= 0
}

type c08World struct {
	c       c08Case
	v       *pbt.Verdict
	ch      *sim.Chain
	grp     *tssworld.Group // group 1
	grp2    *tssworld.Group // group 2 (nil without c.G2)
	cur     *tssworld.Group // bandtss current group (nil: none)
	inc     *tssworld.Group // incoming group of a transition in WAITING_EXECUTION (nil: none)
	props   []*c08Prop
	nextPID uint64
	wallet  *tssworld.Wallet
	members []*sim.Account // every account that is a member of some group
	creator *sim.Account
	other   *sim.Account
	funder  *sim.Account
	tunnels []*c08Tunnel
	// running models
	queueLen                        map[string]int
	tssActive                       map[string]bool
	bal                             map[string]sdk.Coins // fee payers, tunnel module, bandtss module
	prices                          map[string]feedstypes.Price
	baseFee                         sdk.Coins
	totalBase                       sdk.Coins
	failedSend, deactivatedUnfunded int
	notDue                          int
	signedPackets                   int // packets whose signed bytes were decoded and compared with the stored packet
	signedNonAvailable              int // ... price entries of those packets that were not AVAILABLE (delisted / not ready)
	windowBlocks                    int // blocks whose tunnel end blocker ran while a transition waited for execution
	twoGroupPackets, twoGroupTick   int // packets signed by the current AND the incoming group (... with the tick encoder)
	incomingOnlyPackets             int // packets signed by the incoming group alone (no current group)
	transExecuted, transRejected    int
	packetsAfterTransition          int // TSS packets signed (and paid for at its threshold) by the second group as current group
	twoSigningsOneFee               int // packets for which two signings were created and a non-zero route fee was charged (once)
	tickValuesChecked               int
	withdrawDeactivated             int // withdrawals that took an ACTIVE tunnel below the minimum deposit
	withdrawKeptActive              int // withdrawals from an active tunnel that left at least the minimum
	dueAfterWithdrawDeactivation    int // end blocks at which such a deactivated (still funded) tunnel would have been due
}

func c08ActiveKey(gid tss.GroupID, addr string) string { return fmt.Sprintf("%d/%s", gid, addr) }

// routeFee: fee_per_signer times the threshold of the CURRENT group; nothing is charged while there is no current group
// (then only an incoming group can sign).
func (w *c08World) routeFee() sdk.Coins {
	if w.cur == nil || w.c.FeeSigner == 0 {
		return sdk.NewCoins()
	}
	return sdk.NewCoins(sdk.NewInt64Coin("uband", w.c.FeeSigner*int64(w.cur.Threshold)))
}

func (w *c08World) feeOf(t *c08Tunnel) (base, route sdk.Coins) {
	base = w.baseFee
	route = sdk.NewCoins()
	if t.route == "tss" {
		route = w.routeFee()
	}
	return
}

// available: members of g that are active in g and have a nonce pair queued (the queue belongs to the account, the
// active flag to the membership).
func (w *c08World) available(g *tssworld.Group) int {
	n := 0
	for _, m := range g.Members {
		if w.tssActive[c08ActiveKey(g.ID, m.Addr)] && w.queueLen[m.Addr] > 0 {
			n++
		}
	}
	return n
}

func (w *c08World) sendShouldSucceed(t *c08Tunnel) (bool, string) {
	if t.route == "ibc" {
		return false, "ibc channel never set"
	}
	if w.cur == nil {
		// without a current group the request stands or falls with the incoming group of a waiting transition
		if w.inc == nil {
			return false, "no signing group"
		}
		if w.available(w.inc) < int(w.inc.Threshold) {
			return false, fmt.Sprintf("no current group and only %d available members for threshold %d of the incoming group", w.available(w.inc), w.inc.Threshold)
		}
		return true, ""
	}
	// the signing of the incoming group is optional: its failure never fails the request
	if w.available(w.cur) < int(w.cur.Threshold) {
		return false, fmt.Sprintf("only %d available members for threshold %d", w.available(w.cur), w.cur.Threshold)
	}
	return true, ""
}

// stepTransition advances governance and the bandtss end blocker to block time now (both run before the tunnel end
// blocker): proposals whose voting period ended are executed in order; a transition whose time has come is executed.
func (w *c08World) stepTransition(now time.Time) {
	sort.SliceStable(w.props, func(i, j int) bool {
		if !w.props[i].votingEnd.Equal(w.props[j].votingEnd) {
			return w.props[i].votingEnd.Before(w.props[j].votingEnd)
		}
		return w.props[i].pid < w.props[j].pid
	})
	inProgress := func() bool {
		for _, p := range w.props {
			if p.state == "waiting" {
				return true
			}
		}
		return false
	}
	for _, p := range w.props {
		if p.state != "voting" || now.Before(p.votingEnd) {
			continue
		}
		switch {
		case p.execTime.Before(now.Add(c08MinTransition)) || p.execTime.After(now.Add(c08MaxTransition)):
			p.state = "rejected"
		case inProgress():
			p.state = "rejected"
		case w.cur == w.grp2:
			p.state = "rejected"
		default:
			p.state = "waiting"
			w.inc = w.grp2
		}
		if p.state == "rejected" {
			w.transRejected++
		}
	}
	for _, p := range w.props {
		if p.state == "waiting" && !p.execTime.After(now) {
			p.state = "executed"
			w.cur, w.inc = w.grp2, nil
			w.transExecuted++
		}
	}
}

const (
	c08GovVoting     = 2 * time.Second
	c08MinTransition = time.Second
	c08MaxTransition = time.Hour
)

// due computes the reference trigger rule for tunnel t at time now against the feeds price store.
func (w *c08World) due(t *c08Tunnel, now int64) (send bool, sendAll bool, newPrices []feedstypes.Price) {
	sendAll = now >= t.interval+t.lastIntvl
	for _, s := range t.signals {
		id := c08Signals[s.ID]
		var old uint64
		if lp, ok := t.latest[id]; ok {
			old = lp.Price
		}
		fp, ok := w.prices[id]
		if !ok {
			fp = feedstypes.Price{Status: feedstypes.PRICE_STATUS_NOT_IN_CURRENT_FEEDS, SignalID: id, Price: 0, Timestamp: now}
		}
		dev, inf := refDeviation(old, fp.Price)
		if sendAll || refGE(dev, inf, s.Hard) {
			newPrices = append(newPrices, fp)
			send = true
		} else if refGE(dev, inf, s.Soft) {
			newPrices = append(newPrices, fp)
		}
	}
	if !send {
		newPrices = nil
	}
	return
}

func (w *c08World) applyPacket(t *c08Tunnel, prices []feedstypes.Price, now int64, setInterval bool) {
	t.seq++
	for _, p := range prices {
		if _, ok := t.latest[p.SignalID]; !ok {
			t.order = append(t.order, p.SignalID)
		}
		t.latest[p.SignalID] = p
	}
	if setInterval {
		t.lastIntvl = now
	}
	base, route := w.feeOf(t)
	t.lastBase, t.lastRoute = base, route
	t.lastWindow = w.inc != nil
	if w.cur != nil && w.cur == w.grp2 && t.route == "tss" {
		w.packetsAfterTransition++
	}
	tm := w.ch.App.AccountKeeper.GetModuleAddress(tunneltypes.ModuleName).String()
	bm := w.ch.App.AccountKeeper.GetModuleAddress(bandtsstypes.ModuleName).String()
	w.bal[t.feePayer] = w.bal[t.feePayer].Sub(base...).Sub(route...)
	w.bal[tm] = w.bal[tm].Add(base...)
	w.bal[bm] = w.bal[bm].Add(route...)
	w.totalBase = w.totalBase.Add(base...)
}

func c08Coins(f []int64) sdk.Coins { return coinsOf(f) }

func runC08(c c08Case) *pbt.Verdict {
	v := &pbt.Verdict{}
	w := &c08World{c: c, v: v, queueLen: map[string]int{}, tssActive: map[string]bool{}, bal: map[string]sdk.Coins{}, prices: map[string]feedstypes.Price{}}
	w.baseFee = c08Coins(c.BaseFee)
	w.totalBase = sdk.NewCoins()
	cfg := sim.Config{NumAccounts: 9, MintOff: true, GovVoting: c08GovVoting,
		Balance:    sdk.NewCoins(sdk.NewInt64Coin("uband", 1_000_000_000_000), sdk.NewInt64Coin("uatom", 1_000_000_000)),
		Validators: []sim.ValSpec{{Tokens: 10_000_000}},
	}
	tp := tsstypes.DefaultParams()
	tp.SigningPeriod, tp.MaxSigningAttempt, tp.MaxDESize = c.Period, 2, 20
	cfg.TSS = &tp
	bp := bandtsstypes.DefaultParams()
	bp.FeePerSigner = sdk.NewCoins()
	bp.MinTransitionDuration, bp.MaxTransitionDuration = c08MinTransition, c08MaxTransition
	if c.FeeSigner > 0 {
		bp.FeePerSigner = sdk.NewCoins(sdk.NewInt64Coin("uband", c.FeeSigner))
	}
	cfg.Bandtss = &bp
	fp := feedstypes.DefaultParams()
	fp.CooldownTime, fp.MinInterval, fp.MaxInterval, fp.GracePeriod = 1, 60, 3600, 1_000_000
	fp.CurrentFeedsUpdateInterval = 1_000_000
	fp.PowerStepThreshold = 1000
	cfg.Feeds = &fp
	tnp := tunneltypes.DefaultParams()
	tnp.MinDeposit = sdk.NewCoins(sdk.NewInt64Coin("uband", 10))
	tnp.MinInterval, tnp.MaxInterval, tnp.MinDeviationBPS, tnp.MaxDeviationBPS, tnp.MaxSignals = 1, 3600, 1, 10000, 5
	tnp.BasePacketFee = w.baseFee
	cfg.Tunnel = &tnp
	var addrs []string
	for i := 0; i < 3; i++ {
		addrs = append(addrs, sim.NewAccount(fmt.Sprintf("user%d", i)).Addr.String())
	}
	w.grp = tssworld.NewGroup(1, 2, addrs, "c08")
	w.wallet = tssworld.NewWallet()
	groups := []*tssworld.Group{w.grp}
	memberIdx := []int{0, 1, 2} // ch.Users indices of all group members
	if c.G2 != nil {
		idx2 := []int{0, 1, 2}
		switch c.G2.Members {
		case "overlap":
			idx2 = []int{1, 2, 6}
		case "disjoint":
			idx2 = []int{6, 7, 8}
		}
		var addrs2 []string
		for _, i := range idx2 {
			addrs2 = append(addrs2, sim.NewAccount(fmt.Sprintf("user%d", i)).Addr.String())
			if i > 2 {
				memberIdx = append(memberIdx, i)
			}
		}
		thr2 := c.G2.Thr
		if thr2 < 1 || thr2 > 3 {
			thr2 = 2
		}
		w.grp2 = tssworld.NewGroup(2, uint64(thr2), addrs2, "c08b")
		groups = append(groups, w.grp2)
	}
	cur := 0
	if !c.HasGroup {
		cur = -1
	} else {
		w.cur = w.grp
	}
	tssworld.GenesisFor(&cfg, groups, cur, w.wallet, c.InitDE)
	for _, g := range groups {
		for _, m := range g.Members {
			w.queueLen[m.Addr] = c.InitDE
			w.tssActive[c08ActiveKey(g.ID, m.Addr)] = true
		}
	}
	w.nextPID = 1
	voter := sim.NewAccount("user5").Addr.String()
	var sigs []feedstypes.Signal
	for i := 0; i < 4; i++ {
		sigs = append(sigs, feedstypes.Signal{ID: c08Signals[i], Power: 60_000})
	}
	cfg.FeedsVotes = []feedstypes.Vote{{Voter: voter, Signals: sigs}}
	ch, err := sim.New(cfg, 0)
	if err != nil {
		v.Failf("harness", "sim.New: %v", err)
		return v
	}
	defer ch.Close()
	w.ch = ch
	w.creator, w.other, w.funder = ch.Users[3], ch.Users[4], ch.Users[5]
	for _, i := range memberIdx {
		w.members = append(w.members, ch.Users[i])
	}
	val := ch.Vals[0]
	if _, err := ch.Block([][]byte{ch.SignTx(val, oracletypes.NewMsgActivate(val.Val))}, time.Second); err != nil {
		v.Failf("harness", "activate: %v", err)
		return v
	}
	if got := ch.App.FeedsKeeper.GetCurrentFeeds(ch.Ctx()); len(got.Feeds) != 4 {
		v.Failf("harness", "expected 4 current feeds, got %d", len(got.Feeds))
		return v
	}
	tm := ch.App.AccountKeeper.GetModuleAddress(tunneltypes.ModuleName).String()
	bm := ch.App.AccountKeeper.GetModuleAddress(bandtsstypes.ModuleName).String()
	w.bal[tm] = ch.App.BankKeeper.GetAllBalances(ch.Ctx(), sdk.MustAccAddressFromBech32(tm))
	w.bal[bm] = ch.App.BankKeeper.GetAllBalances(ch.Ctx(), sdk.MustAccAddressFromBech32(bm))
	deposits := sdk.NewCoins()

	type btx struct {
		op     c08Op
		bz     []byte
		tunnel *c08Tunnel
		des    int
		sender string
		amount sdk.Coins
		newT   *c08Tunnel
		mk     func(T time.Time) []byte // signed when the block is assembled (validator-signed txs: after the price tx)
		prop   *c08Prop
	}
	var block []btx
	valPrices := map[string]feedstypes.SignalPrice{} // pending submission for this block
	tunnelCount := uint64(0)                         // including creations queued in this block
	pick := func(i int) *c08Tunnel {
		if len(w.tunnels) == 0 {
			return nil
		}
		if i < 0 {
			return w.tunnels[len(w.tunnels)-1] // kept sorted by id: the newest
		}
		return w.tunnels[i%len(w.tunnels)]
	}

	// process one executed block
	observe := func(res *sim.BlockResult) bool {
		now := res.Time.Unix()
		applyEv := func(e abci.Event) {
			switch e.Type {
			case "inactive_status":
				w.tssActive[c08ActiveKey(tss.GroupID(parseU(sim.Attr(e, "group_id"))), sim.Attr(e, "address"))] = false
			case "activate":
				if a := sim.Attr(e, "address"); a != "" && sim.Attr(e, "group_id") != "" {
					w.tssActive[c08ActiveKey(tss.GroupID(parseU(sim.Attr(e, "group_id"))), a)] = true
				}
			case "request_signature":
				for _, a := range sim.Attrs(e, "address") {
					w.queueLen[a]--
				}
			}
		}
		for i, b := range block {
			tr := res.Resp.TxResults[i]
			ok := tr.Code == 0
			switch b.op.K {
			case "create":
				if !ok {
					v.Failf("harness", "create tunnel rejected: %s", tr.Log)
					return false
				}
				for _, e := range tr.Events {
					if e.Type == "create_tunnel" {
						b.newT.feePayer = sim.Attr(e, "fee_payer")
					}
				}
				w.bal[b.newT.feePayer] = sdk.NewCoins()
				w.tunnels = append(w.tunnels, b.newT)
				deposits = deposits.Add(sdk.NewInt64Coin("uband", 10))
				w.bal[tm] = w.bal[tm].Add(sdk.NewInt64Coin("uband", 10))
			case "activate":
				if ok {
					b.tunnel.active, b.tunnel.byWithdraw = true, false
				}
			case "deposit":
				if ok {
					n := int64(b.op.N)
					b.tunnel.dep[b.sender] += n
					b.tunnel.totalDep += n
					w.bal[tm] = w.bal[tm].Add(sdk.NewInt64Coin("uband", n))
				} else {
					v.Count("deposit_rejected", 1)
				}
			case "withdraw":
				if ok {
					t, n := b.tunnel, int64(b.op.N)
					t.dep[b.sender] -= n
					t.totalDep -= n
					w.bal[tm] = w.bal[tm].Sub(sdk.NewInt64Coin("uband", n))
					// a withdrawal that takes the total deposit below the minimum deactivates the tunnel
					if t.active {
						if t.totalDep < c08MinDeposit {
							t.active, t.byWithdraw = false, true
							w.withdrawDeactivated++
						} else {
							w.withdrawKeptActive++
						}
					}
				} else {
					v.Count("withdraw_rejected", 1)
				}
			case "deactivate":
				if ok {
					b.tunnel.active = false
				}
			case "fund":
				if ok {
					w.bal[b.tunnel.feePayer] = w.bal[b.tunnel.feePayer].Add(b.amount...)
				}
			case "desall":
				if ok {
					w.queueLen[b.sender] += b.des
				}
			case "drain":
				if ok {
					w.queueLen[b.sender] = 0
				}
			case "govprop":
				if !ok {
					v.Failf("harness", "proposal submission rejected: %s", tr.Log)
					return false
				}
				b.prop.state = "voting"
				w.props = append(w.props, b.prop)
			case "govvote":
				if !ok {
					v.Failf("harness", "vote rejected: %s", tr.Log)
					return false
				}
			case "trigger":
				t := b.tunnel
				base, route := w.feeOf(t)
				allowed := b.op.By == 0 && t.active && w.bal[t.feePayer].IsAllGTE(base.Add(route...))
				sendOK, why := w.sendShouldSucceed(t)
				exp := allowed && sendOK
				if ok != exp {
					v.Failf("C08/trigger", "manual trigger of tunnel %d code=%d log=%q; reference expects success=%v (creator=%v active=%v funded=%v send: %s)",
						t.id, tr.Code, tr.Log, exp, b.op.By == 0, t.active, w.bal[t.feePayer].IsAllGTE(base.Add(route...)), why)
					return false
				}
				if ok {
					var ps []feedstypes.Price
					for _, s := range t.signals {
						id := c08Signals[s.ID]
						p, found := w.prices[id]
						if !found {
							p = feedstypes.Price{Status: feedstypes.PRICE_STATUS_NOT_IN_CURRENT_FEEDS, SignalID: id, Price: 0, Timestamp: now}
						}
						ps = append(ps, p)
					}
					w.applyPacket(t, ps, now, true)
					t.lastNSig = 0
					for _, e := range tr.Events {
						if e.Type == "request_signature" && sim.Attr(e, "attempt") == "1" {
							t.lastNSig++
						}
					}
					if t.lastNSig == 2 && !t.lastRoute.IsZero() {
						w.twoSigningsOneFee++
					}
					if !w.checkPacket(t, ps, now) {
						return false
					}
				}
			}
			if ok {
				for _, e := range tr.Events {
					applyEv(e)
				}
			}
		}
		// governance and the bandtss end blocker run before the tunnel end blocker
		w.stepTransition(res.Time)
		if w.inc != nil {
			w.windowBlocks++
		}
		// price store as the tunnel end blocker saw it (feeds end blocker runs before it in the same block)
		w.prices = map[string]feedstypes.Price{}
		for _, p := range ch.App.FeedsKeeper.GetAllPrices(ch.Ctx()) {
			w.prices[p.SignalID] = p
		}
		// split end-block events: everything before the tunnel end blocker updates the TSS model first
		evs := res.Resp.Events
		startTunnel := len(evs)
		for i, e := range evs {
			if e.Type == "produce_packet_success" || e.Type == "produce_packet_fail" || e.Type == "deactivate_tunnel" ||
				(e.Type == "request_signature" && sim.Attr(e, "attempt") == "1") {
				startTunnel = i
				break
			}
		}
		// a create_signing_request for a tunnel precedes its request_signature; rewind to include it harmlessly
		for _, e := range evs[:startTunnel] {
			applyEv(e)
		}
		outcome := map[uint64]string{}
		reason := map[uint64]string{}
		signings := map[uint64][]abci.Event{} // first-attempt request_signature events emitted while the tunnel was processed
		var order []uint64
		var pending []abci.Event
		for _, e := range evs[startTunnel:] {
			switch e.Type {
			case "request_signature":
				if sim.Attr(e, "attempt") == "1" {
					pending = append(pending, e)
				}
			case "produce_packet_success", "produce_packet_fail", "deactivate_tunnel":
				id := parseU(sim.Attr(e, "tunnel_id"))
				if _, dup := outcome[id]; dup {
					v.Failf("C08/double-processing", "tunnel %d processed twice in one end block", id)
					return false
				}
				outcome[id] = e.Type
				reason[id] = sim.Attr(e, "reason")
				order = append(order, id)
				signings[id], pending = pending, nil
			}
		}
		// walk the active tunnels in id order; TSS model is advanced by each successful send
		sort.Slice(w.tunnels, func(i, j int) bool { return w.tunnels[i].id < w.tunnels[j].id })
		for _, t := range w.tunnels {
			got := outcome[t.id]
			if !t.active {
				how := ""
				if t.byWithdraw {
					how = " (deactivated by a withdrawal that took its total deposit below the minimum)"
					base, route := w.feeOf(t)
					if send, _, _ := w.due(t, now); send && w.bal[t.feePayer].IsAllGTE(base.Add(route...)) {
						w.dueAfterWithdrawDeactivation++
					}
				}
				if got != "" {
					v.Failf("C08/inactive-processed", "inactive tunnel %d%s was processed at end block (%s %s)", t.id, how, got, reason[t.id])
					return false
				}
				continue
			}
			base, route := w.feeOf(t)
			if !w.bal[t.feePayer].IsAllGTE(base.Add(route...)) {
				if got != "deactivate_tunnel" {
					v.Failf("C08/unfunded-not-deactivated", "tunnel %d fee payer holds %s < fee %s but outcome is %q", t.id, w.bal[t.feePayer], base.Add(route...), got)
					return false
				}
				t.active = false
				w.deactivatedUnfunded++
				continue
			}
			send, sendAll, newPrices := w.due(t, now)
			if !send {
				w.notDue++
				if got != "" {
					v.Failf("C08/not-due", "tunnel %d not due at %d (last full send %d, interval %d) but outcome %q %s", t.id, now, t.lastIntvl, t.interval, got, reason[t.id])
					return false
				}
				continue
			}
			sendOK, why := w.sendShouldSucceed(t)
			if sendOK {
				if got != "produce_packet_success" {
					v.Failf("C08/not-produced", "tunnel %d is due at %d (sendAll=%v, %d prices) and the route can send, but outcome is %q %s", t.id, now, sendAll, len(newPrices), got, reason[t.id])
					return false
				}
				// consume nonces of the members assigned to this tunnel's signing(s): one for the current group and, while a
				// transition waits for execution and the incoming group can sign, one for the incoming group
				want := 1
				for i, e := range signings[t.id] {
					if i == 1 && w.cur != nil && w.inc != nil && w.available(w.inc) >= int(w.inc.Threshold) {
						want = 2 // the incoming group is asked after the current group's members were taken
					}
					for _, a := range sim.Attrs(e, "address") {
						w.queueLen[a]--
					}
				}
				if len(signings[t.id]) == 1 && w.cur != nil && w.inc != nil && w.available(w.inc) >= int(w.inc.Threshold) {
					want = 2
				}
				if want != len(signings[t.id]) {
					v.Count("signing_count_differs_from_model", 1)
				}
				w.applyPacket(t, newPrices, now, sendAll)
				t.lastNSig = len(signings[t.id])
				if t.lastNSig == 2 && !t.lastRoute.IsZero() {
					w.twoSigningsOneFee++
				}
				if sendAll {
					t.intervalPacket = true
				} else {
					t.devPacket = true
				}
				if !w.checkPacket(t, newPrices, now) {
					return false
				}
			} else {
				if got != "produce_packet_fail" {
					v.Failf("C08/send-fail-outcome", "tunnel %d is due but its route cannot send (%s); expected a failed attempt, outcome %q", t.id, why, got)
					return false
				}
				w.failedSend++
			}
		}
		return w.compare(now)
	}

	flush := func(dt int) bool {
		var txs [][]byte
		if len(valPrices) > 0 {
			var sp []feedstypes.SignalPrice
			for _, id := range c08Signals {
				if p, ok := valPrices[id]; ok {
					sp = append(sp, p)
				}
			}
			ts := ch.Time.Add(time.Duration(dt) * time.Second).Unix()
			txs = append(txs, ch.SignTx(val, feedstypes.NewMsgSubmitSignalPrices(val.Val.String(), ts, sp)))
		}
		pre := len(txs)
		for i := range block {
			if block[i].mk != nil {
				block[i].bz = block[i].mk(ch.Time.Add(time.Duration(dt) * time.Second))
			}
			txs = append(txs, block[i].bz)
		}
		res, err := ch.Block(txs, time.Duration(dt)*time.Second)
		if err != nil {
			v.Failf("C08/finalize", "FinalizeBlock failed: %v", err)
			return false
		}
		res.Resp.TxResults = res.Resp.TxResults[pre:]
		ok := observe(res)
		block, valPrices = nil, map[string]feedstypes.SignalPrice{}
		return ok && v.Violation == ""
	}

	for _, op := range c.Ops {
		switch op.K {
		case "create":
			var sds []tunneltypes.SignalDeviation
			for _, s := range op.Signals {
				sds = append(sds, tunneltypes.NewSignalDeviation(c08Signals[s.ID], s.Soft, s.Hard))
			}
			dep := sdk.NewCoins(sdk.NewInt64Coin("uband", 10))
			var msg sdk.Msg
			tick := false
			if op.Route == "tss" {
				enc := feedstypes.ENCODER_FIXED_POINT_ABI
				if (op.Enc == "" && tunnelCount%2 == 1) || op.Enc == "tick" { // by default every second tunnel signs tick-encoded packets
					enc, tick = feedstypes.ENCODER_TICK_ABI, true
				}
				msg, _ = tunneltypes.NewMsgCreateTSSTunnel(sds, op.Interval, "eth", "0xabc", enc, dep, w.creator.Addr.String())
			} else {
				msg, _ = tunneltypes.NewMsgCreateIBCTunnel(sds, op.Interval, dep, w.creator.Addr.String())
			}
			tunnelCount++
			t := &c08Tunnel{id: tunnelCount, route: op.Route, signals: op.Signals, interval: int64(op.Interval), creator: w.creator.Addr.String(), latest: map[string]feedstypes.Price{},
				dep: map[string]int64{w.creator.Addr.String(): c08MinDeposit}, totalDep: c08MinDeposit}
			t.tick = tick
			block = append(block, btx{op: op, bz: ch.SignTx(w.creator, msg), newT: t})
			// the fee payer address is only known after creation: create, end the block, then fund + activate
			if !flush(1) {
				return v
			}
			amt := w.fundAmount(t, op.Fund)
			if !amt.IsZero() {
				block = append(block, btx{op: c08Op{K: "fund"}, tunnel: t, amount: amt, bz: ch.SignTx(w.funder, banktypes.NewMsgSend(w.funder.Addr, sdk.MustAccAddressFromBech32(t.feePayer), amt))})
			}
			block = append(block, btx{op: c08Op{K: "activate"}, tunnel: t, bz: ch.SignTx(w.creator, tunneltypes.NewMsgActivate(t.id, w.creator.Addr.String()))})
		case "fund":
			if t := pick(op.T); t != nil {
				amt := w.fundAmount(t, op.Fund)
				if !amt.IsZero() {
					block = append(block, btx{op: op, tunnel: t, amount: amt, bz: ch.SignTx(w.funder, banktypes.NewMsgSend(w.funder.Addr, sdk.MustAccAddressFromBech32(t.feePayer), amt))})
				}
			}
		case "activate":
			if t := pick(op.T); t != nil {
				block = append(block, btx{op: op, tunnel: t, bz: ch.SignTx(w.creator, tunneltypes.NewMsgActivate(t.id, w.creator.Addr.String()))})
			}
		case "deactivate":
			if t := pick(op.T); t != nil {
				block = append(block, btx{op: op, tunnel: t, bz: ch.SignTx(w.creator, tunneltypes.NewMsgDeactivate(t.id, w.creator.Addr.String()))})
			}
		case "trigger":
			if t := pick(op.T); t != nil {
				by := w.creator
				if op.By == 1 {
					by = w.other
				}
				// at most one trigger per tunnel and block keeps the in-block fee/nonce model simple
				dup := false
				for _, b := range block {
					if b.op.K == "trigger" {
						dup = true
					}
				}
				if !dup {
					block = append(block, btx{op: op, tunnel: t, bz: ch.SignTx(by, tunneltypes.NewMsgTriggerTunnel(t.id, by.Addr.String()))})
				}
			}
		case "desall":
			for _, m := range w.members {
				des := w.wallet.Fresh(m.Addr.String(), op.N)
				if w.queueLen[m.Addr.String()]+op.N > 20 {
					continue
				}
				block = append(block, btx{op: op, sender: m.Addr.String(), des: op.N, bz: ch.SignTx(m, tsstypes.NewMsgSubmitDEs(des, m.Addr.String()))})
			}
		case "deposit", "withdraw":
			t := pick(op.T)
			if t == nil {
				v.Count("inapplicable_"+op.K, 1)
				break
			}
			by := w.creator
			if op.By == 1 {
				by = w.other
			}
			o := op
			if op.K == "deposit" {
				if o.N <= 0 {
					o.N = 1
				}
				block = append(block, btx{op: o, tunnel: t, sender: by.Addr.String(),
					bz: ch.SignTx(by, tunneltypes.NewMsgDepositToTunnel(t.id, sdk.NewCoins(sdk.NewInt64Coin("uband", int64(o.N))), by.Addr.String()))})
				break
			}
			// the amount is taken from the reference's picture of the deposits: cross = leave one below the minimum,
			// to-min = leave exactly the minimum, all = the depositor's whole deposit, one = 1uband
			own := t.dep[by.Addr.String()]
			var n int64
			switch op.Fund {
			case "cross":
				n = t.totalDep - (c08MinDeposit - 1)
			case "to-min":
				n = t.totalDep - c08MinDeposit
			case "one":
				n = 1
			default:
				n = own
			}
			if n > own {
				n = own
			}
			if n <= 0 {
				v.Count("inapplicable_withdraw", 1)
				break
			}
			o.N = int(n)
			block = append(block, btx{op: o, tunnel: t, sender: by.Addr.String(),
				bz: ch.SignTx(by, tunneltypes.NewMsgWithdrawFromTunnel(t.id, sdk.NewCoins(sdk.NewInt64Coin("uband", n)), by.Addr.String()))})
		case "transition":
			if w.grp2 == nil {
				v.Count("inapplicable_transition", 1)
				break
			}
			// a real proposal: submitted and voted on by the validator in one block; governance executes the message in the
			// first block at or after the end of the voting period, the transition then waits for its execution time
			pr := &c08Prop{pid: w.nextPID}
			w.nextPID++
			wait := time.Duration(op.N) * time.Second
			block = append(block, btx{op: c08Op{K: "govprop"}, prop: pr, mk: func(T time.Time) []byte {
				pr.votingEnd = T.Add(c08GovVoting)
				pr.execTime = pr.votingEnd.Add(wait)
				m := bandtsstypes.NewMsgForceTransitionGroup(w.grp2.ID, pr.execTime, sim.GovAuthority())
				sp, err := govv1.NewMsgSubmitProposal([]sdk.Msg{m}, sdk.NewCoins(sdk.NewInt64Coin("uband", 10)), val.Addr.String(), "", "t", "s", false)
				if err != nil {
					return nil
				}
				return ch.SignTx(val, sp)
			}})
			block = append(block, btx{op: c08Op{K: "govvote"}, prop: pr, mk: func(T time.Time) []byte {
				return ch.SignTx(val, govv1.NewMsgVote(val.Addr, pr.pid, govv1.OptionYes, ""))
			}})
		case "drain":
			m := w.members[op.T%len(w.members)]
			block = append(block, btx{op: op, sender: m.Addr.String(), bz: ch.SignTx(m, tsstypes.NewMsgResetDE(m.Addr.String()))})
		case "price":
			id := c08Signals[op.Sig%4]
			var old uint64
			var hard, soft uint64 = 100, 50
			if t := pick(op.T); t != nil {
				for _, s := range t.signals {
					if c08Signals[s.ID] == id {
						hard, soft = s.Hard, s.Soft
					}
				}
				if lp, ok := t.latest[id]; ok {
					old = lp.Price
				}
			}
			if old == 0 {
				old = op.PVal
			}
			up := func(bps uint64, d int64) uint64 {
				// smallest new price with |new-old|*10000/old >= bps is old + ceil(old*bps/10000)
				x := new(big.Int).Mul(new(big.Int).SetUint64(old), new(big.Int).SetUint64(bps))
				x.Add(x, big.NewInt(9999)).Quo(x, big.NewInt(10000))
				r := new(big.Int).Add(new(big.Int).SetUint64(old), x)
				r.Add(r, big.NewInt(d))
				if !r.IsUint64() || r.Sign() <= 0 {
					return old
				}
				return r.Uint64()
			}
			down := func(bps uint64, d int64) uint64 {
				x := new(big.Int).Mul(new(big.Int).SetUint64(old), new(big.Int).SetUint64(bps))
				x.Add(x, big.NewInt(9999)).Quo(x, big.NewInt(10000))
				r := new(big.Int).Sub(new(big.Int).SetUint64(old), x)
				r.Add(r, big.NewInt(d))
				if r.Sign() < 0 {
					return 0
				}
				return r.Uint64()
			}
			sp := feedstypes.SignalPrice{Status: feedstypes.SIGNAL_PRICE_STATUS_AVAILABLE, SignalID: id}
			switch op.PKind {
			case "hard":
				sp.Price = up(hard, 0)
			case "hard-1":
				sp.Price = up(hard, -1)
			case "hard+1":
				sp.Price = up(hard, 1)
			case "soft":
				sp.Price = up(soft, 0)
			case "soft-1":
				sp.Price = up(soft, -1)
			case "down-hard":
				sp.Price = down(hard, 0)
			case "down-hard+1":
				sp.Price = down(hard, 1)
			case "same":
				sp.Price = old
			case "random":
				sp.Price = op.PVal
			case "zero":
				sp.Price = 0
			case "big":
				sp.Price = ^uint64(0) - op.PVal%3
			case "unsupported":
				sp.Status, sp.Price = feedstypes.SIGNAL_PRICE_STATUS_UNSUPPORTED, 0
			case "unavailable":
				sp.Status, sp.Price = feedstypes.SIGNAL_PRICE_STATUS_UNAVAILABLE, 0
			}
			valPrices[id] = sp
		case "end":
			if !flush(op.N) {
				return v
			}
		}
	}
	if !flush(1) {
		return v
	}
	var dev, intv bool
	for _, t := range w.tunnels {
		dev = dev || t.devPacket
		intv = intv || t.intervalPacket
		v.Count("packets", int64(t.seq))
	}
	if dev {
		v.Class("deviation-packet")
	}
	if intv {
		v.Class("interval-packet")
	}
	if w.failedSend > 0 {
		v.Class("failed-send")
	}
	if w.deactivatedUnfunded > 0 {
		v.Class("deactivated-unfunded")
	}
	v.Count("failed_send", int64(w.failedSend))
	v.Count("not_due", int64(w.notDue))
	v.Count("tunnels", int64(len(w.tunnels)))
	if w.signedPackets > 0 {
		v.Class("signed-packet-decoded")
	}
	if w.signedNonAvailable > 0 {
		v.Class("signed-packet-with-non-available-price")
	}
	v.Count("signed_packets_decoded", int64(w.signedPackets))
	if w.windowBlocks > 0 {
		v.Class("transition-window")
	}
	if w.twoGroupPackets > 0 {
		v.Class("tss-packet-signed-by-two-groups")
	}
	if w.twoGroupTick > 0 {
		v.Class("tick-packet-signed-by-two-groups")
	}
	if w.incomingOnlyPackets > 0 {
		v.Class("tss-packet-signed-by-incoming-group-only")
	}
	if w.transExecuted > 0 {
		v.Class("transition-executed")
	}
	if w.transRejected > 0 {
		v.Class("transition-proposal-rejected")
	}
	if w.packetsAfterTransition > 0 {
		v.Class("tss-packet-after-transition")
	}
	if w.withdrawDeactivated > 0 {
		v.Class("withdrawal-below-min-deactivates-active-tunnel")
	}
	if w.dueAfterWithdrawDeactivation > 0 {
		v.Class("due-after-withdrawal-deactivation")
	}
	if w.withdrawKeptActive > 0 {
		v.Class("withdrawal-keeps-tunnel-active")
	}
	v.Count("withdraw_deactivations", int64(w.withdrawDeactivated))
	v.Count("due_after_withdraw_deactivation", int64(w.dueAfterWithdrawDeactivation))
	if w.twoSigningsOneFee > 0 {
		v.Class("two-signings-one-fee")
	}
	v.Count("window_blocks", int64(w.windowBlocks))
	v.Count("two_group_packets", int64(w.twoGroupPackets))
	v.Count("two_group_tick_packets", int64(w.twoGroupTick))
	v.Count("tick_values_checked", int64(w.tickValuesChecked))
	v.NonTrivial = dev && intv && (w.failedSend > 0 || w.deactivatedUnfunded > 0)
	_ = deposits
	return v
}

func (w *c08World) fundAmount(t *c08Tunnel, kind string) sdk.Coins {
	base, route := w.feeOf(t)
	fee := base.Add(route...)
	k := int64(3)
	switch kind {
	case "none":
		return sdk.NewCoins()
	case "many":
		return fee.MulInt(sdkInt(40)).Add(sdk.NewInt64Coin("uband", 1))
	case "k":
		return fee.MulInt(sdkInt(k))
	case "k-1":
		x := fee.MulInt(sdkInt(k))
		if x.IsZero() {
			return x
		}
		return x.Sub(sdk.NewCoin(x[len(x)-1].Denom, sdkInt(1)))
	case "k+1":
		return fee.MulInt(sdkInt(k)).Add(sdk.NewInt64Coin("uband", 1))
	case "one":
		return sdk.NewCoins(sdk.NewInt64Coin("uband", 1))
	}
	return fee
}

func (w *c08World) checkPacket(t *c08Tunnel, prices []feedstypes.Price, now int64) bool {
	// the stored packet is checked in compare() (post-block); remember what it must carry
	return true
}

// c08MoneyOnly: run as a donor for C13 - only the money checks (fee payer balances, module balances = escrow, recorded
// fee totals, nonce queues) are evaluated, so that a fee charged for a service that was not rendered is reported as
// such even when the tunnel bookkeeping is wrong as well.
var c08MoneyOnly bool

func (w *c08World) compare(now int64) bool {
	v, ch := w.v, w.ch
	ctx := ch.Ctx()
	k := ch.App.TunnelKeeper
	for _, t := range w.tunnels {
		if !c08MoneyOnly {
			okStruct := func() bool {
				tn, err := k.GetTunnel(ctx, t.id)
				if err != nil {
					v.Failf("C08/missing-tunnel", "tunnel %d: %v", t.id, err)
					return false
				}
				if tn.Sequence != t.seq {
					v.Failf("C08/sequence", "tunnel %d sequence %d, reference %d", t.id, tn.Sequence, t.seq)
					return false
				}
				if !tn.TotalDeposit.Equal(sdk.NewCoins(sdk.NewInt64Coin("uband", t.totalDep))) {
					v.Count("total_deposit_differs_from_model", 1)
				}
				if tn.IsActive != t.active {
					v.Failf("C08/active-flag", "tunnel %d active=%v, reference %v", t.id, tn.IsActive, t.active)
					return false
				}
				for s := uint64(1); s <= t.seq; s++ {
					if _, err := k.GetPacket(ctx, t.id, s); err != nil {
						v.Failf("C08/sequence-gap", "tunnel %d has sequence %d but packet %d is missing", t.id, t.seq, s)
						return false
					}
				}
				if _, err := k.GetPacket(ctx, t.id, t.seq+1); err == nil {
					v.Failf("C08/orphan-packet", "tunnel %d stores packet %d beyond its sequence %d", t.id, t.seq+1, t.seq)
					return false
				}
				lp, err := k.GetLatestPrices(ctx, t.id)
				if err != nil {
					v.Failf("C08/latest-prices", "tunnel %d: %v", t.id, err)
					return false
				}
				if lp.LastInterval != t.lastIntvl {
					v.Failf("C08/last-interval", "tunnel %d last full send %d, reference %d", t.id, lp.LastInterval, t.lastIntvl)
					return false
				}
				if len(lp.Prices) != len(t.latest) {
					v.Failf("C08/latest-prices", "tunnel %d remembers %d prices, reference %d", t.id, len(lp.Prices), len(t.latest))
					return false
				}
				for _, p := range lp.Prices {
					want := t.latest[p.SignalID]
					if p.Price != want.Price || p.Status != want.Status {
						v.Failf("C08/latest-prices", "tunnel %d remembers %s=%d(%v), reference %d(%v)", t.id, p.SignalID, p.Price, p.Status, want.Price, want.Status)
						return false
					}
				}
				if t.seq > 0 {
					pk, _ := k.GetPacket(ctx, t.id, t.seq)
					base, route := t.lastBase, t.lastRoute
					if !pk.BaseFee.Equal(base) || !pk.RouteFee.Equal(route) {
						v.Failf("C08/packet-fee", "tunnel %d packet %d records fees %s + %s, reference %s + %s", t.id, t.seq, pk.BaseFee, pk.RouteFee, base, route)
						return false
					}
					for _, p := range pk.Prices {
						want, ok := t.latest[p.SignalID]
						if !ok || want.Price != p.Price || want.Status != p.Status {
							v.Failf("C08/packet-prices", "tunnel %d packet %d carries %s=%d(%v), reference %v", t.id, t.seq, p.SignalID, p.Price, p.Status, want)
							return false
						}
					}
					if t.route == "tss" && !w.checkSignedPacket(t, pk) {
						return false
					}
				}

				return true
			}()
			if !okStruct {
				return false
			}
		}
		got := ch.App.BankKeeper.GetAllBalances(ctx, sdk.MustAccAddressFromBech32(t.feePayer))
		if !got.Equal(w.bal[t.feePayer]) {
			v.Failf("C08/fee-payer-balance", "tunnel %d fee payer holds %s, reference %s", t.id, got, w.bal[t.feePayer])
			return false
		}
	}
	for _, mod := range []string{tunneltypes.ModuleName, bandtsstypes.ModuleName} {
		a := ch.App.AccountKeeper.GetModuleAddress(mod)
		got := ch.App.BankKeeper.GetAllBalances(ctx, a)
		if !got.Equal(w.bal[a.String()]) {
			v.Failf("C08/module-balance", "%s module holds %s, reference %s", mod, got, w.bal[a.String()])
			return false
		}
	}
	if tf := k.GetTotalFees(ctx); !tf.TotalBasePacketFee.Equal(w.totalBase) {
		v.Failf("C08/total-fees", "recorded base fees %s, reference %s", tf.TotalBasePacketFee, w.totalBase)
		return false
	}
	// nonce queues follow the model (a failed send must not have consumed nonces)
	if w.c.HasGroup || w.grp2 != nil {
		for _, m := range w.members {
			a := m.Addr.String()
			q := ch.App.TSSKeeper.GetDEQueue(ctx, m.Addr)
			if int(q.Tail-q.Head) != w.queueLen[a] {
				v.Failf("C08/nonce-leak", "member %s has %d queued nonces, reference %d (a failed or rolled back send consumed nonces?)", a, q.Tail-q.Head, w.queueLen[a])
				return false
			}
		}
	}
	// the harness' picture of the signing groups must be the chain's
	var curID, incID tss.GroupID
	if w.cur != nil {
		curID = w.cur.ID
	}
	if w.inc != nil {
		incID = w.inc.ID
	}
	if got, gotInc := ch.App.BandtssKeeper.GetCurrentGroup(ctx).GroupID, ch.App.BandtssKeeper.GetIncomingGroupID(ctx); got != curID || gotInc != incID {
		v.Failf("harness", "bandtss current/incoming group %d/%d at %d, the harness expects %d/%d", got, gotInc, now, curID, incID)
		return false
	}
	return true
}

// checkSignedPacket: the bytes the group was asked to sign for a TSS-route packet must decode (reference decoders) to the
// packet stored on chain: tunnel originator, creation time, the signing's own id, sequence and EVERY price entry of the
// stored packet (tick encoder: the largest tick whose price does not exceed the stored price; 0 for "no price"). While a
// group transition waits for execution the current AND the incoming group are asked to sign: both signings must pass,
// and both must carry the same content.
func (w *c08World) checkSignedPacket(t *c08Tunnel, pk tunneltypes.Packet) bool {
	v, ch := w.v, w.ch
	ctx := ch.Ctx()
	rc, err := pk.GetReceiptValue()
	if err != nil {
		return true // no receipt recorded: nothing was sent for signing
	}
	tr, ok := rc.(*tunneltypes.TSSPacketReceipt)
	if !ok {
		v.Failf("C08/receipt-kind", "tunnel %d (tss route) packet %d has a receipt of type %T", t.id, pk.Sequence, rc)
		return false
	}
	bs, err := ch.App.BandtssKeeper.GetSigning(ctx, tr.SigningID)
	if err != nil || (bs.CurrentGroupSigningID == 0 && bs.IncomingGroupSigningID == 0) {
		return true
	}
	first := t.classedSeq != pk.Sequence
	t.classedSeq = pk.Sequence
	var contents [][]byte
	for _, s := range []struct {
		who string
		id  tss.SigningID
	}{{"current", bs.CurrentGroupSigningID}, {"incoming", bs.IncomingGroupSigningID}} {
		if s.id == 0 {
			continue
		}
		sg, err := ch.App.TSSKeeper.GetSigning(ctx, s.id)
		if err != nil {
			v.Failf("C08/signing-missing", "tunnel %d packet %d: receipt names %s group signing %d which does not exist: %v", t.id, pk.Sequence, s.who, s.id, err)
			return false
		}
		content, ok := w.checkSigningOfPacket(t, pk, sg, s.who, first)
		if !ok {
			return false
		}
		contents = append(contents, content)
	}
	w.signedPackets++
	if len(contents) == 2 && !bytes.Equal(contents[0], contents[1]) {
		v.Failf("C11/signed-tunnel-packet", "tunnel %d packet %d: the current group (signing %d) and the incoming group (signing %d) were asked to sign different content for the same packet: %x vs %x",
			t.id, pk.Sequence, bs.CurrentGroupSigningID, bs.IncomingGroupSigningID, contents[0], contents[1])
		return false
	}
	if first {
		switch {
		case len(contents) == 2:
			w.twoGroupPackets++
			if t.tick {
				w.twoGroupTick++
			}
		case bs.CurrentGroupSigningID == 0:
			w.incomingOnlyPackets++
		}
	}
	return true
}

// checkSigningOfPacket compares one tss signing with the stored packet and returns the signed content bytes.
func (w *c08World) checkSigningOfPacket(t *c08Tunnel, pk tunneltypes.Packet, sg tsstypes.Signing, who string, first bool) ([]byte, bool) {
	v, ch := w.v, w.ch
	fail := func(f string, a ...any) ([]byte, bool) {
		v.Failf("C11/signed-tunnel-packet", "tunnel %d packet %d, %s group signing %d: %s", t.id, pk.Sequence, who, sg.ID, fmt.Sprintf(f, a...))
		return nil, false
	}
	ps, err := ref.ParseSigningMessage(sg.Message)
	if err != nil {
		return fail("%v", err)
	}
	if want := ref.EncKeccak256(ref.EncodeTunnelOriginator(ch.Cfg.ChainID, t.id, "eth", "0xabc")); !bytes.Equal(ps.OriginatorHash, want) {
		return fail("signed message is not bound to the tunnel originator (chain %s, tunnel %d, eth, 0xabc)", ch.Cfg.ChainID, t.id)
	}
	if ps.Time != uint64(pk.CreatedAt) || ps.SigningID != uint64(sg.ID) {
		return fail("signed header says time %d signing id %d; the packet was created at %d and the signing has id %d", ps.Time, ps.SigningID, pk.CreatedAt, sg.ID)
	}
	route, kind, body, err := ref.SplitContent(ps.Content)
	if err != nil || route != ref.RouteTunnel || (kind != ref.KindFixedPointABI && kind != ref.KindTickABI) {
		return fail("signed content tagged %s/%s (%v)", route, kind, err)
	}
	if (kind == ref.KindTickABI) != t.tick {
		return fail("signed content tagged %s although the tunnel's encoder is tick=%v", kind, t.tick)
	}
	seq, rps, createdAt, err := ref.DecodeTunnelPacket(body)
	if err != nil {
		return fail("signed content does not decode: %v", err)
	}
	if seq != pk.Sequence || createdAt != pk.CreatedAt || len(rps) != len(pk.Prices) {
		return fail("signed content says sequence %d created %d with %d prices, the stored packet has sequence %d created %d with %d prices (%v)",
			seq, createdAt, len(rps), pk.Sequence, pk.CreatedAt, len(pk.Prices), pk.Prices)
	}
	for i, p := range pk.Prices {
		if rps[i].SignalID != p.SignalID || (kind == ref.KindFixedPointABI && rps[i].Value != p.Price) {
			return fail("entry %d: signed %s=%d, stored %s=%d", i, rps[i].SignalID, rps[i].Value, p.SignalID, p.Price)
		}
		if kind == ref.KindTickABI {
			if msg := c08JudgeTick(p.Price, rps[i].Value); msg != "" {
				if msg == "known" {
					v.Count("tick_one_low_in_known_band", 1)
				} else {
					return fail("entry %d: signed %s tick %d (%#x), stored price %d: %s", i, rps[i].SignalID, rps[i].Value, rps[i].Value, p.Price, msg)
				}
			}
			if first {
				w.tickValuesChecked++
			}
		}
		if first && who != "incoming" && p.Status != feedstypes.PRICE_STATUS_AVAILABLE {
			w.signedNonAvailable++
		}
	}
	return ps.Content, true
}

// c08JudgeTick: the signed value of a tick-encoded entry must be 0 for price 0 and otherwise 2^18 + the largest tick t
// with 10^9 * 1.0001^t <= price (judged with the 384-bit reference and its 2^-64 guard band). "known" is returned for a
// tick exactly one too low on a price >= 2^53 (open finding C11/tick-upper-last-units, judged by the C11 tick stage).
func c08JudgeTick(price, signed uint64) string {
	if price == 0 {
		if signed != 0 {
			return "an entry without a price must carry 0"
		}
		return ""
	}
	if signed > uint64(2*ref.TickOffset) {
		return "outside the tick range"
	}
	tk := int64(signed) - ref.TickOffset
	lo, up := ref.JudgeTick(price, tk)
	if lo != ref.TickBad && up != ref.TickBad {
		return ""
	}
	if price >= 1<<53 && lo != ref.TickBad {
		if lo2, up2 := ref.JudgeTick(price, tk+1); lo2 != ref.TickBad && up2 != ref.TickBad {
			return "known"
		}
	}
	return fmt.Sprintf("not the largest tick whose price does not exceed the stored price (reference tick %d = %#x encoded)", ref.RefTick(price), ref.RefTick(price)+ref.TickOffset)
}

var _ = hex.EncodeToString

func TestC08(t *testing.T) { pbt.Check(t, "C08", genC08, runC08) }

// TestC11Tunnel re-uses the tunnel histories for property C11: only the comparison of the signed bytes of TSS-route
// packets with the stored packet counts here; any other finding of the donor run is C08's business and is dropped.
func TestC11Tunnel(t *testing.T) {
	pbt.Check(t, "C11", genC08, func(c c08Case) *pbt.Verdict {
		v := runC08(c)
		if v.Violation != "" && !strings.HasPrefix(v.Signature, "C11/") && v.Signature != "harness" {
			v.Count("donor_findings_ignored", 1)
			v.Violation, v.Signature = "", ""
		}
		nt := false
		for _, cl := range v.Classes {
			if cl == "signed-packet-with-non-available-price" {
				nt = true
			}
		}
		v.NonTrivial = nt
		return v
	})
}

// TestC13Tunnel re-uses the tunnel histories for property C13 (signing requests made by tunnels are paid signing
// requests): only the money checks count - the fee payer is charged exactly base + fee_per_signer*threshold for a
// produced packet and NOTHING for a refused one, the bandtss escrow and the tunnel module hold exactly the reference sums.
func TestC13Tunnel(t *testing.T) {
	pbt.Check(t, "C13", genC08, func(c c08Case) *pbt.Verdict {
		c08MoneyOnly = true
		defer func() { c08MoneyOnly = false }()
		v := runC08(c)
		money := map[string]bool{"C08/fee-payer-balance": true, "C08/module-balance": true, "C08/total-fees": true, "C08/nonce-leak": true}
		if v.Violation != "" && v.Signature != "harness" {
			if money[v.Signature] {
				v.Signature = "C13/tunnel-" + strings.TrimPrefix(v.Signature, "C08/")
			} else {
				v.Count("donor_findings_ignored", 1)
				v.Violation, v.Signature = "", ""
			}
		}
		nt := false
		for _, cl := range v.Classes {
			if cl == "failed-send" {
				nt = true
			}
		}
		v.NonTrivial = nt
		return v
	})
}
