package props

// C13 (data-request side): a data request costs its payer exactly ask_count x sum of the requested data sources'
// fees, paid to their treasuries, never above the caller's fee limit; insufficient limit or balance => rejected
// with no transfer at all.

import (
	"fmt"
	"testing"
	"time"

	"pgregory.net/rapid"

	sdk "github.com/cosmos/cosmos-sdk/types"
	banktypes "github.com/cosmos/cosmos-sdk/x/bank/types"

	oracletypes "github.com/bandprotocol/chain/v3/x/oracle/types"

	"verif/harness/gen"
	"verif/harness/pbt"
	"verif/harness/sim"
)

var c13Scripts = [][]int{{1}, {1, 2}, {1, 1, 2}, {3, 2, 1, 3}, {2}, {3, 3, 3}}

type c13oOp struct {
	// K == "edit": MsgEditDataSource for data source DS by its owner (or, Foreign, by somebody else) that moves the treasury
	// to account Treas (0..2 = the three genesis treasuries, 3 = a fourth account) and keeps or replaces the fee
	K       string  `json:"k,omitempty"`
	DS      int     `json:"ds,omitempty"`
	Treas   int     `json:"treas,omitempty"`
	NewFee  []int64 `json:"new_fee,omitempty"` // nil = keep the current fee
	Foreign bool    `json:"foreign,omitempty"`
	Script  int     `json:"script"`
	Ask    int    `json:"ask"`
	Payer  int    `json:"payer"` // 0 rich, 1 poor
	Limit  string `json:"limit"` // exact | minus1 | plus1 | zero | big | first-denom-only | drop-denom
	Denom  int    `json:"denom"` // which denom the variant applies to
}

type c13oCase struct {
	Fees  [][]int64 `json:"fees"` // per data source: [uband, uatom, ufoo]
	Poor  string    `json:"poor"` // how the poor payer is funded relative to its first request: exact|minus1|kth|plenty
	PoorK int       `json:"poor_k"`
	Ops   []c13oOp  `json:"ops"`
}

var c13Denoms = []string{"uatom", "uband", "ufoo"} // sorted

func genC13O(rt *rapid.T) c13oCase {
	c := c13oCase{Poor: gen.OneOf(rt, "poor", "exact", "minus1", "kth", "plenty"), PoorK: gen.Range(rt, "poork", 1, 3)}
	for d := 0; d < 3; d++ {
		kind := gen.Pick(rt, "feekind", 4, 4, 4, 4, 4, 3)
		f := []int64{0, 0, 0}
		switch kind {
		case 0: // free
		case 1:
			f[1] = int64(gen.OneOf(rt, "fee", 1, 7, 1000))
		case 2:
			f[0], f[1] = int64(gen.OneOf(rt, "fee", 1, 3)), int64(gen.OneOf(rt, "fee2", 1, 50))
		case 3:
			f[0], f[1], f[2] = 2, 5, int64(gen.OneOf(rt, "fee3", 1, 9))
		case 4:
			f[2] = int64(gen.OneOf(rt, "fee", 1, 11))
		case 5: // an 18-decimals style denom: the fee fits 64 bits, fee x ask_count (and sums over sources) need not
			f[2] = gen.OneOf[int64](rt, "bigfee", 3_000_000_000_000_000_000, 1<<62, 1<<63-1, 6_148_914_691_236_517_206, 1_152_921_504_606_846_976)
			f[1] = int64(gen.OneOf(rt, "fee2", 0, 5))
		}
		c.Fees = append(c.Fees, f)
	}
	n := rapid.IntRange(3, 16).Draw(rt, "nops")
	for i := 0; i < n; i++ {
		if gen.Chance(rt, "edit", 1, 6) {
			o := c13oOp{K: "edit", DS: gen.Uniform(rt, "eds", 3), Treas: gen.Uniform(rt, "etreas", 4), Foreign: gen.Chance(rt, "eforeign", 1, 6)}
			if gen.Chance(rt, "enewfee", 1, 3) {
				o.NewFee = [][]int64{{0, 0, 0}, {0, 4, 0}, {1, 9, 0}, {2, 5, 3}, {0, 0, 6}}[gen.Uniform(rt, "efee", 5)]
			}
			c.Ops = append(c.Ops, o)
			continue
		}
		c.Ops = append(c.Ops, c13oOp{Script: gen.Uniform(rt, "script", len(c13Scripts)), Ask: gen.Range(rt, "ask", 1, 3), Payer: gen.OneOf(rt, "payer", 0, 0, 1),
			Limit: gen.OneOf(rt, "limit", "exact", "exact", "minus1", "plus1", "zero", "big", "first-denom-only", "drop-denom"), Denom: gen.Uniform(rt, "denom", 3)})
	}
	return c
}

func c13Coins(f []int64, mul int64) sdk.Coins {
	cs := sdk.NewCoins()
	for i, d := range c13Denoms {
		if f[i] > 0 && mul > 0 { // exact: 18-decimals style amounts times ask_count exceed 64 bits
			cs = cs.Add(sdk.NewCoin(d, sdkInt(f[i]).MulRaw(mul)))
		}
	}
	return cs
}

func runC13O(c c13oCase) *pbt.Verdict {
	v := &pbt.Verdict{}
	var dss []sim.DSSpec
	for i, f := range c.Fees {
		dss = append(dss, sim.DSSpec{Exec: []byte(fmt.Sprintf("ds-%d-executable-bytes-0123456789abcdef0123456789", i)), Fee: c13Coins(f, 1), Treasury: 1 + i})
	}
	var scripts [][]byte
	for _, s := range c13Scripts {
		scripts = append(scripts, sim.ScriptAsk(s, "ok"))
	}
	ch, err := sim.New(sim.Config{NumAccounts: 6, MintOff: true, Validators: []sim.ValSpec{{Tokens: 3_000_000}, {Tokens: 2_000_000}, {Tokens: 1_000_000}},
		Balance:     sdk.NewCoins(sdk.NewInt64Coin("uband", 1_000_000_000), sdk.NewInt64Coin("uatom", 1_000_000_000), sdk.NewCoin("ufoo", sdkInt(1_000_000_000).MulRaw(1_000_000_000).MulRaw(1_000_000_000))),
		DataSources: dss, Scripts: scripts}, 0)
	if err != nil {
		v.Failf("harness", "sim.New: %v", err)
		return v
	}
	defer ch.Close()
	rich, poor := ch.Users[0], ch.Users[5]
	// the reference's picture of every data source: fee and treasury as set by genesis and by ACCEPTED edit messages
	accounts := []*sim.Account{ch.Users[1], ch.Users[2], ch.Users[3], ch.Users[4]}
	treas := []*sim.Account{ch.Users[1], ch.Users[2], ch.Users[3]}
	fees := make([][]int64, len(c.Fees))
	for i, f := range c.Fees {
		fees[i] = append([]int64{}, f...)
	}
	edits, treasuryMoves, paidAfterMove := 0, 0, 0
	moved := map[int]bool{}
	cost := func(o c13oOp) (total sdk.Coins, per []sdk.Coins) {
		total = sdk.NewCoins()
		for _, ds := range c13Scripts[o.Script] {
			f := c13Coins(fees[ds-1], int64(o.Ask))
			per = append(per, f)
			total = total.Add(f...)
		}
		return
	}
	// fund the poor payer relative to its first request
	var firstPoor *c13oOp
	for i := range c.Ops {
		if c.Ops[i].Payer == 1 {
			firstPoor = &c.Ops[i]
			break
		}
	}
	keep := sdk.NewCoins()
	if firstPoor != nil {
		total, per := cost(*firstPoor)
		switch c.Poor {
		case "exact":
			keep = total
		case "minus1":
			keep = total
			if !total.IsZero() {
				keep = total.Sub(sdk.NewCoin(total[len(total)-1].Denom, sdkInt(1)))
			}
		case "kth": // enough for the first k-1 sources only
			for i := 0; i < c.PoorK-1 && i < len(per); i++ {
				keep = keep.Add(per[i]...)
			}
		case "plenty":
			keep = total.MulInt(sdkInt(5)).Add(sdk.NewInt64Coin("uband", 3))
		}
	}
	bal := ch.App.BankKeeper.GetAllBalances(ch.Ctx(), poor.Addr)
	var txs [][]byte
	if send, neg := bal.SafeSub(keep...); !neg && !send.IsZero() {
		txs = append(txs, ch.SignTx(poor, banktypes.NewMsgSend(poor.Addr, ch.Users[4].Addr, send)))
	}
	for _, val := range ch.Vals {
		txs = append(txs, ch.SignTx(val, oracletypes.NewMsgActivate(val.Val)))
	}
	if _, err := ch.Block(txs, time.Second); err != nil {
		v.Failf("harness", "setup: %v", err)
		return v
	}
	expect := map[string]sdk.Coins{}
	track := append([]*sim.Account{rich, poor}, accounts...)
	for _, a := range track {
		expect[a.Addr.String()] = ch.App.BankKeeper.GetAllBalances(ch.Ctx(), a.Addr)
	}
	var count uint64
	boundary, midway := false, false
	for i, o := range c.Ops {
		if o.K == "edit" {
			ds := o.DS % len(fees)
			sender := rich // the genesis owner of every data source
			if o.Foreign {
				sender = ch.Users[4]
			}
			nf := fees[ds]
			if o.NewFee != nil && len(o.NewFee) == 3 {
				nf = o.NewFee
			}
			nt := accounts[o.Treas%len(accounts)]
			msg := oracletypes.NewMsgEditDataSource(oracletypes.DataSourceID(ds+1), oracletypes.DoNotModify, oracletypes.DoNotModify, oracletypes.DoNotModifyBytes,
				c13Coins(nf, 1), nt.Addr, rich.Addr, sender.Addr)
			res, err := ch.Block([][]byte{ch.SignTx(sender, msg)}, time.Second)
			if err != nil {
				v.Failf("C13/finalize", "block failed: %v", err)
				return v
			}
			if res.Resp.TxResults[0].Code == 0 {
				if o.Foreign {
					v.Count("edit_by_non_owner_accepted", 1) // C01's subject; the fee model follows accepted messages
				}
				edits++
				if treas[ds] != nt {
					treasuryMoves++
					moved[ds] = true
				}
				fees[ds] = append([]int64{}, nf...)
				treas[ds] = nt
			} else {
				v.Count("edit_rejected", 1)
			}
			for _, a := range track {
				if got := ch.App.BankKeeper.GetAllBalances(ch.Ctx(), a.Addr); !got.Equal(expect[a.Addr.String()]) {
					v.Failf("C13/balance", "op %d (data source edit): %s holds %s, fee model expects %s", i, a.Name, got, expect[a.Addr.String()])
					return v
				}
			}
			continue
		}
		payer := rich
		if o.Payer == 1 {
			payer = poor
		}
		total, per := cost(o)
		limit := total
		dn := c13Denoms[o.Denom]
		switch o.Limit {
		case "minus1":
			if total.AmountOf(dn).IsPositive() {
				limit = total.Sub(sdk.NewCoin(dn, sdkInt(1)))
				boundary = true
			}
		case "plus1":
			limit = total.Add(sdk.NewCoin(dn, sdkInt(1)))
			boundary = true
		case "exact":
			boundary = boundary || !total.IsZero()
		case "zero":
			limit = sdk.NewCoins()
		case "big":
			limit = total.MulInt(sdkInt(3)).Add(sdk.NewInt64Coin("uband", 100))
		case "first-denom-only":
			if len(total) > 0 {
				limit = sdk.NewCoins(sdk.NewCoin(total[0].Denom, total[0].Amount.MulRaw(10)))
			}
		case "drop-denom":
			if total.AmountOf(dn).IsPositive() {
				limit = total.Sub(sdk.NewCoin(dn, total.AmountOf(dn)))
			}
		}
		withinLimit := true
		for _, fc := range total {
			if fc.Amount.GT(limit.AmountOf(fc.Denom)) {
				withinLimit = false
			}
		}
		affordable := expect[payer.Addr.String()].IsAllGTE(total)
		if !affordable && withinLimit {
			// does the balance run out midway (some sources payable, a later one not)?
			run := expect[payer.Addr.String()]
			for k, f := range per {
				if !run.IsAllGTE(f) {
					if k > 0 {
						midway = true
					}
					break
				}
				run = run.Sub(f...)
			}
		}
		msg := oracletypes.NewMsgRequestData(oracletypes.OracleScriptID(o.Script+1), []byte("c"), uint64(o.Ask), 1, "c", limit, 100_000, 1_000_000, payer.Addr, oracletypes.ENCODER_UNSPECIFIED)
		res, err := ch.Block([][]byte{ch.SignTx(payer, msg)}, time.Second)
		if err != nil {
			v.Failf("C13/finalize", "block failed: %v", err)
			return v
		}
		tr := res.Resp.TxResults[0]
		ok := tr.Code == 0
		if ok && !withinLimit {
			v.Failf("C13/over-limit", "op %d: request accepted although cost %s exceeds the fee limit %s", i, total, limit)
			return v
		}
		if ok && !affordable {
			v.Failf("C13/unaffordable-accepted", "op %d: request accepted although payer holds %s and the cost is %s", i, expect[payer.Addr.String()], total)
			return v
		}
		if !ok && withinLimit && affordable {
			v.Count("converse_rejected", 1)
		}
		if ok {
			count++
			expect[payer.Addr.String()] = expect[payer.Addr.String()].Sub(total...)
			for k, ds := range c13Scripts[o.Script] {
				t := treas[ds-1].Addr.String()
				expect[t] = expect[t].Add(per[k]...)
				if moved[ds-1] && !per[k].IsZero() {
					paidAfterMove++
				}
			}
			req, rerr := ch.App.OracleKeeper.GetRequest(ch.Ctx(), oracletypes.RequestID(count))
			if rerr != nil {
				v.Failf("C13/request-missing", "request %d: %v", count, rerr)
				return v
			}
			if want := limit.Sub(total...); !req.FeeLimit.Equal(want) {
				v.Failf("C13/remaining-limit", "request %d stores remaining fee limit %s, expected limit - paid = %s", count, req.FeeLimit, want)
				return v
			}
		}
		for _, a := range track {
			got := ch.App.BankKeeper.GetAllBalances(ch.Ctx(), a.Addr)
			if !got.Equal(expect[a.Addr.String()]) {
				v.Failf("C13/balance", "op %d (accepted=%v, cost %s, limit %s): %s holds %s, fee model expects %s", i, ok, total, limit, a.Name, got, expect[a.Addr.String()])
				return v
			}
		}
		if got := ch.App.OracleKeeper.GetRequestCount(ch.Ctx()); got != count {
			v.Failf("C13/count", "request count %d, model %d", got, count)
			return v
		}
	}
	if boundary {
		v.Class("oracle-fee-limit-boundary")
	}
	if midway {
		v.Class("balance-runs-out-midway")
	}
	v.Count("oracle_requests", int64(count))
	v.Count("data_source_edits", int64(edits))
	v.Count("treasury_moves", int64(treasuryMoves))
	v.Count("fees_paid_after_a_treasury_move", int64(paidAfterMove))
	if paidAfterMove > 0 {
		v.Class("fee-paid-after-treasury-moved-by-edit")
	}
	v.NonTrivial = boundary || midway
	return v
}

func TestC13Oracle(t *testing.T) { pbt.Check(t, "C13", genC13O, runC13O) }
