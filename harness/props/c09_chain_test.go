package props

// C09 on chain: the validators chosen for an oracle request equal the sampling specification applied to the
// eligible set (bonded, oracle-active, in the staking module's power order), the rolling seed, the request id and
// the chain id; too few eligible validators => the request is rejected and nothing changes.

import (
	"fmt"
	"strings"
	"testing"
	"time"

	"pgregory.net/rapid"

	sdk "github.com/cosmos/cosmos-sdk/types"
	stakingtypes "github.com/cosmos/cosmos-sdk/x/staking/types"

	oracletypes "github.com/bandprotocol/chain/v3/x/oracle/types"

	"verif/harness/gen"
	"verif/harness/pbt"
	"verif/harness/ref"
	"verif/harness/sim"
)

type c09cOp struct {
	K   string `json:"k"` // request | end | activate | tries (governance sets SamplingTryCount to Ask)
	Ask int    `json:"ask,omitempty"`
	Val int    `json:"val,omitempty"`
	Dt  int    `json:"dt,omitempty"`
}

type c09cCase struct {
	ChainID string   `json:"chain_id"`
	Tokens  []int64  `json:"tokens"`
	Active  []bool   `json:"active"`
	Tries   uint64   `json:"tries"`
	Ops     []c09cOp `json:"ops"`
}

func genC09Chain(rt *rapid.T) c09cCase {
	n := gen.Range(rt, "n", 1, 8)
	c := c09cCase{ChainID: rapid.StringMatching(`[a-z]{3,8}-[0-9]{1,3}`).Draw(rt, "chain"), Tries: uint64(gen.OneOf(rt, "tries", 1, 2, 3, 3, 4, 5, 13, 14, 30, 100))}
	kind := gen.Uniform(rt, "wk", 4)
	for i := 0; i < n; i++ {
		var tok int64
		switch kind {
		case 0:
			tok = 5_000_000
		case 1:
			tok = int64(gen.Range(rt, "tok", 1, 9)) * 1_000_000
		case 2:
			tok = int64(gen.Range(rt, "tok", 1, 1000)) * 1_000_000
			if i == 0 {
				tok = 900_000_000_000
			}
		default:
			tok = rapid.Int64Range(1_000_000, 4_000_000_000_000).Draw(rt, "tok")
		}
		c.Tokens = append(c.Tokens, tok)
		c.Active = append(c.Active, gen.Chance(rt, "act", 8, 10))
	}
	nops := rapid.IntRange(6, 30).Draw(rt, "nops")
	for i := 0; i < nops; i++ {
		switch gen.Pick(rt, "op", 60, 30, 10, 6) {
		case 0:
			ask := gen.Range(rt, "ask", 1, n)
			if gen.Chance(rt, "toomany", 1, 12) {
				ask = n + 1
			}
			c.Ops = append(c.Ops, c09cOp{K: "request", Ask: ask})
		case 1:
			c.Ops = append(c.Ops, c09cOp{K: "end", Dt: gen.OneOf(rt, "dt", 1, 1, 2, 7)})
		case 2:
			c.Ops = append(c.Ops, c09cOp{K: "activate", Val: gen.Uniform(rt, "val", n)})
		case 3:
			// governance changes the try count in flight, also to values just outside the valid range 1..100
			c.Ops = append(c.Ops, c09cOp{K: "tries", Ask: gen.OneOf(rt, "newtries", 0, 0, 1, 2, 13, 100, 101)})
		}
	}
	return c
}

func runC09Chain(c c09cCase) *pbt.Verdict {
	v := &pbt.Verdict{}
	n := len(c.Tokens)
	vals := make([]sim.ValSpec, n)
	for i := range vals {
		vals[i] = sim.ValSpec{Tokens: c.Tokens[i]}
	}
	op := oracletypes.DefaultParams()
	op.SamplingTryCount = c.Tries
	op.ExpirationBlockCount = 1000
	ch, err := sim.New(sim.Config{ChainID: c.ChainID, NumAccounts: 2, Validators: vals, Oracle: &op,
		DataSources: []sim.DSSpec{{Exec: []byte("ds-one-executable-bytes-0123456789abcdef"), Treasury: 1}},
		Scripts:     [][]byte{sim.ScriptAsk([]int{1}, "ok")}}, 0)
	if err != nil {
		v.Failf("harness", "sim.New: %v", err)
		return v
	}
	defer ch.Close()
	active := map[string]bool{}
	var txs [][]byte
	for i, a := range c.Active {
		if a {
			txs = append(txs, ch.SignTx(ch.Vals[i], oracletypes.NewMsgActivate(ch.Vals[i].Val)))
			active[ch.Vals[i].Val.String()] = true
		}
	}
	if _, err := ch.Block(txs, time.Second); err != nil {
		v.Failf("harness", "activation: %v", err)
		return v
	}
	// eligible set in the SDK's own power order (trusted base)
	eligible := func() (ops []string, pw []uint64) {
		ctx := ch.Ctx()
		_ = ch.App.StakingKeeper.IterateBondedValidatorsByPower(ctx, func(_ int64, val stakingtypes.ValidatorI) bool {
			if active[val.GetOperator()] {
				ops = append(ops, val.GetOperator())
				pw = append(pw, val.GetTokens().Uint64())
			}
			return false
		})
		return
	}
	type pend struct {
		op  c09cOp
		act string
	}
	var block []pend
	var blockTxs [][]byte
	count := uint64(0)
	nontrivial, errs := false, 0
	tries := c.Tries // the try count in force
	triesChanged := false
	flush := func(dt int) bool {
		elOps, elPw := eligible() // state before the block (activations take effect when their tx runs)
		res, err := ch.Block(blockTxs, time.Duration(dt)*time.Second)
		if err != nil {
			v.Failf("C09/finalize", "block failed: %v", err)
			return false
		}
		seed := ch.App.RollingseedKeeper.GetRollingSeed(ch.Ctx())
		for i, p := range block {
			tr := res.Resp.TxResults[i]
			if p.op.K == "activate" {
				if tr.Code == 0 {
					active[p.act] = true
					elOps, elPw = nil, nil
					// recompute eligible in power order with the new member: order comes from the staking index
					ctx := ch.Ctx()
					_ = ch.App.StakingKeeper.IterateBondedValidatorsByPower(ctx, func(_ int64, val stakingtypes.ValidatorI) bool {
						if active[val.GetOperator()] {
							elOps = append(elOps, val.GetOperator())
							elPw = append(elPw, val.GetTokens().Uint64())
						}
						return false
					})
				}
				continue
			}
			if p.op.Ask > len(elOps) {
				if tr.Code == 0 {
					v.Failf("C09/too-few-accepted", "request asking %d validators accepted with only %d eligible", p.op.Ask, len(elOps))
					return false
				}
				errs++
				continue
			}
			if tr.Code != 0 {
				v.Count("request_rejected_other", 1)
				continue
			}
			count++
			var got []string
			for _, e := range tr.Events {
				if e.Type == "request" {
					got = sim.Attrs(e, "validator")
				}
			}
			d, derr := ref.NewDrbg(seed, sdk.Uint64ToBigEndian(count), []byte(c.ChainID))
			if derr != nil {
				v.Failf("harness", "drbg: %v", derr)
				return false
			}
			idx := ref.ChooseSomeMaxWeightRef(d, elPw, p.op.Ask, int(tries))
			var want []string
			for _, i := range idx {
				want = append(want, elOps[i])
			}
			if fmt.Sprint(got) != fmt.Sprint(want) {
				v.Failf("C09/committee", "request %d (ask %d, %d eligible, tries %d): chain chose %v, sampling specification gives %v", count, p.op.Ask, len(elOps), tries, got, want)
				return false
			}
			seen := map[string]bool{}
			for _, g := range got {
				if seen[g] || !active[g] {
					v.Failf("C09/eligibility", "request %d: chosen %v contains a duplicate or a non-eligible validator", count, got)
					return false
				}
				seen[g] = true
			}
			req, rerr := ch.App.OracleKeeper.GetRequest(ch.Ctx(), oracletypes.RequestID(count))
			if rerr != nil || fmt.Sprint(req.RequestedValidators) != fmt.Sprint(want) {
				v.Failf("C09/stored-committee", "request %d stores %v, specification %v (%v)", count, req.RequestedValidators, want, rerr)
				return false
			}
			uniform := true
			for _, x := range elPw {
				if x != elPw[0] {
					uniform = false
				}
			}
			if len(elOps) >= 4 && !uniform && p.op.Ask < len(elOps) {
				nontrivial = true
			}
		}
		if got := ch.App.OracleKeeper.GetRequestCount(ch.Ctx()); got != count {
			v.Failf("C09/count", "request count %d, model %d (a rejected request changed state?)", got, count)
			return false
		}
		block, blockTxs = nil, nil
		return true
	}
	for _, o := range c.Ops {
		switch o.K {
		case "request":
			msg := oracletypes.NewMsgRequestData(1, []byte("c"), uint64(o.Ask), 1, "c", sdk.NewCoins(sdk.NewInt64Coin("uband", 1000)), 100_000, 1_000_000, ch.Users[0].Addr, oracletypes.ENCODER_UNSPECIFIED)
			block = append(block, pend{op: o})
			blockTxs = append(blockTxs, ch.SignTx(ch.Users[0], msg))
		case "activate":
			a := ch.Vals[o.Val%n]
			block = append(block, pend{op: o, act: a.Val.String()})
			blockTxs = append(blockTxs, ch.SignTx(a, oracletypes.NewMsgActivate(a.Val)))
		case "end":
			if !flush(o.Dt) {
				return v
			}
		case "tries":
			if len(blockTxs) > 0 && !flush(1) {
				return v
			}
			np := ch.App.OracleKeeper.GetParams(ch.Ctx())
			np.SamplingTryCount = uint64(o.Ask)
			passed, gres, gerr := ch.GovExec(oracletypes.NewMsgUpdateParams(sim.GovAuthority(), np))
			if gerr != nil && len(gres) == 1 && strings.Contains(gerr.Error(), "submit proposal failed") {
				passed, gerr = false, nil
				v.Count("tries_proposal_refused", 1)
			}
			if gerr != nil {
				v.Failf("C09/finalize", "governance change of the try count to %d failed: %v", o.Ask, gerr)
				return v
			}
			if passed {
				// (a value outside the documented range 1..100 is not judged here: the committees chosen under it are)
				if o.Ask < 1 || o.Ask > 100 {
					v.Count("try_count_outside_1_100_accepted", 1)
				}
				tries = uint64(o.Ask)
				triesChanged = true
			}
		}
	}
	flush(1)
	v.NonTrivial = nontrivial
	if errs > 0 {
		v.Class("too-few-eligible-rejected")
	}
	if c.Tries > 1 {
		v.Class("chain:tries>1")
	}
	if triesChanged {
		v.Class("chain:try-count-changed-by-governance")
	}
	v.Count("chain_requests", int64(count))
	return v
}

func TestC09Chain(t *testing.T) { pbt.Check(t, "C09", genC09Chain, runC09Chain) }
