package props

// C02 (slashing stage): blocks that carry evidence of validator misbehaviour (double signing) or missed votes
// (downtime) must finalize too, whatever delegations, redelegations and restake locks exist.

import (
	"strings"
	"testing"
	"time"

	abci "github.com/cometbft/cometbft/abci/types"
	"pgregory.net/rapid"

	"cosmossdk.io/math"

	sdk "github.com/cosmos/cosmos-sdk/types"
	stakingtypes "github.com/cosmos/cosmos-sdk/x/staking/types"

	feedstypes "github.com/bandprotocol/chain/v3/x/feeds/types"
	restaketypes "github.com/bandprotocol/chain/v3/x/restake/types"

	"verif/harness/gen"
	"verif/harness/pbt"
	"verif/harness/sim"
)

type c02sOp struct {
	K    string `json:"k"` // delegate|redelegate|undelegate|vote|stake|evidence|end
	User int    `json:"user,omitempty"`
	Val  int    `json:"val,omitempty"`
	To   int    `json:"to,omitempty"`
	Amt  int64  `json:"amt,omitempty"`
	Frac int    `json:"frac,omitempty"` // vote power as a fraction of total power: 0 = all, 1 = half, 2 = all+1
	Back int    `json:"back,omitempty"` // evidence: infraction height = current - back
}

type c02sCase struct {
	NVals int      `json:"nvals"`
	Ops   []c02sOp `json:"ops"`
}

func genC02S(rt *rapid.T) c02sCase {
	c := c02sCase{NVals: gen.Range(rt, "nvals", 2, 4)}
	n := rapid.IntRange(6, 30).Draw(rt, "nops")
	for i := 0; i < n; i++ {
		switch gen.Pick(rt, "op", 20, 18, 8, 18, 6, 12, 18) {
		case 0:
			c.Ops = append(c.Ops, c02sOp{K: "delegate", User: gen.Uniform(rt, "u", 3), Val: gen.Uniform(rt, "v", c.NVals), Amt: int64(gen.OneOf(rt, "amt", 1, 1000, 1_000_000, 7_000_000))})
		case 1:
			c.Ops = append(c.Ops, c02sOp{K: "redelegate", User: gen.Uniform(rt, "u", 3), Val: gen.Uniform(rt, "v", c.NVals), To: gen.Uniform(rt, "to", c.NVals), Frac: gen.Uniform(rt, "f", 3)})
		case 2:
			c.Ops = append(c.Ops, c02sOp{K: "undelegate", User: gen.Uniform(rt, "u", 3), Val: gen.Uniform(rt, "v", c.NVals), Frac: gen.Uniform(rt, "f", 3)})
		case 3:
			c.Ops = append(c.Ops, c02sOp{K: "vote", User: gen.Uniform(rt, "u", 3), Frac: gen.Uniform(rt, "f", 3)})
		case 4:
			c.Ops = append(c.Ops, c02sOp{K: "stake", User: gen.Uniform(rt, "u", 3), Amt: int64(gen.OneOf(rt, "amt", 1, 5000))})
		case 5:
			c.Ops = append(c.Ops, c02sOp{K: "evidence", Val: gen.Uniform(rt, "v", c.NVals), Back: gen.OneOf(rt, "back", 1, 2, 3, 5, 8)})
		case 6:
			c.Ops = append(c.Ops, c02sOp{K: "end"})
		}
	}
	return c
}

func runC02S(c c02sCase) *pbt.Verdict {
	v := &pbt.Verdict{}
	vals := make([]sim.ValSpec, c.NVals)
	for i := range vals {
		vals[i] = sim.ValSpec{Tokens: int64(20+10*i) * 1_000_000}
	}
	rp := restaketypes.DefaultParams()
	rp.AllowedDenoms = []string{"uband"}
	ch, err := sim.New(sim.Config{NumAccounts: 3, Validators: vals, Restake: &rp}, 0)
	if err != nil {
		v.Failf("harness", "sim.New: %v", err)
		return v
	}
	defer ch.Close()
	var txs [][]byte
	slashed, redelegated, locked := false, false, false
	step := func() bool {
		_, err := ch.Block(txs, time.Second)
		txs = nil
		if err != nil {
			sig := "C02/finalize-error"
			if strings.Contains(err.Error(), "unable to undelegate") {
				sig = sigSlashLock
			}
			v.Failf(sig, "block %d could not be finalized: %v", ch.Height+1, err)
			return false
		}
		return true
	}
	for _, o := range c.Ops {
		ctx := ch.Ctx()
		u := ch.Users[o.User%3]
		val := ch.Vals[o.Val%c.NVals]
		switch o.K {
		case "delegate":
			txs = append(txs, ch.SignTx(u, stakingtypes.NewMsgDelegate(u.Addr.String(), val.Val.String(), sdk.NewInt64Coin("uband", o.Amt))))
		case "redelegate", "undelegate":
			del, derr := ch.App.StakingKeeper.GetDelegation(ctx, u.Addr, val.Val)
			if derr != nil {
				continue
			}
			amt := del.Shares.TruncateInt()
			if o.Frac == 1 {
				amt = amt.QuoRaw(2)
			}
			if !amt.IsPositive() {
				continue
			}
			if o.K == "redelegate" {
				to := ch.Vals[o.To%c.NVals]
				if to.Val.Equals(val.Val) {
					continue
				}
				txs = append(txs, ch.SignTx(u, stakingtypes.NewMsgBeginRedelegate(u.Addr.String(), val.Val.String(), to.Val.String(), sdk.NewCoin("uband", amt))))
				redelegated = true
			} else {
				txs = append(txs, ch.SignTx(u, stakingtypes.NewMsgUndelegate(u.Addr.String(), val.Val.String(), sdk.NewCoin("uband", amt))))
			}
		case "stake":
			txs = append(txs, ch.SignTx(u, restaketypes.NewMsgStake(u.Addr, sdk.NewCoins(sdk.NewInt64Coin("uband", o.Amt)))))
		case "vote":
			pw, perr := ch.App.RestakeKeeper.GetTotalPower(ctx, u.Addr)
			if perr != nil || !pw.IsPositive() || !pw.IsInt64() {
				continue
			}
			p := pw
			if o.Frac == 1 {
				p = pw.QuoRaw(2)
			} else if o.Frac == 2 {
				p = pw.Add(math.OneInt())
			}
			if !p.IsPositive() {
				continue
			}
			txs = append(txs, ch.SignTx(u, feedstypes.NewMsgVote(u.Addr.String(), []feedstypes.Signal{{ID: "S" + string(rune('A'+o.User%3)), Power: p.Int64()}})))
			locked = true
		case "evidence":
			if pbt.IsExcluded("C02", sigSlashLock) && c02sWouldHitKnownFinding(ch, o.Val%c.NVals) {
				// known finding: slashing the source validator of a redelegation whose delegator holds a restake lock
				v.Count("excluded_known", 1)
				continue
			}
			h := ch.Height - int64(o.Back)
			if h < 1 {
				h = 1
			}
			i := o.Val % c.NVals
			ch.Misbehavior = append(ch.Misbehavior, abci.Misbehavior{Type: abci.MisbehaviorType_DUPLICATE_VOTE,
				Validator: abci.Validator{Address: ch.ConsKeys[i].PubKey().Address(), Power: vals[i].Tokens / 1_000_000},
				Height:    h, Time: ch.Time.Add(-time.Duration(o.Back) * time.Second), TotalVotingPower: 100})
			slashed = true
			if !step() {
				return v
			}
		case "end":
			if !step() {
				return v
			}
		}
	}
	if !step() {
		return v
	}
	if slashed {
		v.Class("evidence")
	}
	if slashed && redelegated && locked {
		v.Class("evidence+redelegation+lock")
	}
	v.NonTrivial = slashed && redelegated && locked
	return v
}

const sigSlashLock = "C02/slash-blocked-by-restake-lock"

// c02sWouldHitKnownFinding: some delegator that redelegated away from validator i holds a restake lock.
func c02sWouldHitKnownFinding(ch *sim.Chain, i int) bool {
	ctx := ch.Ctx()
	reds, err := ch.App.StakingKeeper.GetRedelegationsFromSrcValidator(ctx, ch.Vals[i].Val)
	if err != nil {
		return false
	}
	for _, r := range reds {
		addr, aerr := sdk.AccAddressFromBech32(r.DelegatorAddress)
		if aerr != nil {
			continue
		}
		if len(ch.App.RestakeKeeper.GetLocksByAddress(ctx, addr)) > 0 {
			return true
		}
	}
	return false
}

func TestC02Slash(t *testing.T) { pbt.Check(t, "C02", genC02S, runC02S) }
