package props

import (
	oracletypes "github.com/bandprotocol/chain/v3/x/oracle/types"
	"testing"
	"time"

	"verif/harness/sim"
)

func TestSimSmoke(t *testing.T) {
	t0 := time.Now()
	c, err := sim.New(sim.Config{NumAccounts: 3, Validators: []sim.ValSpec{{Tokens: 100_000_000}, {Tokens: 50_000_000}},
		Scripts: [][]byte{sim.ScriptAsk([]int{1, 1}, "ok")}, DataSources: []sim.DSSpec{{Exec: []byte("hello"), Treasury: 1}}}, 0)
	if err != nil {
		t.Fatal(err)
	}
	defer c.Close()
	for i := 0; i < 10; i++ {
		if _, err := c.Block(nil, time.Second); err != nil {
			t.Fatal(err)
		}
	}
	t.Logf("height %d hash %x in %v", c.Height, c.AppHash, time.Since(t0))
}

// TestSimReimport: a genesis export/import round trip in the middle of a history keeps the chain usable.
func TestSimReimport(t *testing.T) {
	c, err := sim.New(sim.Config{NumAccounts: 3, Validators: []sim.ValSpec{{Tokens: 100_000_000}, {Tokens: 50_000_000}},
		Scripts: [][]byte{sim.ScriptAsk([]int{1, 1}, "ok")}, DataSources: []sim.DSSpec{{Exec: []byte("hello"), Treasury: 1}}}, 0)
	if err != nil {
		t.Fatal(err)
	}
	defer c.Close()
	act := func() {
		var txs [][]byte
		for _, v := range c.Vals {
			txs = append(txs, c.SignTx(v, oracletypes.NewMsgActivate(v.Val)))
		}
		res, err := c.Block(txs, time.Second)
		if err != nil {
			t.Fatal(err)
		}
		for i, tr := range res.Resp.TxResults {
			t.Logf("height %d tx %d code %d %s", res.Height, i, tr.Code, tr.Log)
		}
	}
	act()
	h := c.Height
	res, err := c.Reimport(time.Second)
	if err != nil {
		t.Fatal(err)
	}
	if res.Height != h+1 {
		t.Fatalf("height after reimport %d, want %d", res.Height, h+1)
	}
	// note: x/oracle exports only params, data sources and oracle scripts - validator statuses, requests and reports
	// do not survive the round trip (by design of its ExportGenesis), so every validator has to activate again
	act() // sequence numbers are still right after the round trip
	for i := 0; i < 5; i++ {
		if _, err := c.Block(nil, time.Second); err != nil {
			t.Fatal(err)
		}
	}
}
