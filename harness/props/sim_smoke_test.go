package props

import (
	"testing"
	"time"

	"verif/harness/sim"
)

func TestSimSmoke(t *testing.T) {
	t0 := time.Now()
	c, err := sim.New(sim.Config{NumAccounts: 3, Validators: []sim.ValSpec{{Tokens: 100_000_000}, {Tokens: 50_000_000}},
		Scripts: [][]byte{sim.ScriptAsk([]int{1, 1}, "ok")}, DataSources: []sim.DSSpec{{Exec: []byte("hello"), Treasury: 1}}}, 0)
	if err != nil {
		t.Fatal(err)
	}
	defer c.Close()
	for i := 0; i < 10; i++ {
		if _, err := c.Block(nil, time.Second); err != nil {
			t.Fatal(err)
		}
	}
	t.Logf("height %d hash %x in %v", c.Height, c.AppHash, time.Since(t0))
}
