package props

// C02 (parameter stage): module parameter values accepted by parameter validation, including edge values,
// must never make block execution fail. Parameters are set in genesis (validated by each module's
// Params.Validate through InitChain's ValidateGenesis path of the harness below) and a short, busy history
// touching every custom module is executed on the replicas.

import (
	"os"
	"fmt"
	"testing"
	"time"

	"cosmossdk.io/math"
	"pgregory.net/rapid"

	sdk "github.com/cosmos/cosmos-sdk/types"
	banktypes "github.com/cosmos/cosmos-sdk/x/bank/types"

	bandtsstypes "github.com/bandprotocol/chain/v3/x/bandtss/types"
	feedstypes "github.com/bandprotocol/chain/v3/x/feeds/types"
	oracletypes "github.com/bandprotocol/chain/v3/x/oracle/types"
	tsstypes "github.com/bandprotocol/chain/v3/x/tss/types"
	tunneltypes "github.com/bandprotocol/chain/v3/x/tunnel/types"

	"verif/harness/gen"
	"verif/harness/pbt"
	"verif/harness/sim"
	"verif/harness/tssworld"
)

type c02pCase struct {
	OracleRewardPct  uint64 `json:"oracle_reward_pct"`
	TSSRewardPct     uint64 `json:"tss_reward_pct"`
	PriceQuorum      string `json:"price_quorum"`
	SamplingTry      uint64 `json:"sampling_try"`
	Expiration       uint64 `json:"expiration"`
	MaxAsk           uint64 `json:"max_ask"`
	PenaltyNs        uint64 `json:"oracle_penalty_ns"`
	SigningPeriod    uint64 `json:"signing_period"`
	MaxAttempt       uint64 `json:"max_attempt"`
	MaxDE            uint64 `json:"max_de"`
	CreationPeriod   uint64 `json:"creation_period"`
	FeedsGrace       int64  `json:"feeds_grace"`
	FeedsCooldown    int64  `json:"feeds_cooldown"`
	FeedsMinInterval int64  `json:"feeds_min_interval"`
	FeedsMaxInterval int64  `json:"feeds_max_interval"`
	FeedsUpdate      int64  `json:"feeds_update_interval"`
	FeedsMaxFeeds    uint64 `json:"feeds_max_feeds"`
	FeedsStep        int64  `json:"feeds_power_step"`
	TunnelMinIntv    uint64 `json:"tunnel_min_interval"`
	CommunityTax     string `json:"community_tax"`
	Blocks           int    `json:"blocks"`
	Dt               []int  `json:"dt"`
	NoReporter       bool   `json:"no_reporter"`
	FeePerSigner     string `json:"fee_per_signer,omitempty"` // bandtss FeePerSigner in uband ("" = default); amounts near 2^256 pass validation
	ReportAll        bool   `json:"report_all,omitempty"`     // the validators report every request made so far, not only the first
}

func edgeU64(rt *rapid.T, label string, normal ...uint64) uint64 {
	if gen.Chance(rt, label+"-edge", 1, 4) {
		return gen.OneOf(rt, label+"-e", uint64(0), 1, 2, 99, 100, 101, 200, 1<<32, 1<<63-1, 1<<63, ^uint64(0))
	}
	return gen.OneOf(rt, label, normal...)
}

func genC02P(rt *rapid.T) c02pCase {
	c := c02pCase{
		OracleRewardPct:  edgeU64(rt, "opct", 0, 50, 70, 100),
		TSSRewardPct:     edgeU64(rt, "tpct", 0, 10, 50, 100),
		PriceQuorum:      gen.OneOf(rt, "quorum", "0", "0", "0.000000000000000001", "0.3", "0.5", "1", "1"),
		SamplingTry:      gen.OneOf[uint64](rt, "try", 1, 1, 3, 3, 3, 10, 10, 100, 100, 100, 0, 101),
		Expiration:       gen.OneOf[uint64](rt, "exp", 1, 2, 5, 100),
		MaxAsk:           gen.OneOf[uint64](rt, "maxask", 1, 2, 16, ^uint64(0)),
		PenaltyNs:        gen.OneOf[uint64](rt, "pen", 0, 1, 1_000_000_000, 1<<63-1, 1<<63, ^uint64(0)),
		SigningPeriod:    gen.OneOf[uint64](rt, "speriod", 1, 2, 100, 1<<63-1, ^uint64(0)),
		MaxAttempt:       gen.OneOf[uint64](rt, "matt", 1, 2, 5, ^uint64(0)),
		MaxDE:            gen.OneOf[uint64](rt, "maxde", 1, 5, 300),
		CreationPeriod:   gen.OneOf[uint64](rt, "cperiod", 1, 3, 30000, ^uint64(0)),
		FeedsGrace:       gen.OneOf[int64](rt, "grace", 1, 30, 1<<62),
		FeedsCooldown:    gen.OneOf[int64](rt, "cool", 1, 30, 1<<62),
		FeedsMinInterval: gen.OneOf[int64](rt, "fmin", 1, 60, 1<<62),
		FeedsMaxInterval: gen.OneOf[int64](rt, "fmax", 1, 3600, 1<<62),
		FeedsUpdate:      gen.OneOf[int64](rt, "fupd", 1, 2, 86400, 1<<62),
		FeedsMaxFeeds:    gen.OneOf[uint64](rt, "fmaxfeeds", 0, 1, 300, ^uint64(0)),
		FeedsStep:        gen.OneOf[int64](rt, "fstep", 1, 1000, 1<<62),
		TunnelMinIntv:    gen.OneOf[uint64](rt, "tmin", 1, 60),
		CommunityTax:     gen.OneOf(rt, "tax", "0", "0.02", "0.5", "1"),
		Blocks:           gen.Range(rt, "blocks", 4, 9),
		NoReporter:       gen.Chance(rt, "noreporter", 1, 2),
		FeePerSigner: gen.OneOf(rt, "feepersigner", "", "", "0", "1", "57896044618658097711785492504343953926634992332820282019728792003956564819968",
			"115792089237316195423570985008687907853269984665640564039457584007913129639935"),
		ReportAll: gen.Chance(rt, "reportall", 1, 2),
	}
	for i := 0; i < c.Blocks; i++ {
		c.Dt = append(c.Dt, gen.OneOf(rt, "dt", 0, 1, 1, 3, 60, 100000))
	}
	return c
}

func runC02P(c c02pCase) *pbt.Verdict {
	v := &pbt.Verdict{}
	op := oracletypes.DefaultParams()
	op.OracleRewardPercentage, op.SamplingTryCount, op.ExpirationBlockCount, op.MaxAskCount, op.InactivePenaltyDuration = c.OracleRewardPct, c.SamplingTry, c.Expiration, c.MaxAsk, c.PenaltyNs
	tp := tsstypes.DefaultParams()
	tp.SigningPeriod, tp.MaxSigningAttempt, tp.MaxDESize, tp.CreationPeriod = c.SigningPeriod, c.MaxAttempt, c.MaxDE, c.CreationPeriod
	bp := bandtsstypes.DefaultParams()
	bp.RewardPercentage = c.TSSRewardPct
	if c.FeePerSigner != "" {
		amt, ok := math.NewIntFromString(c.FeePerSigner)
		if !ok {
			v.Failf("harness", "malformed fee per signer %q", c.FeePerSigner)
			return v
		}
		bp.FeePerSigner = sdk.NewCoins()
		if amt.IsPositive() {
			bp.FeePerSigner = sdk.NewCoins(sdk.NewCoin("uband", amt))
		}
	}
	fp := feedstypes.DefaultParams()
	fp.PriceQuorum, fp.GracePeriod, fp.CooldownTime, fp.MinInterval, fp.MaxInterval = c.PriceQuorum, c.FeedsGrace, c.FeedsCooldown, c.FeedsMinInterval, c.FeedsMaxInterval
	fp.CurrentFeedsUpdateInterval, fp.MaxCurrentFeeds, fp.PowerStepThreshold = c.FeedsUpdate, c.FeedsMaxFeeds, c.FeedsStep
	fp.Admin = sim.NewAccount("user0").Addr.String()
	tnp := tunneltypes.DefaultParams()
	tnp.MinInterval = c.TunnelMinIntv
	tnp.MinDeposit = sdk.NewCoins(sdk.NewInt64Coin("uband", 10))
	// only parameter sets the modules' own validation accepts are in the domain
	for name, err := range map[string]error{"oracle": op.Validate(), "tss": tp.Validate(), "bandtss": bp.Validate(), "feeds": fp.Validate(), "tunnel": tnp.Validate()} {
		if err != nil {
			v.Class("rejected-by-validation:" + name)
			return v
		}
	}
	tax := math.LegacyMustNewDecFromStr(c.CommunityTax)
	cfg := sim.Config{NumAccounts: 6, Validators: []sim.ValSpec{{Tokens: 10_000_000}, {Tokens: 3_000_000}},
		Oracle: &op, TSS: &tp, Bandtss: &bp, Feeds: &fp, Tunnel: &tnp, CommunityTax: &tax,
		Balance:     sdk.NewCoins(sdk.NewInt64Coin("uband", 1_000_000_000_000)),
		DataSources: []sim.DSSpec{{Exec: []byte("ds-one-executable-bytes-0123456789abcdef"), Treasury: 0}},
		Scripts:     [][]byte{sim.ScriptAsk([]int{1}, "r")},
	}
	var addrs []string
	for i := 0; i < 3; i++ {
		addrs = append(addrs, sim.NewAccount(fmt.Sprintf("user%d", i)).Addr.String())
	}
	grp := tssworld.NewGroup(1, 2, addrs, "c02p")
	wallet := tssworld.NewWallet()
	initDE := 3
	if uint64(initDE) > c.MaxDE {
		initDE = int(c.MaxDE)
	}
	tssworld.GenesisFor(&cfg, []*tssworld.Group{grp}, 0, wallet, initDE)
	cfg.FeedsVotes = []feedstypes.Vote{{Voter: sim.NewAccount("user5").Addr.String(), Signals: []feedstypes.Signal{{ID: "S1", Power: 1 << 62}, {ID: "S2", Power: 5000}}}}
	ch, err := sim.New(cfg, 0)
	if err != nil {
		// a genesis the modules validated but the app cannot start from is a totality failure as well
		v.Failf("C02/genesis-unusable", "validated parameters make InitChain/first block fail: %v", err)
		return v
	}
	defer ch.Close()
	u := ch.Users
	val0, val1 := ch.Vals[0], ch.Vals[1]
	step := func(dt int, txs ...[]byte) bool {
		res, err := ch.Block(txs, time.Duration(dt)*time.Second)
		if err != nil {
			v.Failf("C02/finalize-error", "validated parameters %+v: block %d failed: %v", c, ch.Height+1, err)
			return false
		}
		for _, tr := range res.Resp.TxResults {
			if tr.Code == 0 {
				v.Count("tx_ok", 1)
			} else {
				v.Count(fmt.Sprintf("tx_rejected_%s/%d", tr.Codespace, tr.Code), 1)
				if os.Getenv("VERIF_C02P_DEBUG") != "" {
					fmt.Printf("DEBUG height %d tx rejected: %s\n", res.Height, tr.Log)
				}
			}
		}
		return true
	}
	// fees so that the fee pool is not empty
	fee := sdk.NewCoins(sdk.NewInt64Coin("uband", 12345))
	tx := func(a *sim.Account, msgs ...sdk.Msg) []byte { return ch.SignTxOpts(a, 60_000_000, fee, 0, msgs...) }
	if !step(1, tx(val0, oracletypes.NewMsgActivate(val0.Val)), tx(val1, oracletypes.NewMsgActivate(val1.Val))) {
		return v
	}
	sd := []tunneltypes.SignalDeviation{tunneltypes.NewSignalDeviation("S1", 100, 200)}
	tmsg, _ := tunneltypes.NewMsgCreateTSSTunnel(sd, 60, "eth", "0x1", feedstypes.ENCODER_FIXED_POINT_ABI, sdk.NewCoins(sdk.NewInt64Coin("uband", 10)), u[3].Addr.String())
	req := oracletypes.NewMsgRequestData(1, []byte("c"), 1, 1, "x", sdk.NewCoins(sdk.NewInt64Coin("uband", 1000)), 100000, 1000000, u[3].Addr, oracletypes.ENCODER_PROTO)
	if !step(c.Dt[0], tx(u[3], tmsg), tx(u[3], req)) {
		return v
	}
	if tn, err := ch.App.TunnelKeeper.GetTunnel(ch.Ctx(), 1); err == nil {
		fund := banktypes.NewMsgSend(u[4].Addr, sdk.MustAccAddressFromBech32(tn.FeePayer), sdk.NewCoins(sdk.NewInt64Coin("uband", 1_000_000)))
		if !step(c.Dt[1], tx(u[4], fund), tx(u[3], tunneltypes.NewMsgActivate(1, u[3].Addr.String()))) {
			return v
		}
	}
	for i := 2; i < c.Blocks; i++ {
		var txs [][]byte
		ts := ch.Time.Add(time.Duration(c.Dt[i]) * time.Second).Unix()
		if !c.NoReporter {
			for _, vv := range []*sim.Account{val0, val1} {
				txs = append(txs, tx(vv, feedstypes.NewMsgSubmitSignalPrices(vv.Val.String(), ts, []feedstypes.SignalPrice{
					{Status: feedstypes.SIGNAL_PRICE_STATUS_AVAILABLE, SignalID: "S1", Price: uint64(1000 + 37*i)},
					{Status: feedstypes.SIGNAL_PRICE_STATUS_AVAILABLE, SignalID: "S2", Price: uint64(5 + i)}})))
			}
		}
		switch i % 4 {
		case 0:
			txs = append(txs, tx(u[4], tssworld.TextRequest(u[4].Addr, []byte("hello"), sdk.NewCoins(sdk.NewInt64Coin("uband", 1000)))))
		case 1:
			nreq := oracletypes.RequestID(1)
			if c.ReportAll {
				nreq = oracletypes.RequestID(ch.App.OracleKeeper.GetRequestCount(ch.Ctx()))
			}
			for id := oracletypes.RequestID(1); id <= nreq; id++ {
				txs = append(txs, tx(val0, oracletypes.NewMsgReportData(id, []oracletypes.RawReport{oracletypes.NewRawReport(1, 0, []byte("d"))}, val0.Val)))
				txs = append(txs, tx(val1, oracletypes.NewMsgReportData(id, []oracletypes.RawReport{oracletypes.NewRawReport(1, 0, []byte("d"))}, val1.Val)))
			}
		case 2:
			txs = append(txs, tx(u[3], req))
			txs = append(txs, tx(u[3], tunneltypes.NewMsgTriggerTunnel(1, u[3].Addr.String())))
		case 3:
			m := ch.Users[i%3]
			txs = append(txs, tx(m, tsstypes.NewMsgSubmitDEs(wallet.Fresh(m.Addr.String(), 1), m.Addr.String())))
		}
		if !step(c.Dt[i], txs...) {
			return v
		}
	}
	if os.Getenv("VERIF_C02P_DEBUG") != "" {
		n := ch.App.OracleKeeper.GetRequestCount(ch.Ctx())
		for id := oracletypes.RequestID(1); id <= oracletypes.RequestID(n); id++ {
			r, rerr := ch.App.OracleKeeper.GetResult(ch.Ctx(), id)
			sr, serr := ch.App.OracleKeeper.GetSigningResult(ch.Ctx(), id)
			fmt.Printf("DEBUG request %d result %v (%v) signing %+v (%v)\n", id, r.ResolveStatus, rerr, sr, serr)
		}
	}
	if c.OracleRewardPct > 100 || c.TSSRewardPct > 100 {
		v.Class("reward-pct>100")
	}
	if c.PriceQuorum == "0" {
		v.Class("quorum-0")
	}
	if c.NoReporter {
		v.Class("no-reporter")
	}
	v.NonTrivial = true
	return v
}

func TestC02Params(t *testing.T) { pbt.Check(t, "C02", genC02P, runC02P) }
