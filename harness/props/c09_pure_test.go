package props

import (
	"fmt"
	"math"
	"testing"
	"verif/harness/gen"

	"pgregory.net/rapid"

	"github.com/bandprotocol/chain/v3/pkg/bandrng"

	"verif/harness/pbt"
	"verif/harness/ref"
)

type c09PureCase struct {
	Seed    []byte   `json:"seed"`
	Nonce   []byte   `json:"nonce"`
	ChainID string   `json:"chain_id"`
	Weights []uint64 `json:"weights"`
	Cnt     int      `json:"cnt"`
	Tries   int      `json:"tries"`
	Stream  int      `json:"stream"` // number of raw uint64 compared first
}

func genWeights(rt *rapid.T, n int) []uint64 {
	kind := rapid.IntRange(0, 7).Draw(rt, "wkind") // 6 and 7: power classes (twice the weight of the other families)
	if kind == 7 {
		kind = 6
	}
	w := make([]uint64, n)
	switch kind {
	case 6: // two or three power classes: several tries reach the same best total weight
		cls := []uint64{rapid.Uint64Range(1, 1000).Draw(rt, "c1"), rapid.Uint64Range(1, 1000).Draw(rt, "c2"), rapid.Uint64Range(1, 1000).Draw(rt, "c3")}
		k := rapid.IntRange(2, 3).Draw(rt, "ncls")
		for i := range w {
			w[i] = cls[rapid.IntRange(0, k-1).Draw(rt, "cls")]
		}
	case 0: // equal
		x := rapid.Uint64Range(1, 1_000_000).Draw(rt, "eq")
		for i := range w {
			w[i] = x
		}
	case 1: // small
		for i := range w {
			w[i] = rapid.Uint64Range(1, 5).Draw(rt, "w")
		}
	case 2: // one dominant
		for i := range w {
			w[i] = rapid.Uint64Range(1, 1000).Draw(rt, "w")
		}
		w[rapid.IntRange(0, n-1).Draw(rt, "dom")] = rapid.Uint64Range(1_000_000, 1_000_000_000_000).Draw(rt, "domw")
	case 3: // near 2^64 total without overflow
		cap := uint64(math.MaxUint64) / uint64(n)
		for i := range w {
			w[i] = cap - rapid.Uint64Range(0, 3).Draw(rt, "d")
		}
	case 4: // realistic token amounts
		for i := range w {
			w[i] = rapid.Uint64Range(1_000_000, 200_000_000_000_000).Draw(rt, "w")
		}
	default: // arbitrary but bounded so the total fits
		cap := uint64(math.MaxUint64) / uint64(n)
		for i := range w {
			w[i] = rapid.Uint64Range(1, cap).Draw(rt, "w")
		}
	}
	return w
}

func genC09Pure(rt *rapid.T) c09PureCase {
	n := rapid.IntRange(1, 60).Draw(rt, "n")
	c := c09PureCase{
		Seed:    rapid.SliceOfN(rapid.Byte(), 16, 48).Draw(rt, "seed"),
		Nonce:   rapid.SliceOfN(rapid.Byte(), 0, 24).Draw(rt, "nonce"),
		ChainID: rapid.StringMatching(`[a-z0-9\-]{1,30}`).Draw(rt, "chain"),
		Weights: genWeights(rt, n),
		Cnt:     rapid.IntRange(1, n).Draw(rt, "cnt"),
		Tries:   gen.OneOf(rt, "tries", 1, 1, 2, 3, 3, 4, 5, 12, 13, 14, 20, 50, 100), // SamplingTryCount may be anything in 1..100
		Stream:  rapid.IntRange(0, 4).Draw(rt, "stream"),
	}
	return c
}

func runC09Pure(c c09PureCase) *pbt.Verdict {
	v := &pbt.Verdict{}
	rng, err := bandrng.NewRng(c.Seed, c.Nonce, []byte(c.ChainID))
	if err != nil {
		v.Failf("C09/rng-init", "NewRng failed on valid input: %v", err)
		return v
	}
	d, _ := ref.NewDrbg(c.Seed, c.Nonce, []byte(c.ChainID))
	for i := 0; i < c.Stream; i++ {
		a, b := rng.NextUint64(), d.NextU64()
		if a != b {
			v.Failf("C09/drbg-stream", "stream element %d differs: impl %d ref %d", i, a, b)
			return v
		}
	}
	got := bandrng.ChooseSomeMaxWeight(rng, append([]uint64(nil), c.Weights...), c.Cnt, c.Tries)
	want := ref.ChooseSomeMaxWeightRef(d, c.Weights, c.Cnt, c.Tries)
	n := len(c.Weights)
	// validity
	if len(got) != c.Cnt {
		v.Failf("C09/size", "chosen %d, want exactly %d", len(got), c.Cnt)
		return v
	}
	seen := map[int]bool{}
	for _, g := range got {
		if g < 0 || g >= n || seen[g] {
			v.Failf("C09/distinct", "chosen %v not distinct/in range n=%d", got, n)
			return v
		}
		seen[g] = true
	}
	if fmt.Sprint(got) != fmt.Sprint(want) {
		v.Failf("C09/spec", "choice differs from sampling specification: impl %v ref %v", got, want)
		return v
	}
	// determinism: a second generator with the same inputs yields the same committee
	rng2, _ := bandrng.NewRng(c.Seed, c.Nonce, []byte(c.ChainID))
	for i := 0; i < c.Stream; i++ {
		rng2.NextUint64()
	}
	got2 := bandrng.ChooseSomeMaxWeight(rng2, append([]uint64(nil), c.Weights...), c.Cnt, c.Tries)
	if fmt.Sprint(got) != fmt.Sprint(got2) {
		v.Failf("C09/determinism", "two runs differ: %v vs %v", got, got2)
	}
	uniform := true
	for _, w := range c.Weights {
		if w != c.Weights[0] {
			uniform = false
		}
	}
	v.NonTrivial = n >= 4 && !uniform && c.Cnt < n
	if c.Tries > 1 {
		v.Class("tries>1")
	}
	if uniform {
		v.Class("equal-weights")
	}
	if c.Weights[0] > math.MaxUint64/uint64(n)-4 {
		v.Class("near-2^64-total")
	}
	if c.Cnt == n {
		v.Class("cnt=n")
	}
	return v
}

func TestC09Pure(t *testing.T) { pbt.Check(t, "C09", genC09Pure, runC09Pure) }
