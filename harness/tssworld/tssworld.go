// Package tssworld gives the stateful TSS properties (C03 chain, C05, C08, C10, C13, C18) a shared way to
// create threshold groups with known key material, register nonce pairs and produce members' partial
// signatures exactly as the cylinder daemon does (pkg/tss primitives in the same order).
package tssworld

import (
	"crypto/sha256"
	"encoding/binary"
	"fmt"
	"time"

	sdk "github.com/cosmos/cosmos-sdk/types"

	"github.com/bandprotocol/chain/v3/pkg/tss"
	bandtsstypes "github.com/bandprotocol/chain/v3/x/bandtss/types"
	tsstypes "github.com/bandprotocol/chain/v3/x/tss/types"

	"verif/harness/sim"
)

// ScalarFrom derives a valid non-zero scalar deterministically from the parts.
func ScalarFrom(parts ...any) tss.Scalar {
	for ctr := uint32(0); ; ctr++ {
		h := sha256.New()
		fmt.Fprint(h, parts...)
		binary.Write(h, binary.BigEndian, ctr)
		s, err := tss.NewScalar(h.Sum(nil))
		if err == nil && s.Validate() == nil {
			return s
		}
	}
}

// Member is one member with its long-term key share.
type Member struct {
	ID   tss.MemberID
	Addr string // bech32 account
	Priv tss.Scalar
	Pub  tss.Point
}

// Group is a threshold group whose polynomial the harness knows.
type Group struct {
	ID        tss.GroupID
	Threshold uint64
	Coeffs    tss.Scalars // f(x) = sum Coeffs[k] x^k ; secret = Coeffs[0]
	PubKey    tss.Point
	Members   []Member
}

// NewGroup builds a (t,n) group for the given member addresses from a seed.
func NewGroup(id tss.GroupID, threshold uint64, addrs []string, seed string) *Group {
	g := &Group{ID: id, Threshold: threshold}
	for k := uint64(0); k < threshold; k++ {
		g.Coeffs = append(g.Coeffs, ScalarFrom("coeff", seed, uint64(id), k))
	}
	g.PubKey = g.Coeffs[0].Point()
	for i, a := range addrs {
		mid := tss.MemberID(i + 1)
		priv, err := tss.ComputeSecretShare(g.Coeffs, mid)
		if err != nil {
			panic(err)
		}
		g.Members = append(g.Members, Member{ID: mid, Addr: a, Priv: priv, Pub: priv.Point()})
	}
	return g
}

// Genesis returns the x/tss genesis objects for the group (ACTIVE, owned by bandtss).
func (g *Group) Genesis() (tsstypes.Group, []tsstypes.Member) {
	grp := tsstypes.Group{ID: g.ID, Size_: uint64(len(g.Members)), Threshold: g.Threshold, PubKey: g.PubKey,
		Status: tsstypes.GROUP_STATUS_ACTIVE, CreatedHeight: 1, ModuleOwner: bandtsstypes.ModuleName}
	var ms []tsstypes.Member
	for _, m := range g.Members {
		ms = append(ms, tsstypes.Member{ID: m.ID, GroupID: g.ID, Address: m.Addr, PubKey: m.Pub, IsMalicious: false, IsActive: true})
	}
	return grp, ms
}

// BandtssMembers returns bandtss genesis members (all active since `since`).
func (g *Group) BandtssMembers(since time.Time) []bandtsstypes.Member {
	var ms []bandtsstypes.Member
	for _, m := range g.Members {
		ms = append(ms, bandtsstypes.Member{Address: m.Addr, GroupID: g.ID, IsActive: true, Since: since})
	}
	return ms
}

// ByAddr returns the member with that address.
func (g *Group) ByAddr(addr string) *Member {
	for i := range g.Members {
		if g.Members[i].Addr == addr {
			return &g.Members[i]
		}
	}
	return nil
}

// DE is a nonce pair with its private part.
type DE struct {
	PrivD, PrivE tss.Scalar
	Pub          tsstypes.DE
}

// MakeDE derives the ctr-th nonce pair of an address; every (addr, ctr) yields a distinct pair.
func MakeDE(addr string, ctr uint64) DE {
	d := ScalarFrom("de-d", addr, ctr)
	e := ScalarFrom("de-e", addr, ctr)
	return DE{PrivD: d, PrivE: e, Pub: tsstypes.DE{PubD: d.Point(), PubE: e.Point()}}
}

// DEKey identifies a pair by its public bytes.
func DEKey(de tsstypes.DE) string { return string(de.PubD) + "|" + string(de.PubE) }

// Wallet remembers the private parts of every DE an address ever registered.
type Wallet struct {
	next map[string]uint64
	priv map[string]DE
}

func NewWallet() *Wallet { return &Wallet{next: map[string]uint64{}, priv: map[string]DE{}} }

// Fresh creates n new pairs for addr.
func (w *Wallet) Fresh(addr string, n int) []tsstypes.DE {
	var out []tsstypes.DE
	for i := 0; i < n; i++ {
		de := MakeDE(addr, w.next[addr])
		w.next[addr]++
		w.priv[DEKey(de.Pub)] = de
		out = append(out, de.Pub)
	}
	return out
}

func (w *Wallet) Lookup(de tsstypes.DE) (DE, bool) { d, ok := w.priv[DEKey(de)]; return d, ok }

// PartialSignature computes member m's share for the given signing attempt the way cylinder does.
func PartialSignature(m *Member, w *Wallet, signing tsstypes.Signing, sa tsstypes.SigningAttempt) (tss.Signature, error) {
	ams := tsstypes.AssignedMembers(sa.AssignedMembers)
	am, ok := ams.FindAssignedMember(m.ID)
	if !ok {
		return nil, fmt.Errorf("member %d not assigned", m.ID)
	}
	de, ok := w.Lookup(tsstypes.DE{PubD: am.PubD, PubE: am.PubE})
	if !ok {
		return nil, fmt.Errorf("unknown DE for member %d", m.ID)
	}
	privNonce, err := tss.ComputeOwnPrivNonce(de.PrivD, de.PrivE, am.BindingFactor)
	if err != nil {
		return nil, err
	}
	lagrange, err := tss.ComputeLagrangeCoefficient(m.ID, ams.MemberIDs())
	if err != nil {
		return nil, err
	}
	return tss.SignSigning(signing.GroupPubNonce, signing.GroupPubKey, signing.Message, lagrange, privNonce, m.Priv)
}

// GenesisFor wires groups into sim.Config: all groups in x/tss, `current` (index, or -1) as the bandtss
// current group with its members active, and `initialDEs` pairs per member pre-registered.
func GenesisFor(cfg *sim.Config, groups []*Group, current int, w *Wallet, initialDEs int) {
	tg := tsstypes.DefaultGenesisState()
	for _, g := range groups {
		grp, ms := g.Genesis()
		tg.Groups = append(tg.Groups, grp)
		tg.Members = append(tg.Members, ms...)
	}
	seen := map[string]bool{}
	for _, g := range groups {
		for _, m := range g.Members {
			if seen[m.Addr] {
				continue
			}
			seen[m.Addr] = true
			for _, de := range w.Fresh(m.Addr, initialDEs) {
				tg.DEs = append(tg.DEs, tsstypes.DEGenesis{Address: m.Addr, DE: de})
			}
		}
	}
	cfg.TSSGenesis = tg
	bg := bandtsstypes.DefaultGenesisState()
	if current >= 0 {
		gt := cfg.GenesisTime
		if gt.IsZero() {
			gt = time.Unix(1_700_000_000, 0).UTC()
			cfg.GenesisTime = gt
		}
		bg.CurrentGroup = bandtsstypes.CurrentGroup{GroupID: groups[current].ID, ActiveTime: gt}
		bg.Members = groups[current].BandtssMembers(gt)
	}
	cfg.BandtssGen = bg
}

// TextRequest builds a user signing request over a text message.
func TextRequest(sender sdk.AccAddress, text []byte, feeLimit sdk.Coins) sdk.Msg {
	m, err := bandtsstypes.NewMsgRequestSignature(tsstypes.NewTextSignatureOrder(text), feeLimit, sender.String())
	if err != nil {
		panic(err)
	}
	return m
}
