package c16

// C16 for an account no message can give a lock to, but a genesis document can: a 32-byte ("liquid staker": module-derived /
// interchain account style) address. SetLockedPower refuses such accounts, GenesisState.Validate and InitGenesis do not, so a
// chain started from a hand-edited genesis can hold a lock of such an account in an active vault. Such an account cannot sign
// transactions; its staking messages arrive through the ICA host, which runs them through the message service under a cache
// context - which is what this stage does (staking MsgServer on a cache branch of the root store, written only on success).
// Oracle (the statement, one direction only): an undelegation / full removal that is accepted while the vault is active
// leaves the delegated total at or above the lock. Delegations and redelegations are executed for state variety, not judged.

import (
	"fmt"
	"testing"
	"time"

	sdkmath "cosmossdk.io/math"

	sdk "github.com/cosmos/cosmos-sdk/types"
	"github.com/cosmos/cosmos-sdk/types/address"
	stakingkeeper "github.com/cosmos/cosmos-sdk/x/staking/keeper"
	stakingtypes "github.com/cosmos/cosmos-sdk/x/staking/types"

	"pgregory.net/rapid"

	band "github.com/bandprotocol/chain/v3/app"
	restaketypes "github.com/bandprotocol/chain/v3/x/restake/types"

	"verif/harness/gen"
	"verif/harness/pbt"
	"verif/harness/sim"
)

type c16lOp struct {
	K   string `json:"k"` // del | undel | redel | deact | end
	V   int    `json:"v,omitempty"`
	How int    `json:"how,omitempty"` // undel: 0 exactly down to the lock, 1 one unit below it, 2 the whole delegation, 3 one unit, 4 Amt
	Amt int64  `json:"amt,omitempty"`
}

type c16lCase struct {
	Lock   int64    `json:"lock"`
	First  int64    `json:"first"` // slack of the first delegation above the lock
	Active bool     `json:"active"`
	Long   bool     `json:"long"` // false: the same history for an ordinary 20-byte module-style address (control)
	Ops    []c16lOp `json:"ops"`
}

func genC16Liquid(rt *rapid.T) c16lCase {
	c := c16lCase{Lock: gen.OneOf[int64](rt, "lock", 1, 1000, 1_000_000, 5_000_000), First: gen.OneOf[int64](rt, "first", 0, 1, 1000, 2_000_000),
		Active: gen.Chance(rt, "active", 5, 6), Long: gen.Chance(rt, "long", 4, 5)}
	n := gen.Range(rt, "nops", 4, 16)
	for i := 0; i < n; i++ {
		switch gen.Pick(rt, "op", 20, 50, 12, 6, 12) {
		case 0:
			c.Ops = append(c.Ops, c16lOp{K: "del", V: gen.Uniform(rt, "v", 2), Amt: gen.OneOf[int64](rt, "amt", 1, 1000, 1_000_000)})
		case 1:
			c.Ops = append(c.Ops, c16lOp{K: "undel", V: gen.Uniform(rt, "v", 2), How: gen.Pick(rt, "how", 25, 30, 20, 10, 15), Amt: gen.OneOf[int64](rt, "amt", 2, 999, 1_000_001)})
		case 2:
			c.Ops = append(c.Ops, c16lOp{K: "redel", V: gen.Uniform(rt, "v", 2), Amt: gen.OneOf[int64](rt, "amt", 1, 1000, 1_000_000)})
		case 3:
			c.Ops = append(c.Ops, c16lOp{K: "deact"})
		default:
			c.Ops = append(c.Ops, c16lOp{K: "end"})
		}
	}
	return c
}

func runC16Liquid(c c16lCase) *pbt.Verdict {
	v := &pbt.Verdict{}
	if c.Lock < 1 || c.First < 0 || c.Lock > 1<<40 || c.First > 1<<40 {
		v.Failf("harness", "case out of domain")
		return v
	}
	staker := sdk.AccAddress(address.Module("liquid", []byte("staker")))
	if !c.Long {
		staker = staker[:20]
	}
	const vault = "liq"
	stakerStr := sdk.MustBech32ifyAddressBytes("band", staker) // the prefix is configured by sim.New only
	rp := restaketypes.NewParams([]string{"uband"})
	ch, err := sim.New(sim.Config{
		NumAccounts: 1, Validators: []sim.ValSpec{{Tokens: 30_000_000}, {Tokens: 30_000_000}}, Restake: &rp, MintOff: true,
		Balance:      sdk.NewCoins(sdk.NewInt64Coin("uband", 1_000_000_000)),
		ExtraBalance: map[string]sdk.Coins{stakerStr: sdk.NewCoins(sdk.NewInt64Coin("uband", 1_000_000_000_000))},
		ExtraGenesis: func(gs band.GenesisState, app *band.BandApp) {
			var rg restaketypes.GenesisState
			app.AppCodec().MustUnmarshalJSON(gs[restaketypes.ModuleName], &rg)
			rg.Vaults = append(rg.Vaults, restaketypes.Vault{Key: vault, IsActive: c.Active})
			rg.Locks = append(rg.Locks, restaketypes.Lock{StakerAddress: stakerStr, Key: vault, Power: sdkmath.NewInt(c.Lock)})
			if verr := rg.Validate(); verr != nil {
				panic(fmt.Sprintf("harness: the edited restake genesis is refused by its own validation: %v", verr))
			}
			gs[restaketypes.ModuleName] = app.AppCodec().MustMarshalJSON(&rg)
		},
	}, 0)
	if err != nil {
		v.Failf("harness", "sim.New: %v", err)
		return v
	}
	defer ch.Close()
	if _, err := ch.Block(nil, time.Second); err != nil {
		v.Failf("C16/finalize", "first block: %v", err)
		return v
	}
	vals := []sdk.ValAddress{sdk.ValAddress(ch.Vals[0].Addr), sdk.ValAddress(ch.Vals[1].Addr)}
	ms := stakingkeeper.NewMsgServerImpl(ch.App.StakingKeeper)
	coin := func(a sdkmath.Int) sdk.Coin { return sdk.NewCoin("uband", a) }
	// what the ICA host does with a message of the interchain account: run it on a cache branch, keep the writes on success
	exec := func(f func(ctx sdk.Context) error) error {
		cctx, write := ch.WriteCtx().CacheContext()
		if e := f(cctx); e != nil {
			return e
		}
		write()
		return nil
	}
	type obs struct {
		total  sdkmath.Int
		per    [2]sdkmath.Int
		active bool
		lock   sdkmath.Int
		has    bool
	}
	read := func() (o obs, bad string) {
		ctx := ch.Ctx()
		t, e := ch.App.StakingKeeper.GetDelegatorBonded(ctx, staker)
		if e != nil {
			return o, e.Error()
		}
		o.total = t
		for i, va := range vals {
			o.per[i] = sdkmath.ZeroInt()
			if d, e := ch.App.StakingKeeper.GetDelegation(ctx, staker, va); e == nil {
				val, e2 := ch.App.StakingKeeper.GetValidator(ctx, va)
				if e2 != nil {
					return o, e2.Error()
				}
				o.per[i] = val.TokensFromShares(d.Shares).TruncateInt()
			}
		}
		vt, found := ch.App.RestakeKeeper.GetVault(ctx, vault)
		o.active = found && vt.IsActive
		l, found := ch.App.RestakeKeeper.GetLock(ctx, staker, vault)
		o.has = found
		if found {
			o.lock = l.Power
		}
		return o, ""
	}
	// the account record (the ICA host registers one for an interchain account)
	_ = exec(func(ctx sdk.Context) error {
		if ch.App.AccountKeeper.GetAccount(ctx, staker) == nil {
			ch.App.AccountKeeper.SetAccount(ctx, ch.App.AccountKeeper.NewAccountWithAddress(ctx, staker))
		}
		return nil
	})
	// first delegation: at or above the lock
	first := sdkmath.NewInt(c.Lock + c.First)
	if e := exec(func(ctx sdk.Context) error {
		_, e := ms.Delegate(ctx, stakingtypes.NewMsgDelegate(staker.String(), vals[0].String(), coin(first)))
		return e
	}); e != nil {
		v.Failf("harness", "first delegation of %s refused: %v", first, e)
		return v
	}
	refusedByLock, acceptedAtLock, accepted := 0, 0, 0
	for i, op := range c.Ops {
		where := fmt.Sprintf("op %d %s", i, op.K)
		o, bad := read()
		if bad != "" {
			v.Failf("harness", "%s: %s", where, bad)
			return v
		}
		if !o.has || !o.lock.Equal(sdkmath.NewInt(c.Lock)) {
			v.Failf("C16/genesis-lock-lost", "%s: the imported lock of %d is not in the store any more (found=%v)", where, c.Lock, o.has)
			return v
		}
		vi := op.V & 1
		switch op.K {
		case "del":
			_ = exec(func(ctx sdk.Context) error {
				_, e := ms.Delegate(ctx, stakingtypes.NewMsgDelegate(staker.String(), vals[vi].String(), coin(sdkmath.NewInt(max(op.Amt, 1)))))
				return e
			})
		case "redel":
			amt := sdkmath.MinInt(sdkmath.NewInt(max(op.Amt, 1)), o.per[vi])
			if !amt.IsPositive() {
				break
			}
			_ = exec(func(ctx sdk.Context) error {
				_, e := ms.BeginRedelegate(ctx, stakingtypes.NewMsgBeginRedelegate(staker.String(), vals[vi].String(), vals[1-vi].String(), coin(amt)))
				return e
			})
		case "deact":
			if e := exec(func(ctx sdk.Context) error { return ch.App.RestakeKeeper.DeactivateVault(ctx, vault) }); e == nil {
				v.Class("vault-deactivated")
			}
		case "undel":
			room := o.total.Sub(o.lock) // what may leave while the lock stays covered
			var amt sdkmath.Int
			switch op.How {
			case 0:
				amt = room
			case 1:
				amt = room.AddRaw(1)
			case 2:
				amt = o.per[vi]
			case 3:
				amt = sdkmath.OneInt()
			default:
				amt = sdkmath.NewInt(max(op.Amt, 1))
			}
			amt = sdkmath.MinInt(amt, o.per[vi])
			if !amt.IsPositive() {
				break
			}
			e := exec(func(ctx sdk.Context) error {
				_, e := ms.Undelegate(ctx, stakingtypes.NewMsgUndelegate(staker.String(), vals[vi].String(), coin(amt)))
				return e
			})
			left := o.total.Sub(amt)
			where = fmt.Sprintf("%s %s of %s at validator %d (delegated total %s, lock %d, vault active=%v, %d-byte address)", where, amt, o.per[vi], vi, o.total, c.Lock, o.active, len(staker))
			switch {
			case e == nil && o.active && left.LT(o.lock):
				v.Failf("C16/withdraw-below-lock", "%s was accepted and leaves %s, below the lock of an active vault", where, left)
				return v
			case e == nil:
				accepted++
				if o.active && left.Equal(o.lock) {
					acceptedAtLock++
				}
			case o.active && left.LT(o.lock):
				refusedByLock++
			}
			if e == nil {
				n, bad2 := read()
				if bad2 != "" {
					v.Failf("harness", "%s: %s", where, bad2)
					return v
				}
				if !n.total.Equal(left) {
					v.Failf("harness", "%s: delegated total is %s afterwards, expected %s (rate-1 assumption)", where, n.total, left)
					return v
				}
			}
		default:
			if _, e := ch.Block(nil, time.Second); e != nil {
				v.Failf("C16/finalize", "%s: %v", where, e)
				return v
			}
		}
	}
	if _, e := ch.Block(nil, time.Second); e != nil {
		v.Failf("C16/finalize", "last block: %v", e)
		return v
	}
	v.Count("liquid_undelegations_accepted", int64(accepted))
	v.Count("liquid_undelegations_refused_by_lock", int64(refusedByLock))
	if c.Long {
		v.Class("lock-of-32-byte-account-from-genesis")
	} else {
		v.Class("lock-of-20-byte-account-from-genesis")
	}
	if acceptedAtLock > 0 {
		v.Class("undelegation-down-to-exactly-the-lock")
	}
	v.NonTrivial = c.Long && refusedByLock > 0 && accepted > 0
	return v
}

func TestC16Liquid(t *testing.T) { pbt.Check(t, "C16", genC16Liquid, runC16Liquid) }
