// Package c16 checks property C16 ("Restake: locked power cannot be withdrawn; stakes are fully backed") on the
// real application: stateful histories of restake stake/unstake, staking delegate/undelegate/redelegate, lock
// updates from several vaults (the "feeds" vault through real MsgVote txs, the others through the keeper entry
// points other modules use), vault deactivation and allowed-denom changes through governance.
//
// Oracle: a big.Int model of (balances, delegations, stakes, allowed denoms, vaults, locks) that is written from
// the property statement. Amounts are resolved late from the model so that withdrawals land exactly on the
// boundaries (leave == lock, lock-1, lock+1).
package c16

import (
	"encoding/binary"
	"fmt"
	"math/big"
	"sort"
	"strings"
	"testing"
	"time"

	"pgregory.net/rapid"

	sdkmath "cosmossdk.io/math"

	sdk "github.com/cosmos/cosmos-sdk/types"
	authtypes "github.com/cosmos/cosmos-sdk/x/auth/types"
	banktypes "github.com/cosmos/cosmos-sdk/x/bank/types"
	distrtypes "github.com/cosmos/cosmos-sdk/x/distribution/types"
	stakingtypes "github.com/cosmos/cosmos-sdk/x/staking/types"

	band "github.com/bandprotocol/chain/v3/app"
	feedstypes "github.com/bandprotocol/chain/v3/x/feeds/types"
	restaketypes "github.com/bandprotocol/chain/v3/x/restake/types"

	"verif/harness/gen"
	"verif/harness/pbt"
	"verif/harness/sim"
)

// ---- constants ------------------------------------------------------------------------------------------

var (
	c16Two63  = new(big.Int).Lsh(big.NewInt(1), 63)
	c16Two64  = new(big.Int).Lsh(big.NewInt(1), 64)
	c16MaxU64 = new(big.Int).Sub(c16Two64, big.NewInt(1))
	c16MaxI64 = new(big.Int).Sub(c16Two63, big.NewInt(1))
	c16One    = big.NewInt(1)

	c16Denoms      = []string{"uband", "uatom"}
	c16AllowedSets = [][]string{{"uband"}, {"uband", "uatom"}, {}, {"uatom"}, {"uband", "uband"}}
	c16Vaults      = []string{"feeds", "feedsx", "tunnel", "a"}

	// per-account genesis balances: realistic uband, an 18-decimals style second denom far above 2^63
	c16BalBand = big.NewInt(1_000_000_000_000)
	c16BalAtom = new(big.Int).Lsh(big.NewInt(1), 66)
)

// ---- case -----------------------------------------------------------------------------------------------

type c16Op struct {
	K     string `json:"k"` // stake|unstake|delegate|undelegate|redelegate|setlock|deactivate|mkvault|params|reimport|extsend
	A     int    `json:"a,omitempty"`
	V     int    `json:"v,omitempty"`     // validator (source); late-bound mod #validators
	W     int    `json:"w,omitempty"`     // destination validator
	Vault int    `json:"vault,omitempty"` // index into c16Vaults
	D     int    `json:"d,omitempty"`     // primary denom index
	D2    int    `json:"d2,omitempty"`    // 1: add a coin of the other denom with amount Amt2
	Mode  string `json:"mode,omitempty"`
	Amt   string `json:"amt,omitempty"`
	Amt2  string `json:"amt2,omitempty"`
	Set   int    `json:"set,omitempty"` // params: index into c16AllowedSets
	Tx    bool   `json:"tx,omitempty"`  // setlock on "feeds": through a real MsgVote when the power fits
}

type c16Case struct {
	NAcc int `json:"nacc"`
	NVal int `json:"nval"`
	// NB: the last genesis validator is outside the active set (staking MaxValidators = NVal-1, status Unbonded,
	// 2 uband*10^6 self-delegated); it is bonded later if delegations lift it above another validator, which then
	// starts unbonding. Shares stay at rate 1 (nobody is slashed) and delegations to validators of every status
	// count towards the total power.
	NB      bool    `json:"nb,omitempty"`
	Allowed int     `json:"allowed"`
	Ops     []c16Op `json:"ops"`
}

func c16GenAmt(rt *rapid.T, label string, denom int) string {
	bigw := 0
	if denom == 1 {
		bigw = 6
	}
	switch gen.Pick(rt, label+"scale", 3, 5, bigw) {
	case 0:
		return fmt.Sprint(rapid.Uint64Range(1, 3000).Draw(rt, label+"small"))
	case 1:
		return fmt.Sprint(rapid.Uint64Range(1, 60).Draw(rt, label+"med") * 1_000_000)
	default:
		x := new(big.Int).SetUint64(rapid.Uint64Range(0, 1<<62).Draw(rt, label+"big"))
		return x.Add(x, c16Two63).String()
	}
}

var (
	c16WithdrawModes = []string{"below", "below", "below", "below", "tolock", "tolock", "tolock", "above", "above", "all", "all", "all", "allplus1", "one", "one", "raw", "raw", "raw", "zero"}
	c16RedelModes    = []string{"all", "all", "all", "below", "below", "tolock", "tolock", "raw", "raw", "raw", "one"}
	// lock = total power - the delegation to validator V + {0,+1,-1}: removing that WHOLE delegation afterwards leaves
	// exactly the lock / one below / one above
	c16ExDelModes = []string{"exdelplus1", "exdelplus1", "exdelplus1", "exdel", "exdel", "exdelminus1"}
	c16LockModes  = []string{"total", "total", "total", "total", "total", "totalplus1", "totalplus1", "totalminus1", "totalminus1", "half", "half", "half", "half", "zero", "raw", "raw", "raw", "u63", "maxu64", "over64", "same", "old", "old", "oldminus1", "oldplus1", "mid"}
	// lock updates aimed at (current total power, old lock of the same vault] after the power fell below that lock
	c16RelockModes    = []string{"old", "old", "oldminus1", "oldminus1", "totalplus1", "totalplus1", "mid", "mid", "oldplus1", "total"}
	c16DelegateModes  = []string{"raw", "raw", "raw", "raw", "raw", "raw", "raw", "raw", "one", "balplus1", "zero", "reach", "reachminus1"}
	c16StakeModes     = []string{"raw", "raw", "raw", "raw", "raw", "raw", "raw", "raw", "balplus1", "zero"}
	c16WithdrawKinds  = []string{"unstake", "undelegate"}
	c16BoundaryModes2 = []string{"below", "tolock", "all"}
)

func genC16(rt *rapid.T) c16Case {
	c := c16Case{
		NAcc:    rapid.IntRange(2, 4).Draw(rt, "nacc"),
		NVal:    rapid.IntRange(2, 3).Draw(rt, "nval"),
		Allowed: gen.Pick(rt, "allowed", 3, 6, 1, 1),
	}
	c.NB = gen.Chance(rt, "nonbonded", 1, 2)
	acct := func() int { return rapid.IntRange(0, c.NAcc-1).Draw(rt, "acct") } // biased: concentrates on few accounts
	val := func(l string) int { return gen.Uniform(rt, l, c.NVal) }
	vault := func() int { return gen.Pick(rt, "vault", 4, 2, 3, 2) }
	denom := func(l string) int { return gen.Pick(rt, l, 1, 1) }

	stake := func(a int) c16Op {
		d := denom("sd")
		o := c16Op{K: "stake", A: a, D: d, Mode: gen.OneOf(rt, "smode", c16StakeModes...), Amt: c16GenAmt(rt, "samt", d)}
		if gen.Chance(rt, "s2", 1, 4) {
			o.D2, o.Amt2 = 1, c16GenAmt(rt, "samt2", 1-d)
		}
		return o
	}
	unstake := func(a int, mode string) c16Op {
		d := denom("ud")
		o := c16Op{K: "unstake", A: a, D: d, Mode: mode, Amt: c16GenAmt(rt, "uamt", d)}
		if gen.Chance(rt, "u2", 1, 4) {
			o.D2, o.Amt2 = 1, fmt.Sprint(rapid.Uint64Range(0, 2000).Draw(rt, "uamt2"))
		}
		return o
	}
	delegate := func(a int) c16Op {
		return c16Op{K: "delegate", A: a, V: val("dv"), Mode: gen.OneOf(rt, "dmode", c16DelegateModes...), Amt: c16GenAmt(rt, "damt", 0)}
	}
	undelegate := func(a int, mode string) c16Op {
		return c16Op{K: "undelegate", A: a, V: val("uv"), Mode: mode, Amt: c16GenAmt(rt, "udamt", 0)}
	}
	redelegate := func(a int) c16Op {
		src := val("rsrc")
		dst := (src + 1 + gen.Uniform(rt, "rdst", c.NVal-1)) % c.NVal
		if gen.Chance(rt, "rself", 1, 15) {
			dst = src
		}
		return c16Op{K: "redelegate", A: a, V: src, W: dst, Mode: gen.OneOf(rt, "rmode", c16RedelModes...), Amt: c16GenAmt(rt, "ramt", 0)}
	}
	setlock := func(a, vlt int, mode string) c16Op {
		return c16Op{K: "setlock", A: a, Vault: vlt, Mode: mode, Amt: c16GenAmt(rt, "lamt", gen.Pick(rt, "lden", 3, 1)), Tx: gen.Chance(rt, "ltx", 3, 4)}
	}
	withdraw := func(a int, mode string) c16Op {
		if gen.OneOf(rt, "wkind", c16WithdrawKinds...) == "unstake" {
			return unstake(a, mode)
		}
		return undelegate(a, mode)
	}

	// prologue: give the accounts some power
	for a := 0; a < c.NAcc; a++ {
		if gen.Chance(rt, "pro-d", 8, 10) {
			o := delegate(a)
			o.Mode = "raw"
			c.Ops = append(c.Ops, o)
		}
		if gen.Chance(rt, "pro-s", 7, 10) {
			o := stake(a)
			o.Mode = "raw"
			c.Ops = append(c.Ops, o)
		}
	}
	nops := rapid.IntRange(12, 50).Draw(rt, "nops")
	for i := 0; i < nops; i++ {
		a := acct()
		switch gen.Pick(rt, "opw", 10, 16, 9, 16, 8, 16, 3, 1, 4, 9, 6, 3, 6, 5) {
		case 0:
			c.Ops = append(c.Ops, stake(a))
		case 1:
			c.Ops = append(c.Ops, unstake(a, gen.OneOf(rt, "umode", c16WithdrawModes...)))
		case 2:
			c.Ops = append(c.Ops, delegate(a))
		case 3:
			c.Ops = append(c.Ops, undelegate(a, gen.OneOf(rt, "udmode", c16WithdrawModes...)))
		case 4:
			c.Ops = append(c.Ops, redelegate(a))
		case 5:
			c.Ops = append(c.Ops, setlock(a, vault(), gen.OneOf(rt, "lmode", c16LockModes...)))
		case 6:
			c.Ops = append(c.Ops, c16Op{K: "deactivate", Vault: vault()})
		case 7:
			c.Ops = append(c.Ops, c16Op{K: "mkvault", Vault: vault()})
		case 8:
			c.Ops = append(c.Ops, c16Op{K: "params", Set: gen.Pick(rt, "pset", 3, 5, 1, 2, 2)})
		case 12:
			// scenario: removal of a WHOLE delegation (the staking module deletes the record and asks the
			// BeforeDelegationRemoved hook instead of AfterDelegationModified) at the lock boundary, from the validator
			// outside the active set when there is one, otherwise (and sometimes anyway) from any validator
			vv := val("wd-v")
			if c.NB && gen.Chance(rt, "wd-nb", 4, 5) {
				vv = c.NVal - 1
			}
			d := delegate(a)
			d.V, d.Mode = vv, "raw"
			c.Ops = append(c.Ops, d)
			if gen.Chance(rt, "wd-d2", 1, 2) { // power that remains elsewhere
				d2 := delegate(a)
				d2.V, d2.Mode = (vv+1)%c.NVal, "raw"
				c.Ops = append(c.Ops, d2)
			}
			l := setlock(a, vault(), gen.OneOf(rt, "wd-lm", c16ExDelModes...))
			l.V = vv
			c.Ops = append(c.Ops, l)
			if gen.Chance(rt, "wd-reimp", 1, 6) {
				c.Ops = append(c.Ops, c16Op{K: "reimport"})
			}
			if gen.Chance(rt, "wd-red", 1, 4) {
				r := redelegate(a)
				r.V, r.W, r.Mode = vv, (vv+1)%c.NVal, "all"
				c.Ops = append(c.Ops, r)
			}
			u := undelegate(a, "all")
			u.V = vv
			c.Ops = append(c.Ops, u)
		case 13:
			// coins pushed INTO the restake module account from outside the module: bank MsgSend / MsgMultiSend,
			// a distribution withdraw address, a community-pool spend through governance
			d := denom("xs-d")
			o := c16Op{K: "extsend", A: a, D: d, Amt: c16GenAmt(rt, "xs-amt", d),
				Mode: gen.OneOf(rt, "xs-mode", "send", "send", "send", "send", "multisend", "multisend", "multisend", "withdrawaddr", "poolspend"),
				Amt2: gen.OneOf(rt, "xs-size", "one", "raw", "raw", "all")}
			c.Ops = append(c.Ops, o)
			if gen.Chance(rt, "xs-reimp", 1, 4) {
				c.Ops = append(c.Ops, c16Op{K: "reimport"})
			}
		case 11:
			// genesis export -> new application instance initialised from the exported document
			c.Ops = append(c.Ops, c16Op{K: "reimport"})
		case 10:
			// scenario: the total power falls below an existing lock through a path no hook guards (governance removes
			// a restaked denom from AllowedDenoms), then the same vault updates that lock to a value in
			// (current total power, old lock] (and around its ends)
			v1 := vault()
			c.Ops = append(c.Ops, c16Op{K: "params", Set: 1}) // uband and uatom count
			so := c16Op{K: "stake", A: a, D: 1, Mode: "raw", Amt: c16GenAmt(rt, "sd-amt", gen.Pick(rt, "sd-den", 2, 1))}
			c.Ops = append(c.Ops, so)
			lo := setlock(a, v1, gen.OneOf(rt, "sd-l1", "total", "total", "total", "totalminus1", "half"))
			c.Ops = append(c.Ops, lo)
			if gen.Chance(rt, "sd-l2", 1, 3) {
				v2 := (v1 + 1 + gen.Uniform(rt, "sd-v2", len(c16Vaults)-1)) % len(c16Vaults)
				c.Ops = append(c.Ops, setlock(a, v2, gen.OneOf(rt, "sd-l2m", "half", "total", "totalminus1")))
			}
			c.Ops = append(c.Ops, c16Op{K: "params", Set: gen.OneOf(rt, "sd-set", 0, 0, 0, 2)}) // uatom no longer counts
			if gen.Chance(rt, "sd-reimp", 1, 4) {
				c.Ops = append(c.Ops, c16Op{K: "reimport"}) // round trip while the power is below the lock
			}
			for n := gen.Range(rt, "sd-n", 1, 2); n > 0; n-- {
				ro := setlock(a, v1, gen.OneOf(rt, "sd-re", c16RelockModes...))
				ro.Tx = lo.Tx
				c.Ops = append(c.Ops, ro)
			}
			if gen.Chance(rt, "sd-w", 1, 3) {
				c.Ops = append(c.Ops, withdraw(a, gen.OneOf(rt, "sd-wm", "one", "all", "below")))
			}
		default:
			// scenario: two vaults with different locks on one account, then withdrawals at the boundary,
			// optionally a deactivation of the binding vault followed by another withdrawal
			v1 := vault()
			v2 := (v1 + 1 + gen.Uniform(rt, "v2", len(c16Vaults)-1)) % len(c16Vaults)
			c.Ops = append(c.Ops, setlock(a, v1, gen.OneOf(rt, "sc-l1", "half", "totalminus1", "raw", "total")))
			c.Ops = append(c.Ops, setlock(a, v2, gen.OneOf(rt, "sc-l2", "total", "totalminus1", "half", "total")))
			reimportAt := gen.Pick(rt, "sc-reimp", 6, 2, 1) // 0 none, 1 between the locks and the withdrawals, 2 after the deactivation
			if reimportAt == 1 {
				c.Ops = append(c.Ops, c16Op{K: "reimport"})
			}
			c.Ops = append(c.Ops, withdraw(a, "below"))
			c.Ops = append(c.Ops, withdraw(a, gen.OneOf(rt, "sc-w2", "tolock", "below", "all")))
			if gen.Chance(rt, "sc-deact", 1, 3) {
				c.Ops = append(c.Ops, c16Op{K: "deactivate", Vault: gen.OneOf(rt, "sc-dv", v1, v2)})
				if reimportAt == 2 {
					c.Ops = append(c.Ops, c16Op{K: "reimport"})
				}
				c.Ops = append(c.Ops, withdraw(a, gen.OneOf(rt, "sc-w3", c16BoundaryModes2...)))
			}
		}
	}
	return c
}

// ---- model ----------------------------------------------------------------------------------------------

type c16Model struct {
	nacc, nval  int
	bal, stake  []map[string]*big.Int
	del         [][]*big.Int
	allowed     []string
	vaultExists map[string]bool
	vaultActive map[string]bool
	locks       []map[string]*big.Int
}

func c16NewModel(nacc, nval int, allowed []string) *c16Model {
	m := &c16Model{nacc: nacc, nval: nval, allowed: append([]string{}, allowed...), vaultExists: map[string]bool{}, vaultActive: map[string]bool{}}
	for a := 0; a < nacc; a++ {
		m.bal = append(m.bal, map[string]*big.Int{"uband": new(big.Int).Set(c16BalBand), "uatom": new(big.Int).Set(c16BalAtom)})
		m.stake = append(m.stake, map[string]*big.Int{"uband": new(big.Int), "uatom": new(big.Int)})
		m.locks = append(m.locks, map[string]*big.Int{})
		row := make([]*big.Int, nval)
		for j := range row {
			row[j] = new(big.Int)
		}
		m.del = append(m.del, row)
	}
	return m
}

func (m *c16Model) isAllowed(d string) bool {
	for _, x := range m.allowed {
		if x == d {
			return true
		}
	}
	return false
}

func (m *c16Model) bonded(a int) *big.Int {
	p := new(big.Int)
	for _, d := range m.del[a] {
		p.Add(p, d)
	}
	return p
}

// power = sum of bonded delegations (rate 1) + staked coins in currently allowed denoms
func (m *c16Model) power(a int) *big.Int {
	p := m.bonded(a)
	for _, d := range c16Denoms {
		if m.isAllowed(d) {
			p.Add(p, m.stake[a][d])
		}
	}
	return p
}

// maxLock returns the largest lock of the account over active (or: deactivated) vaults; nil if there is none.
func (m *c16Model) maxLock(a int, active bool) *big.Int {
	var best *big.Int
	for _, key := range c16Vaults {
		l, ok := m.locks[a][key]
		if !ok || !m.vaultExists[key] || m.vaultActive[key] != active {
			continue
		}
		if best == nil || l.Cmp(best) > 0 {
			best = l
		}
	}
	return best
}

// ---- observation of the real state ----------------------------------------------------------------------

type c16Obs struct {
	snap    []string
	vaults  map[string]bool
	locks   []restaketypes.Lock
	index   []string
	stakes  map[string]sdk.Coins
	stakeN  int
	del     [][]*big.Int
	bal     []sdk.Coins
	modBal  sdk.Coins
	allowed []string
	status  []stakingtypes.BondStatus // per validator
	rate1   string                    // non-empty: the rate-1 / bonded assumption of the property does not hold
	bad     string                    // undecodable store content
}

func c16IndexEntry(addr []byte, power uint64, vault, value string) string {
	return fmt.Sprintf("%x/%020d/%q=%q", addr, power, vault, value)
}

func c16Observe(ch *sim.Chain, allowNonBonded bool) *c16Obs {
	o := &c16Obs{vaults: map[string]bool{}, stakes: map[string]sdk.Coins{}, status: make([]stakingtypes.BondStatus, len(ch.Vals))}
	ctx := ch.Ctx()
	cdc := ch.App.AppCodec()
	it := ctx.KVStore(ch.App.GetKey(restaketypes.StoreKey)).Iterator(nil, nil)
	for ; it.Valid(); it.Next() {
		k := append([]byte{}, it.Key()...)
		val := append([]byte{}, it.Value()...)
		o.snap = append(o.snap, fmt.Sprintf("restake %x=%x", k, val))
		if len(k) == 0 {
			continue
		}
		switch k[0] {
		case 0x10:
			var x restaketypes.Vault
			if err := cdc.Unmarshal(val, &x); err != nil || x.Key != string(k[1:]) {
				o.bad = fmt.Sprintf("vault entry %x=%x", k, val)
				continue
			}
			o.vaults[x.Key] = x.IsActive
		case 0x11:
			var x restaketypes.Lock
			if err := cdc.Unmarshal(val, &x); err != nil {
				o.bad = fmt.Sprintf("lock entry %x=%x", k, val)
				continue
			}
			o.locks = append(o.locks, x)
		case 0x12:
			var x restaketypes.Stake
			if err := cdc.Unmarshal(val, &x); err != nil {
				o.bad = fmt.Sprintf("stake entry %x=%x", k, val)
				continue
			}
			o.stakes[x.StakerAddress] = x.Coins
			o.stakeN++
		case 0x80:
			// prefix || addrLen || address || 8 bytes big-endian power || vault key  ->  vault key
			if len(k) < 2 || len(k) < 2+int(k[1])+8 {
				o.index = append(o.index, fmt.Sprintf("malformed %x", k))
				continue
			}
			l := int(k[1])
			o.index = append(o.index, c16IndexEntry(k[2:2+l], binary.BigEndian.Uint64(k[2+l:2+l+8]), string(k[2+l+8:]), string(val)))
		case 0x90:
			var x restaketypes.Params
			if err := cdc.Unmarshal(val, &x); err != nil {
				o.bad = fmt.Sprintf("params entry %x", val)
				continue
			}
			o.allowed = x.AllowedDenoms
		}
	}
	it.Close()
	sort.Strings(o.index)

	sk := ch.App.StakingKeeper
	for j, va := range ch.Vals {
		vv, err := sk.GetValidator(ctx, va.Val)
		if err != nil {
			o.rate1 = fmt.Sprintf("validator %d missing: %v", j, err)
			continue
		}
		o.status[j] = vv.Status
		if (!vv.IsBonded() && !allowNonBonded) || vv.Jailed || !vv.DelegatorShares.IsInteger() || !vv.DelegatorShares.TruncateInt().Equal(vv.Tokens) {
			o.rate1 = fmt.Sprintf("validator %d status=%v tokens=%s shares=%s", j, vv.Status, vv.Tokens, vv.DelegatorShares)
		}
		o.snap = append(o.snap, fmt.Sprintf("val %d tokens=%s shares=%s status=%v", j, vv.Tokens, vv.DelegatorShares, vv.Status))
	}
	for i, u := range ch.Users {
		row := make([]*big.Int, len(ch.Vals))
		for j, va := range ch.Vals {
			row[j] = new(big.Int)
			d, err := sk.GetDelegation(ctx, u.Addr, va.Val)
			if err == nil {
				if !d.Shares.IsInteger() {
					o.rate1 = fmt.Sprintf("delegation %d->%d has fractional shares %s", i, j, d.Shares)
				}
				row[j] = d.Shares.TruncateInt().BigInt()
				o.snap = append(o.snap, fmt.Sprintf("del %d->%d shares=%s", i, j, d.Shares))
			}
		}
		o.del = append(o.del, row)
		ubds, _ := sk.GetUnbondingDelegations(ctx, u.Addr, 1000)
		for _, x := range ubds {
			o.snap = append(o.snap, fmt.Sprintf("ubd %d %s", i, x.String()))
		}
		reds, _ := sk.GetRedelegations(ctx, u.Addr, 1000)
		for _, x := range reds {
			o.snap = append(o.snap, fmt.Sprintf("red %d %s", i, x.String()))
		}
		b := ch.App.BankKeeper.GetAllBalances(ctx, u.Addr)
		o.bal = append(o.bal, b)
		o.snap = append(o.snap, fmt.Sprintf("bal %d %s", i, b))
	}
	o.modBal = ch.App.BankKeeper.GetAllBalances(ctx, authtypes.NewModuleAddress(restaketypes.ModuleName))
	o.snap = append(o.snap, "bal restake "+o.modBal.String())
	for _, p := range []string{stakingtypes.BondedPoolName, stakingtypes.NotBondedPoolName} {
		o.snap = append(o.snap, "bal "+p+" "+ch.App.BankKeeper.GetAllBalances(ctx, authtypes.NewModuleAddress(p)).String())
	}
	return o
}

func c16SnapDiff(a, b []string) string {
	in := map[string]int{}
	for _, x := range a {
		in[x]++
	}
	var out []string
	for _, x := range b {
		if in[x] > 0 {
			in[x]--
		} else {
			out = append(out, "+"+x)
		}
	}
	for _, x := range a {
		if in[x] > 0 {
			in[x]--
			out = append(out, "-"+x)
		}
	}
	if len(out) > 8 {
		out = out[:8]
	}
	return strings.Join(out, " ; ")
}

// ---- helpers --------------------------------------------------------------------------------------------

func c16Mod(x, n int) int {
	if n <= 0 {
		return 0
	}
	x %= n
	if x < 0 {
		x += n
	}
	return x
}

func c16Parse(s string) *big.Int {
	x, ok := new(big.Int).SetString(s, 10)
	if !ok || x.Sign() < 0 || x.BitLen() > 200 {
		return big.NewInt(1)
	}
	return x
}

func c16Clamp0(x *big.Int) *big.Int {
	if x.Sign() < 0 || x.BitLen() > 200 {
		return new(big.Int)
	}
	return x
}

func c16Coin(denom string, x *big.Int) sdk.Coin {
	return sdk.Coin{Denom: denom, Amount: sdkmath.NewIntFromBigInt(c16Clamp0(x))}
}

// c16Coins builds a (sorted) coin list without the constructor's sanitising, so that zero amounts reach
// ValidateBasic as a real client could send them.
func c16Coins(amts map[string]*big.Int) sdk.Coins {
	var cs sdk.Coins
	for _, d := range []string{"uatom", "uband"} { // sorted
		if x, ok := amts[d]; ok {
			cs = append(cs, c16Coin(d, x))
		}
	}
	return cs
}

func c16Sub(a, b *big.Int) *big.Int { return new(big.Int).Sub(a, b) }
func c16Add(a, b *big.Int) *big.Int { return new(big.Int).Add(a, b) }

// ---- run ------------------------------------------------------------------------------------------------

func runC16(c c16Case) *pbt.Verdict {
	v := &pbt.Verdict{}
	nacc, nval := c.NAcc, c.NVal
	if nacc < 2 || nacc > 4 {
		nacc = 2 + c16Mod(nacc, 3)
	}
	if nval < 2 || nval > 3 {
		nval = 2 + c16Mod(nval, 2)
	}
	allowed0 := c16AllowedSets[c16Mod(c.Allowed, 4)] // a genesis naming a denom twice is not a state the chain starts from
	vals := make([]sim.ValSpec, nval)
	for i := range vals {
		vals[i] = sim.ValSpec{Tokens: 30_000_000}
	}
	if c.NB {
		vals[nval-1] = sim.ValSpec{Tokens: 2_000_000}
	}
	rp := restaketypes.NewParams(append([]string{}, allowed0...))
	ch, err := sim.New(sim.Config{
		NumAccounts: nacc, Validators: vals, Restake: &rp, MintOff: true,
		Balance: sdk.NewCoins(c16Coin("uband", c16BalBand), c16Coin("uatom", c16BalAtom)),
		ExtraGenesis: func(gs band.GenesisState, app *band.BandApp) {
			// nothing matures during a history: balances move only through the ops themselves
			var sg stakingtypes.GenesisState
			app.AppCodec().MustUnmarshalJSON(gs[stakingtypes.ModuleName], &sg)
			sg.Params.UnbondingTime = 21 * 24 * time.Hour
			if c.NB {
				// the last validator starts outside the active set: status Unbonded, its tokens in the not-bonded pool
				sg.Params.MaxValidators = uint32(nval - 1)
				last := len(sg.Validators) - 1
				sg.Validators[last].Status = stakingtypes.Unbonded
				moved := sdk.NewCoins(sdk.NewCoin("uband", sg.Validators[last].Tokens))
				var bg banktypes.GenesisState
				app.AppCodec().MustUnmarshalJSON(gs[banktypes.ModuleName], &bg)
				bondedPool := authtypes.NewModuleAddress(stakingtypes.BondedPoolName).String()
				for k := range bg.Balances {
					if bg.Balances[k].Address == bondedPool {
						bg.Balances[k].Coins = bg.Balances[k].Coins.Sub(moved...)
					}
				}
				bg.Balances = append(bg.Balances, banktypes.Balance{Address: authtypes.NewModuleAddress(stakingtypes.NotBondedPoolName).String(), Coins: moved})
				gs[banktypes.ModuleName] = app.AppCodec().MustMarshalJSON(&bg)
			}
			gs[stakingtypes.ModuleName] = app.AppCodec().MustMarshalJSON(&sg)
		},
	}, 0)
	if err != nil {
		v.Failf("harness", "sim.New: %v", err)
		return v
	}
	defer ch.Close()

	m := c16NewModel(nacc, nval, allowed0)
	everDeactivated := map[string]bool{}
	classes := map[string]bool{}
	class := func(s string) { classes[s] = true }
	twoLocksDiff, boundaryReject := false, false
	reimported := false         // at least one genesis export/import round trip happened
	syncSig := "C16/model-sync" // signature of "chain state differs from the model" (another one right after a re-import)

	// ---- state checks after every step ----
	checkState := func(o *c16Obs, where string) bool {
		if o.bad != "" {
			v.Failf("C16/store-decode", "%s: %s", where, o.bad)
			return false
		}
		if o.rate1 != "" {
			v.Failf("harness", "%s: rate-1/bonded assumption broken: %s", where, o.rate1)
			return false
		}
		// (1) module account holds exactly the sum of all recorded stakes
		sum := sdk.Coins{}
		addrs := make([]string, 0, len(o.stakes))
		for a := range o.stakes {
			addrs = append(addrs, a)
		}
		sort.Strings(addrs)
		for _, a := range addrs {
			sum = sum.Add(o.stakes[a]...)
		}
		if !sum.Equal(o.modBal) {
			v.Failf("C16/backing", "%s: restake module account holds %s but recorded stakes sum to %s", where, o.modBal, sum)
			return false
		}
		// (2) by-power index == exactly one entry per lock keyed by its current power
		var want []string
		for _, l := range o.locks {
			addr, err := sdk.AccAddressFromBech32(l.StakerAddress)
			if err != nil || l.Power.IsNil() || !l.Power.IsUint64() {
				v.Failf("C16/index", "%s: lock %v has no representable index key", where, l)
				return false
			}
			want = append(want, c16IndexEntry(addr, l.Power.Uint64(), l.Key, l.Key))
		}
		sort.Strings(want)
		if strings.Join(want, "\n") != strings.Join(o.index, "\n") {
			v.Failf("C16/index", "%s: locks-by-power index differs from the lock store: %s", where, c16SnapDiff(want, o.index))
			return false
		}
		// (3) a deactivated vault is never active again
		for _, key := range c16Vaults {
			if everDeactivated[key] && o.vaults[key] {
				v.Failf("C16/reactivated", "%s: vault %q was deactivated earlier and is active again", where, key)
				return false
			}
		}
		// (4) the model is still an exact image of the chain (otherwise the oracle would be blind)
		for key, act := range o.vaults {
			if !m.vaultExists[key] || m.vaultActive[key] != act {
				v.Failf(syncSig, "%s: vault %q active=%v on chain, model exists=%v active=%v", where, key, act, m.vaultExists[key], m.vaultActive[key])
				return false
			}
		}
		for _, key := range c16Vaults {
			if _, ok := o.vaults[key]; m.vaultExists[key] && !ok {
				v.Failf(syncSig, "%s: vault %q missing on chain", where, key)
				return false
			}
		}
		if strings.Join(o.allowed, ",") != strings.Join(m.allowed, ",") {
			v.Failf(syncSig, "%s: allowed denoms %v, model %v", where, o.allowed, m.allowed)
			return false
		}
		nlocks := 0
		for a := 0; a < nacc; a++ {
			nlocks += len(m.locks[a])
		}
		if nlocks != len(o.locks) {
			v.Failf(syncSig, "%s: %d locks on chain, model has %d", where, len(o.locks), nlocks)
			return false
		}
		for _, l := range o.locks {
			found := false
			for a := 0; a < nacc; a++ {
				if ch.Users[a].Addr.String() == l.StakerAddress {
					if ml, ok := m.locks[a][l.Key]; ok && ml.Cmp(l.Power.BigInt()) == 0 {
						found = true
					}
				}
			}
			if !found {
				v.Failf(syncSig, "%s: lock %v on chain is not the model's", where, l)
				return false
			}
		}
		nstakes := 0
		for a := 0; a < nacc; a++ {
			st := o.stakes[ch.Users[a].Addr.String()]
			if _, ok := o.stakes[ch.Users[a].Addr.String()]; ok {
				nstakes++
			}
			for _, d := range c16Denoms {
				if st.AmountOf(d).BigInt().Cmp(m.stake[a][d]) != 0 {
					v.Failf(syncSig, "%s: account %d stake %s, model %s%s", where, a, st, m.stake[a][d], d)
					return false
				}
				if o.bal[a].AmountOf(d).BigInt().Cmp(m.bal[a][d]) != 0 {
					v.Failf(syncSig, "%s: account %d balance %s, model %s%s", where, a, o.bal[a], m.bal[a][d], d)
					return false
				}
			}
			for j := 0; j < nval; j++ {
				if o.del[a][j].Cmp(m.del[a][j]) != 0 {
					v.Failf(syncSig, "%s: delegation %d->%d is %s, model %s", where, a, j, o.del[a][j], m.del[a][j])
					return false
				}
			}
		}
		if nstakes != o.stakeN {
			v.Failf(syncSig, "%s: %d stake records, %d belong to known accounts", where, o.stakeN, nstakes)
			return false
		}
		// (5) the model's power formula is the one the chain uses: delegations to validators of EVERY status (rate 1)
		// plus staked coins of the currently allowed denoms
		for a := 0; a < nacc; a++ {
			got, err := ch.App.RestakeKeeper.GetTotalPower(ch.Ctx(), ch.Users[a].Addr)
			if err != nil || got.IsNil() || got.BigInt().Cmp(m.power(a)) != 0 {
				v.Failf("C16/power-model", "%s: account %d total power on chain %v (err %v), model %s", where, a, got, err, m.power(a))
				return false
			}
		}
		// statistics on the reached state
		for j := 0; j < nval && j < len(o.status); j++ {
			if o.status[j] == stakingtypes.Bonded {
				continue
			}
			class("validator-not-bonded")
			if j != nval-1 || !c.NB {
				class("validator-left-active-set-mid-history")
			}
			for a := 0; a < nacc; a++ {
				if m.del[a][j].Sign() > 0 {
					class("delegation-to-nonbonded-validator")
				}
			}
		}
		if c.NB && nval-1 < len(o.status) && o.status[nval-1] == stakingtypes.Bonded {
			class("nonbonded-validator-became-bonded")
		}
		for a := 0; a < nacc; a++ {
			var seen []*big.Int
			for _, key := range c16Vaults {
				if l, ok := m.locks[a][key]; ok && m.vaultActive[key] {
					for _, s := range seen {
						if s.Cmp(l) != 0 {
							twoLocksDiff = true
						}
					}
					seen = append(seen, l)
					if l.Cmp(c16Two63) >= 0 {
						class("lock>=2^63")
					}
				}
			}
			if ml := m.maxLock(a, true); ml != nil && m.power(a).Cmp(ml) < 0 {
				class("power-below-lock-after-denom-change")
			}
		}
		return true
	}

	cur := c16Observe(ch, c.NB)
	if !checkState(cur, "genesis") {
		return v
	}

	// finish compares snapshots for a rejected op, re-reads the state and runs the state checks
	finish := func(where string, ok bool) bool {
		post := c16Observe(ch, c.NB)
		if !ok && strings.Join(cur.snap, "\n") != strings.Join(post.snap, "\n") {
			v.Failf("C16/rejected-op-changed-state", "%s was rejected but the state changed: %s", where, c16SnapDiff(cur.snap, post.snap))
			return false
		}
		cur = post
		return checkState(post, "after "+where)
	}

	type txOut struct {
		ok, lockRej bool
		log         string
	}
	runTx := func(signer *sim.Account, msg sdk.Msg) (txOut, bool) {
		res, err := ch.Block([][]byte{ch.SignTx(signer, msg)}, time.Second)
		if err != nil {
			v.Failf("C16/finalize", "block with %T failed: %v", msg, err)
			return txOut{}, false
		}
		if len(res.Resp.TxResults) != 1 {
			v.Failf("harness", "expected one tx result")
			return txOut{}, false
		}
		tr := res.Resp.TxResults[0]
		out := txOut{ok: tr.Code == 0, log: tr.Log}
		out.lockRej = tr.Code != 0 && tr.Codespace == restaketypes.ModuleName &&
			(tr.Code == restaketypes.ErrUnableToUndelegate.ABCICode() || tr.Code == restaketypes.ErrUnableToUnstake.ABCICode())
		if out.ok {
			v.Count("tx_ok", 1)
		} else {
			v.Count("tx_rejected", 1)
		}
		return out, true
	}

	// judgeWithdraw applies the statement to one withdrawal-type op. minPower is the lowest total power the op
	// passes through (== the power it leaves, except for a redelegation), leave the power it would leave.
	judgeWithdraw := func(kind, where string, a int, out txOut, leave, minPower *big.Int, full bool) bool {
		act := m.maxLock(a, true) // model not yet updated for a rejected op; for an accepted op locks are unchanged anyway
		if out.ok {
			if act != nil && leave.Cmp(act) < 0 {
				v.Failf("C16/withdraw-below-lock", "%s succeeded and leaves total power %s below the largest active lock %s", where, leave, act)
				return false
			}
			if act != nil && act.Sign() > 0 && minPower.Cmp(act) == 0 {
				class("boundary-accept")
				if reimported {
					class("boundary-accept-after-reimport")
				}
			}
			if de := m.maxLock(a, false); de != nil && leave.Cmp(de) < 0 {
				class("withdraw-below-deactivated-lock")
			}
			return true
		}
		if !out.lockRej {
			v.Count("rejected_other_reason", 1)
			return true
		}
		if act == nil || minPower.Cmp(act) >= 0 {
			if de := m.maxLock(a, false); de != nil && minPower.Cmp(de) < 0 {
				v.Failf("C16/deactivated-constrains", "%s rejected as locked although it keeps total power >= %s (no active lock above); only the lock %s of a deactivated vault is above", where, minPower, de)
				return false
			}
			v.Count("converse_lock_reject", 1) // stricter than the statement requires: counted, not a violation
			return true
		}
		class("reject-" + kind)
		if reimported {
			class("withdraw-below-lock-rejected-after-reimport")
		}
		if full {
			class("reject-full-removal")
		}
		if kind == "redelegate" {
			if leave.Cmp(act) >= 0 {
				v.Count("redelegate_rejected_on_intermediate_power", 1)
			}
		} else if c16Add(minPower, c16One).Cmp(act) == 0 {
			boundaryReject = true
			class("boundary-reject-" + kind)
			if reimported {
				class("boundary-reject-after-reimport")
			}
			if act.Cmp(c16Two63) >= 0 {
				class("boundary-reject-lock>=2^63")
			}
		}
		return true
	}

	// boundary amount for a withdrawal: how much to take away so that `leave` relates to the largest active lock
	boundaryAmt := func(mode string, p *big.Int, a int) *big.Int {
		l := m.maxLock(a, true)
		if l == nil {
			l = new(big.Int)
		}
		x := c16Sub(p, l) // leaves exactly the lock
		switch mode {
		case "below":
			x.Add(x, c16One)
		case "above":
			x.Sub(x, c16One)
		}
		return x
	}

	for i, op := range c.Ops {
		a := c16Mod(op.A, nacc)
		u := ch.Users[a]
		where := fmt.Sprintf("op %d %s(acct %d, mode %s)", i, op.K, a, op.Mode)
		v.Count("ops", 1)
		switch op.K {
		case "stake":
			di := c16Mod(op.D, 2)
			if !m.isAllowed(c16Denoms[di]) && m.isAllowed(c16Denoms[1-di]) && c16Mod(i, 4) != 0 {
				di = 1 - di // late binding: mostly stake a denom that is currently allowed
			}
			d1 := c16Denoms[di]
			amts := map[string]*big.Int{d1: c16Parse(op.Amt)}
			if d1 == "uband" && amts[d1].Cmp(m.bal[a][d1]) > 0 {
				amts[d1] = new(big.Int).Rsh(m.bal[a][d1], 3)
			}
			switch op.Mode {
			case "balplus1":
				amts[d1] = c16Add(m.bal[a][d1], c16One)
			case "zero":
				amts[d1] = new(big.Int)
			}
			if op.D2 == 1 {
				y := c16Parse(op.Amt2)
				if d2 := c16Denoms[1-di]; d2 != "uband" || y.Cmp(m.bal[a][d2]) <= 0 {
					amts[d2] = y
				}
			}
			out, alive := runTx(u, restaketypes.NewMsgStake(u.Addr, c16Coins(amts)))
			if !alive {
				return v
			}
			if out.ok {
				for d, x := range amts {
					if !m.isAllowed(d) {
						v.Count("stake_ok_in_unallowed_denom", 1) // not covered by the statement
					}
					m.bal[a][d].Sub(m.bal[a][d], x)
					m.stake[a][d].Add(m.stake[a][d], x)
				}
				if len(amts) == 2 {
					class("stake-two-denoms")
				}
			} else if strings.Contains(out.log, restaketypes.ErrNotAllowedDenom.Error()) {
				class("stake-unallowed-denom-rejected")
			}
			if !finish(where, out.ok) {
				return v
			}

		case "unstake", "undelegate", "redelegate":
			// Late binding of the source (denom / validator, and for unstake<->undelegate even the kind): prefer a
			// source that can carry the requested amount, so that boundary amounts are really executed.
			p := m.power(a)
			boundary := op.Mode == "below" || op.Mode == "tolock" || op.Mode == "above"
			need := big.NewInt(1)
			if boundary {
				need = boundaryAmt(op.Mode, p, a)
			}
			type source struct {
				kind  string
				denom string
				val   int
				have  *big.Int
				power bool // carries power
			}
			var stakeSrc, delSrc []source
			for s := 0; s < 2; s++ {
				d := c16Denoms[c16Mod(op.D+s, 2)]
				stakeSrc = append(stakeSrc, source{kind: "unstake", denom: d, have: m.stake[a][d], power: m.isAllowed(d)})
			}
			for s := 0; s < nval; s++ {
				j := c16Mod(op.V+s, nval)
				delSrc = append(delSrc, source{kind: op.K, val: j, have: m.del[a][j], power: true})
			}
			var srcs []source
			switch op.K {
			case "unstake":
				srcs = stakeSrc
				for _, s := range delSrc {
					s.kind = "undelegate"
					srcs = append(srcs, s)
				}
			case "undelegate":
				srcs = append(delSrc, stakeSrc...)
			default:
				srcs = delSrc
			}
			src := srcs[0]
			if op.Mode != "zero" && op.Mode != "allplus1" {
				chosen := -1
				for k, s := range srcs {
					if s.have.Sign() > 0 && s.have.Cmp(need) >= 0 && (s.power || !boundary) {
						chosen = k
						break
					}
				}
				if chosen < 0 {
					for k, s := range srcs {
						if s.have.Sign() > 0 {
							chosen = k
							break
						}
					}
				}
				if chosen >= 0 {
					src = srcs[chosen]
				}
			}
			if src.kind != op.K {
				v.Count("withdraw_kind_rebound", 1)
			}
			have := src.have
			var x *big.Int
			switch op.Mode {
			case "below", "tolock", "above":
				x = new(big.Int).Set(need)
				if !src.power || x.Sign() <= 0 || x.Cmp(have) > 0 {
					v.Count("inapplicable_boundary", 1)
					switch {
					case x.Sign() <= 0:
						x = big.NewInt(1) // power is already at/below the lock: any withdrawal must be refused
					case have.Sign() > 0:
						x = new(big.Int).Set(have)
					}
				}
			case "all":
				x = new(big.Int).Set(have)
			case "allplus1":
				x = c16Add(have, c16One)
			case "one":
				x = big.NewInt(1)
			case "zero":
				x = new(big.Int)
			default:
				x = c16Parse(op.Amt)
				if x.Cmp(have) > 0 && have.Sign() > 0 && c16Mod(i, 5) != 0 {
					x = new(big.Int).Rsh(have, 1) // mostly keep raw amounts executable
					if x.Sign() == 0 {
						x = big.NewInt(1)
					}
				}
			}
			full := have.Sign() > 0 && x.Cmp(have) == 0
			where = fmt.Sprintf("op %d %s->%s(acct %d, mode %s, amount %s, total power %s)", i, op.K, src.kind, a, op.Mode, x, p)

			switch src.kind {
			case "unstake":
				amts := map[string]*big.Int{}
				if op.D2 == 1 {
					// a second coin of the other denom; the primary amount is reduced so that the boundary still holds
					d2 := c16Denoms[0]
					if d2 == src.denom {
						d2 = c16Denoms[1]
					}
					y := c16Parse(op.Amt2)
					if y.Cmp(m.stake[a][d2]) > 0 {
						y = new(big.Int).Set(m.stake[a][d2])
					}
					if y.Sign() > 0 {
						if boundary && m.isAllowed(d2) && src.power {
							if rest := c16Sub(x, y); rest.Sign() > 0 {
								amts[d2], x = y, rest
							}
						} else {
							amts[d2] = y
						}
					}
				}
				amts[src.denom] = x
				taken := new(big.Int)
				for _, d := range c16Denoms {
					if y, ok := amts[d]; ok && m.isAllowed(d) {
						taken.Add(taken, y)
					}
				}
				leave := c16Sub(p, taken)
				out, alive := runTx(u, restaketypes.NewMsgUnstake(u.Addr, c16Coins(amts)))
				if !alive {
					return v
				}
				if out.ok {
					for _, d := range c16Denoms {
						y, ok := amts[d]
						if !ok {
							continue
						}
						if y.Cmp(m.stake[a][d]) > 0 {
							v.Failf("C16/model-sync", "%s took %s%s out of a stake of %s", where, y, d, m.stake[a][d])
							return v
						}
						m.stake[a][d].Sub(m.stake[a][d], y)
						m.bal[a][d].Add(m.bal[a][d], y)
					}
					if len(amts) == 2 {
						class("unstake-two-denoms")
					}
					if !src.power {
						class("unstake-unallowed-denom")
					}
					if leave.Cmp(c16Two63) >= 0 {
						class("unstake-leaves>=2^63")
					}
				}
				if !judgeWithdraw("unstake", where, a, out, leave, leave, false) {
					return v
				}
				if !finish(where, out.ok) {
					return v
				}

			case "undelegate":
				j := src.val
				minPower := c16Sub(p, x)
				// status of the validator in the committed state = its status while the tx runs (the validator set
				// changes in end blockers only)
				st := stakingtypes.Bonded
				if j < len(cur.status) {
					st = cur.status[j]
				}
				where = fmt.Sprintf("%s from validator %d (%s)", where, j, st)
				out, alive := runTx(u, stakingtypes.NewMsgUndelegate(u.Addr.String(), ch.Vals[j].Val.String(), c16Coin("uband", x)))
				if !alive {
					return v
				}
				if full && st != stakingtypes.Bonded {
					v.Count("whole_delegation_removal_from_nonbonded_attempted", 1)
				}
				if out.ok {
					if x.Cmp(have) > 0 {
						v.Failf(syncSig, "%s: undelegated %s out of %s", where, x, have)
						return v
					}
					m.del[a][j].Sub(m.del[a][j], x)
					// (an undelegation always waits the full unbonding time, whatever the validator's status: the balance
					// does not move during a history)
					if full {
						class("full-undelegation-ok")
						if st != stakingtypes.Bonded {
							class("whole-delegation-removed-from-nonbonded-validator")
							if l := m.maxLock(a, true); l != nil && l.Sign() > 0 && minPower.Cmp(l) == 0 {
								class("whole-delegation-removed-from-nonbonded-validator-leaving-exactly-the-lock")
							}
						}
					}
				} else if l := m.maxLock(a, true); full && out.lockRej && l != nil && minPower.Cmp(l) < 0 {
					if st != stakingtypes.Bonded {
						class("whole-delegation-removal-from-nonbonded-validator-rejected-below-lock")
						if c16Add(minPower, c16One).Cmp(l) == 0 {
							class("whole-delegation-removal-from-nonbonded-validator-rejected-at-lock-1")
						}
					} else if c16Add(minPower, c16One).Cmp(l) == 0 {
						class("whole-delegation-removal-from-bonded-validator-rejected-at-lock-1")
					}
				}
				if !judgeWithdraw("undelegate", where, a, out, minPower, minPower, full) {
					return v
				}
				if !finish(where, out.ok) {
					return v
				}

			default: // redelegate
				j, w := src.val, c16Mod(op.W, nval)
				minPower := c16Sub(p, x)
				out, alive := runTx(u, stakingtypes.NewMsgBeginRedelegate(u.Addr.String(), ch.Vals[j].Val.String(), ch.Vals[w].Val.String(), c16Coin("uband", x)))
				if !alive {
					return v
				}
				if out.ok {
					if x.Cmp(have) > 0 || w == j {
						v.Failf(syncSig, "%s: redelegated %s out of %s (src %d dst %d)", where, x, have, j, w)
						return v
					}
					m.del[a][j].Sub(m.del[a][j], x)
					m.del[a][w].Add(m.del[a][w], x)
					class("redelegate-ok")
					if full {
						class("full-redelegation-ok")
						if j < len(cur.status) && cur.status[j] != stakingtypes.Bonded {
							class("whole-delegation-redelegated-from-nonbonded-validator")
						}
					}
				}
				// a redelegation between bonded validators leaves the total power unchanged
				if !judgeWithdraw("redelegate", where, a, out, p, minPower, full) {
					return v
				}
				if !finish(where, out.ok) {
					return v
				}
			}

		case "delegate":
			j := c16Mod(op.V, nval)
			x := c16Parse(op.Amt)
			switch op.Mode {
			case "one":
				x = big.NewInt(1)
			case "zero":
				x = new(big.Int)
			case "balplus1":
				x = c16Add(m.bal[a]["uband"], c16One)
			case "reach", "reachminus1":
				// only meaningful when a denom change has pushed the power below the lock
				if l := m.maxLock(a, true); l != nil && m.power(a).Cmp(l) < 0 {
					x = c16Sub(l, m.power(a))
					if op.Mode == "reachminus1" {
						x.Sub(x, c16One)
					}
				} else {
					v.Count("inapplicable_boundary", 1)
				}
			}
			if x.Cmp(m.bal[a]["uband"]) > 0 && op.Mode == "raw" {
				x = new(big.Int).Rsh(m.bal[a]["uband"], 2)
			}
			out, alive := runTx(u, stakingtypes.NewMsgDelegate(u.Addr.String(), ch.Vals[j].Val.String(), c16Coin("uband", x)))
			if !alive {
				return v
			}
			if out.ok {
				m.bal[a]["uband"].Sub(m.bal[a]["uband"], x)
				m.del[a][j].Add(m.del[a][j], x)
				if l := m.maxLock(a, true); l != nil && m.power(a).Cmp(l) < 0 {
					v.Count("delegate_ok_while_below_lock", 1)
				}
			} else if out.lockRej {
				class("delegate-rejected-still-below-lock")
			}
			if !finish(where, out.ok) {
				return v
			}

		case "setlock":
			key := c16Vaults[c16Mod(op.Vault, len(c16Vaults))]
			p := m.power(a)
			var x *big.Int
			switch op.Mode {
			case "total":
				x = new(big.Int).Set(p)
			case "totalplus1":
				x = c16Add(p, c16One)
			case "totalminus1":
				x = c16Sub(p, c16One)
			case "half":
				x = new(big.Int).Rsh(p, 1)
			case "zero":
				x = new(big.Int)
			case "u63":
				x = new(big.Int).Set(c16Two63)
			case "maxu64":
				x = new(big.Int).Set(c16MaxU64)
			case "over64":
				x = new(big.Int).Set(c16Two64)
			case "exdel", "exdelplus1", "exdelminus1":
				// total power without the whole delegation to validator V (+-1)
				x = c16Sub(p, m.del[a][c16Mod(op.V, nval)])
				if op.Mode == "exdelplus1" {
					x.Add(x, c16One)
				} else if op.Mode == "exdelminus1" {
					x.Sub(x, c16One)
				}
			case "old", "oldminus1", "oldplus1", "mid":
				// relative to this vault's existing lock (falls back to the total power when there is none)
				x = new(big.Int).Set(p)
				if l, had := m.locks[a][key]; had {
					switch op.Mode {
					case "old":
						x = new(big.Int).Set(l)
					case "oldminus1":
						x = c16Sub(l, c16One)
					case "oldplus1":
						x = c16Add(l, c16One)
					default: // half way between the current total power and the old lock (rounded up)
						x = new(big.Int).Rsh(c16Add(c16Add(p, l), c16One), 1)
					}
				}
			case "same":
				x = new(big.Int).Set(p)
				for _, other := range c16Vaults {
					if l, ok := m.locks[a][other]; ok && other != key {
						x = new(big.Int).Set(l)
						break
					}
				}
			default:
				x = c16Parse(op.Amt)
			}
			x = c16Clamp0(x)
			wasActive := !m.vaultExists[key] || m.vaultActive[key]
			var ok bool
			if key == "feeds" && op.Tx && x.Cmp(c16MaxI64) <= 0 {
				// the way the feeds module locks: MsgVote -> LockVoterPower -> SetLockedPower(sum of signal powers).
				// One signal per voter and a private signal id: no int64 sum is involved.
				var sig []feedstypes.Signal
				if x.Sign() > 0 {
					sig = []feedstypes.Signal{feedstypes.NewSignal(fmt.Sprintf("S%d", a), x.Int64())}
				}
				out, alive := runTx(u, feedstypes.NewMsgVote(u.Addr.String(), sig))
				if !alive {
					return v
				}
				ok = out.ok
				class("feeds-lock-through-vote")
			} else {
				// the entry point other modules use, with the atomicity every message handler runs under
				cctx, write := ch.WriteCtx().CacheContext()
				err := ch.App.RestakeKeeper.SetLockedPower(cctx, u.Addr, key, sdkmath.NewIntFromBigInt(x))
				if err == nil {
					write()
				}
				ok = err == nil
			}
			where = fmt.Sprintf("%s vault %q power %s (total power %s)", where, key, x, p)
			if old, had := m.locks[a][key]; had {
				where = fmt.Sprintf("%s, old lock %s", where, old)
				if p.Cmp(old) < 0 && wasActive {
					// region: the total power is below the lock this vault already holds
					class("setlock-while-power-below-old-lock")
					v.Count("setlock_while_power_below_old_lock", 1)
					switch {
					case x.Cmp(p) > 0 && x.Cmp(old) <= 0:
						class("setlock-in-(power,oldlock]")
						v.Count("setlock_in_(power,oldlock]", 1)
						if x.Cmp(old) == 0 {
							class("setlock-equals-oldlock-above-power")
						}
						if x.Cmp(c16Add(p, c16One)) == 0 {
							class("setlock-power+1-within-oldlock")
						}
						if !ok {
							v.Count("setlock_in_(power,oldlock]_rejected", 1)
						}
					case x.Cmp(old) > 0:
						class("setlock-above-oldlock-while-below")
					case ok:
						class("setlock-lowered-to-within-power-while-below")
					}
				}
			}
			if ok {
				if x.Cmp(p) > 0 {
					v.Failf("C16/lock-above-power", "%s succeeded above the current total power", where)
					return v
				}
				if !wasActive {
					v.Failf("C16/lock-inactive-vault", "%s succeeded in a deactivated vault", where)
					return v
				}
				if old, had := m.locks[a][key]; had && x.Cmp(old) < 0 {
					class("lock-lowered")
				}
				m.vaultExists[key], m.vaultActive[key] = true, true
				m.locks[a][key] = x
				if x.Cmp(p) == 0 && x.Sign() > 0 {
					class("lock-equals-total-power")
				}
			} else {
				switch {
				case x.Cmp(p) > 0:
					class("lock-rejected-above-power")
					if reimported {
						class("lock-rejected-above-power-after-reimport")
					}
				case !wasActive:
					class("lock-rejected-inactive-vault")
					if reimported {
						class("lock-rejected-inactive-vault-after-reimport")
					}
				case x.Cmp(c16MaxU64) > 0:
					class("lock-rejected-not-uint64")
					v.Count("converse_setlock_rejected", 1)
				default:
					v.Count("converse_setlock_rejected", 1)
					v.Count("converse_setlock_rejected_unexplained", 1)
				}
			}
			if !finish(where, ok) {
				return v
			}

		case "deactivate":
			key := c16Vaults[c16Mod(op.Vault, len(c16Vaults))]
			where = fmt.Sprintf("op %d deactivate %q", i, key)
			cctx, write := ch.WriteCtx().CacheContext()
			err := ch.App.RestakeKeeper.DeactivateVault(cctx, key)
			if err == nil {
				write()
				if !m.vaultExists[key] || !m.vaultActive[key] {
					v.Count("deactivate_ok_on_inactive_or_missing", 1)
				}
				if m.vaultExists[key] {
					m.vaultActive[key] = false
					everDeactivated[key] = true
					class("vault-deactivated")
				}
			} else {
				v.Count("deactivate_rejected", 1)
			}
			if !finish(where, err == nil) {
				return v
			}

		case "mkvault":
			key := c16Vaults[c16Mod(op.Vault, len(c16Vaults))]
			where = fmt.Sprintf("op %d mkvault %q", i, key)
			cctx, write := ch.WriteCtx().CacheContext()
			vault, err := ch.App.RestakeKeeper.GetOrCreateVault(cctx, key)
			if err == nil {
				write()
				if everDeactivated[key] && vault.IsActive {
					v.Failf("C16/reactivated", "%s returned an active vault after its deactivation", where)
					return v
				}
				if !m.vaultExists[key] {
					m.vaultExists[key], m.vaultActive[key] = true, true
				}
			}
			if !finish(where, err == nil) {
				return v
			}

		case "params":
			set := c16AllowedSets[c16Mod(op.Set, len(c16AllowedSets))]
			where = fmt.Sprintf("op %d params %v", i, set)
			passed, gres, err := ch.GovExec(restaketypes.NewMsgUpdateParams(sim.GovAuthority(), restaketypes.NewParams(append([]string{}, set...))))
			if err != nil && len(gres) == 1 && strings.Contains(err.Error(), "submit proposal failed") {
				// the proposal itself was refused (a list naming a denom twice): nothing changes
				v.Count("params_proposal_refused", 1)
				passed, err = false, nil
			}
			if err != nil {
				v.Failf("C16/finalize", "%s: governance run failed: %v", where, err)
				return v
			}
			if passed {
				if strings.Join(set, ",") != strings.Join(m.allowed, ",") {
					class("allowed-denoms-changed")
				}
				m.allowed = append([]string{}, set...)
			} else {
				v.Count("params_proposal_not_passed", 1)
			}
			if !finish(where, passed) {
				return v
			}

		case "extsend":
			// Somebody outside the module tries to credit the restake module account. Whether the attempt is refused
			// is only counted; what the statement says is checked by the state check after it: the module account
			// holds exactly the sum of all recorded stakes.
			modAddr := authtypes.NewModuleAddress(restaketypes.ModuleName)
			d := c16Denoms[c16Mod(op.D, 2)]
			x := c16Parse(op.Amt)
			switch op.Amt2 {
			case "one":
				x = big.NewInt(1)
			case "all":
				x = new(big.Int).Set(m.bal[a][d])
			default:
				if x.Cmp(m.bal[a][d]) > 0 {
					x = new(big.Int).Rsh(m.bal[a][d], 3)
				}
			}
			if x.Sign() <= 0 {
				x = big.NewInt(1)
			}
			where = fmt.Sprintf("op %d extsend(acct %d, %s, %s%s -> restake module account)", i, a, op.Mode, x, d)
			coins := sdk.NewCoins(c16Coin(d, x))
			switch op.Mode {
			case "multisend":
				// one input, two outputs: the module account and another user
				b := c16Mod(a+1, nacc)
				toMod := new(big.Int).Rsh(c16Add(x, c16One), 1)
				rest := c16Sub(x, toMod)
				outs := []banktypes.Output{banktypes.NewOutput(modAddr, sdk.NewCoins(c16Coin(d, toMod)))}
				if rest.Sign() > 0 {
					outs = append(outs, banktypes.NewOutput(ch.Users[b].Addr, sdk.NewCoins(c16Coin(d, rest))))
				}
				out, alive := runTx(u, banktypes.NewMsgMultiSend(banktypes.NewInput(u.Addr, coins), outs))
				if !alive {
					return v
				}
				if out.ok {
					class("bank-multisend-to-module-account-accepted")
					class("bank-send-to-module-account-accepted")
					m.bal[a][d].Sub(m.bal[a][d], x)
					if rest.Sign() > 0 {
						m.bal[b][d].Add(m.bal[b][d], rest)
					}
				} else if x.Cmp(m.bal[a][d]) <= 0 {
					class("bank-multisend-to-module-account-refused")
					class("bank-send-to-module-account-refused")
				}
				if !finish(where, out.ok) {
					return v
				}
			case "withdrawaddr":
				// no rewards exist in this world (no inflation, no fees): only the attempt to redirect them is made
				out, alive := runTx(u, distrtypes.NewMsgSetWithdrawAddress(u.Addr, modAddr))
				if !alive {
					return v
				}
				if out.ok {
					class("withdraw-address-to-module-account-accepted")
				} else {
					class("withdraw-address-to-module-account-refused")
				}
				if !finish(where, true) {
					return v
				}
			case "poolspend":
				// the user funds the community pool, governance spends that amount to the restake module account
				if d != "uband" && x.BitLen() > 62 {
					x = new(big.Int).Rsh(x, 8)
					coins = sdk.NewCoins(c16Coin(d, x))
				}
				out, alive := runTx(u, distrtypes.NewMsgFundCommunityPool(coins, u.Addr.String()))
				if !alive {
					return v
				}
				if out.ok {
					m.bal[a][d].Sub(m.bal[a][d], x)
				}
				if !finish(where+" [fund community pool]", out.ok) {
					return v
				}
				if out.ok {
					passed, _, err := ch.GovExec(&distrtypes.MsgCommunityPoolSpend{Authority: sim.GovAuthority(), Recipient: modAddr.String(), Amount: coins})
					if err != nil {
						v.Failf("C16/finalize", "%s: governance run failed: %v", where, err)
						return v
					}
					if passed {
						class("community-pool-spend-to-module-account-accepted")
					} else {
						class("community-pool-spend-to-module-account-refused")
					}
					if !finish(where+" [community pool spend]", true) {
						return v
					}
				}
			default:
				out, alive := runTx(u, banktypes.NewMsgSend(u.Addr, modAddr, coins))
				if !alive {
					return v
				}
				if out.ok {
					class("bank-send-to-module-account-accepted")
					m.bal[a][d].Sub(m.bal[a][d], x)
				} else if x.Cmp(m.bal[a][d]) <= 0 {
					class("bank-send-to-module-account-refused")
					if !m.isAllowed(d) {
						class("bank-send-to-module-account-refused-unallowed-denom")
					}
					if x.Cmp(m.bal[a][d]) == 0 {
						class("bank-send-whole-balance-to-module-account-refused")
					}
				}
				if !finish(where, out.ok) {
					return v
				}
			}
			v.Count("external_sends_to_module_account", 1)

		case "reimport":
			// The state is exported with the application's own genesis export, a NEW application instance is
			// initialised from the exported document and continues the chain with one empty block. x/restake exports
			// params, vaults, locks and stakes (the by-power index is rebuilt by InitGenesis), staking/bank/auth export
			// completely, so the whole model must still be an exact image of the chain and every state invariant holds.
			where = fmt.Sprintf("op %d reimport", i)
			activeLock, deactLock, below := false, false, false
			for b := 0; b < nacc; b++ {
				if l := m.maxLock(b, true); l != nil {
					activeLock = activeLock || l.Sign() > 0
					below = below || m.power(b).Cmp(l) < 0
				}
				if l := m.maxLock(b, false); l != nil {
					deactLock = true
				}
			}
			if _, err := ch.Reimport(time.Second); err != nil {
				v.Failf("C16/genesis-reimport-failed", "%s: %v", where, err)
				return v
			}
			reimported = true
			v.Count("genesis_reimports", 1)
			class("genesis-reimport")
			if activeLock {
				class("genesis-reimport-with-active-lock")
				v.Count("genesis_reimports_with_active_lock", 1)
			}
			if deactLock {
				class("genesis-reimport-with-lock-in-deactivated-vault")
			}
			if below {
				class("genesis-reimport-while-power-below-lock")
			}
			syncSig = "C16/reimport-mismatch"
			alive := finish(where, true)
			syncSig = "C16/model-sync"
			if !alive {
				return v
			}

		default:
			v.Count("unknown_op", 1)
		}
	}

	keys := make([]string, 0, len(classes))
	for k := range classes {
		keys = append(keys, k)
	}
	sort.Strings(keys)
	for _, k := range keys {
		v.Class(k)
	}
	if twoLocksDiff {
		v.Class("two-active-locks-differ")
	}
	if boundaryReject {
		v.Class("boundary-reject")
	}
	v.NonTrivial = twoLocksDiff && boundaryReject
	if v.NonTrivial {
		v.Class("nontrivial")
	}
	return v
}

func TestC16(t *testing.T) { pbt.Check(t, "C16", genC16, runC16) }
